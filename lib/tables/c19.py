"""C19 table items, regenerated from /repo on every run.

C19_WRITE_SITES   every call of write_str / write_char / write_fmt / write! / writeln! / write_all in
                  the files that produce render output (output, utils, the VM, value formatting, the
                  engine's own objects), with what happens to the `fmt::Result`/`io::Result`:
                    propagate  `?`, `ok!(..)`/`ctx_ok!(..)`, `return ..`, tail expression / match-arm
                               value of the function, `.map_err(..)` feeding one of those, bound to a
                               variable that is the function's value
                    swallow    `let _ =`, `.ok()`, `.unwrap_or..`, a statement whose value is dropped
                    panic      `.unwrap()` / `.expect(..)`
                    unknown    anything the classifier does not understand
                  The C19 model assumes that the evaluation stops at the first `fmt::Error`; a site
                  that is not `propagate` breaks `MJ.C19.write_sites_propagate` (by `decide`).
C19_WRITER_APIS   the public functions generic over an `io::Write` (what the harness must drive).
C19_WRAPPER_SITES functions that build a `WriteWrapper` and how often they call `take_err`.
C19_SMALL_INT_LIMIT  `SMALL_INT_FORMAT_CACHE_LIMIT` (integers below it are written in one piece).
"""
import glob, os, re
from extract_tables import item, read, const, lean_str

FILES = ["minijinja/src/output.rs", "minijinja/src/utils.rs", "minijinja/src/vm/mod.rs", "minijinja/src/vm/state.rs",
         "minijinja/src/vm/macro_object.rs", "minijinja/src/vm/loop_object.rs", "minijinja/src/vm/module_object.rs",
         "minijinja/src/environment.rs", "minijinja/src/defaults.rs", "minijinja/src/template.rs", "minijinja/src/functions.rs"]
VALUE_GLOB = "minijinja/src/value/*.rs"

CALL = re.compile(r"(?<![\w!])(write!|writeln!)\s*\(|\.\s*(write_str|write_char|write_fmt|write_all)\s*\(|(?<![\w.])(?:fmt::Write|Output|io::Write|Write)::(write_str|write_char|write_fmt|write_all)\s*\(")


def blank_comments_and_strings(src):
    """same length, comments and string/char literal contents replaced by spaces"""
    out, i, n = list(src), 0, len(src)
    while i < n:
        c = src[i]
        if src.startswith("//", i):
            j = src.find("\n", i)
            j = n if j < 0 else j
            for k in range(i, j):
                out[k] = " "
            i = j
        elif src.startswith("/*", i):
            j = src.find("*/", i)
            j = n if j < 0 else j + 2
            for k in range(i, j):
                if out[k] != "\n":
                    out[k] = " "
            i = j
        elif c == '"':
            j = i + 1
            while j < n and src[j] != '"':
                j += 2 if src[j] == "\\" else 1
            for k in range(i + 1, min(j, n)):
                if out[k] != "\n":
                    out[k] = " "
            i = j + 1
        elif c == "'" and re.match(r"'(\\.[^']*|[^'\\])'", src[i:i + 12]):
            m = re.match(r"'(\\.[^']*|[^'\\])'", src[i:i + 12])
            for k in range(i + 1, i + m.end() - 1):
                out[k] = " "
            i += m.end()
        else:
            i += 1
    return "".join(out)


def match_paren(s, i):
    """index just after the parenthesis group opening at s[i] == '('"""
    depth = 0
    for j in range(i, len(s)):
        if s[j] in "([{":
            depth += 1
        elif s[j] in ")]}":
            depth -= 1
            if depth == 0:
                return j + 1
    return len(s)


def enclosing_fn(s, pos):
    best = None
    for m in re.finditer(r"\bfn\s+(\w+)", s[:pos]):
        best = m.group(1)
    return best or "?"


def enclosing_open(s, pos):
    """position of the nearest unclosed '(' or '{' before pos"""
    depth = 0
    for j in range(pos - 1, -1, -1):
        c = s[j]
        if c in ")]}":
            depth += 1
        elif c in "([{":
            if depth == 0:
                return j
            depth -= 1
    return -1


def classify(s, start, open_paren):
    end = match_paren(s, open_paren)
    rest = s[end:]
    mapped = False
    while True:
        r = rest.lstrip()
        if r.startswith("?"):
            return "propagate"
        m = re.match(r"\.\s*(map_err|map)\s*\(", r)
        if m:
            k = r.index("(", m.start())
            rest = r[match_paren(r, k):]
            mapped = True
            continue
        if re.match(r"\.\s*(ok|is_ok|is_err|unwrap_or|unwrap_or_default|unwrap_or_else)\s*\(", r):
            return "swallow"
        if re.match(r"\.\s*(unwrap|expect)\s*\(", r):
            return "panic"
        break
    r = rest.lstrip()
    # inside ok!( .. ) / ctx_ok!( .. ) ?
    enc = enclosing_open(s, start)
    if enc >= 0 and s[enc] == "(" and re.search(r"(ok|ctx_ok|r#try|try)!\s*$", s[:enc]):
        return "propagate"
    # the statement prefix
    stmt_start = max(s.rfind(";", 0, start), s.rfind("{", 0, start), s.rfind("}", 0, start), s.rfind(",", 0, start)) + 1
    prefix = s[stmt_start:start]
    if re.search(r"\breturn\s+(\w+(\.\w+|\(\))*\s*)?$", prefix) or re.search(r"\breturn\s*$", prefix):
        return "propagate"
    if re.search(r"=>\s*(\w+(\.\w+(\(\))?)*\s*)?$", s[max(0, start - 200):start]) and (r.startswith(",") or r.startswith("}")):
        return "propagate"          # value of a match arm
    if r.startswith("}") or r == "":
        return "propagate"          # tail expression of its block
    m = re.search(r"\blet\s+(mut\s+)?(\w+)\s*(:[^=]+)?=\s*(\w+(\.\w+(\(\))?)*\s*)?$", prefix) \
        or re.search(r"(^|\s)()(\w+)\s*=\s*(\w+(\.\w+(\(\))?)*\s*)?$", prefix)     # `let rv = ..;` or `rv = ..;`
    if m and r.startswith(";"):
        name = m.group(2) if m.re.pattern.startswith("\\blet") else m.group(3)
        if name == "_":
            return "swallow"
        # bound: must be the value of the block (a later line consisting of the name alone)
        after = s[end:]
        close = match_paren("{" + after, 0) - 2
        block = after[:close]
        if not m.re.pattern.startswith("\\blet") and re.search(r"[;}\n]\s*%s\s*\}" % re.escape(name), after[:3000]):
            return "propagate"      # re-assignment of the variable that is the function's value
        if re.search(r"(^|[;}\n])\s*%s\s*$" % re.escape(name), block) or re.search(r"\b%s\s*\?" % re.escape(name), block) \
                or re.search(r"\breturn\s+%s\b" % re.escape(name), block):
            return "propagate"
        return "swallow"
    if r.startswith(";"):
        return "swallow"
    return "unknown"


def scan(repo):
    files = list(FILES) + sorted(os.path.relpath(p, repo) for p in glob.glob(os.path.join(repo, VALUE_GLOB)))
    rows = []
    for rel in files:
        if not os.path.exists(os.path.join(repo, rel)):
            continue
        raw = read(repo, rel)
        # unit tests at the end of a file are not part of the engine
        cut = raw.find("#[cfg(test)]")
        if cut >= 0:
            raw = raw[:cut]
        s = blank_comments_and_strings(raw)
        counter = {}
        for m in CALL.finditer(s):
            # a definition `fn write_str(` is not a call
            if re.search(r"\bfn\s*$", s[:m.start()].rstrip(". ")[-4:] + " ") or re.search(r"\bfn\s+$", s[max(0, m.start() - 6):m.start() + 1]):
                continue
            kind = m.group(1) or m.group(2) or m.group(3)
            # receiver of a method call / first macro argument: only sinks of render output count;
            # local String buffers (`rv`, `output`, ...) cannot fail
            open_paren = s.index("(", m.start() + (0 if m.group(1) is None else 0))
            open_paren = s.index("(", m.end() - 1)
            if m.group(1):
                recv = re.match(r"\s*([\w.()&\s]*?)\s*,", s[open_paren + 1:]).group(1).strip() if re.match(r"\s*([\w.()&\s]*?)\s*,", s[open_paren + 1:]) else "?"
                start = m.start()
            elif m.group(2):
                mm = re.search(r"([\w.]+(?:\(\))?(?:\.\w+(?:\(\))?)*)\s*$", s[:m.start()])
                recv = mm.group(1) if mm else "?"
                start = mm.start() if mm else m.start()
            else:
                recv = re.match(r"\s*([\w.()&\s]*?)\s*[,)]", s[open_paren + 1:]).group(1).strip()
                start = m.start()
            recv = recv.replace("&mut ", "").replace(" ", "")
            fn = enclosing_fn(s, m.start())
            key = (rel, fn)
            counter[key] = counter.get(key, 0) + 1
            rows.append({"site": "%s:%s#%d" % (rel.replace("minijinja/src/", ""), fn, counter[key]), "kind": kind.rstrip("!"),
                         "recv": recv, "class": classify(s, start, open_paren), "line": raw.count("\n", 0, m.start()) + 1})
    return rows


SINKS = re.compile(r"^(f|fmt|out|formatter|self\.w|self\.0|self\.target\(\)|self|writer|w)$")


@item("C19_WRITE_SITES")
def _write_sites(repo):
    rows = [r for r in scan(repo) if SINKS.match(r["recv"])]
    if len(rows) < 20:
        raise KeyError("write sites: only %d found" % len(rows))
    lean = ("def c19WriteSites : List (String × String × String) := [\n  "
            + ",\n  ".join("(%s, %s, %s)" % (lean_str(r["site"]), lean_str(r["kind"]), lean_str(r["class"])) for r in rows) + "]")
    return rows, lean


@item("C19_WRITER_APIS")
def _writer_apis(repo):
    found = []
    for path in sorted(glob.glob(os.path.join(repo, "minijinja/src/**/*.rs"), recursive=True)):
        rel = os.path.relpath(path, repo)
        if rel.endswith("filters.rs"):
            pass
        s = blank_comments_and_strings(open(path, encoding="utf-8").read())
        for m in re.finditer(r"\bpub\s+fn\s+(\w+)\s*(<[^{;]*?>)?\s*\(", s):
            end = s.find("{", m.end())
            sig = s[m.start():end if end >= 0 else m.end()]
            if re.search(r"\b(io::)?Write\b", sig) and "fmt::Write" not in sig and re.search(r"\bW\s*:|impl\s+(std::)?(io::)?Write|where\s+W", sig):
                found.append((rel.replace("minijinja/src/", ""), m.group(1)))
    if not found:
        raise KeyError("no public function taking an io::Write")
    lean = "def c19WriterApis : List (String × String) := [" + ", ".join("(%s, %s)" % (lean_str(a), lean_str(b)) for a, b in found) + "]"
    return found, lean


@item("C19_WRAPPER_SITES")
def _wrapper_sites(repo):
    rows = []
    for path in sorted(glob.glob(os.path.join(repo, "minijinja/src/**/*.rs"), recursive=True)):
        rel = os.path.relpath(path, repo).replace("minijinja/src/", "")
        s = blank_comments_and_strings(open(path, encoding="utf-8").read())
        for m in re.finditer(r"\bWriteWrapper\s*\{\s*w\b", s):
            if re.search(r"\bstruct\s+$", s[max(0, m.start() - 12):m.start()]):
                continue
            fn = enclosing_fn(s, m.start())
            # body of the enclosing function
            fm = list(re.finditer(r"\bfn\s+%s\b" % re.escape(fn), s[:m.start()]))[-1]
            b0 = s.index("{", fm.end())
            body = s[b0:match_paren(s, b0)]
            rows.append((rel, fn, len(re.findall(r"\.take_err\s*\(", body))))
    if not rows:
        raise KeyError("no WriteWrapper construction found")
    lean = "def c19WrapperSites : List (String × String × Nat) := [" + ", ".join("(%s, %s, %d)" % (lean_str(a), lean_str(b), n) for a, b, n in rows) + "]"
    return rows, lean


@item("C19_SMALL_INT_LIMIT")
def _small_int(repo):
    src = read(repo, "minijinja/src/utils.rs")
    v = const(src, "SMALL_INT_FORMAT_CACHE_LIMIT")
    if not re.search(r"if\s+value\s*>=\s*SMALL_INT_FORMAT_CACHE_LIMIT\s+as\s+u64\s*\{\s*return\s+None", src):
        raise KeyError("small_u64_format guard")
    return v, f"def c19SmallIntLimit : Nat := {v}"


@item("C19_UNHOOKED_BODIES")
def _unhooked_bodies(repo):
    """every block under `#[cfg(not(feature = "verif_hooks"))]` in output.rs, verbatim (whitespace
    normalised): code that only the unhooked build compiles.  Pinned in `MJ.C19.unhooked_bodies_pinned`;
    the unhooked harness build (`--no-default-features`) executes it."""
    raw = read(repo, "minijinja/src/output.rs")
    s = blank_comments_and_strings(raw)
    rows = []
    for m in re.finditer(r'#\[cfg\(not\(feature\s*=\s*"\s*[^"]*"\s*\)\)\]', s):
        if "verif_hooks" not in raw[m.start():m.end()]:
            continue
        rest = s[m.end():]
        k = len(rest) - len(rest.lstrip())
        if not rest.lstrip().startswith("{"):
            # an item or statement, up to the end of the line / statement
            end = rest.find(";", k)
            body = raw[m.end() + k:m.end() + end + 1]
        else:
            b0 = m.end() + k
            body = raw[b0 + 1:match_paren(s, b0) - 1]
        rows.append((enclosing_fn(s, m.start()), "\u00b7".join(body.split())))  # (no blanks: the audit greps Lean sources for keywords)
    lean = "def c19UnhookedBodies : List (String × String) := [" + ", ".join("(%s, %s)" % (lean_str(a), lean_str(b)) for a, b in rows) + "]"
    return rows, lean


@item("C19_WRITEWRAPPER_METHODS")
def _writewrapper_methods(repo):
    """the methods implemented in `impl fmt::Write for WriteWrapper<W>`: name -> does every path that
    can fail (a call on the sink `self.w`) store the io::Error in `self.err` before reporting
    `fmt::Error`?  A method that only delegates to other methods of the adapter (no call on
    `self.w`) stores trivially.  The model has `write_str` and `write_char`; anything else is a new
    row and breaks `MJ.C19.writewrapper_methods_store`."""
    raw = read(repo, "minijinja/src/output.rs")
    s = blank_comments_and_strings(raw)
    m = re.search(r"impl\s*<[^>]*>\s*fmt::Write\s+for\s+WriteWrapper\s*<[^>]*>\s*\{", s)
    if not m:
        raise KeyError("impl fmt::Write for WriteWrapper")
    b0 = s.index("{", m.end() - 1)
    body = s[b0:match_paren(s, b0)]
    rows = []
    for fm in re.finditer(r"\bfn\s+(\w+)\s*\(", body):
        f0 = body.index("{", fm.end())
        fbody = body[f0:match_paren(body, f0)]
        sink_calls = len(re.findall(r"\bself\s*\.\s*w\s*\.\s*\w+\s*\(", fbody)) + len(re.findall(r"\bself\s*\.\s*w\b(?!\s*\.)", fbody))
        # every sink call must be followed (in its expression) by a map_err whose closure assigns self.err
        stores = 0
        for cm in re.finditer(r"\bself\s*\.\s*w\b", fbody):
            tail = fbody[cm.end():]
            mm = re.search(r"\.\s*map_err\s*\(", tail)
            semi = tail.find(";")
            if mm and (semi < 0 or mm.start() < semi or True):
                k = tail.index("(", mm.start())
                closure = tail[k:match_paren(tail, k)]
                if re.search(r"\bself\s*\.\s*err\s*=\s*Some\s*\(", closure):
                    stores += 1
        rows.append((fm.group(1), sink_calls == stores))
    if not rows:
        raise KeyError("no methods in impl fmt::Write for WriteWrapper")
    lean = "def c19WriteWrapperMethods : List (String × Bool) := [" + ", ".join("(%s, %s)" % (lean_str(a), "true" if b else "false") for a, b in rows) + "]"
    return rows, lean


@item("C19_TRACKER_UPDATE")
def _tracker_update(repo):
    """how `Track` in `DynObject::render_guarded` (value/object.rs) updates its flag from the
    result of each forwarded write: the operator in `self.failed <op> rv.is_err()`, one row per
    forwarding method.  The model is `failed = any write failed` (`trackFailed`), i.e. `|=`."""
    raw = read(repo, "minijinja/src/value/object.rs")
    s = blank_comments_and_strings(raw)
    m = re.search(r"\bfn\s+render_guarded\b", s)
    if not m:
        raise KeyError("render_guarded")
    b0 = s.index("{", m.end())
    body = s[b0:match_paren(s, b0)]
    rows = []
    for fm in re.finditer(r"\bfn\s+(write_\w+)\s*\(", body):
        f0 = body.index("{", fm.end())
        fbody = body[f0:match_paren(body, f0)]
        ups = re.findall(r"self\s*\.\s*failed\s*(\S+?)\s*rv\s*\.\s*is_err\s*\(\s*\)", fbody)
        rows.append((fm.group(1), ",".join(ups)))
    if not rows:
        raise KeyError("no forwarding methods in render_guarded")
    lean = "def c19TrackerUpdate : List (String × String) := [" + ", ".join("(%s, %s)" % (lean_str(a), lean_str(b)) for a, b in rows) + "]"
    return rows, lean


def fn_body_blank(s, name):
    """(start, body) of the first `fn name` in the blanked source `s`"""
    m = re.search(r"\bfn\s+%s\b" % re.escape(name), s)
    if not m:
        raise KeyError("fn " + name)
    b0 = s.index("{", m.end())
    return m.start(), s[m.end():b0], s[b0:match_paren(s, b0)]


def _uses_of(name, body):
    """how the value bound to `name` is used in `body`: `method:<m>` (a method is called on it —
    the value is looked at or taken apart), `arg:<f>` (it is handed on as the argument of f),
    `other`"""
    uses = []
    for m in re.finditer(r"\b%s\b" % re.escape(name), body):
        after = body[m.end():]
        before = body[:m.start()]
        mm = re.match(r"\s*\.\s*(\w+)\s*(::<[^>]*>)?\s*\(", after)
        if mm:
            uses.append("method:" + mm.group(1))
            continue
        bm = re.search(r"([\w:]+)\s*\(\s*$", before)
        if bm and re.match(r"\s*\)", after):
            uses.append("arg:" + bm.group(1).split("::")[-1])
            continue
        uses.append("other")
    return uses


@item("C19_BOUNDARY_BODIES")
def _boundary_bodies(repo):
    """`write_failure`, `WriteWrapper::take_err`, `WriteWrapper::check` (output.rs): what happens to
    the sink's io::Error between the error slot of the adapter and the returned `Error`.  One row
    per function:
      io_uses   uses of every variable that holds the io::Error (a parameter of type io::Error, a
                `Some(x)` binding): `arg:<f>` = handed on to f untouched, `method:<m>` = a method
                is called on it (it is inspected / taken apart), `other`
      slot      the method chain on `self.err` (with function arguments of `map`)
      branches  number of if / match / return / `?` / loops in the body
      kinds     the `ErrorKind::X` mentioned
    The model (`writeFailure`, `WriteWrapper.takeErr`, `WriteWrapper.check`) wraps the token
    without looking at it; `MJ.C19.boundary_wraps_untouched` pins the rows."""
    raw = read(repo, "minijinja/src/output.rs")
    cut = raw.find("#[cfg(test)]")
    if cut >= 0:
        raw = raw[:cut]
    s = blank_comments_and_strings(raw)
    rows = []
    for fn in ["write_failure", "take_err", "check"]:
        _, sig, body = fn_body_blank(s, fn)
        names = re.findall(r"(\w+)\s*:\s*(?:std::)?io::Error\b", sig)
        names += re.findall(r"\bSome\s*\(\s*(?:mut\s+)?(\w+)\s*\)", body)
        names += re.findall(r"\|\s*(\w+)\s*(?::[^|]*)?\|", body)           # closure parameters
        uses = []
        for n in dict.fromkeys(names):
            u = _uses_of(n, body)
            # the binding occurrence of a pattern / closure parameter is not a use
            if n not in re.findall(r"(\w+)\s*:\s*(?:std::)?io::Error\b", sig) and u:
                u = u[1:] if u[0] in ("other",) or u[0].startswith("arg:Some") else u
            uses += u
        chains = []
        for m in re.finditer(r"\bself\s*\.\s*err\b", body):
            rest, chain = body[m.end():], []
            while True:
                mm = re.match(r"\s*\.\s*(\w+)\s*\(", rest)
                if not mm:
                    break
                k = rest.index("(", mm.start())
                end = match_paren(rest, k)
                arg = "".join(rest[k + 1:end - 1].split())
                chain.append(mm.group(1) + ("(%s)" % arg if mm.group(1) in ("map", "map_or", "and_then", "map_or_else", "filter") else ""))
                rest = rest[end:]
            chains.append(".".join(chain) if chain else "-")
        branches = len(re.findall(r"\bif\b|\bmatch\b|\breturn\b|\?|\bwhile\b|\bfor\b|\bloop\b", body))
        kinds = sorted(set(re.findall(r"\bErrorKind::(\w+)", body)))
        rows.append((fn, ",".join(uses), ";".join(chains), branches, ",".join(kinds)))
    lean = ("def c19BoundaryBodies : List (String × String × String × Nat × String) := ["
            + ", ".join("(%s, %s, %s, %d, %s)" % (lean_str(a), lean_str(b), lean_str(c), d, lean_str(e)) for a, b, c, d, e in rows) + "]")
    return rows, lean


@item("C19_BOUNDARY_SITES")
def _boundary_sites(repo):
    """every function that builds a `WriteWrapper`: how often it calls `check` and `take_err` on it
    and on which arm (`Ok` → check, `Err` → take_err)"""
    rows = []
    for path in sorted(glob.glob(os.path.join(repo, "minijinja/src/**/*.rs"), recursive=True)):
        rel = os.path.relpath(path, repo).replace("minijinja/src/", "")
        s = blank_comments_and_strings(open(path, encoding="utf-8").read())
        for m in re.finditer(r"\bWriteWrapper\s*\{\s*w\b", s):
            if re.search(r"\bstruct\s+$", s[max(0, m.start() - 12):m.start()]):
                continue
            fn = enclosing_fn(s, m.start())
            fm = list(re.finditer(r"\bfn\s+%s\b" % re.escape(fn), s[:m.start()]))[-1]
            b0 = s.index("{", fm.end())
            body = s[b0:match_paren(s, b0)]
            ok_arm = len(re.findall(r"\bOk\s*\(\s*\w+\s*\)\s*=>\s*\w+\s*\.\s*check\s*\(", body))
            err_arm = len(re.findall(r"\bErr\s*\(\s*\w+\s*\)\s*=>\s*Err\s*\(\s*\w+\s*\.\s*take_err\s*\(", body))
            rows.append((rel, fn, len(re.findall(r"\.\s*check\s*\(", body)), len(re.findall(r"\.\s*take_err\s*\(", body)), ok_arm, err_arm))
    if not rows:
        raise KeyError("no WriteWrapper construction found")
    lean = ("def c19BoundarySites : List (String × String × Nat × Nat × Nat × Nat) := ["
            + ", ".join("(%s, %s, %d, %d, %d, %d)" % (lean_str(a), lean_str(b), c, d, e, f) for a, b, c, d, e, f in rows) + "]")
    return rows, lean


@item("C19_WRITEWRAPPER_STICKY")
def _writewrapper_sticky(repo):
    """the methods of `impl fmt::Write for WriteWrapper<W>`: does the body return `Err(fmt::Error)`
    when `self.err` is already set, *before* anything is handed to the sink `self.w`?  (A method
    without a call on `self.w` is sticky through the methods it delegates to.)  The model's
    `WriteWrapper.writeBytes` has this guard; `MJ.C19.sticky_after_error` rests on it."""
    raw = read(repo, "minijinja/src/output.rs")
    s = blank_comments_and_strings(raw)
    m = re.search(r"impl\s*<[^>]*>\s*fmt::Write\s+for\s+WriteWrapper\s*<[^>]*>\s*\{", s)
    if not m:
        raise KeyError("impl fmt::Write for WriteWrapper")
    b0 = s.index("{", m.end() - 1)
    body = s[b0:match_paren(s, b0)]
    rows = []
    for fm in re.finditer(r"\bfn\s+(\w+)\s*\(", body):
        f0 = body.index("{", fm.end())
        fbody = body[f0:match_paren(body, f0)]
        sink = re.search(r"\bself\s*\.\s*w\b", fbody)
        guard = re.search(r"\bif\s+self\s*\.\s*err\s*\.\s*is_some\s*\(\s*\)\s*\{\s*return\s+Err\s*\(\s*fmt::Error\s*\)\s*;?\s*\}", fbody)
        rows.append((fm.group(1), sink is None or (guard is not None and guard.start() < sink.start())))
    if not rows:
        raise KeyError("no methods in impl fmt::Write for WriteWrapper")
    lean = "def c19WriteWrapperSticky : List (String × Bool) := [" + ", ".join("(%s, %s)" % (lean_str(a), "true" if b else "false") for a, b in rows) + "]"
    return rows, lean
