"""C19 table items, regenerated from /repo on every run.

C19_WRITE_SITES   every call of write_str / write_char / write_fmt / write! / writeln! / write_all in
                  the files that produce render output (output, utils, the VM, value formatting, the
                  engine's own objects), with what happens to the `fmt::Result`/`io::Result`:
                    propagate  `?`, `ok!(..)`/`ctx_ok!(..)`, `return ..`, tail expression / match-arm
                               value of the function, `.map_err(..)` feeding one of those, bound to a
                               variable that is the function's value
                    swallow    `let _ =`, `.ok()`, `.unwrap_or..`, a statement whose value is dropped
                    panic      `.unwrap()` / `.expect(..)`
                    unknown    anything the classifier does not understand
                  The C19 model assumes that the evaluation stops at the first `fmt::Error`; a site
                  that is not `propagate` breaks `MJ.C19.write_sites_propagate` (by `decide`).
C19_WRITER_APIS   the public functions generic over an `io::Write` (what the harness must drive).
C19_WRAPPER_SITES functions that build a `WriteWrapper` and how often they call `take_err`.
C19_SMALL_INT_LIMIT  `SMALL_INT_FORMAT_CACHE_LIMIT` (integers below it are written in one piece).
"""
import glob, os, re
from extract_tables import item, read, const, lean_str

FILES = ["minijinja/src/output.rs", "minijinja/src/utils.rs", "minijinja/src/vm/mod.rs", "minijinja/src/vm/state.rs",
         "minijinja/src/vm/macro_object.rs", "minijinja/src/vm/loop_object.rs", "minijinja/src/vm/module_object.rs",
         "minijinja/src/environment.rs", "minijinja/src/defaults.rs", "minijinja/src/template.rs", "minijinja/src/functions.rs"]
VALUE_GLOB = "minijinja/src/value/*.rs"

CALL = re.compile(r"(?<![\w!])(write!|writeln!)\s*\(|\.\s*(write_str|write_char|write_fmt|write_all)\s*\(|(?<![\w.])(?:fmt::Write|Output|io::Write|Write)::(write_str|write_char|write_fmt|write_all)\s*\(")


def blank_comments_and_strings(src):
    """same length, comments and string/char literal contents replaced by spaces"""
    out, i, n = list(src), 0, len(src)
    while i < n:
        c = src[i]
        if src.startswith("//", i):
            j = src.find("\n", i)
            j = n if j < 0 else j
            for k in range(i, j):
                out[k] = " "
            i = j
        elif src.startswith("/*", i):
            j = src.find("*/", i)
            j = n if j < 0 else j + 2
            for k in range(i, j):
                if out[k] != "\n":
                    out[k] = " "
            i = j
        elif c == '"':
            j = i + 1
            while j < n and src[j] != '"':
                j += 2 if src[j] == "\\" else 1
            for k in range(i + 1, min(j, n)):
                if out[k] != "\n":
                    out[k] = " "
            i = j + 1
        elif c == "'" and re.match(r"'(\\.[^']*|[^'\\])'", src[i:i + 12]):
            m = re.match(r"'(\\.[^']*|[^'\\])'", src[i:i + 12])
            for k in range(i + 1, i + m.end() - 1):
                out[k] = " "
            i += m.end()
        else:
            i += 1
    return "".join(out)


def match_paren(s, i):
    """index just after the parenthesis group opening at s[i] == '('"""
    depth = 0
    for j in range(i, len(s)):
        if s[j] in "([{":
            depth += 1
        elif s[j] in ")]}":
            depth -= 1
            if depth == 0:
                return j + 1
    return len(s)


def enclosing_fn(s, pos):
    best = None
    for m in re.finditer(r"\bfn\s+(\w+)", s[:pos]):
        best = m.group(1)
    return best or "?"


def enclosing_open(s, pos):
    """position of the nearest unclosed '(' or '{' before pos"""
    depth = 0
    for j in range(pos - 1, -1, -1):
        c = s[j]
        if c in ")]}":
            depth += 1
        elif c in "([{":
            if depth == 0:
                return j
            depth -= 1
    return -1


def classify(s, start, open_paren):
    end = match_paren(s, open_paren)
    rest = s[end:]
    mapped = False
    while True:
        r = rest.lstrip()
        if r.startswith("?"):
            return "propagate"
        m = re.match(r"\.\s*(map_err|map|and_then|or_else)\s*\(", r)
        if m:
            k = r.index("(", m.start())
            rest = r[match_paren(r, k):]
            mapped = True
            continue
        if re.match(r"\.\s*(ok|is_ok|is_err|unwrap_or|unwrap_or_default|unwrap_or_else)\s*\(", r):
            return "swallow"
        if re.match(r"\.\s*(unwrap|expect)\s*\(", r):
            return "panic"
        break
    r = rest.lstrip()
    # inside ok!( .. ) / ctx_ok!( .. ) ?
    enc = enclosing_open(s, start)
    if enc >= 0 and s[enc] == "(" and re.search(r"(ok|ctx_ok|r#try|try)!\s*$", s[:enc]):
        return "propagate"
    # the statement prefix
    stmt_start = max(s.rfind(";", 0, start), s.rfind("{", 0, start), s.rfind("}", 0, start), s.rfind(",", 0, start)) + 1
    prefix = s[stmt_start:start]
    if re.search(r"\breturn\s+(\w+(\.\w+|\(\))*\s*)?$", prefix) or re.search(r"\breturn\s*$", prefix):
        return "propagate"
    if re.search(r"=>\s*(\w+(\.\w+(\(\))?)*\s*)?$", s[max(0, start - 200):start]) and (r.startswith(",") or r.startswith("}")):
        return "propagate"          # value of a match arm
    if r.startswith("}") or r == "":
        return "propagate"          # tail expression of its block
    m = re.search(r"\blet\s+(mut\s+)?(\w+)\s*(:[^=]+)?=\s*(\w+(\.\w+(\(\))?)*\s*)?$", prefix) \
        or re.search(r"(^|\s)()(\w+)\s*=\s*(\w+(\.\w+(\(\))?)*\s*)?$", prefix)     # `let rv = ..;` or `rv = ..;`
    if m and r.startswith(";"):
        name = m.group(2) if m.re.pattern.startswith("\\blet") else m.group(3)
        if name == "_":
            return "swallow"
        # bound: must be the value of the block (a later line consisting of the name alone)
        after = s[end:]
        close = match_paren("{" + after, 0) - 2
        block = after[:close]
        if not m.re.pattern.startswith("\\blet") and re.search(r"[;}\n]\s*%s\s*\}" % re.escape(name), after[:3000]):
            return "propagate"      # re-assignment of the variable that is the function's value
        if re.search(r"(^|[;}\n])\s*%s\s*$" % re.escape(name), block) or re.search(r"\b%s\s*\?" % re.escape(name), block) \
                or re.search(r"\breturn\s+%s\b" % re.escape(name), block):
            return "propagate"
        return "swallow"
    if r.startswith(";"):
        return "swallow"
    # scrutinee of a `match`: every arm that takes an `Err(..)` must evaluate to / return an `Err(..)`
    if re.search(r"\bmatch\s*$", prefix) and r.startswith("{"):
        block = r[:match_paren(r, 0)]
        arms = list(re.finditer(r"\bErr\s*\(\s*[\w\s]*\)\s*(if\b[^=]*(==[^=]*)*)?=>", block))
        if not arms:
            return "unknown"
        for am in arms:
            rest = block[am.end():].lstrip()
            if rest.startswith("{"):
                arm = rest[:match_paren(rest, 0)]
                tail = arm[:-1].rstrip()
                ok = bool(re.search(r"\bErr\s*\((?:[^()]|\([^()]*\))*\)\s*$", tail)) or bool(re.search(r"\breturn\s+Err\s*\((?:[^()]|\([^()]*\))*\)\s*;?\s*$", tail))
            else:
                arm = rest[:_arm_end(rest)]
                ok = bool(re.match(r"\s*(return\s+)?Err\s*\(", arm))
            if not ok:
                return "swallow"
        return "propagate"
    return "unknown"


def _arm_end(t):
    """end of a match arm without braces: the `,` at depth 0 (or the closing brace of the match)"""
    depth = 0
    for j, c in enumerate(t):
        if c in "([{":
            depth += 1
        elif c in ")]}":
            if depth == 0:
                return j
            depth -= 1
        elif c == "," and depth == 0:
            return j
    return len(t)


def scan(repo):
    files = list(FILES) + sorted(os.path.relpath(p, repo) for p in glob.glob(os.path.join(repo, VALUE_GLOB)))
    rows = []
    for rel in files:
        if not os.path.exists(os.path.join(repo, rel)):
            continue
        raw = read(repo, rel)
        # unit tests at the end of a file are not part of the engine
        cut = raw.find("#[cfg(test)]")
        if cut >= 0:
            raw = raw[:cut]
        s = blank_comments_and_strings(raw)
        counter = {}
        for m in CALL.finditer(s):
            # a definition `fn write_str(` is not a call
            if re.search(r"\bfn\s*$", s[:m.start()].rstrip(". ")[-4:] + " ") or re.search(r"\bfn\s+$", s[max(0, m.start() - 6):m.start() + 1]):
                continue
            kind = m.group(1) or m.group(2) or m.group(3)
            # receiver of a method call / first macro argument: only sinks of render output count;
            # local String buffers (`rv`, `output`, ...) cannot fail
            open_paren = s.index("(", m.start() + (0 if m.group(1) is None else 0))
            open_paren = s.index("(", m.end() - 1)
            if m.group(1):
                recv = re.match(r"\s*([\w.()&\s]*?)\s*,", s[open_paren + 1:]).group(1).strip() if re.match(r"\s*([\w.()&\s]*?)\s*,", s[open_paren + 1:]) else "?"
                start = m.start()
            elif m.group(2):
                mm = re.search(r"([\w.]+(?:\(\))?(?:\.\w+(?:\(\))?)*)\s*$", s[:m.start()])
                recv = mm.group(1) if mm else "?"
                start = mm.start() if mm else m.start()
            else:
                recv = re.match(r"\s*([\w.()&\s]*?)\s*[,)]", s[open_paren + 1:]).group(1).strip()
                start = m.start()
            recv = recv.replace("&mut ", "").replace(" ", "")
            fn = enclosing_fn(s, m.start())
            key = (rel, fn)
            counter[key] = counter.get(key, 0) + 1
            rows.append({"site": "%s:%s#%d" % (rel.replace("minijinja/src/", ""), fn, counter[key]), "kind": kind.rstrip("!"),
                         "recv": recv, "class": classify(s, start, open_paren), "line": raw.count("\n", 0, m.start()) + 1})
    return rows


SINKS = re.compile(r"^(f|fmt|out|formatter|self\.w|self\.0|self\.f|self\.target\(\)|self|writer|w)$")


@item("C19_WRITE_SITES")
def _write_sites(repo):
    rows = [r for r in scan(repo) if SINKS.match(r["recv"])]
    if len(rows) < 20:
        raise KeyError("write sites: only %d found" % len(rows))
    lean = ("def c19WriteSites : List (String × String × String) := [\n  "
            + ",\n  ".join("(%s, %s, %s)" % (lean_str(r["site"]), lean_str(r["kind"]), lean_str(r["class"])) for r in rows) + "]")
    return rows, lean


@item("C19_WRITER_APIS")
def _writer_apis(repo):
    found = []
    for path in sorted(glob.glob(os.path.join(repo, "minijinja/src/**/*.rs"), recursive=True)):
        rel = os.path.relpath(path, repo)
        if rel.endswith("filters.rs"):
            pass
        s = blank_comments_and_strings(open(path, encoding="utf-8").read())
        for m in re.finditer(r"\bpub\s+fn\s+(\w+)\s*(<[^{;]*?>)?\s*\(", s):
            end = s.find("{", m.end())
            sig = s[m.start():end if end >= 0 else m.end()]
            if re.search(r"\b(io::)?Write\b", sig) and "fmt::Write" not in sig and re.search(r"\bW\s*:|impl\s+(std::)?(io::)?Write|where\s+W", sig):
                found.append((rel.replace("minijinja/src/", ""), m.group(1)))
    if not found:
        raise KeyError("no public function taking an io::Write")
    lean = "def c19WriterApis : List (String × String) := [" + ", ".join("(%s, %s)" % (lean_str(a), lean_str(b)) for a, b in found) + "]"
    return found, lean


@item("C19_WRAPPER_SITES")
def _wrapper_sites(repo):
    rows = []
    for path in sorted(glob.glob(os.path.join(repo, "minijinja/src/**/*.rs"), recursive=True)):
        rel = os.path.relpath(path, repo).replace("minijinja/src/", "")
        s = blank_comments_and_strings(open(path, encoding="utf-8").read())
        for m in re.finditer(r"\bWriteWrapper\s*\{\s*w\b", s):
            if re.search(r"\bstruct\s+$", s[max(0, m.start() - 12):m.start()]):
                continue
            fn = enclosing_fn(s, m.start())
            # body of the enclosing function
            fm = list(re.finditer(r"\bfn\s+%s\b" % re.escape(fn), s[:m.start()]))[-1]
            b0 = s.index("{", fm.end())
            body = s[b0:match_paren(s, b0)]
            rows.append((rel, fn, len(re.findall(r"\.take_err\s*\(", body))))
    if not rows:
        raise KeyError("no WriteWrapper construction found")
    lean = "def c19WrapperSites : List (String × String × Nat) := [" + ", ".join("(%s, %s, %d)" % (lean_str(a), lean_str(b), n) for a, b, n in rows) + "]"
    return rows, lean


@item("C19_SMALL_INT_LIMIT")
def _small_int(repo):
    src = read(repo, "minijinja/src/utils.rs")
    v = const(src, "SMALL_INT_FORMAT_CACHE_LIMIT")
    if not re.search(r"if\s+value\s*>=\s*SMALL_INT_FORMAT_CACHE_LIMIT\s+as\s+u64\s*\{\s*return\s+None", src):
        raise KeyError("small_u64_format guard")
    return v, f"def c19SmallIntLimit : Nat := {v}"


@item("C19_UNHOOKED_BODIES")
def _unhooked_bodies(repo):
    """every block under `#[cfg(not(feature = "verif_hooks"))]` in output.rs, verbatim (whitespace
    normalised): code that only the unhooked build compiles.  Pinned in `MJ.C19.unhooked_bodies_pinned`;
    the unhooked harness build (`--no-default-features`) executes it."""
    raw = read(repo, "minijinja/src/output.rs")
    s = blank_comments_and_strings(raw)
    rows = []
    for m in re.finditer(r'#\[cfg\(not\(feature\s*=\s*"\s*[^"]*"\s*\)\)\]', s):
        if "verif_hooks" not in raw[m.start():m.end()]:
            continue
        rest = s[m.end():]
        k = len(rest) - len(rest.lstrip())
        if not rest.lstrip().startswith("{"):
            # an item or statement, up to the end of the line / statement
            end = rest.find(";", k)
            body = raw[m.end() + k:m.end() + end + 1]
        else:
            b0 = m.end() + k
            body = raw[b0 + 1:match_paren(s, b0) - 1]
        rows.append((enclosing_fn(s, m.start()), "\u00b7".join(body.split())))  # (no blanks: the audit greps Lean sources for keywords)
    lean = "def c19UnhookedBodies : List (String × String) := [" + ", ".join("(%s, %s)" % (lean_str(a), lean_str(b)) for a, b in rows) + "]"
    return rows, lean


def _stmt_end(t):
    """index of the `;` or unmatched closing bracket that ends the expression starting at t[0]"""
    depth = 0
    for j, c in enumerate(t):
        if c in "([{":
            depth += 1
        elif c in ")]}":
            if depth == 0:
                return j
            depth -= 1
        elif c == ";" and depth == 0:
            return j
    return len(t)


@item("C19_WRITEWRAPPER_METHODS")
def _writewrapper_methods(repo):
    """the methods implemented in `impl fmt::Write for WriteWrapper<W>`: name -> does every path that
    can fail (a call on the sink `self.w`) store the io::Error in `self.err` before reporting
    `fmt::Error`?  A method that only delegates to other methods of the adapter (no call on
    `self.w`) stores trivially.  The model has `write_str` and `write_char`; anything else is a new
    row and breaks `MJ.C19.writewrapper_methods_store`."""
    raw = read(repo, "minijinja/src/output.rs")
    s = blank_comments_and_strings(raw)
    m = re.search(r"impl\s*<[^>]*>\s*fmt::Write\s+for\s+WriteWrapper\s*<[^>]*>\s*\{", s)
    if not m:
        raise KeyError("impl fmt::Write for WriteWrapper")
    b0 = s.index("{", m.end() - 1)
    body = s[b0:match_paren(s, b0)]
    rows = []
    for fm in re.finditer(r"\bfn\s+(\w+)\s*\(", body):
        f0 = body.index("{", fm.end())
        fbody = body[f0:match_paren(body, f0)]
        sink_calls = len(re.findall(r"\bself\s*\.\s*w\s*\.\s*\w+\s*\(", fbody)) + len(re.findall(r"\bself\s*\.\s*w\b(?!\s*\.)", fbody))
        # every sink call must hand its error to `self.err`: a `map_err` whose closure assigns it, or the
        # call is the scrutinee of a `match` / `if let Err(e)` all of whose `Err` arms assign it
        stores = 0
        for cm in re.finditer(r"\bself\s*\.\s*w\b", fbody):
            tail = fbody[cm.end():]
            head = fbody[:cm.start()]
            mm = re.search(r"\.\s*map_err\s*\(", tail)
            semi = _stmt_end(tail)
            if mm and mm.start() < semi:
                k = tail.index("(", mm.start())
                closure = tail[k:match_paren(tail, k)]
                if re.search(r"\bself\s*\.\s*err\s*=\s*Some\s*\(", closure):
                    stores += 1
                    continue
            if re.search(r"\bmatch\s*$", head):
                b = tail.find("{")
                block = tail[b:match_paren(tail, b)] if b >= 0 else ""
                arms = list(re.finditer(r"\bErr\s*\(\s*(\w+)\s*\)\s*(if\b[^=]*(==[^=]*)*)?=>", block))
                good = bool(arms)
                for am in arms:
                    rest = block[am.end():].lstrip()
                    if rest.startswith("{"):
                        arm = rest[:match_paren(rest, 0)]
                    else:
                        arm = rest[:rest.find(",")] if "," in rest else rest
                    if not re.search(r"\bself\s*\.\s*err\s*=\s*Some\s*\(\s*%s\s*\)" % re.escape(am.group(1)), arm):
                        good = False
                if good:
                    stores += 1
                    continue
            lm = re.search(r"\bif\s+let\s+Err\s*\(\s*(\w+)\s*\)\s*=\s*$", head)
            if lm:
                b = tail.find("{")
                block = tail[b:match_paren(tail, b)] if b >= 0 else ""
                if re.search(r"\bself\s*\.\s*err\s*=\s*Some\s*\(\s*%s\s*\)" % re.escape(lm.group(1)), block) and re.search(r"\bErr\s*\(\s*fmt::Error\s*\)", block):
                    stores += 1
        rows.append((fm.group(1), sink_calls == stores))
    if not rows:
        raise KeyError("no methods in impl fmt::Write for WriteWrapper")
    lean = "def c19WriteWrapperMethods : List (String × Bool) := [" + ", ".join("(%s, %s)" % (lean_str(a), "true" if b else "false") for a, b in rows) + "]"
    return rows, lean


@item("C19_TRACKER_UPDATE")
def _tracker_update(repo):
    """how `Track` in `DynObject::render_guarded` (value/object.rs) updates its flag from the
    result of each forwarded write: the operator in `self.failed <op> rv.is_err()`, one row per
    forwarding method.  The model is `failed = any write failed` (`trackFailed`), i.e. `|=`."""
    raw = read(repo, "minijinja/src/value/object.rs")
    s = blank_comments_and_strings(raw)
    m = re.search(r"\bfn\s+render_guarded\b", s)
    if not m:
        raise KeyError("render_guarded")
    b0 = s.index("{", m.end())
    body = s[b0:match_paren(s, b0)]
    rows = []
    for fm in re.finditer(r"\bfn\s+(write_\w+)\s*\(", body):
        f0 = body.index("{", fm.end())
        fbody = body[f0:match_paren(body, f0)]
        ups = re.findall(r"self\s*\.\s*failed\s*(\S+?)\s*rv\s*\.\s*is_err\s*\(\s*\)", fbody)
        rows.append((fm.group(1), ",".join(ups)))
    if not rows:
        raise KeyError("no forwarding methods in render_guarded")
    lean = "def c19TrackerUpdate : List (String × String) := [" + ", ".join("(%s, %s)" % (lean_str(a), lean_str(b)) for a, b in rows) + "]"
    return rows, lean


def fn_body_blank(s, name):
    """(start, body) of the first `fn name` in the blanked source `s`"""
    m = re.search(r"\bfn\s+%s\b" % re.escape(name), s)
    if not m:
        raise KeyError("fn " + name)
    b0 = s.index("{", m.end())
    return m.start(), s[m.end():b0], s[b0:match_paren(s, b0)]


def _uses_of(name, body):
    """how the value bound to `name` is used in `body`: `method:<m>` (a method is called on it —
    the value is looked at or taken apart), `arg:<f>` (it is handed on as the argument of f),
    `other`"""
    uses = []
    for m in re.finditer(r"\b%s\b" % re.escape(name), body):
        after = body[m.end():]
        before = body[:m.start()]
        mm = re.match(r"\s*\.\s*(\w+)\s*(::<[^>]*>)?\s*\(", after)
        if mm:
            uses.append("method:" + mm.group(1))
            continue
        bm = re.search(r"([\w:]+)\s*\(\s*$", before)
        if bm and re.match(r"\s*\)", after):
            uses.append("arg:" + bm.group(1).split("::")[-1])
            continue
        uses.append("other")
    return uses


@item("C19_BOUNDARY_BODIES")
def _boundary_bodies(repo):
    """`write_failure`, `WriteWrapper::take_err`, `WriteWrapper::check` (output.rs): what happens to
    the sink's io::Error between the error slot of the adapter and the returned `Error`.  One row
    per function:
      io_uses   uses of every variable that holds the io::Error (a parameter of type io::Error, a
                `Some(x)` binding): `arg:<f>` = handed on to f untouched, `method:<m>` = a method
                is called on it (it is inspected / taken apart), `other`
      slot      the method chain on `self.err` (with function arguments of `map`)
      branches  number of if / match / return / `?` / loops in the body
      kinds     the `ErrorKind::X` mentioned
    The model (`writeFailure`, `WriteWrapper.takeErr`, `WriteWrapper.check`) wraps the token
    without looking at it; `MJ.C19.boundary_wraps_untouched` pins the rows."""
    raw = read(repo, "minijinja/src/output.rs")
    cut = raw.find("#[cfg(test)]")
    if cut >= 0:
        raw = raw[:cut]
    s = blank_comments_and_strings(raw)
    rows = []
    for fn in ["write_failure", "take_err", "check"]:
        _, sig, body = fn_body_blank(s, fn)
        names = re.findall(r"(\w+)\s*:\s*(?:std::)?io::Error\b", sig)
        names += re.findall(r"\bSome\s*\(\s*(?:mut\s+)?(\w+)\s*\)", body)
        names += re.findall(r"\|\s*(\w+)\s*(?::[^|]*)?\|", body)           # closure parameters
        uses = []
        for n in dict.fromkeys(names):
            u = _uses_of(n, body)
            # the binding occurrence of a pattern / closure parameter is not a use
            if n not in re.findall(r"(\w+)\s*:\s*(?:std::)?io::Error\b", sig) and u:
                u = u[1:] if u[0] in ("other",) or u[0].startswith("arg:Some") else u
            uses += u
        chains = []
        for m in re.finditer(r"\bself\s*\.\s*err\b", body):
            rest, chain = body[m.end():], []
            while True:
                mm = re.match(r"\s*\.\s*(\w+)\s*\(", rest)
                if not mm:
                    break
                k = rest.index("(", mm.start())
                end = match_paren(rest, k)
                arg = "".join(rest[k + 1:end - 1].split())
                chain.append(mm.group(1) + ("(%s)" % arg if mm.group(1) in ("map", "map_or", "and_then", "map_or_else", "filter") else ""))
                rest = rest[end:]
            chains.append(".".join(chain) if chain else "-")
        branches = len(re.findall(r"\bif\b|\bmatch\b|\breturn\b|\?|\bwhile\b|\bfor\b|\bloop\b", body))
        kinds = sorted(set(re.findall(r"\bErrorKind::(\w+)", body)))
        rows.append((fn, ",".join(uses), ";".join(chains), branches, ",".join(kinds)))
    lean = ("def c19BoundaryBodies : List (String × String × String × Nat × String) := ["
            + ", ".join("(%s, %s, %s, %d, %s)" % (lean_str(a), lean_str(b), lean_str(c), d, lean_str(e)) for a, b, c, d, e in rows) + "]")
    return rows, lean


@item("C19_BOUNDARY_SITES")
def _boundary_sites(repo):
    """every function that builds a `WriteWrapper`: how often it calls `check` and `take_err` on it
    and on which arm (`Ok` → check, `Err` → take_err)"""
    rows = []
    for path in sorted(glob.glob(os.path.join(repo, "minijinja/src/**/*.rs"), recursive=True)):
        rel = os.path.relpath(path, repo).replace("minijinja/src/", "")
        s = blank_comments_and_strings(open(path, encoding="utf-8").read())
        for m in re.finditer(r"\bWriteWrapper\s*\{\s*w\b", s):
            if re.search(r"\bstruct\s+$", s[max(0, m.start() - 12):m.start()]):
                continue
            fn = enclosing_fn(s, m.start())
            fm = list(re.finditer(r"\bfn\s+%s\b" % re.escape(fn), s[:m.start()]))[-1]
            b0 = s.index("{", fm.end())
            body = s[b0:match_paren(s, b0)]
            # the arms of a `match` on the evaluation's result, or the combinator forms of the same
            ok_arm = len(re.findall(r"\bOk\s*\(\s*\w+\s*\)\s*=>\s*\w+\s*\.\s*check\s*\(", body)) \
                + len(re.findall(r"\.\s*and_then\s*\(\s*\|\s*\w+\s*\|\s*\w+\s*\.\s*check\s*\(\s*(?:\w+|\(\s*\))\s*\)\s*\)", body))
            err_arm = len(re.findall(r"\bErr\s*\(\s*\w+\s*\)\s*=>\s*Err\s*\(\s*\w+\s*\.\s*take_err\s*\(", body)) \
                + len(re.findall(r"\.\s*map_err\s*\(\s*\|\s*(\w+)\s*\|\s*\w+\s*\.\s*take_err\s*\(\s*\1\s*\)\s*\)", body))
            rows.append((rel, fn, len(re.findall(r"\.\s*check\s*\(", body)), len(re.findall(r"\.\s*take_err\s*\(", body)), ok_arm, err_arm))
    if not rows:
        raise KeyError("no WriteWrapper construction found")
    lean = ("def c19BoundarySites : List (String × String × Nat × Nat × Nat × Nat) := ["
            + ", ".join("(%s, %s, %d, %d, %d, %d)" % (lean_str(a), lean_str(b), c, d, e, f) for a, b, c, d, e, f in rows) + "]")
    return rows, lean


@item("C19_WRITEWRAPPER_STICKY")
def _writewrapper_sticky(repo):
    """the methods of `impl fmt::Write for WriteWrapper<W>`: does the body return `Err(fmt::Error)`
    when `self.err` is already set, *before* anything is handed to the sink `self.w`?  (A method
    without a call on `self.w` is sticky through the methods it delegates to.)  The model's
    `WriteWrapper.writeBytes` has this guard; `MJ.C19.sticky_after_error` rests on it."""
    raw = read(repo, "minijinja/src/output.rs")
    s = blank_comments_and_strings(raw)
    m = re.search(r"impl\s*<[^>]*>\s*fmt::Write\s+for\s+WriteWrapper\s*<[^>]*>\s*\{", s)
    if not m:
        raise KeyError("impl fmt::Write for WriteWrapper")
    b0 = s.index("{", m.end() - 1)
    body = s[b0:match_paren(s, b0)]
    rows = []
    for fm in re.finditer(r"\bfn\s+(\w+)\s*\(", body):
        f0 = body.index("{", fm.end())
        fbody = body[f0:match_paren(body, f0)]
        sink = re.search(r"\bself\s*\.\s*w\b", fbody)
        guard = re.search(r"\bif\s+self\s*\.\s*err\s*\.\s*is_some\s*\(\s*\)\s*\{\s*return\s+Err\s*\(\s*fmt::Error\s*\)\s*;?\s*\}", fbody)
        rows.append((fm.group(1), sink is None or (guard is not None and guard.start() < sink.start())))
    if not rows:
        raise KeyError("no methods in impl fmt::Write for WriteWrapper")
    lean = "def c19WriteWrapperSticky : List (String × Bool) := [" + ", ".join("(%s, %s)" % (lean_str(a), "true" if b else "false") for a, b in rows) + "]"
    return rows, lean


# ------------------------------------------------------------------------------------------------
# C19_RESULT_FLOW: every use of a handle of the render output (`&mut Output`, `&mut fmt::Formatter`,
# `&mut dyn fmt::Write`, builders made from a formatter, wrapper structs around one, `Output`s
# created in place) in the crate outside the compiler: what is called with it and what happens to
# the call's `Result`.  Classes:
#   propagate   as for C19_WRITE_SITES; also: the value of a closure handed to a function whose own
#               result propagates; a bound variable that is consumed by `ok!(v..)`/`ctx_ok!(v)`/`v?`/
#               the block's value and is mentioned nowhere else except in the arguments of
#               verification hooks; the scrutinee of the `match` of an entry point whose arms
#               C19_BOUNDARY_SITES finds complete
#   noresult    the callee returns no `Result` (`begin_capture`, `end_capture`, `alternate`, builder
#               steps, a flag of a wrapper struct): for `Output` read off its impl, for std's
#               `Formatter` a fixed list; a method that is in neither list is `unknown-method`
#   inspected   the bound result is looked at (`is_err()`, `if let`, ..) before it is propagated
#   swallow / panic / unknown.. as for C19_WRITE_SITES
# (the write calls themselves are the rows of C19_WRITE_SITES.)
# `MJ.C19.every_write_result_propagates` demands `propagate`/`noresult` of every row.
HANDLE_TYPES = [
    (r"&\s*mut\s+Output\b", "out"),
    (r"&\s*mut\s+(?:std::)?fmt::Formatter\b", "fmt"),
    (r"&\s*mut\s+(?:\(\s*)?dyn\s+(?:std::)?fmt::Write\b", "dynw"),
]
# methods of the handles that do not return a `fmt::Result`/`Result` (std's `Formatter`: known;
# `Output`: read off its impl)
FMT_NORESULT = {"alternate", "debug_map", "debug_list", "debug_struct", "debug_tuple", "debug_set", "width", "precision", "fill",
                "sign_plus", "sign_minus", "entry", "entries", "field", "key", "value", "finish_non_exhaustive_"}
FMT_RESULT = {"write_str", "write_char", "write_fmt", "pad", "pad_integral", "finish"}


def fn_items(s):
    """(name, sig_start, params_open, params_end, body_open, body_end) of every `fn` item with a body"""
    out = []
    for m in re.finditer(r"\bfn\s+(\w+)\s*", s):
        k = m.end()
        if k < len(s) and s[k] == "<":
            depth = 0
            while k < len(s):
                if s[k] == "<":
                    depth += 1
                elif s[k] == ">" and s[k - 1] != "-":
                    depth -= 1
                    if depth == 0:
                        k += 1
                        break
                k += 1
            while k < len(s) and s[k].isspace():
                k += 1
        if k >= len(s) or s[k] != "(":
            continue
        p0 = k
        p1 = match_paren(s, p0)
        # up to the `{` of the body or the `;` of a declaration
        k = p1
        depth = 0
        while k < len(s) and not (s[k] in "{;" and depth == 0):
            if s[k] in "([":
                depth += 1
            elif s[k] in ")]":
                depth -= 1
            k += 1
        if k >= len(s) or s[k] == ";":
            continue
        out.append((m.group(1), m.start(), p0, p1, k, match_paren(s, k)))
    return out


def output_methods(repo):
    """name -> returns a Result?  for the inherent and trait methods of `Output`"""
    raw = open(os.path.join(repo, "minijinja/src/output.rs"), encoding="utf-8").read()
    s = blank_comments_and_strings(raw)
    res = {}
    for m in re.finditer(r"impl(?:\s*<[^>]*>)?\s+(?:fmt::Write\s+for\s+)?Output\s*<[^>]*>\s*\{", s):
        b0 = s.index("{", m.end() - 1)
        body = s[b0:match_paren(s, b0)]
        for (name, st, p0, p1, k, end) in fn_items(body):
            ret = body[p1:k]
            res[name] = res.get(name, False) or bool(re.search(r"->\s*(fmt::Result|Result\s*<)", ret))
    return res


def scan_flow(repo, files):
    outm = output_methods(repo)
    rows = []
    for rel in files:
        path = os.path.join(repo, rel)
        if not os.path.exists(path):
            continue
        raw = open(path, encoding="utf-8").read()
        cut = raw.find("#[cfg(test)]")
        if cut >= 0:
            raw = raw[:cut]
        s = blank_comments_and_strings(raw)
        items = fn_items(s)
        short = rel.replace("minijinja/src/", "")
        counter = {}
        for (name, st, p0, p1, b0, b1) in items:
            params = s[p0:p1]
            handles = {}
            for (ty, kind) in HANDLE_TYPES:
                for pm in re.finditer(r"(\w+)\s*:\s*" + ty, params):
                    handles[pm.group(1)] = kind
            body = s[b0:b1]
            # blank nested fn items: they are scanned on their own
            inner = [(a, f) for (_, a, _, _, e, f) in items if a > b0 and f <= b1]
            bl = list(body)
            for (a, f) in inner:
                for i in range(a - b0, f - b0):
                    if bl[i] != "\n":
                        bl[i] = " "
            body_own = "".join(bl)
            # nested `struct X { .. }` items declare fields, they do not use the handle
            for sm in re.finditer(r"\bstruct\s+\w+\s*(<[^>{]*>)?\s*\{", body_own):
                e = match_paren(body_own, sm.end() - 1)
                body_own = body_own[:sm.start()] + re.sub(r"[^\n]", " ", body_own[sm.start():e]) + body_own[e:]
            # `self.f` / `self.0`-style handles of forwarding wrappers: a struct field of a handle type
            # an `Output` created here and bound to a local
            for lm in re.finditer(r"\blet\s+(?:mut\s+)?(\w+)\s*=\s*Output\s*::\s*(new|null)\s*\(", body_own):
                handles[lm.group(1)] = "out"
            # an `Output` created in place as the argument of a call: `f(.., &mut Output::new(..), ..)`
            for cm in re.finditer(r"&\s*mut\s+Output\s*::\s*(new|null)\s*\(", body_own):
                pos = b0 + cm.start()
                enc = enclosing_open(s, pos)
                key = (short, name)
                counter[key] = counter.get(key, 0) + 1
                site = "%s:%s#%d" % (short, name, counter[key])
                if enc >= 0 and s[enc] == "(":
                    cm2 = re.search(r"([\w:.]+)\s*$", s[max(0, enc - 60):enc])
                    callee = cm2.group(1) if cm2 else "?"
                    em = re.search(r"((?:[\w:]+|\([^()]*\))(?:\s*\.\s*\w+(?:\(\))?)*)\s*$", s[:enc])
                    rows.append((site, "call:" + callee.split("::")[-1].split(".")[-1] + "(new)", classify_call(s, em.start() if em else enc, enc)))
                else:
                    rows.append((site, "new", "unknown-use"))
            if not handles:
                continue
            # derived handles: builders and wrappers bound from an expression that mentions a handle
            changed = True
            while changed:
                changed = False
                for lm in re.finditer(r"\blet\s+(?:mut\s+)?(\w+)\s*(?::[^=;]+)?=\s*([^;]*);", body_own):
                    nm, rhs = lm.group(1), lm.group(2)
                    if nm in handles:
                        continue
                    for h, kind in list(handles.items()):
                        if re.search(r"(?<![\w.])%s\b" % re.escape(h), rhs):
                            # a builder (`f.debug_map()`) or a wrapper struct literal (`Track { f, .. }`)
                            if re.match(r"\s*%s\s*\.\s*debug_\w+\s*\(" % re.escape(h), rhs):
                                handles[nm] = "builder"
                                changed = True
                            elif re.match(r"\s*\w+\s*\{[^}]*(?<![\w.])%s\b" % re.escape(h), rhs):
                                handles[nm] = "wrapper"
                                changed = True
            for h, kind in handles.items():
                for um in re.finditer(r"(?<![\w.])%s\b" % re.escape(h), body_own):
                    pos = b0 + um.start()
                    after = s[b0 + um.end():]
                    before = s[:pos]
                    # binding occurrences
                    if re.search(r"\blet\s+(mut\s+)?$", before[-12:]):
                        continue
                    key = (short, name)
                    # (a) receiver of a method call
                    mm = re.match(r"\s*\.\s*(\w+)\s*(::<[^>]*>)?\s*\(", after)
                    if mm:
                        meth = mm.group(1)
                        if kind == "out":
                            returns = outm.get(meth)
                        elif kind in ("fmt", "builder", "dynw", "wrapper"):
                            returns = True if meth in FMT_RESULT else (False if meth in FMT_NORESULT else None)
                        if meth in ("write_str", "write_char", "write_fmt"):
                            continue   # a write site (C19_WRITE_SITES)
                        counter[key] = counter.get(key, 0) + 1
                        site = "%s:%s#%d" % (short, name, counter[key])
                        if returns is None:
                            rows.append((site, "%s.%s" % (kind, meth), "unknown-method"))
                        elif not returns:
                            # a builder chain that ends in `.finish()` returns a result
                            open_paren = pos + (um.end() - um.start()) + mm.end() - 1
                            end = match_paren(s, open_paren)
                            chain_end, last = end, meth
                            while True:
                                cm = re.match(r"\s*\.\s*(\w+)\s*\(", s[chain_end:])
                                if not cm:
                                    break
                                last = cm.group(1)
                                k = s.index("(", chain_end + cm.start())
                                last_open = k
                                chain_end = match_paren(s, k)
                            if last in FMT_RESULT and last != meth:
                                rows.append((site, "%s.%s..%s" % (kind, meth, last), classify(s, pos, last_open)))
                            else:
                                rows.append((site, "%s.%s" % (kind, meth), "noresult"))
                        else:
                            open_paren = s.index("(", pos + (um.end() - um.start()) + mm.start())
                            rows.append((site, "%s.%s" % (kind, meth), classify(s, pos, open_paren)))
                        continue
                    # (a') a field of a wrapper struct is read (`track.failed`)
                    fm = re.match(r"\s*\.\s*(\w+)\b(?!\s*\()", after)
                    if fm and kind == "wrapper":
                        counter[key] = counter.get(key, 0) + 1
                        rows.append(("%s:%s#%d" % (short, name, counter[key]), "field:" + fm.group(1), "noresult"))
                        continue
                    # (b) first argument of write!/writeln!: a write site
                    enc = enclosing_open(s, pos)
                    if enc >= 0 and s[enc] == "(" and re.search(r"\b(write|writeln)!\s*$", s[:enc]):
                        continue
                    # (c) argument of a call
                    if enc >= 0 and s[enc] == "(":
                        cm = re.search(r"((?:[\w:]+(?:::<[^>]*>)?|\)|\w+\s*\.\s*\w+)|\([^()]*\))\s*$", s[:enc])
                        callee_txt = s[max(0, enc - 60):enc]
                        cm2 = re.search(r"([\w:.]+)\s*$", callee_txt)
                        callee = cm2.group(1) if cm2 else ("(expr)" if s[:enc].rstrip().endswith(")") else "?")
                        if re.search(r"verif_hooks::", callee):
                            continue
                        if callee.split("::")[-1].split(".")[-1] in ("Some", "Ok", "Err", "Box::new"):
                            callee = "?"
                        # start of the call expression: the receiver chain / path before the paren
                        em = re.search(r"((?:[\w:]+|\([^()]*\))(?:\s*\.\s*\w+(?:\(\))?)*)\s*$", s[:enc])
                        start = em.start() if em else enc
                        counter[key] = counter.get(key, 0) + 1
                        site = "%s:%s#%d" % (short, name, counter[key])
                        rows.append((site, "call:" + callee.split("::")[-1], classify_call(s, start, enc)))
                        continue
                    # (d) moved into a wrapper struct literal / reborrowed
                    if re.match(r"\s*[,}]", after) and enc >= 0 and s[enc] == "{" and re.search(r"\b[A-Z]\w*\s*$", s[:enc]):
                        continue   # `Track { f, .. }`: the wrapper is a derived handle
                    counter[key] = counter.get(key, 0) + 1
                    rows.append(("%s:%s#%d" % (short, name, counter[key]), "other", "unknown-use"))
    return rows


def classify_call(s, start, open_paren):
    """like `classify`, and: the value of a closure handed to a function whose own result is
    classified in turn; a bound variable that is consumed by `ok!(v…)`/`ctx_ok!(v…)`/`v?`/`match v`"""
    c = classify(s, start, open_paren)
    if c in ("propagate", "panic"):
        return c
    end = match_paren(s, open_paren)
    rest = s[end:].lstrip()
    # value of a closure `|state| call(..)` or the tail of a closure block handed to an outer call
    stmt = s[:start].rstrip()
    if stmt.endswith("|") or re.search(r"\|\s*[\w, ]*\|\s*\{[^{}]*$", s[max(0, start - 400):start]):
        # find the call the closure is an argument of
        pos = start
        while True:
            enc = enclosing_open(s, pos)
            if enc < 0:
                return "unknown-closure"
            if s[enc] == "(" and re.search(r"[\w>]\s*$", s[:enc]) and not re.search(r"\b(if|while|match|for)\s*$", s[:enc]):
                em = re.search(r"((?:[\w:]+)(?:\s*\.\s*\w+(?:\(\))?)*)\s*$", s[:enc])
                st2 = em.start() if em else enc
                # the closure must end with our call: tail position
                return classify_call(s, st2, enc)
            pos = enc
    # bound variable consumed later
    stmt_start = max(s.rfind(";", 0, start), s.rfind("{", 0, start), s.rfind("}", 0, start)) + 1
    prefix = s[stmt_start:start]
    m = re.search(r"\blet\s+(?:mut\s+)?(\w+)\s*(?::[^=]+)?=\s*$", prefix)
    if m and rest.startswith(";"):
        name = m.group(1)
        after = s[end:]
        close = match_paren("{" + after, 0) - 2
        block = after[:close]
        # every other mention of the variable must be inside the argument list of a verification hook
        mentions = 0
        for um in re.finditer(r"(?<![\w.])%s\b" % re.escape(name), block):
            enc = enclosing_open(block, um.start())
            hooked = False
            while enc >= 0:
                if block[enc] == "(" and re.search(r"verif_hooks::[\w:]+\s*$", block[:enc]):
                    hooked = True
                    break
                enc = enclosing_open(block, enc)
            if not hooked:
                mentions += 1
        if mentions > 1:
            return "inspected"
        if re.search(r"\b(ok|ctx_ok)!\s*\(\s*%s\b" % re.escape(name), block) or re.search(r"\bmatch\s+%s\s*\{" % re.escape(name), block) \
                or re.search(r"\b%s\s*\?" % re.escape(name), block) or re.search(r"(^|[;}\n])\s*%s(\s*\.\s*map(_err)?\s*\([^;]*\))?\s*$" % re.escape(name), block):
            return "propagate"
        return "swallow"
    # scrutinee of a match whose arms are classified by the boundary table
    if re.search(r"\bmatch\s*$", prefix):
        return "propagate-match"
    return c




def _flow_files(repo):
    return sorted(os.path.relpath(p, repo) for p in glob.glob(os.path.join(repo, "minijinja/src/**/*.rs"), recursive=True)
                  if "verif_hooks" not in p and "/compiler/" not in p)


@item("C19_RESULT_FLOW")
def _result_flow(repo):
    rows = scan_flow(repo, _flow_files(repo))
    sites, _ = _boundary_sites(repo)
    complete = {fn for (_, fn, chk, take, ok_arm, err_arm) in sites if chk == 1 and take == 1 and ok_arm == 1 and err_arm == 1}
    out = []
    for (site, callee, cls) in rows:
        if cls == "propagate-match":
            fn = site.split(":")[1].split("#")[0]
            cls = "propagate" if fn in complete else "match-unchecked"
        out.append((site, callee, cls))
    if len(out) < 60:
        raise KeyError("result flow: only %d uses found" % len(out))
    lean = ("def c19ResultFlow : List (String × String × String) := [\n  "
            + ",\n  ".join("(%s, %s, %s)" % (lean_str(a), lean_str(b), lean_str(c)) for a, b, c in out) + "]")
    return out, lean


@item("C19_OUTPUT_CREATIONS")
def _output_creations(repo):
    """every `Output::new(..)` / `Output::null()` of the crate: (file, fn, base writer, okChecked,
    errTaken).  Base writer: `String` (a local `String::new()`/`with_capacity`, a `&mut String`
    parameter), `Null`, `WriteWrapper` (a local `WriteWrapper { .. }`, or a parameter whose type
    mentions `WriteWrapper`), else the expression itself.  For a `WriteWrapper` base: is the result
    of the evaluation passed through `check` on the `Ok` arm and through `take_err` on the `Err` arm
    - in this function if it builds the adapter, otherwise in EVERY caller of this function (one
    level).  For other bases the two columns are 1 (nothing to check: a `String` cannot fail)."""
    sites, _ = _boundary_sites(repo)
    arms = {fn: (1 if (chk == 1 and ok_arm == 1) else 0, 1 if (take == 1 and err_arm == 1) else 0) for (_, fn, chk, take, ok_arm, err_arm) in sites}
    srcs = {}
    for path in sorted(glob.glob(os.path.join(repo, "minijinja/src/**/*.rs"), recursive=True)):
        if "verif_hooks" in path:
            continue
        raw = open(path, encoding="utf-8").read()
        cut = raw.find("#[cfg(test)]")
        if cut >= 0:
            raw = raw[:cut]
        srcs[os.path.relpath(path, repo).replace("minijinja/src/", "")] = blank_comments_and_strings(raw)
    rows = []
    for rel, s in srcs.items():
        items = fn_items(s)
        for m in re.finditer(r"\bOutput\s*::\s*(new|null)\s*\(", s):
            if re.search(r"\bfn\s+$", s[max(0, m.start() - 8):m.start()]):
                continue
            encl = [(n, p0, p1, b0, b1) for (n, st, p0, p1, b0, b1) in items if b0 < m.start() < b1]
            if not encl:
                continue
            fn, p0, p1, b0, b1 = encl[-1]
            # (a closure inside `CapturedCell::try_new(..)` belongs to the function around it)
            params, body = s[p0:p1], s[b0:b1]
            if m.group(1) == "null":
                rows.append((rel, fn, "Null", 1, 1))
                continue
            a0 = s.index("(", m.end() - 1)
            arg = "".join(s[a0 + 1:match_paren(s, a0) - 1].split())
            var = re.sub(r"^&mut\*?", "", arg)
            var = re.sub(r"\.borrow_mut\(\)$", "", var)
            base = arg
            if re.search(r"\blet\s+(mut\s+)?%s\s*=[^;]*?\bString\s*::\s*(new|with_capacity)\s*\(" % re.escape(var), body) \
                    or re.search(r"\b%s\s*:\s*&\s*(\'\w+\s+)?mut\s+String\b" % re.escape(var), params):
                base = "String"
            elif re.search(r"\blet\s+(mut\s+)?%s\s*=\s*(crate::output::)?WriteWrapper\s*\{" % re.escape(var), body) \
                    or re.search(r"\b%s\s*:[^,)]*\bWriteWrapper\b" % re.escape(var), params):
                base = "WriteWrapper"
            if base != "WriteWrapper":
                rows.append((rel, fn, base, 1, 1))
                continue
            if fn in arms:
                rows.append((rel, fn, base, arms[fn][0], arms[fn][1]))
                continue
            callers = set()
            for rel2, s2 in srcs.items():
                for cm in re.finditer(r"(?<![\w])%s\s*\(" % re.escape(fn), s2):
                    if re.search(r"\bfn\s+$", s2[max(0, cm.start() - 8):cm.start()]):
                        continue
                    inner = [(n) for (n, st, q0, q1, c0, c1) in fn_items(s2) if c0 < cm.start() < c1]
                    callers.add(inner[-1] if inner else "?")
            ok = 1 if callers and all(arms.get(c, (0, 0))[0] == 1 for c in callers) else 0
            tk = 1 if callers and all(arms.get(c, (0, 0))[1] == 1 for c in callers) else 0
            rows.append((rel, fn + "<-" + "+".join(sorted(callers)), base, ok, tk))
    if len(rows) < 6:
        raise KeyError("output creations: only %d found" % len(rows))
    lean = ("def c19OutputCreations : List (String × String × String × Nat × Nat) := ["
            + ", ".join("(%s, %s, %s, %d, %d)" % (lean_str(a), lean_str(b), lean_str(c), d, e) for a, b, c, d, e in rows) + "]")
    return rows, lean


@item("C19_VALUE_REPRS")
def _value_reprs(repo):
    """the variants of `enum ValueRepr` (value/mod.rs): every representation a printed value can have.
    The check demands that the fault-injection streams emitted a value of each of them (a value kind
    the generators never print is a blind spot of the correspondence)."""
    raw = read(repo, "minijinja/src/value/mod.rs")
    s = blank_comments_and_strings(raw)
    m = re.search(r"\benum\s+ValueRepr\s*\{", s)
    if not m:
        raise KeyError("enum ValueRepr")
    b0 = s.index("{", m.end() - 1)
    body = s[b0 + 1:match_paren(s, b0) - 1]
    variants, depth, cur = [], 0, ""
    for ch in body:
        if ch in "(<[{":
            depth += 1
        elif ch in ")>]}":
            depth -= 1
        elif ch == "," and depth == 0:
            variants.append(cur)
            cur = ""
            continue
        if depth == 0 or ch in "(<[{":
            cur += ch
    variants.append(cur)
    names = [re.sub(r"#\[[^\]]*\]", "", v).strip().split("(")[0].split("{")[0].strip() for v in variants]
    names = [n for n in names if re.match(r"^[A-Z]\w*$", n)]
    if len(names) < 8:
        raise KeyError("enum ValueRepr: variants %r" % names)
    lean = "def c19ValueReprs : List String := [" + ", ".join(lean_str(n) for n in names) + "]"
    return names, lean


@item("C19_OUT_INSTRUCTIONS")
def _out_instructions(repo):
    """the instructions whose arm in `eval_impl` (vm/mod.rs) touches the output (`out`), verification
    hooks aside: the constructs through which a render reaches the writer or moves the capture
    stack.  The check demands that the programs of the fault-injection streams contain every one
    of them."""
    raw = read(repo, "minijinja/src/vm/mod.rs")
    s = blank_comments_and_strings(raw)
    _, _, body = fn_body_blank(s, "eval_impl")
    m = re.search(r"\bmatch\s+instr\s*\{", body)
    if not m:
        raise KeyError("match instr in eval_impl")
    b0 = body.index("{", m.end() - 1)
    block = body[b0 + 1:match_paren(body, b0) - 1]
    # statements of the verification hooks do not count
    block = re.sub(r"crate::verif_hooks::[\w:]+\s*\((?:[^()]|\((?:[^()]|\([^()]*\))*\))*\)\s*;", lambda mm: " " * len(mm.group(0)), block)
    block = re.sub(r"#\[cfg\(feature\s*=\s*\"\s*verif_hooks\s*\"\)\]\s*let\s[^;]*;", lambda mm: " " * len(mm.group(0)), block)
    arms, depth = [], 0
    starts = []
    for am in re.finditer(r"Instruction::(\w+)", block):
        # arm heads are at depth 0 of the match block
        d = 0
        for ch in block[:am.start()]:
            if ch in "({[":
                d += 1
            elif ch in ")}]":
                d -= 1
        if d == 0:
            starts.append((am.start(), am.group(1)))
    rows = []
    for i, (st, name) in enumerate(starts):
        end = starts[i + 1][0] if i + 1 < len(starts) else len(block)
        arm = block[st:end]
        k = arm.find("=>")
        if k < 0:
            continue
        if re.search(r"(?<![\w.])out\b", arm[k:]) or re.search(r"\brecurse_loop!\s*\(", arm[k:]):
            if name not in rows:
                rows.append(name)
    if len(rows) < 6:
        raise KeyError("instructions that use `out`: %r" % rows)
    lean = "def c19OutInstructions : List String := [" + ", ".join(lean_str(n) for n in rows) + "]"
    return rows, lean
