"""C03 table items: the attribute names of the `loop` object (vm/loop_object.rs: `Loop::enumerate`),
the `PushLoop` flag that makes `loop` visible, and the parser's reserved assignment names.
`MJ/Proofs/C03Tables.lean` proves that the reference semantics' `loopVal` has exactly these attributes,
that the model code generator uses this flag / `MAX_LOCALS`, and that `loop` cannot be assigned."""
import re
from extract_tables import item, read, fn_body, const, lean_str


@item("C03_LOOP_ATTRS")
def _loop_attrs(repo):
    src = read(repo, "minijinja/src/vm/loop_object.rs")
    impl = fn_body(src, r"impl\s+Object\s+for\s+Loop\s*\{")
    body = fn_body(impl, r"fn\s+enumerate\s*\([^)]*\)\s*->\s*Enumerator\s*\{")
    m = re.search(r"Enumerator::Str\(\s*&\[(.*?)\]\s*\)", body, re.S)
    if not m:
        raise KeyError("Enumerator::Str list of Loop::enumerate")
    names = re.findall(r'"([^"]+)"', re.sub(r"#\[cfg\([^\]]*\)\]", "", m.group(1)))
    if not names:
        raise KeyError("no loop attribute names")
    return names, "def c03LoopAttrs : List String := [%s]" % ", ".join(lean_str(n) for n in names)


@item("C03_LOOP_FLAG_WITH_LOOP_VAR")
def _loop_flag(repo):
    v = const(read(repo, "minijinja/src/compiler/instructions.rs"), "LOOP_FLAG_WITH_LOOP_VAR")
    return v, f"def c03LoopFlagWithLoopVar : Nat := {v}"


@item("C03_RESERVED_NAMES")
def _reserved(repo):
    src = read(repo, "minijinja/src/compiler/parser.rs")
    m = re.search(r"const\s+RESERVED_NAMES\s*:\s*\[[^\]]*\]\s*=\s*\[(.*?)\]\s*;", src, re.S)
    if not m:
        raise KeyError("RESERVED_NAMES")
    names = re.findall(r'"([^"]+)"', m.group(1))
    return names, "def c03ReservedNames : List String := [%s]" % ", ".join(lean_str(n) for n in names)


@item("C03_MACRO_CALLER")
def _macro_caller(repo):
    v = const(read(repo, "minijinja/src/compiler/instructions.rs"), "MACRO_CALLER")
    return v, f"def c03MacroCaller : Nat := {v}"


@item("C03_CAPTURE_MODES")
def _capture_modes(repo):
    src = read(repo, "minijinja/src/output.rs")
    body = fn_body(src, r"pub enum CaptureMode\s*\{")
    names = re.findall(r"^\s*([A-Z]\w*)\s*,", re.sub(r"#\[[^\]]*\]", "", body), re.M)
    if not names:
        raise KeyError("CaptureMode variants")
    return names, "def c03CaptureModes : List String := [%s]" % ", ".join(lean_str(n) for n in names)


@item("C03_INSTRUCTIONS")
def _instructions(repo):
    src = read(repo, "minijinja/src/compiler/instructions.rs")
    body = fn_body(src, r"pub enum Instruction<'source>\s*\{")
    body = re.sub(r"//[^\n]*", "", body)
    body = re.sub(r"#\[[^\]]*\]", "", body)
    names = re.findall(r"^\s*([A-Z]\w*)\s*(?:\([^)]*\))?\s*,", body, re.M)
    if len(names) < 40:
        raise KeyError("Instruction variants")
    return names, "def c03Instructions : List String := [%s]" % ", ".join(lean_str(n) for n in names)


@item("C03_TEST_NAMES")
def _tests(repo):
    src = read(repo, "minijinja/src/defaults.rs")
    body = fn_body(src, r"fn build_builtin_tests\(\)[^{]*\{")
    names = sorted(set(re.findall(r"rv\.insert\(\s*\"([^\"]+)\"\.into\(\)", body)))
    if len(names) < 10:
        raise KeyError("builtin test registrations")
    return names, "def c03BuiltinTestNames : List String := [%s]" % ", ".join(lean_str(n) for n in names)
