"""C18 table items: the facts about codegen.rs / vm/mod.rs that the model of name resolution relies on.

* C18_EXPR_FUNCTIONS    — the methods of `CodeGenerator` reachable from `compile_expr` through `self.<method>(`
                          calls (not entering `compile_macro_expression`, the caller macro of a call block)
* C18_EXPR_CALLEES      — every `self.<method>(` callee inside those functions
* C18_EXPR_INSTRUCTIONS — every `Instruction::<Name>` mentioned inside those functions (= a superset of what
                          expression code can emit)
* C18_BINDING_INSTRUCTIONS — the instructions whose VM arm changes frames, locals or closures
The Lean theorem `MJ.C18.expression_code_binds_nothing` states that the two instruction sets are disjoint:
evaluating an expression cannot bind a name (the model's `lookups`)."""
import re
from extract_tables import item, read, fn_body, lean_str

CODEGEN = "minijinja/src/compiler/codegen.rs"
VM = "minijinja/src/vm/mod.rs"
STOP = "compile_macro_expression"
BINDING_CALLS = ["ctx.store(", "push_frame(", "pop_frame(", "push_loop(", "next_loop_item(", "enclose(",
                 "reset_closure(", "current_locals_mut(", "perform_include(", "load_blocks("]


def strip_comments(s):
    s = re.sub(r"/\*.*?\*/", "", s, flags=re.S)
    return re.sub(r"//[^\n]*", "", s)


def methods(src):
    return set(re.findall(r"\bfn\s+(\w+)\s*[<(]", src))


def closure(repo):
    src = strip_comments(read(repo, CODEGEN))
    defined = methods(src)
    if "compile_expr" not in defined or STOP not in defined:
        raise KeyError("compile_expr / compile_macro_expression")
    seen, todo, callees, instrs = [], ["compile_expr"], set(), set()
    while todo:
        f = todo.pop()
        if f in seen:
            continue
        seen.append(f)
        body = fn_body(src, r"\bfn\s+%s\s*[<(]" % re.escape(f))
        for c in re.findall(r"\bself\s*\.\s*(\w+)\s*\(", body):
            if c in defined:
                callees.add(c)
                if c != STOP:
                    todo.append(c)
        instrs.update(re.findall(r"\bInstruction::(\w+)", body))
    return sorted(seen), sorted(callees), sorted(instrs)


def lean_list(name, xs):
    return f"def {name} : List String := [" + ", ".join(lean_str(x) for x in xs) + "]"


@item("C18_EXPR_FUNCTIONS")
def _f(repo):
    fs, _, _ = closure(repo)
    return fs, lean_list("c18ExprFunctions", fs)


@item("C18_EXPR_CALLEES")
def _c(repo):
    _, cs, _ = closure(repo)
    return cs, lean_list("c18ExprCallees", cs)


@item("C18_EXPR_INSTRUCTIONS")
def _i(repo):
    _, _, ins = closure(repo)
    if "Lookup" not in ins:
        raise KeyError("compile_expr no longer emits Instruction::Lookup")
    return ins, lean_list("c18ExprInstructions", ins)


@item("C18_BINDING_INSTRUCTIONS")
def _b(repo):
    src = strip_comments(read(repo, VM))
    body = fn_body(src, r"\bfn\s+eval_impl\s*[<(]")
    arms = list(re.finditer(r"\n[ \t]*Instruction::(\w+)[^\n=]*=>", body))
    if len(arms) < 40:
        raise KeyError("eval_impl instruction arms")
    out = set()
    for k, m in enumerate(arms):
        end = arms[k + 1].start() if k + 1 < len(arms) else len(body)
        text = body[m.end():end]
        if any(c in text for c in BINDING_CALLS):
            out.add(m.group(1))
    for must in ("StoreLocal", "PushWith", "PushLoop", "Enclose"):
        if must not in out:
            raise KeyError("binding instruction " + must)
    xs = sorted(out)
    return xs, lean_list("c18BindingInstructions", xs)


# ---------------------------------------------------------------------------- who asks the context
READER_PATTERNS = [
    r"\.\s*lookup\s*\(",                 # State::lookup (= Context::load)
    r"\.\s*load\s*\(",                   # Context::load (atomics filtered out below)
    r"\bctx\s*\.\s*get_attr_fast\s*\(",  # the context object itself, by key
    r"\bctx\s*\.\s*(?:get_item|get_attr|get_item_opt|get_item_by_index|try_iter)\s*\(",
    r"\.\s*known_variables\s*\(",        # enumerates the context
    r"\.\s*clone_base\s*\(",             # hands the context value on
    r"\.\s*call_macro\s*\(",             # looks the macro up by name
]
SCAN_DIRS = ["minijinja/src", "minijinja-contrib/src"]


def _rs_files(repo):
    import os
    out = []
    for d in SCAN_DIRS:
        for root, _, files in os.walk(os.path.join(repo, d)):
            for f in files:
                if f.endswith(".rs"):
                    out.append(os.path.relpath(os.path.join(root, f), repo))
    return sorted(out)


def _drop_test_modules(src):
    """cut `#[cfg(test)] mod … { … }` blocks (unit tests are not engine code)"""
    out, i = [], 0
    for m in re.finditer(r"#\[cfg\(test\)\]\s*mod\s+\w+\s*\{", src):
        if m.start() < i:
            continue
        depth, j = 0, m.end() - 1
        while j < len(src):
            if src[j] == "{":
                depth += 1
            elif src[j] == "}":
                depth -= 1
                if depth == 0:
                    break
            j += 1
        out.append(src[i:m.start()])
        i = j + 1
    out.append(src[i:])
    return "".join(out)


def context_readers(repo):
    found = set()
    for rel in _rs_files(repo):
        src = _drop_test_modules(strip_comments(read(repo, rel)))
        fns = [(m.start(), m.group(1)) for m in re.finditer(r"\bfn\s+(\w+)\s*[<(]", src)]
        for pat in READER_PATTERNS:
            for m in re.finditer(pat, src):
                stmt_end = src.find(";", m.end())
                stmt = src[m.start():stmt_end if stmt_end >= 0 else m.end() + 80]
                if "Ordering::" in stmt[:120]:
                    continue  # atomic load
                if re.match(r"\.\s*(lookup|load|known_variables|clone_base|call_macro)\s*\($", src[m.start():m.end()]) \
                        and re.search(r"\bfn\s+$", src[max(0, m.start() - 4):m.start()]):
                    continue
                name = "<top>"
                for pos, fname in fns:
                    if pos < m.start():
                        name = fname
                    else:
                        break
                found.add(f"{rel}::{name}")
    return sorted(found)


@item("C18_CONTEXT_READERS")
def _r(repo):
    xs = context_readers(repo)
    for must in ("minijinja/src/vm/mod.rs::eval_impl", "minijinja/src/vm/context.rs::load"):
        if must not in xs:
            raise KeyError("context reader " + must)
    pairs = [tuple(x.split("::")) for x in xs]
    lean = "def c18ContextReaders : List (String × String) := [" + ", ".join(
        f"({lean_str(a)}, {lean_str(b)})" for a, b in pairs) + "]"
    return xs, lean


@item("C18_BUILTIN_FILES")
def _bf(repo):
    """the source files that implement builtin filters, tests, functions, value/object methods"""
    files = [f for f in _rs_files(repo)
             if f in ("minijinja/src/filters.rs", "minijinja/src/tests.rs", "minijinja/src/functions.rs",
                      "minijinja/src/defaults.rs", "minijinja-contrib/src/pycompat.rs",
                      "minijinja-contrib/src/globals.rs", "minijinja-contrib/src/tests.rs")
             or f.startswith("minijinja/src/value/")]
    for must in ("minijinja/src/filters.rs", "minijinja/src/tests.rs", "minijinja/src/functions.rs"):
        if must not in files:
            raise KeyError(must)
    return files, lean_list("c18BuiltinFiles", files)
