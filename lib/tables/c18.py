"""C18 table items: the facts about codegen.rs / vm/mod.rs that the model of name resolution relies on.

* C18_EXPR_FUNCTIONS    — the methods of `CodeGenerator` reachable from `compile_expr` through `self.<method>(`
                          calls (not entering `compile_macro_expression`, the caller macro of a call block)
* C18_EXPR_CALLEES      — every `self.<method>(` callee inside those functions
* C18_EXPR_INSTRUCTIONS — every `Instruction::<Name>` mentioned inside those functions (= a superset of what
                          expression code can emit)
* C18_BINDING_INSTRUCTIONS — the instructions whose VM arm changes frames, locals or closures
The Lean theorem `MJ.C18.expression_code_binds_nothing` states that the two instruction sets are disjoint:
evaluating an expression cannot bind a name (the model's `lookups`).

* C18_CONTEXT_READERS / C18_BUILTIN_FILES — who may ask the render context (`builtins_do_not_read_context`)
* C18_TRACK_WALK_ARMS / C18_VISIT_EXPR_ARMS / C18_TRACK_ASSIGN_ARMS / C18_TRACKER_HELPERS — the arms of
  compiler/meta.rs as operation lists (`analysis_arms_as_modelled`, `walkers_interpret_arms`)
* C18_LOAD_ORDER / C18_MACRO_CALL_FRAMES / C18_MACRO_CODEGEN — the run-time side of closures
  (`closure_and_lookup_order_as_modelled`)"""
import re
from extract_tables import item, read, fn_body, lean_str

CODEGEN = "minijinja/src/compiler/codegen.rs"
VM = "minijinja/src/vm/mod.rs"
STOP = "compile_macro_expression"
BINDING_CALLS = ["ctx.store(", "push_frame(", "pop_frame(", "push_loop(", "next_loop_item(", "enclose(",
                 "reset_closure(", "current_locals_mut(", "perform_include(", "load_blocks("]


def strip_comments(s):
    s = re.sub(r"/\*.*?\*/", "", s, flags=re.S)
    return re.sub(r"//[^\n]*", "", s)


def methods(src):
    return set(re.findall(r"\bfn\s+(\w+)\s*[<(]", src))


def closure(repo):
    src = strip_comments(read(repo, CODEGEN))
    defined = methods(src)
    if "compile_expr" not in defined or STOP not in defined:
        raise KeyError("compile_expr / compile_macro_expression")
    seen, todo, callees, instrs = [], ["compile_expr"], set(), set()
    while todo:
        f = todo.pop()
        if f in seen:
            continue
        seen.append(f)
        body = fn_body(src, r"\bfn\s+%s\s*[<(]" % re.escape(f))
        for c in re.findall(r"\bself\s*\.\s*(\w+)\s*\(", body):
            if c in defined:
                callees.add(c)
                if c != STOP:
                    todo.append(c)
        instrs.update(re.findall(r"\bInstruction::(\w+)", body))
    return sorted(seen), sorted(callees), sorted(instrs)


def lean_list(name, xs):
    return f"def {name} : List String := [" + ", ".join(lean_str(x) for x in xs) + "]"


@item("C18_EXPR_FUNCTIONS")
def _f(repo):
    fs, _, _ = closure(repo)
    return fs, lean_list("c18ExprFunctions", fs)


@item("C18_EXPR_CALLEES")
def _c(repo):
    _, cs, _ = closure(repo)
    return cs, lean_list("c18ExprCallees", cs)


@item("C18_EXPR_INSTRUCTIONS")
def _i(repo):
    _, _, ins = closure(repo)
    if "Lookup" not in ins:
        raise KeyError("compile_expr no longer emits Instruction::Lookup")
    return ins, lean_list("c18ExprInstructions", ins)


@item("C18_BINDING_INSTRUCTIONS")
def _b(repo):
    src = strip_comments(read(repo, VM))
    body = fn_body(src, r"\bfn\s+eval_impl\s*[<(]")
    arms = list(re.finditer(r"\n[ \t]*Instruction::(\w+)[^\n=]*=>", body))
    if len(arms) < 40:
        raise KeyError("eval_impl instruction arms")
    out = set()
    for k, m in enumerate(arms):
        end = arms[k + 1].start() if k + 1 < len(arms) else len(body)
        text = body[m.end():end]
        if any(c in text for c in BINDING_CALLS):
            out.add(m.group(1))
    for must in ("StoreLocal", "PushWith", "PushLoop", "Enclose"):
        if must not in out:
            raise KeyError("binding instruction " + must)
    xs = sorted(out)
    return xs, lean_list("c18BindingInstructions", xs)


# ---------------------------------------------------------------------------- who asks the context
READER_PATTERNS = [
    r"\.\s*lookup\s*\(",                 # State::lookup (= Context::load)
    r"\.\s*load\s*\(",                   # Context::load (atomics filtered out below)
    r"\bctx\s*\.\s*get_attr_fast\s*\(",  # the context object itself, by key
    r"\bctx\s*\.\s*(?:get_item|get_attr|get_item_opt|get_item_by_index|try_iter)\s*\(",
    r"\.\s*known_variables\s*\(",        # enumerates the context
    r"\.\s*clone_base\s*\(",             # hands the context value on
    r"\.\s*call_macro\s*\(",             # looks the macro up by name
]
SCAN_DIRS = ["minijinja/src", "minijinja-contrib/src"]


def _rs_files(repo):
    import os
    out = []
    for d in SCAN_DIRS:
        for root, _, files in os.walk(os.path.join(repo, d)):
            for f in files:
                if f.endswith(".rs"):
                    out.append(os.path.relpath(os.path.join(root, f), repo))
    return sorted(out)


def _drop_test_modules(src):
    """cut `#[cfg(test)] mod … { … }` blocks (unit tests are not engine code)"""
    out, i = [], 0
    for m in re.finditer(r"#\[cfg\(test\)\]\s*mod\s+\w+\s*\{", src):
        if m.start() < i:
            continue
        depth, j = 0, m.end() - 1
        while j < len(src):
            if src[j] == "{":
                depth += 1
            elif src[j] == "}":
                depth -= 1
                if depth == 0:
                    break
            j += 1
        out.append(src[i:m.start()])
        i = j + 1
    out.append(src[i:])
    return "".join(out)


def context_readers(repo):
    found = set()
    for rel in _rs_files(repo):
        src = _drop_test_modules(strip_comments(read(repo, rel)))
        fns = [(m.start(), m.group(1)) for m in re.finditer(r"\bfn\s+(\w+)\s*[<(]", src)]
        for pat in READER_PATTERNS:
            for m in re.finditer(pat, src):
                stmt_end = src.find(";", m.end())
                stmt = src[m.start():stmt_end if stmt_end >= 0 else m.end() + 80]
                if "Ordering::" in stmt[:120]:
                    continue  # atomic load
                if re.match(r"\.\s*(lookup|load|known_variables|clone_base|call_macro)\s*\($", src[m.start():m.end()]) \
                        and re.search(r"\bfn\s+$", src[max(0, m.start() - 4):m.start()]):
                    continue
                name = "<top>"
                for pos, fname in fns:
                    if pos < m.start():
                        name = fname
                    else:
                        break
                found.add(f"{rel}::{name}")
    return sorted(found)


@item("C18_CONTEXT_READERS")
def _r(repo):
    xs = context_readers(repo)
    for must in ("minijinja/src/vm/mod.rs::eval_impl", "minijinja/src/vm/context.rs::load"):
        if must not in xs:
            raise KeyError("context reader " + must)
    pairs = [tuple(x.split("::")) for x in xs]
    lean = "def c18ContextReaders : List (String × String) := [" + ", ".join(
        f"({lean_str(a)}, {lean_str(b)})" for a, b in pairs) + "]"
    return xs, lean


@item("C18_BUILTIN_FILES")
def _bf(repo):
    """the source files that implement builtin filters, tests, functions, value/object methods"""
    files = [f for f in _rs_files(repo)
             if f in ("minijinja/src/filters.rs", "minijinja/src/tests.rs", "minijinja/src/functions.rs",
                      "minijinja/src/defaults.rs", "minijinja-contrib/src/pycompat.rs",
                      "minijinja-contrib/src/globals.rs", "minijinja-contrib/src/tests.rs")
             or f.startswith("minijinja/src/value/")]
    for must in ("minijinja/src/filters.rs", "minijinja/src/tests.rs", "minijinja/src/functions.rs"):
        if must not in files:
            raise KeyError(must)
    return files, lean_list("c18BuiltinFiles", files)


# ---------------------------------------------------------------------------- the arms of meta.rs
# For every arm of `track_walk`, `tracker_visit_expr`, `track_assign`: the operations it performs
# in source order (see lean/MJ/Model/MetaArms.lean for the format); arms with real logic and the
# helper functions as control skeletons.  `MJ.C18.analysis_arms_as_modelled` proves the typed
# table the Lean walkers interpret equal to these.
META_RS = "minijinja/src/compiler/meta.rs"
WALKERS = {"track_walk": "walk", "track_assign": "assign_target", "tracker_visit_expr": "visit",
           "tracker_visit_expr_opt": "visit_opt", "tracker_visit_call": "visit_call",
           "tracker_visit_callarg": "visit_callarg", "tracker_visit_macro": "visit_macro"}


_TOKEN = re.compile(r"""\s+|"(?:[^"\\]|\\.)*"|[A-Za-z_][A-Za-z0-9_]*|\d+|=>|->|::|&&|\|\||==|!=|<=|>=|[-+*/%&|!<>=.,;:(){}\[\]?#@^~$']""")


def toks(text):
    out, i = [], 0
    while i < len(text):
        m = _TOKEN.match(text, i)
        if not m:
            raise KeyError("cannot tokenise meta.rs near: " + text[i:i + 30])
        i = m.end()
        if not m.group(0).isspace():
            out.append(m.group(0))
    return out


def close_of(ts, i):
    """index of the bracket closing ts[i]"""
    depth = 0
    for k in range(i, len(ts)):
        if ts[k] in "([{":
            depth += 1
        elif ts[k] in ")]}":
            depth -= 1
            if depth == 0:
                return k
    raise KeyError("unbalanced brackets in meta.rs")


def split_arms(ts):
    """arms of a match body (token list): [(cfg, pattern tokens, body tokens)]"""
    arms, i, n = [], 0, len(ts)
    while i < n:
        if ts[i] == ",":
            i += 1
            continue
        start = i
        depth = 0
        while i < n and not (ts[i] == "=>" and depth == 0):
            if ts[i] in "([{":
                depth += 1
            elif ts[i] in ")]}":
                depth -= 1
            i += 1
        if i >= n:
            raise KeyError("match arm without =>")
        pat = ts[start:i]
        i += 1
        if ts[i] == "{":
            j = close_of(ts, i)
            body = ts[i + 1:j]
            i = j + 1
        else:
            j, depth = i, 0
            while j < n and not (ts[j] == "," and depth == 0):
                if ts[j] in "([{":
                    depth += 1
                elif ts[j] in ")]}":
                    depth -= 1
                j += 1
            body = ts[i:j]
            i = j + 1
        cfg = []
        while pat and pat[0] == "#":
            j = close_of(pat, 1)
            cfg.append("".join(pat[4:j - 1]) if pat[2] == "cfg" else "".join(pat[1:j + 1]))
            pat = pat[j + 1:]
        arms.append((",".join(cfg), pat, body))
    return arms


class Env:
    def __init__(self, binder):
        self.names = {}
        if binder:
            self.names[binder] = "@"

    def intro(self, name):
        if name not in self.names and name not in ("_", "state", "self"):
            self.names[name] = "$%d" % (sum(1 for v in self.names.values() if v.startswith("$")) + 1)

    def ref(self, ts):
        """normalised reference: `&stmt.iter` → `@.iter`, `x` → `$1`, `alias.as_ref().unwrap_or(arg)` → `$2?$1`"""
        ts = [t for t in ts if t not in ("&", "mut", "ref")]
        out, prev = [], None
        for t in ts:
            out.append(self.names.get(t, t) if prev not in (".", "::") else t)
            prev = t
        s = "".join(out)
        m = re.fullmatch(r"(\$\d+)\.as_ref\(\)\.unwrap_or\((\$\d+)\)", s)
        return m.group(1) + "?" + m.group(2) if m else s


def split_args(ts):
    args, cur, depth = [], [], 0
    for t in ts:
        if t in "([{":
            depth += 1
        elif t in ")]}":
            depth -= 1
        if t == "," and depth == 0:
            args.append(cur)
            cur = []
        else:
            cur.append(t)
    if cur:
        args.append(cur)
    return args


def pattern_binders(ts, env):
    for t in ts:
        if re.match(r"[A-Za-z_]", t) and t not in ("mut", "ref"):
            env.intro(t)


def strict(ts, env):
    """op list of a simple arm; statements that are not understood become `?…`"""
    ev, i, n = [], 0, len(ts)
    while i < n:
        t = ts[i]
        if t == ";":
            i += 1
            continue
        if t == "{" and close_of(ts, i) == i + 1:
            i += 2
            continue
        # state.push() / state.pop() / state.assign(..) / state.assigned = x
        if t == "state" and ts[i + 1:i + 2] == ["."]:
            m = ts[i + 2]
            if m in ("push", "pop") and ts[i + 3:i + 5] == ["(", ")"]:
                ev.append(m)
                i += 5
                continue
            if m == "assign" and ts[i + 3] == "(":
                j = close_of(ts, i + 3)
                arg = ts[i + 4:j]
                if len(arg) == 1 and arg[0].startswith('"'):
                    ev.append("assign_lit " + arg[0].strip('"'))
                else:
                    ev.append("assign_name " + env.ref(arg))
                i = j + 1
                continue
            if m == "assigned" and ts[i + 3] == "=" and ts[i + 5:i + 6] in ([";"], []):
                ev.append("isolate_end")
                i += 5
                continue
        if t == "let" and "".join(ts[i + 2:i + 25]) == "=std::mem::replace(&mutstate.assigned,vec![Default::default()])":
            env.intro(ts[i + 1])
            ev.append("isolate_begin")
            i += 25
            continue
        if t in WALKERS and ts[i + 1] == "(":
            j = close_of(ts, i + 1)
            args = [env.ref(a) for a in split_args(ts[i + 2:j])]
            args = [a for a in args if a != "state"]
            ev.append(WALKERS[t] + " " + " ".join(args))
            i = j + 1
            continue
        if t == "for":
            k = ts.index("in", i)
            b = ts.index("{", k)
            e = close_of(ts, b)
            src = [x for x in ts[k + 1:b] if x != "&"]
            rev = src[-8:] == [".", "iter", "(", ")", ".", "rev", "(", ")"]
            if rev:
                src = src[:-8]
            elif src[-4:] == [".", "iter", "(", ")"]:
                src = src[:-4]
            pat_ts = ts[i + 1:k]
            head = ("each_rev " if rev else "each ") + env.ref(src)
            saved = dict(env.names)          # the binders of the pattern are local to the loop
            pattern_binders(pat_ts, env)
            ev.append(head + " " + env.ref(pat_ts) + " [")
            ev += strict(ts[b + 1:e], env)
            ev.append("]")
            env.names = saved
            i = e + 1
            continue
        # PATH.iter()[.rev()][.zip(PATH.iter())].for_each(|pat| body)
        if re.match(r"[A-Za-z_]", t):
            j = i
            while j + 1 < n and ts[j + 1] == "." and ts[j + 2] != "iter":
                j += 2
            if ts[j + 1:j + 5] == [".", "iter", "(", ")"]:
                path = env.ref(ts[i:j + 1])
                k = j + 5
                kind, other = "each", None
                if ts[k:k + 4] == [".", "rev", "(", ")"]:
                    kind = "each_rev"
                    k += 4
                if ts[k:k + 3] == [".", "zip", "("]:
                    z = close_of(ts, k + 2)
                    inner = ts[k + 3:z]
                    if inner[-4:] == [".", "iter", "(", ")"]:
                        other = env.ref(inner[:-4])
                        kind = "each_zip"
                        k = z + 1
                if ts[k:k + 4] == [".", "for_each", "(", "|"]:
                    z = close_of(ts, k + 2)
                    p2 = ts.index("|", k + 4)
                    saved = dict(env.names)  # the closure parameters are local to the closure
                    pattern_binders(ts[k + 4:p2], env)
                    body = ts[p2 + 1:z]
                    if body and body[0] == "{" and close_of(body, 0) == len(body) - 1:
                        body = body[1:-1]
                    ev.append(kind + " " + path + (" " + other if other else "") + " " + env.ref(ts[k + 4:p2]) + " [")
                    ev += strict(body, env)
                    ev.append("]")
                    env.names = saved
                    i = z + 1
                    continue
        # not understood: up to the next `;` at depth 0
        j, depth = i, 0
        while j < n and not (ts[j] == ";" and depth == 0):
            if ts[j] in "([{":
                depth += 1
            elif ts[j] in ")]}":
                depth -= 1
            j += 1
        ev.append("?" + env.ref(ts[i:j]))
        i = j + 1
    return ev


def anon(env, ts):
    """argument of a walk call inside a skeleton: the arm's node stays `@`, any other local is `_`"""
    ts = [t for t in ts if t not in ("&", "mut", "ref")]
    if not ts:
        return ""
    head = env.names.get(ts[0], ts[0])
    if head not in ("@", "state", "true", "false"):
        head = "_"
    return head + "".join(ts[1:])


KEYWORDS = ("if", "else", "loop", "match", "return", "break", "continue", "while", "for", "in", "let", "{", "}", "=>")


def skeleton(ts, env):
    """control skeleton of an arm / helper with real logic: keywords, braces, the calls on the
    tracker (`state.…` / `self.…`) and on the walk functions, in source order"""
    ev, i, n = [], 0, len(ts)
    while i < n:
        t = ts[i]
        if t in WALKERS and i + 1 < n and ts[i + 1] == "(":
            j = close_of(ts, i + 1)
            args = [anon(env, a) for a in split_args(ts[i + 2:j])]
            ev.append(WALKERS[t] + " " + " ".join(a for a in args if a != "state"))
            i = j + 1
            continue
        if t in ("state", "self") and ts[i + 1:i + 2] == ["."]:
            j = i + 2
            path = [ts[j]]
            j += 1
            while j + 1 < n and ts[j] == "." and re.match(r"[A-Za-z_]", ts[j + 1]):
                path.append(ts[j + 1])
                j += 2
            neg = "!" if i > 0 and ts[i - 1] == "!" else ""
            if j < n and ts[j] == "(":
                z = close_of(ts, j)
                ev.append(neg + "tracker." + ".".join(path) + "()")
                i = j + 1     # arguments are scanned too (nested calls)
                continue
            if j < n and ts[j] == "=" and ts[j + 1:j + 2] != ["="]:
                ev.append("tracker." + ".".join(path) + " =")
                i = j + 1
                continue
            ev.append(neg + "tracker." + ".".join(path))
            i = j
            continue
        if t in KEYWORDS:
            ev.append(t)
        elif t.startswith('"'):
            ev.append(t)
        elif t in ("true", "false", "Some", "None", "rev", "zip", "next", "unwrap_or", "is_none", "is_some",
                   "identify_call", "Block", "Function", "Var", "GetAttr", "Pos", "Kwarg", "PosSplat",
                   "KwargSplat", "contains", "insert", "any", "push", "pop", "last_mut"):
            ev.append(t)
        i += 1
    return ev


def binder_of(pat):
    s = "".join(pat)
    m = re.search(r"\((?:ref)?(\w+)\)$", s)
    return m.group(1) if m and m.group(1) != "_" and "|" not in s else None


def variants_of(pat):
    v = re.findall(r"ast::\w+::(\w+)", "".join(pat))
    return "|".join(v) if v else "".join(pat)


def match_rows(src, fn, scrutinee):
    body = fn_body(src, r"\bfn\s+%s\s*[<(]" % fn)
    inner = fn_body(body, r"match\s+%s\s*\{" % scrutinee)
    rows = []
    for cfg, pat, text in split_arms(toks(inner)):
        env = Env(binder_of(pat))
        ops = strict(text, env)
        if any(o.startswith("?") for o in ops):
            ops = ["~"] + skeleton(text, Env(binder_of(pat)))
        rows.append((variants_of(pat), cfg, ops))
    return rows


def helper_row(src, fn):
    body = fn_body(src, r"\bfn\s+%s\s*[<(]" % fn)
    return (fn, "", ["~"] + skeleton(toks(body), Env(None)))




def _rows_lean(name, rows):
    return (f"def {name} : List (String × String × List String) := [\n  " + ",\n  ".join(
        "(" + lean_str(v) + ", " + lean_str(c) + ", [" + ", ".join(lean_str(o) for o in ops) + "])"
        for v, c, ops in rows) + "]")


def _meta_src(repo):
    return strip_comments(read(repo, META_RS))


@item("C18_TRACK_WALK_ARMS")
def _twa(repo):
    rows = match_rows(_meta_src(repo), "track_walk", "node")
    if len(rows) < 15:
        raise KeyError("track_walk arms")
    return rows, _rows_lean("c18TrackWalkArms", rows)


@item("C18_VISIT_EXPR_ARMS")
def _vea(repo):
    rows = match_rows(_meta_src(repo), "tracker_visit_expr", "expr")
    if len(rows) < 12:
        raise KeyError("tracker_visit_expr arms")
    return rows, _rows_lean("c18VisitExprArms", rows)


@item("C18_TRACK_ASSIGN_ARMS")
def _taa(repo):
    rows = match_rows(_meta_src(repo), "track_assign", "expr")
    if len(rows) < 3:
        raise KeyError("track_assign arms")
    return rows, _rows_lean("c18TrackAssignArms", rows)


HELPERS = ["tracker_visit_macro", "tracker_visit_call", "tracker_visit_callarg", "tracker_visit_expr_opt",
           "find_macro_closure", "find_undeclared", "is_assigned", "assign", "assign_nested", "push", "pop"]


@item("C18_TRACKER_HELPERS")
def _th(repo):
    src = _meta_src(repo)
    rows = [helper_row(src, f) for f in HELPERS]
    return rows, _rows_lean("c18TrackerHelpers", rows)


# ---------------------------------------------------------------------------- run-time side of closures
def _events(body, patterns):
    """names of the patterns in the order in which they occur in `body`"""
    found = []
    for name, pat in patterns:
        for m in re.finditer(pat, body):
            found.append((m.start(), name))
    return [n for _, n in sorted(found)]


@item("C18_LOAD_ORDER")
def _lo(repo):
    """`Context::load`: the order in which a frame's parts are consulted, frames top-down, globals last"""
    src = strip_comments(read(repo, "minijinja/src/vm/context.rs"))
    body = fn_body(src, r"\bpub fn load\s*\(")
    ev = _events(body, [
        ("frames-top-down", r"self\s*\.\s*stack\s*\.\s*iter\s*\(\s*\)\s*\.\s*rev\s*\(\s*\)"),
        ("frames-bottom-up", r"self\s*\.\s*stack\s*\.\s*iter\s*\(\s*\)(?!\s*\.\s*rev)"),
        ("locals", r"\b\w+\s*\.\s*locals\s*\.\s*get\s*\("),
        ("loop", r"\b\w+\s*\.\s*current_loop"),
        ("closure", r"\b\w+\s*\.\s*closure_context"),
        ("context", r"\b\w+\s*\.\s*ctx\s*\.\s*get_attr_fast\s*\("),
        ("globals", r"self\s*\.\s*env\s*\.\s*get_global\s*\("),
    ])
    if "context" not in ev or "locals" not in ev:
        raise KeyError("Context::load")
    return ev, "def c18LoadOrder : List String := [" + ", ".join(lean_str(e) for e in ev) + "]"


@item("C18_MACRO_CALL_FRAMES")
def _mcf(repo):
    """`eval_macro`: how the context of a macro call is built"""
    src = strip_comments(read(repo, "minijinja/src/vm/mod.rs"))
    body = fn_body(src, r"\bpub\(crate\) fn eval_macro<'template>\s*\(")
    ev = _events(body, [
        ("base=clone_base", r"state\s*\.\s*ctx\s*\.\s*clone_base\s*\(\s*\)"),
        ("reset_with_frame(base)", r"ctx\s*\.\s*reset_with_frame\s*\(\s*Frame::new\s*\(\s*context_base\s*\)\s*\)"),
        ("closure_context=closure", r"closure_context\s*:\s*closure\b"),
        ("push_frame(closure_frame)", r"ctx\s*\.\s*push_frame\s*\(\s*closure_frame\s*\)"),
        ("store(caller)", r"ctx\s*\.\s*store\s*\([^;]*\"caller\""),
        ("swap-context", r"mem::replace\s*\(\s*&mut\s+state\s*\.\s*ctx\s*,\s*ctx\s*\)"),
        ("do_eval", r"Self::do_eval\s*\("),
    ])
    if "push_frame(closure_frame)" not in ev:
        raise KeyError("eval_macro")
    return ev, "def c18MacroCallFrames : List String := [" + ", ".join(lean_str(e) for e in ev) + "]"


@item("C18_MACRO_CODEGEN")
def _mcg(repo):
    """`compile_macro_expression` + `compile_macro`: closure analysis, `caller` flag, Enclose before
    BuildMacro before StoreLocal; `Context::enclose` pins a name even when it is undefined"""
    src = strip_comments(read(repo, CODEGEN))
    body = fn_body(src, r"\bfn\s+compile_macro_expression\s*\(")
    ev = _events(body, [
        ("defaults-back-to-front", r"defaults\s*\.\s*iter\s*\(\s*\)\s*\.\s*rev\s*\(\s*\)"),
        ("args-back-to-front", r"args\s*\.\s*iter\s*\(\s*\)\s*\.\s*rev\s*\(\s*\)"),
        ("default:compile_expr", r"self\s*\.\s*compile_expr\s*\(\s*default\s*\)"),
        ("arg:compile_assignment", r"self\s*\.\s*compile_assignment\s*\(\s*arg\s*\)"),
        ("body:compile_stmt", r"self\s*\.\s*compile_stmt\s*\(\s*node\s*\)"),
        ("Return", r"Instruction::Return"),
        ("find_macro_closure", r"meta::find_macro_closure\s*\(\s*macro_decl\s*\)"),
        ("caller=remove(caller)", r"undeclared\s*\.\s*remove\s*\(\s*\"caller\"\s*\)"),
        ("Enclose(each)", r"Instruction::Enclose\s*\(\s*name\s*\)"),
        ("GetClosure", r"Instruction::GetClosure"),
        ("MACRO_CALLER-if-caller", r"flags\s*\|=\s*MACRO_CALLER"),
        ("BuildMacro", r"Instruction::BuildMacro\s*\("),
    ])
    body2 = fn_body(src, r"\bfn\s+compile_macro\s*\(")
    ev += ["compile_macro:" + e for e in _events(body2, [
        ("compile_macro_expression", r"self\s*\.\s*compile_macro_expression\s*\("),
        ("StoreLocal(name)", r"Instruction::StoreLocal\s*\(\s*macro_decl\s*\.\s*name\s*\)"),
    ])]
    ctx = strip_comments(read(repo, "minijinja/src/vm/context.rs"))
    enc = fn_body(ctx, r"\bpub fn enclose\s*\(")
    ev += ["enclose:" + e for e in _events(enc, [
        ("if-missing", r"!\s*closures\s*\[\s*closure\s*\]\s*\.\s*contains_key\s*\(\s*key\s*\)"),
        ("load", r"self\s*\.\s*load\s*\(\s*closures\s*,\s*key\s*\)"),
        ("or-undefined", r"unwrap_or\s*\(\s*Value::UNDEFINED\s*\)|unwrap_or_default\s*\(\s*\)"),
        ("insert", r"closures\s*\[\s*closure\s*\]\s*\.\s*insert\s*\(\s*key\s*,\s*value\s*\)"),
    ])]
    if "Enclose(each)" not in ev or "enclose:insert" not in ev:
        raise KeyError("compile_macro_expression / Context::enclose")
    return ev, "def c18MacroCodegen : List String := [" + ", ".join(lean_str(e) for e in ev) + "]"


# ---------------------------------------------------------------------------- closure objects and closure fields
# Every place in minijinja/src that creates, reads, fills, detaches, clears or shares a closure object
# (`Closure` = BTreeMap in `State::closures`) or one of the closure fields (`Frame::closure`,
# `Frame::closure_context`, `Macro::closure`).  Rows `(file, function, operation)`:
#   map.<method>      a method called on one closure object: `closures[..].m(` / `|closure| closure.m(`
#   vec.<method>      a method called on the vector of closure objects: `closures.m(`
#   vec:=default      the vector is created (`closures: Default::default()`)
#   Closure::new      a closure object is created
#   frame.closure=<rhs> / frame.closure.take / frame.closure:read / frame.closure:=None (struct initialiser)
#   frame.closure_context:=<rhs> (struct initialiser) / frame.closure_context:read
#   macro.closure:=closure (struct initialiser of `Macro`) / macro.closure:read
# `MJ.C18.closure_sites_as_modelled` proves the model's table (`MJ/Model/MetaEsc.lean: closureSites`, every row
# assigned to an event of the closure heap machine) equal to these rows; a site that removes keys or objects
# (`map.clear`, `map.remove`, `vec.truncate`, …) or a new assignment to a closure field has no row there.
CLOSURE_FILES = ["minijinja/src/vm/context.rs", "minijinja/src/vm/mod.rs", "minijinja/src/vm/state.rs",
                 "minijinja/src/vm/macro_object.rs"]


def _enclosing_fn(fns, pos):
    name = "<top>"
    for p, f in fns:
        if p < pos:
            name = f
        else:
            break
    return name


def closure_sites(repo):
    import os
    rows = set()
    files = [f for f in _rs_files(repo) if f.startswith("minijinja/src/")]
    for must in CLOSURE_FILES:
        if must not in files:
            raise KeyError(must)
    for rel in files:
        src = _drop_test_modules(strip_comments(read(repo, rel)))
        if "closure" not in src and "Closure" not in src:
            continue
        fns = [(m.start(), m.group(1)) for m in re.finditer(r"\bfn\s+(\w+)\s*[<(]", src)]

        def add(pos, op):
            rows.add((rel, _enclosing_fn(fns, pos), op))
        # one closure object
        for m in re.finditer(r"\bclosures\s*\[[^\]]*\]\s*\.\s*(\w+)\s*\(", src):
            add(m.start(), "map." + m.group(1))
        for m in re.finditer(r"\|\s*closure\s*\|\s*closure\s*\.\s*(\w+)\s*\(", src):
            add(m.start(), "map." + m.group(1))
        for m in re.finditer(r"Some\s*\(\s*closure\s*\)\s*=\s*closures\s*\.\s*get\s*\([^)]*\)\s*\{(?P<body>[^}]*)\}", src):
            for k in re.finditer(r"\bclosure\s*\.\s*(\w+)\s*\(", m.group("body")):
                add(m.start(), "map." + k.group(1))
        # the vector of closure objects
        for m in re.finditer(r"\bclosures\s*\.\s*(\w+)\s*\(", src):
            add(m.start(), "vec." + m.group(1))
        for m in re.finditer(r"\bclosures\s*:\s*(Default::default\s*\(\s*\)|Vec::new\s*\(\s*\)|vec!\s*\[\s*\])", src):
            add(m.start(), "vec:=default")
        for m in re.finditer(r"\bclosures\s*=[^=]", src):
            add(m.start(), "vec=assigned")
        for m in re.finditer(r"\bClosure::new\s*\(", src):
            add(m.start(), "Closure::new")
        # closure fields of frames
        for m in re.finditer(r"\.\s*closure\s*=\s*([^;=][^;]*);", src):
            rhs = re.sub(r"\s+", "", m.group(1))
            add(m.start(), "frame.closure=" + rhs)
        for m in re.finditer(r"\.\s*closure\s*\.\s*(take|replace|insert|get_or_insert\w*)\s*\(", src):
            add(m.start(), "frame.closure." + m.group(1))
        for m in re.finditer(r"\b(?:top|_?frame|x|unwrap\s*\(\s*\))\s*\.\s*closure\b(?!\s*=[^=])(?!_)(?!\s*\.\s*(?:take|replace)\b)", src):
            add(m.start(), "frame.closure:read")
        for m in re.finditer(r"\b_?frame\s*\.\s*closure_context\b", src):
            add(m.start(), "frame.closure_context:read")
        # struct initialisers
        for m in re.finditer(r"\bclosure\s*:\s*(None|Some\s*\([^)]*\))\s*,", src):
            add(m.start(), "frame.closure:=" + re.sub(r"\s+", "", m.group(1)))
        for m in re.finditer(r"\bclosure_context\s*:\s*([^,\n]+),", src):
            rhs = re.sub(r"\s+", "", m.group(1))
            if rhs.startswith("Option<"):
                continue  # field declaration
            add(m.start(), "frame.closure_context:=" + rhs)
        # macro values
        for m in re.finditer(r"\bMacro\s*\{(?P<body>[^}]*)\}", src):
            k = re.search(r"\bclosure\s*(?::\s*([^,\n]+))?,", m.group("body"))
            if k and "Option<" not in (k.group(1) or ""):
                add(m.start(), "macro.closure:=" + re.sub(r"\s+", "", k.group(1) or "closure"))
        for m in re.finditer(r"\bself\s*\.\s*closure\b", src):
            add(m.start(), "macro.closure:read")
    return sorted(rows)


@item("C18_CLOSURE_SITES")
def _cs(repo):
    rows = closure_sites(repo)
    have = {(f, fn) for f, fn, _ in rows}
    for must in (("minijinja/src/vm/context.rs", "next_loop_item"), ("minijinja/src/vm/context.rs", "store"),
                 ("minijinja/src/vm/context.rs", "enclose"), ("minijinja/src/vm/mod.rs", "eval_macro"),
                 ("minijinja/src/vm/mod.rs", "build_macro")):
        if must not in have:
            raise KeyError("closure site %s::%s" % must)
    lean = "def c18ClosureSites : List (String × String × String) := [\n  " + ",\n  ".join(
        f"({lean_str(a)}, {lean_str(b)}, {lean_str(c)})" for a, b, c in rows) + "]"
    return [list(r) for r in rows], lean
