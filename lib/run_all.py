#!/usr/bin/env python3
"""run every claimed check (quick by default) and print a summary table; rc 1 if any alarms"""
import json, subprocess, sys, time, os
os.chdir(os.path.dirname(os.path.dirname(os.path.abspath(__file__))))
tier = sys.argv[1] if len(sys.argv) > 1 else "quick"
only = sys.argv[2:]  # optional ids
man = json.load(open("MANIFEST.json"))
bad = 0
for c in man["checks"]:
    pid = c["property_id"]
    if only and pid not in only:
        continue
    cmd = c["quick_cmd"] if tier == "quick" else c["thorough_cmd"]
    t = time.time()
    p = subprocess.run(cmd, shell=True, capture_output=True, text=True)
    lines = [l for l in p.stdout.splitlines() if l.startswith(("VIOLATION", "KNOWN-FINDING"))]
    summ = [l for l in p.stdout.splitlines() if l.startswith(f"[{pid}] obligations")]
    print(f"{pid} rc={p.returncode} {time.time()-t:6.1f}s {summ[-1] if summ else ''}")
    for l in lines:
        print("   ", l[:200])
    if p.returncode != 0:
        bad = 1
        print(p.stdout[-1500:]); print(p.stderr[-1500:])
sys.exit(bad)
