#!/usr/bin/env python3
"""usage: lib/mk_mutprompts.py <wave-number> [Cxx ...]
Writes /tmp/mutprompt-<Cxx>.txt for fresh mutation sub-agents (property text + scratch worktree
/tmp/mut-<cxx>-<wave> + hard-mode requirements + what earlier seeded changes of that property
needed).  The prompt contains nothing else from /verif."""
import json, glob, sys, os
V = os.path.dirname(os.path.dirname(os.path.abspath(__file__)))
wave = sys.argv[1]; only = sys.argv[2:]
props = {}
for l in open(f"{V}/properties.jsonl"):
    d = json.loads(l); props[d["id"]] = d
prev = {}
for f in sorted(glob.glob(f"{V}/seeded/C*/meta.json")):
    m = json.load(open(f)); prev.setdefault(m["property"], []).append(m.get("needs_to_manifest", "")[:230])
tmpl = open(f"{V}/lib/prompts/mutation_agent_template.txt").read()
for pid, d in props.items():
    if only and pid not in only:
        continue
    wt = f"/tmp/mut-{pid.lower()}-{wave}"
    kinds = "\n".join(f"  - {k}" for k in prev.get(pid, []))
    q = d["quantifier"]["text"] if isinstance(d["quantifier"], dict) else d["quantifier"]
    txt = (tmpl.replace("@WT@", wt).replace("@PID@", pid).replace("@pid@", pid.lower()).replace("@WAVE@", wave)
           .replace("@TITLE@", d["title"]).replace("@STATEMENT@", d["statement"]).replace("@QUANT@", q)
           .replace("@WHY@", d["why_tests_cant"]).replace("@ANCHORS@", json.dumps(d["anchors"])).replace("@KINDS@", kinds))
    open(f"/tmp/mutprompt-{pid}.txt", "w").write(txt)
    print(pid, wt)
