#!/bin/bash
# usage: lib/mutant_confirm.sh <worktree> [crate=minijinja] [extra cargo args, e.g. "--features fuel"]
# Confirms a seeded change: existing suite passes with it, demo fails with it and passes without.
WT=$1; CRATE=${2:-minijinja}; EXTRA=$3
cd $WT || exit 2
DEMO=$(ls */tests/test_mut_demo.rs 2>/dev/null | head -1)
[ -z "$DEMO" ] && { echo "no demo test found"; exit 2; }
echo "demo: $DEMO   changed: $(git diff --stat -- . ':(exclude)**/test_mut_demo.rs' | tail -1)"
mv $DEMO /tmp/_demo_aside.rs
S=$(cargo test -p $CRATE --offline --no-fail-fast $EXTRA 2>&1 | grep -E "^test result" | awk '{p+=$4; f+=$6} END {print "passed",p,"failed",f}')
echo "existing suite WITH change: $S"
mv /tmp/_demo_aside.rs $DEMO
W=$(cargo test -p $CRATE --offline $EXTRA --test test_mut_demo 2>&1 | grep -E "^test result")
echo "demo WITH change: $W"
git diff -- . ':(exclude)**/test_mut_demo.rs' > /tmp/_mc_patch.diff; git apply -R /tmp/_mc_patch.diff
O=$(cargo test -p $CRATE --offline $EXTRA --test test_mut_demo 2>&1 | grep -E "^test result")
echo "demo WITHOUT change: $O"
git apply /tmp/_mc_patch.diff
git status --short | head -5
