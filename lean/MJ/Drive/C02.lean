import MJ.Model.Safe
/-! Line driver for C02.  Input line: `<id>\t<step>|<step>|…` with steps

  D <cps>            data string            R <cps>     template text
  I <n>  B <0|1>  N  U                      L <i,j,…|->  list of registers
  E <m> <i>          emit register i in mode m ∈ {h,n,j}
  BC  EC <m>  MR <m> begin capture / end capture / macro return
  A <name> <m> <i,j,…|-> <p,q,…|->   apply the named operator/filter model to registers, numeric parameters

`<cps>` = decimal code points joined by `.`, `-` for the empty string.
A line `?class\t<name>` is answered with the safety class of that filter/function (`classOf`).
Output line: `<id>\tOK\t<last register>\t<output cps>\t<taint-ok>` or `<id>\tERR` (the model
reports an engine error) or `<id>\tBAD <why>` (malformed case). -/
open MJ MJ.Safe

def parseCps (s : String) : Option String :=
  if s = "-" then some "" else
    ((s.splitOn ".").mapM fun (t : String) => t.toNat?.map Char.ofNat).map String.ofList

def parseNats (s : String) : Option (List Nat) :=
  if s = "-" then some [] else (s.splitOn ",").mapM fun (t : String) => t.toNat?

def parseMode : String → Option Mode
  | "h" => some .html
  | "n" => some .none
  | "j" => some .json
  | _ => none

def parseStep (s : String) : Except String Step :=
  match s.splitOn " " with
  | ["D", c] => match parseCps c with | some x => .ok (.data x) | none => .error "D"
  | ["R", c] => match parseCps c with | some x => .ok (.raw x) | none => .error "R"
  | ["I", n] => match n.toInt? with | some x => .ok (.int x) | none => .error "I"
  | ["B", b] => .ok (.bool (b == "1"))
  | ["N"] => .ok .none
  | ["U"] => .ok .undef
  | ["L", is] => match parseNats is with | some x => .ok (.mkSeq x) | none => .error "L"
  | ["E", m, i] => match parseMode m, i.toNat? with | some m, some i => .ok (.emit m i) | _, _ => .error "E"
  | ["BC"] => .ok .beginCapture
  | ["EC", m] => match parseMode m with | some m => .ok (.endCapture m) | none => .error "EC"
  | ["MR", m] => match parseMode m with | some m => .ok (.macroReturn m) | none => .error "MR"
  | ["A", name, m, is, ps] =>
    match parseMode m, parseNats is, parseNats ps with
    | some m, some is, some ps =>
      match lookupF name m ps with
      | some (g, _) => .ok (.apply g is)
      | none => .error s!"unknown model {name}"
    | _, _, _ => .error "A"
  | _ => .error s!"step {s}"

def encStr (s : TStr) : String :=
  if s.isEmpty then "-" else ".".intercalate (s.map fun ch => toString ch.c.toNat)

partial def encV : V → String
  | .str s true => "S1:" ++ encStr s
  | .str s false => "S0:" ++ encStr s
  | .int n => s!"I:{n}"
  | .bool b => if b then "B:1" else "B:0"
  | .none => "N"
  | .undef => "U"
  | .seq xs => "L(" ++ ";".intercalate (xs.map encV) ++ ")"

def className : Class → String
  | .modelled => "modelled"
  | .forward => "forward"
  | .normal => "normal"
  | .mapped => "mapped"
  | .markup => "markup"
  | .unbuilt c => "unbuilt:" ++ c

/-- index of the first step that reports an error -/
def failingStep : List Step → St → Nat → Nat
  | [], _, i => i
  | s :: rest, st, i =>
    match s.run st with
    | none => i
    | some st' => failingStep rest st' (i + 1)

def handle (line : String) : String :=
  match line.splitOn "\t" with
  | ["?class", name] =>
    match classOf name with
    | some c => s!"?class\t{name}\t{className c}"
    | none => s!"?class\t{name}\tunclassified"
  | [id, prog] =>
    match (prog.splitOn "|").mapM parseStep with
    | .error e => s!"{id}\tBAD {e}"
    | .ok steps =>
      match run steps {} with
      | none =>
        let k := failingStep steps {} 0
        s!"{id}\tERR\tstep {k}: {(prog.splitOn "|").getD k "?"}"
      | some st =>
        let last := match st.pool.getLast? with | some v => encV v | none => "-"
        let tok := if decide (Clean st.out) then "clean" else "TAINTED-META"
        s!"{id}\tOK\t{last}\t{encStr st.out}\t{tok}"
  | _ => "?\tBAD line"

partial def loop (h : IO.FS.Stream) (out : IO.FS.Stream) : IO Unit := do
  let line ← h.getLine
  if line.isEmpty then return ()
  out.putStrLn (handle (line.dropEndWhile (· == '\n')).toString)
  loop h out

def main : IO Unit := do
  loop (← IO.getStdin) (← IO.getStdout)
