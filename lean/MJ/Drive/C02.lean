import MJ.Model.SafeProg
import MJ.Model.SafeCheck
/-! Line driver for C02.  Input line: `<id>\t<step>|<step>|…` with steps

  D <cps>            data string            R <cps>     template text
  I <n>  B <0|1>  N  U  Y <b,b,…> bytes  F <cps> float text  O <cps> object text                      L <i,j,…|->  list of registers      K <key>=<i>,…  map of registers
  E <m> <i>          emit register i in mode m ∈ {h,n,j}
  BC  EC <m>  MR <m> begin capture / end capture / macro return
  A <name> <m> <i,j,…|-> <p,q,…|->   apply the named operator/filter model to registers, numeric parameters

`<cps>` = decimal code points joined by `.`, `-` for the empty string.
A line `?class\t<name>` is answered with the safety class of that filter/function (`classOf`).
Output line: `<id>\tOK\t<last register>\t<output cps>\t<taint-ok>` or `<id>\tERR` (the model
reports an engine error) or `<id>\tBAD <why>` (malformed case). -/
open MJ MJ.Safe

def parseCps (s : String) : Option String :=
  if s = "-" then some "" else
    ((s.splitOn ".").mapM fun (t : String) => t.toNat?.map Char.ofNat).map String.ofList

def parseNats (s : String) : Option (List Nat) :=
  if s = "-" then some [] else (s.splitOn ",").mapM fun (t : String) => t.toNat?

def parseMode : String → Option Mode
  | "h" => some .html
  | "n" => some .none
  | "j" => some .json
  | _ => none

def parseStep (s : String) : Except String Step :=
  match s.splitOn " " with
  | ["D", c] => match parseCps c with | some x => .ok (.data x) | none => .error "D"
  | ["R", c] => match parseCps c with | some x => .ok (.raw x) | none => .error "R"
  | ["I", n] => match n.toInt? with | some x => .ok (.int x) | none => .error "I"
  | ["B", b] => .ok (.bool (b == "1"))
  | ["Y", bs] => match parseNats bs with | some x => .ok (.value (.bytes x)) | none => .error "Y"
  | ["F", c] => match parseCps c with | some x => .ok (.value (.float x.toList)) | none => .error "F"
  | ["O", c] => match parseCps c with | some x => .ok (.value (.obj (ofData x))) | none => .error "O"
  | ["N"] => .ok .none
  | ["U"] => .ok .undef
  | ["L", is] => match parseNats is with | some x => .ok (.mkSeq x) | none => .error "L"
  | ["K", kis] =>
    if kis = "-" then .ok (.mkMap []) else
      match (kis.splitOn ",").mapM (fun (kv : String) => match kv.splitOn "=" with
        | [k, i] => (parseCps k).bind fun k => i.toNat?.map fun i => (k, i)
        | _ => none) with
      | some x => .ok (.mkMap x)
      | none => .error "K"
  | ["E", m, i] => match parseMode m, i.toNat? with | some m, some i => .ok (.emit m i) | _, _ => .error "E"
  | ["BC"] => .ok .beginCapture
  | ["EC", m] => match parseMode m with | some m => .ok (.endCapture m) | none => .error "EC"
  | ["MR", m] => match parseMode m with | some m => .ok (.macroReturn m) | none => .error "MR"
  | ["A", name, m, is, ps] =>
    match parseMode m, parseNats is, parseNats ps with
    | some m, some is, some ps =>
      match lookupF name m ps with
      | some (g, _) => .ok (.apply g is)
      | none => .error s!"unknown model {name}"
    | _, _, _ => .error "A"
  | _ => .error s!"step {s}"

def encStr (s : TStr) : String :=
  if s.isEmpty then "-" else ".".intercalate (s.map fun ch => toString ch.c.toNat)

partial def encV : V → String
  | .str s true => "S1:" ++ encStr s
  | .str s false => "S0:" ++ encStr s
  | .int n => s!"I:{n}"
  | .bool b => if b then "B:1" else "B:0"
  | .none => "N"
  | .undef => "U"
  | .seq xs => "L(" ++ ";".intercalate (xs.map encV) ++ ")"
  | .bytes bs => "Y:" ++ (if bs.isEmpty then "-" else ",".intercalate (bs.map toString))
  | .float cs => "F:" ++ encStr (floatText cs)
  | .obj t => "O:" ++ encStr t
  | .map kvs => "M(" ++ ";".intercalate (kvs.map fun kv => "S0:" ++ encStr (ofData kv.1) ++ "=" ++ encV kv.2) ++ ")"

def className : Class → String
  | .modelled => "modelled"
  | .forward => "forward"
  | .normal => "normal"
  | .mapped => "mapped"
  | .pieces => "pieces"
  | .select => "select"
  | .markup => "markup"
  | .unbuilt c => "unbuilt:" ++ c

/-- index of the first step that reports an error -/
def failingStep : List Step → St → Nat → Nat
  | [], _, i => i
  | s :: rest, st, i =>
    match s.run st with
    | none => i
    | some st' => failingStep rest st' (i + 1)

/-! ### programs as S-expressions

  prog  := (prog <main> (modes (<name> <h|n|j>)…) (fmt default|noneundef) tmpl…)
  tmpl  := (tmpl <name> <parent|_> (imports imp…) (pre stmt…) (macros macro…) stmt…)
  imp   := (mod <tmpl> <alias>) | (from <tmpl> (<name> <alias>)…)
  macro := (macro <name> (params <p>…) stmt…)
  stmt  := (text s) (emit e) (set n e) (setblock n (filt name p…)|(nofilt) stmt…) (filterblock name (ps p…) stmt…)
           (for v e <0|1> (body stmt…) (else stmt…)) (if e (then stmt…) (else stmt…)) (with n e stmt…)
           (callblock m (args e…) stmt…) (include name) (block name stmt…) (auto tru|fals|<s> stmt…)
  expr  := (var n) (lit s) (int i) (bool b) (none) (cat a b) (add a b) (mul a n) (filt name (ps p…) e…)
           (modcall alias m e…) (modvar alias x) (meth name (ps p…) recv e…) (index a k) (slice a x y) (attr a key) (list e…) (dict (key e)…) (call m e…) (caller) (super)
           (looprec e) (loopindex) (loopfirst) (not e) (cond c a b)
  ctx   := (ctx (name cv)…)   cv := (s str) (i n) (b 0|1) (n) (y <b,b,…|->) (f str) (o str) (l cv…) (m (key cv)…)
  all names and strings are code-point lists as above -/

inductive Sexp where
  | atom (s : String)
  | list (xs : List Sexp)
  deriving Inhabited

partial def parseSexps (cs : List Char) (acc : List Sexp) : Option (List Sexp × List Char) :=
  match cs with
  | [] => some (acc.reverse, [])
  | ')' :: rest => some (acc.reverse, ')' :: rest)
  | ' ' :: rest => parseSexps rest acc
  | '(' :: rest =>
    match parseSexps rest [] with
    | some (xs, ')' :: rest') => parseSexps rest' (Sexp.list xs :: acc)
    | _ => none
  | _ =>
    let tok := cs.takeWhile (fun c => c != ' ' && c != '(' && c != ')')
    parseSexps (cs.drop tok.length) (Sexp.atom (String.ofList tok) :: acc)

def parseSexp (s : String) : Option Sexp :=
  match parseSexps s.toList [] with
  | some ([x], []) => some x
  | _ => none

def sStr : Sexp → Option String
  | .atom a => parseCps a
  | _ => none
def sNat : Sexp → Option Nat
  | .atom a => a.toNat?
  | _ => none

mutual
partial def toExpr : Sexp → Option Expr
  | .list [.atom "var", n] => (sStr n).map .var
  | .list [.atom "lit", s] => (sStr s).map .lit
  | .list [.atom "int", .atom n] => n.toInt?.map .int
  | .list [.atom "bool", .atom b] => some (.bool (b == "1"))
  | .list [.atom "none"] => some .none
  | .list [.atom "cat", a, b] => do some (.cat (← toExpr a) (← toExpr b))
  | .list [.atom "add", a, b] => do some (.add (← toExpr a) (← toExpr b))
  | .list [.atom "mul", a, n] => do some (.mul (← toExpr a) (← sNat n))
  | .list (.atom "filt" :: name :: .list (.atom "ps" :: ps) :: args) => do
    some (.filt (← sStr name) (← ps.mapM sNat) (← args.mapM toExpr))
  | .list (.atom "meth" :: name :: .list (.atom "ps" :: ps) :: args) => do
    some (.meth (← sStr name) (← ps.mapM sNat) (← args.mapM toExpr))
  | .list [.atom "index", a, k] => do some (.index (← toExpr a) (← sNat k))
  | .list [.atom "slice", a, x, y] => do some (.slice (← toExpr a) (← sNat x) (← sNat y))
  | .list [.atom "attr", a, k] => do some (.attr (← toExpr a) (← sStr k))
  | .list (.atom "list" :: xs) => do some (.list (← xs.mapM toExpr))
  | .list (.atom "dict" :: kvs) => do
    some (.dict (← kvs.mapM fun (kv : Sexp) => match kv with
      | Sexp.list [k, e] => do some ((← sStr k), (← toExpr e))
      | _ => none))
  | .list (.atom "call" :: m :: args) => do some (.call (← sStr m) (← args.mapM toExpr))
  | .list (.atom "modcall" :: a :: m :: args) => do some (.modCall (← sStr a) (← sStr m) (← args.mapM toExpr))
  | .list [.atom "modvar", a, x] => do some (.modVar (← sStr a) (← sStr x))
  | .list [.atom "caller"] => some .caller
  | .list [.atom "super"] => some .super
  | .list [.atom "looprec", e] => do some (.loopRec (← toExpr e))
  | .list [.atom "loopindex"] => some .loopIndex
  | .list [.atom "loopfirst"] => some .loopFirst
  | .list [.atom "not", e] => do some (.not (← toExpr e))
  | .list [.atom "cond", c, a, b] => do some (.cond (← toExpr c) (← toExpr a) (← toExpr b))
  | _ => none

partial def toStmt : Sexp → Option Stmt
  | .list [.atom "text", s] => (sStr s).map .text
  | .list [.atom "emit", e] => (toExpr e).map .emit
  | .list [.atom "set", n, e] => do some (.set (← sStr n) (← toExpr e))
  | .list (.atom "setblock" :: n :: .list [.atom "nofilt"] :: body) => do
    some (.setBlock (← sStr n) none (← body.mapM toStmt))
  | .list (.atom "setblock" :: n :: .list (.atom "filt" :: name :: ps) :: body) => do
    some (.setBlock (← sStr n) (some ((← sStr name), (← ps.mapM sNat))) (← body.mapM toStmt))
  | .list (.atom "filterblock" :: name :: .list (.atom "ps" :: ps) :: body) => do
    some (.filterBlock (← sStr name) (← ps.mapM sNat) (← body.mapM toStmt))
  | .list [.atom "for", v, it, .atom r, .list (.atom "body" :: body), .list (.atom "else" :: els)] => do
    some (.forIn (← sStr v) (← toExpr it) (r == "1") (← body.mapM toStmt) (← els.mapM toStmt))
  | .list [.atom "if", c, .list (.atom "then" :: a), .list (.atom "else" :: b)] => do
    some (.ifE (← toExpr c) (← a.mapM toStmt) (← b.mapM toStmt))
  | .list (.atom "with" :: n :: e :: body) => do some (.withE (← sStr n) (← toExpr e) (← body.mapM toStmt))
  | .list (.atom "callblock" :: m :: .list (.atom "args" :: args) :: body) => do
    some (.callBlock (← sStr m) (← args.mapM toExpr) (← body.mapM toStmt))
  | .list [.atom "include", n] => (sStr n).map .incl
  | .list (.atom "block" :: n :: body) => do some (.block (← sStr n) (← body.mapM toStmt))
  | .list (.atom "auto" :: a :: body) => do
    let arg ← match a with
      | .atom "tru" => some AutoArg.tru
      | .atom "fals" => some AutoArg.fals
      | x => (sStr x).map AutoArg.str
    some (.auto arg (← body.mapM toStmt))
  | _ => none
end

def toMacro : Sexp → Option MacroDef
  | .list (.atom "macro" :: n :: .list (.atom "params" :: ps) :: body) => do
    some { name := (← sStr n), params := (← ps.mapM sStr), body := (← body.mapM toStmt) }
  | _ => none

def toImport : Sexp → Option ImportDecl
  | .list [.atom "mod", t, a] => do some (.asModule (← sStr t) (← sStr a))
  | .list (.atom "from" :: t :: ns) => do
    some (.names (← sStr t) (← ns.mapM fun (x : Sexp) => match x with
      | Sexp.list [n, a] => do some ((← sStr n), (← sStr a))
      | _ => none))
  | _ => none

def toTmpl : Sexp → Option Tmpl
  | .list (.atom "tmpl" :: n :: parent :: .list (.atom "imports" :: is) :: .list (.atom "pre" :: pre) :: .list (.atom "macros" :: ms) :: body) => do
    let par ← match parent with
      | .atom "_" => some none
      | x => (sStr x).map some
    some { name := (← sStr n), parent := par, imports := (← is.mapM toImport), pre := (← pre.mapM toStmt),
           macros := (← ms.mapM toMacro), body := (← body.mapM toStmt) }
  | _ => none

def toProg : Sexp → Option Prog
  | .list (.atom "prog" :: main :: .list (.atom "modes" :: ms) :: .list [.atom "fmt", .atom f] :: ts) => do
    let modes ← ms.mapM fun (x : Sexp) => match x with
      | Sexp.list [n, .atom m] => do some ((← sStr n), (← parseMode m))
      | _ => none
    some { main := (← sStr main), templates := (← ts.mapM toTmpl), modes := modes,
           fmt := if f == "noneundef" then .noneAsUndef else .default }
  | _ => none

partial def toCV : Sexp → Option CV
  | .list [.atom "s", s] => (sStr s).map .str
  | .list [.atom "i", .atom n] => n.toInt?.map .int
  | .list [.atom "b", .atom b] => some (.bool (b == "1"))
  | .list [.atom "n"] => some .none
  | .list [.atom "y", .atom bs] => (parseNats bs).map .bytes
  | .list [.atom "f", c] => (sStr c).map fun x => .float x.toList
  | .list [.atom "o", c] => (sStr c).map .obj
  | .list (.atom "l" :: xs) => (xs.mapM toCV).map .list
  | .list (.atom "m" :: kvs) =>
    (kvs.mapM fun (kv : Sexp) => match kv with
      | Sexp.list [k, v] => do some ((← sStr k), (← toCV v))
      | _ => none).map CV.map
  | _ => none

def toCtx : Sexp → Option (List (String × CV))
  | .list (.atom "ctx" :: kvs) =>
    kvs.mapM fun (kv : Sexp) => match kv with
      | Sexp.list [k, v] => do some ((← sStr k), (← toCV v))
      | _ => none
  | _ => none

def showSt (id : String) (st : St) : String :=
  let last := match st.pool.back? with | some v => encV v | none => "-"
  let tok := if decide (Clean st.out) then "clean" else "TAINTED-META"
  s!"{id}\tOK\t{last}\t{encStr st.out}\t{tok}"

def handle (line : String) : String :=
  match line.splitOn "\t" with
  | ["?class", name] =>
    match classOf name with
    | some c => s!"?class\t{name}\t{className c}"
    | none => s!"?class\t{name}\tunclassified"
  | [id, "PROG", strict, prog, ctx] =>
    match (parseSexp prog).bind toProg, (parseSexp ctx).bind toCtx with
    | some p, some c =>
      -- strict "2": the guarded interpreter first (success = the run stays inside the fragment of the
      -- theorem: every expression is written under Html or into an opaque target, no Json mode, no
      -- `safe`/`tojson`); otherwise the unguarded one
      -- last field: does the decision procedure `progOkB` (sound for the syntactic class `ProgOk`) accept it?
      let syn := if strict == "2" then (if progOkB p then "\tprogok" else "\tnotprogok") else ""
      match execProg (strict != "0") p c with
      | some st => showSt id st ++ (if strict == "2" then "\tfragment" else "") ++ syn
      | none =>
        if strict == "2" then
          match execProg false p c with
          | some st => showSt id st ++ "\toutside" ++ syn
          | none => s!"{id}\tERR"
        else s!"{id}\tERR"
    | none, _ => s!"{id}\tBAD program"
    | _, none => s!"{id}\tBAD context"
  | [id, "BLOCK", strict, block, prog, ctx] =>
    match (parseSexp prog).bind toProg, (parseSexp ctx).bind toCtx, parseCps block with
    | some p, some c, some b =>
      match execBlock (strict != "0") p b c with
      | some st => showSt id st ++ (if strict == "2" then "\tfragment" else "")
      | none =>
        if strict == "2" then
          match execBlock false p b c with
          | some st => showSt id st ++ "\toutside"
          | none => s!"{id}\tERR"
        else s!"{id}\tERR"
    | _, _, _ => s!"{id}\tBAD block case"
  | [id, "EXPR", strict, e, ctx] =>
    match (parseSexp e).bind toExpr, (parseSexp ctx).bind toCtx with
    | some e, some c =>
      match execExpr (strict == "1") e c with
      | some (v, st) => s!"{id}\tOK\t{encV v}\t{encStr st.out}\t{if decide (Clean st.out) then "clean" else "TAINTED-META"}"
      | none => s!"{id}\tERR"
    | _, _ => s!"{id}\tBAD expression case"
  | [id, prog] =>
    match (prog.splitOn "|").mapM parseStep with
    | .error e => s!"{id}\tBAD {e}"
    | .ok steps =>
      match run steps {} with
      | none =>
        let k := failingStep steps {} 0
        s!"{id}\tERR\tstep {k}: {(prog.splitOn "|").getD k "?"}"
      | some st => showSt id st
  | _ => "?\tBAD line"

partial def loop (h : IO.FS.Stream) (out : IO.FS.Stream) : IO Unit := do
  let line ← h.getLine
  if line.isEmpty then return ()
  out.putStrLn (handle (line.dropEndWhile (· == '\n')).toString)
  loop h out

def main : IO Unit := do
  loop (← IO.getStdin) (← IO.getStdout)
