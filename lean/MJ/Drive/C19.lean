import MJ.Model.Output
/-! Line driver for C19.

`prog<TAB>pid api clean chunks`   — `chunks` = comma separated hex strings (`-` = none): the chunks
                                     of a clean run; `clean` = `ok` or `err` (the clean run ends with
                                     an error that is not about the output)
`case<TAB>pid api script`         — `script` = comma separated `A` `S<k>` `H` `E<kind>.<id>`, each
                                     optionally `*<n>` (`-` = empty): behaviour of the sink per call
Answer per case: `calls=<n> acc=<bytes> sum=<checksum of delivered> dig=<digest of the call log> res=<result>`.
-/
open MJ MJ.Output

def hexVal (c : Char) : Nat :=
  if '0' ≤ c ∧ c ≤ '9' then c.toNat - '0'.toNat
  else if 'a' ≤ c ∧ c ≤ 'f' then c.toNat - 'a'.toNat + 10 else 0

def unhexAux : List Char → List UInt8
  | a :: b :: rest => UInt8.ofNat (hexVal a * 16 + hexVal b) :: unhexAux rest
  | _ => []

def unhex (s : String) : Bytes := unhexAux s.toList

def parseChunks (s : String) : List Op :=
  if s = "-" then [] else (s.splitOn ",").map (fun h => Op.write (.str (unhex h)))

def kindOf (s : String) : Option IoKind :=
  if s = "bp" then some .brokenPipe else if s = "ot" then some .other
  else if s = "wb" then some .wouldBlock else if s = "in" then some .interrupted
  else if s = "to" then some .timedOut else if s = "wz" then some .writeZero else none

def kindName : IoKind → String
  | .brokenPipe => "bp" | .other => "ot" | .wouldBlock => "wb"
  | .interrupted => "in" | .writeZero => "wz" | .timedOut => "to"

def kindCode : IoKind → Nat
  | .brokenPipe => 1 | .other => 2 | .wouldBlock => 3
  | .interrupted => 4 | .writeZero => 5 | .timedOut => 6

def parseBeh (t : String) : Option Beh :=
  if t = "A" then some .all
  else if t = "H" then some .half
  else if t.startsWith "S" then (t.drop 1).toString.toNat?.map Beh.accept
  else if t.startsWith "E" then
    match (t.drop 1).toString.splitOn "." with
    | [k, id] =>
      match kindOf k, id.toNat? with
      | some k, some id => some (.err ⟨k, id⟩)
      | _, _ => none
    | _ => none
  else none

def parseTok (t : String) : Option (List Beh) :=
  match t.splitOn "*" with
  | [b] => (parseBeh b).map fun x => [x]
  | [b, n] =>
    match parseBeh b, n.toNat? with
    | some x, some n => some (List.replicate n x)
    | _, _ => none
  | _ => none

def parseScript (s : String) : Option (List Beh) :=
  if s = "-" then some [] else
  (s.splitOn ",").foldr (fun t acc => match parseTok t, acc with
    | some xs, some ys => some (xs ++ ys)
    | _, _ => none) (some [])

def modP : Nat := 4294967291

def sumBytes (bs : Bytes) : Nat := bs.foldl (fun s b => (s * 31 + b.toNat + 1) % modP) 0

def callCode (c : Call) : Nat :=
  match c.res with
  | .ok n => 2 * n
  | .err e => 2 * (e.id * 8 + kindCode e.kind) + 1

def digest (cs : List Call) : Nat :=
  cs.foldl (fun d c => (d * 1000003 + c.offered.length * 8191 + callCode c) % modP) 7

def showRes : Chk (Except Err Unit) → String
  | .panic => "panic"
  | .ok (.ok ()) => "ok"
  | .ok (.error (.writeFailure (some e))) => s!"wf:{kindName e.kind}:{e.id}"
  | .ok (.error (.writeFailure none)) => "wfnone"
  | .ok (.error _) => "other"

def answer (ops : List Op) (script : List Beh) : String :=
  let o := renderTo ops script
  let d := delivered o.calls
  s!"calls={o.calls.length} acc={d.length} sum={sumBytes d} dig={digest o.calls} res={showRes o.result}"

partial def loop (h : IO.FS.Stream) (out : IO.FS.Stream) (ops : List Op) : IO Unit := do
  let line ← h.getLine
  if line.isEmpty then return ()
  let line := (line.dropEndWhile (· == '\n')).toString
  let fields := line.splitOn "\t"
  match fields with
  | "prog" :: key :: _ =>
    match key.splitOn " " with
    | [_pid, _api, clean, chunks] =>
      let ops := parseChunks chunks ++ (if clean = "ok" then [] else [Op.fail 0])
      let o := renderString ops
      out.putStrLn s!"prog\t{key}\tchunks={(chunksOf ops).length} bytes={o.buf.length} sum={sumBytes o.buf}"
      loop h out ops
    | _ =>
      out.putStrLn s!"prog\t{key}\tbad-case"
      loop h out ops
  | "case" :: key :: _ =>
    match key.splitOn " " with
    | [_pid, _api, script] =>
      match parseScript script with
      | some sc => out.putStrLn s!"case\t{key}\t{answer ops sc}"
      | none => out.putStrLn s!"case\t{key}\tbad-script"
    | _ => out.putStrLn s!"case\t{key}\tbad-case"
    loop h out ops
  | _ =>
    out.putStrLn s!"?\t{line}\tbad-line"
    loop h out ops

def main : IO Unit := do
  loop (← IO.getStdin) (← IO.getStdout) []
