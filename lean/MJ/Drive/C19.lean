import MJ.Model.OutputEmit
import MJ.Model.OutputSites
/-! Line driver for C19.

`prog<TAB>pid api clean ops [psyn]`
   `ops`   = the REAL output operations of the clean run, recorded by the `verif_hooks::output`
             log of the engine (root `Output` only), comma separated (`-` = none):
               `w<r>:<hex>[!]`  write_str   `c<r>:<hex>[!]`  write_char     (`!` = returned Err)
                  `<r>` = where the engine routed it: `s` base writer, `k<d>` capture buffer at
                  stack depth d, `d<d>` discarded at stack depth d
               `b0` begin_capture(Capture)  `b1` begin_capture(Discard)
               `e:<hex>` end_capture → string   `e-` end_capture → undefined (discard)
               `n0` include starts  `n1` super starts  `l` nested evaluation returned Ok
               `m…` an `Emit` (ignored by the model)
   `clean` = `ok` | `err` (the clean run ends with an error that is not about the output)
   `psyn`  = optional structured program (see `parsePSyn`)
   answer: `chunks=<sink calls of a clean run> bytes= sum= route=ok:<writes>:<captures>|bad@<i> flat=<na|same|erased-same|differ>`
           (`route`: the model's capture stack routes every write where the engine did and pops the
           value the engine popped; `flat`: `flatten (toProg psyn)` equals the real operations)
`case<TAB>pid api script`   — `script` = comma separated `A` `S<k>` `H` `E<kind>.<id>`, each
                              optionally `*<n>` (`-` = empty): behaviour of the sink per call
                              `E<kind>.<id>.<form>`: how the sink built the error (`parseForm`); the
                              answer's `res=wf:<kind>:<id>:<form>` is the token the model's boundary
                              returns as source — the harness reads the same three off the real error
   answer: `calls= acc= sum= dig= res= ops=<operations executed>`; for structured programs the
   answer is computed by the big-step `exec` of the `Prog` term, otherwise by `run` on the real ops.
-/
open MJ MJ.Output

def hexVal (c : Char) : Nat :=
  if '0' ≤ c ∧ c ≤ '9' then c.toNat - '0'.toNat
  else if 'a' ≤ c ∧ c ≤ 'f' then c.toNat - 'a'.toNat + 10 else 0

def unhexAux : List Char → List UInt8
  | a :: b :: rest => UInt8.ofNat (hexVal a * 16 + hexVal b) :: unhexAux rest
  | _ => []

def unhex (s : String) : Bytes := unhexAux s.toList

/-! ## annotated real operations -/

inductive Route where
  | base | cap (d : Nat) | disc (d : Nat)
  deriving DecidableEq, Repr

structure AOp where
  op : Op
  route : Option Route := none            -- writes: where the engine routed it
  endVal : Option (Option Bytes) := none  -- end_capture: what the engine popped
  deriving Repr

def parseRoute (s : String) : Option Route :=
  if s = "s" then some .base
  else if s.startsWith "k" then (s.drop 1).toString.toNat?.map Route.cap
  else if s.startsWith "d" then (s.drop 1).toString.toNat?.map Route.disc
  else none

/-- `none` = token without model counterpart (`m…`); `some none` = unparsable -/
def parseOpTok (t : String) : Option (Option AOp) :=
  if t.startsWith "m" then none
  else if t = "b0" then some (some { op := .beginCapture false })
  else if t = "b1" then some (some { op := .beginCapture true })
  else if t = "e-" then some (some { op := .endCapture, endVal := some none })
  else if t.startsWith "e:" then some (some { op := .endCapture, endVal := some (some (unhex (t.drop 2).toString)) })
  else if t = "n0" then some (some { op := .enter .badInclude })
  else if t = "n1" then some (some { op := .enter .evalBlock })
  else if t = "l" then some (some { op := .leave })
  else if t.startsWith "w" ∨ t.startsWith "c" then
    let t' := if t.endsWith "!" then (t.dropEnd 1).toString else t
    match (t'.drop 1).toString.splitOn ":" with
    | [r, h] =>
      match parseRoute r with
      | some r =>
        let bytes := unhex h
        some (some { op := .write (if t.startsWith "w" then .str bytes else .chr bytes), route := some r })
      | none => some none
    | _ => some none
  else some none

def parseOps (s : String) : Option (List AOp) :=
  if s = "-" then some [] else
  (s.splitOn ",").foldr (fun t acc =>
    match parseOpTok t, acc with
    | none, acc => acc
    | some (some a), some xs => some (a :: xs)
    | _, _ => none) (some [])

def routeOf (stack : List (Option Bytes)) : Route :=
  match stack with
  | [] => .base
  | some _ :: _ => .cap stack.length
  | none :: _ => .disc stack.length

/-- walk the real operations with the model's `Output` and compare the engine's annotations -/
def checkRoutes : List AOp → Out (List Chunk) → Nat → Nat → Nat → String
  | [], _, _, nw, ne => s!"ok:{nw}:{ne}"
  | a :: rest, o, i, nw, ne =>
    match a.op with
    | .write c =>
      if a.route ≠ some (routeOf o.stack) then s!"bad@{i}"
      else checkRoutes rest (o.write c).1 (i + 1) (nw + 1) ne
    | .beginCapture d => checkRoutes rest (o.beginCapture d) (i + 1) nw ne
    | .endCapture =>
      match o.endCapture with
      | .panic => s!"bad@{i}"
      | .ok (o', v) =>
        if a.endVal ≠ some v then s!"bad@{i}" else checkRoutes rest o' (i + 1) nw (ne + 1)
    | _ => checkRoutes rest o (i + 1) nw ne

/-! ## structured programs -/

inductive Xf where
  | id | upper | lower
  deriving Repr

def Xf.apply (x : Xf) (b : Bytes) : Bytes :=
  match x with
  | .id => b
  | .upper => b.map fun c => if 97 ≤ c.toNat ∧ c.toNat ≤ 122 then UInt8.ofNat (c.toNat - 32) else c
  | .lower => b.map fun c => if 65 ≤ c.toNat ∧ c.toNat ≤ 90 then UInt8.ofNat (c.toNat + 32) else c

/-- first-order syntax of the structured programs the harness generates (as executed: includes,
    macros, blocks and super calls already resolved into nested terms) -/
inductive PSyn where
  | text (s : Bytes)                      -- `T<hex>`        raw template text
  | set (v : Nat) (body : List PSyn)      -- `S<v>(` … `)`   {% set v %}…{% endset %}
  | use (v : Nat) (x : Xf)                -- `U<v><x>`       {{ v }} / {{ v|upper }} / {{ v|lower }}
  | filt (x : Xf) (body : List PSyn)      -- `F<x>(` … `)`   capture the body, emit x(value): filter block, `super()|x`
  | mac (x : Xf) (body : List PSyn)       -- `M<x>(` … `)`   evaluate the body on an `Output` of its own, emit x(value): macro call, `caller()`
  | callfn (body : List PSyn)             -- `R(` … `)`      a template function renders a block (= body) on an `Output` of its own, returns ""
  | nest (w : Wrap) (body : List PSyn)    -- `N0(`/`N1(` … `)` include / super()
  | disc (body : List PSyn)               -- `D(` … `)`      output of the child template of an `extends`
  | loop (n : Nat) (body : List PSyn)     -- `L<n>(` … `)`   {% for _ in range(n) %}
  | fail                                  -- `X`             a runtime error

instance : Inhabited PSyn := ⟨.fail⟩
instance : Inhabited Prog := ⟨.skip⟩

def parseXf (s : String) : Xf := if s = "u" then .upper else if s = "l" then .lower else .id

partial def parsePSeq : List String → List PSyn × List String
  | [] => ([], [])
  | ")" :: rest => ([], rest)
  | t :: rest =>
    let (item, rest') : PSyn × List String :=
      if t.startsWith "T" then (.text (unhex (t.drop 1).toString), rest)
      else if t = "X" then (.fail, rest)
      else if t.startsWith "U" then
        let body := (t.drop 1).toString
        (.use ((body.dropEnd 1).toString.toNat?.getD 0) (parseXf (body.takeEnd 1).toString), rest)
      else if t.startsWith "S" then
        let (b, r) := parsePSeq rest
        (.set (((t.drop 1).toString.dropEnd 1).toString.toNat?.getD 0) b, r)
      else if t.startsWith "F" then
        let (b, r) := parsePSeq rest
        (.filt (parseXf ((t.drop 1).toString.dropEnd 1).toString) b, r)
      else if t.startsWith "M" then
        let (b, r) := parsePSeq rest
        (.mac (parseXf ((t.drop 1).toString.dropEnd 1).toString) b, r)
      else if t = "N0(" then let (b, r) := parsePSeq rest; (.nest .badInclude b, r)
      else if t = "N1(" then let (b, r) := parsePSeq rest; (.nest .evalBlock b, r)
      else if t = "D(" then let (b, r) := parsePSeq rest; (.disc b, r)
      else if t = "R(" then let (b, r) := parsePSeq rest; (.callfn b, r)
      else if t.startsWith "L" then
        let (b, r) := parsePSeq rest
        (.loop (((t.drop 1).toString.dropEnd 1).toString.toNat?.getD 0) b, r)
      else (.fail, rest)
    let (items, rest'') := parsePSeq rest'
    (item :: items, rest'')

def parsePSyn (s : String) : List PSyn := (parsePSeq (s.splitOn ".")).1

abbrev Env := List (Nat × Bytes)

def Env.get (e : Env) (v : Nat) : Bytes := ((e.find? (·.1 == v)).map (·.2)).getD []

/-- translation to the `Prog` of the model: `k` is what follows (given the environment then) -/
partial def toProg (items : List PSyn) (env : Env) (k : Env → Prog) : Prog :=
  match items with
  | [] => k env
  | .text s :: rest => .seq (.emit (.str s)) (toProg rest env k)
  | .use v x :: rest => .seq (.emit (.str (x.apply (env.get v)))) (toProg rest env k)
  | .fail :: _ => .fail (.other 0)
  | .set v body :: rest =>
    .capture false (toProg body env fun _ => .skip) fun val => toProg rest ((v, val.getD []) :: env) k
  | .filt x body :: rest =>
    .capture false (toProg body env fun _ => .skip) fun val =>
      .seq (.emit (.str (x.apply (val.getD [])))) (toProg rest env k)
  | .mac x body :: rest =>
    .own .string (toProg body env fun _ => .skip) fun val =>
      .seq (.emit (.str (x.apply val))) (toProg rest env k)
  | .callfn body :: rest =>
    .own .string (toProg body [] fun _ => .skip) fun _ => .seq (.emit (.str [])) (toProg rest env k)
  | .nest w body :: rest => .seq (.nested w (toProg body env fun _ => .skip)) (toProg rest env k)
  | .disc body :: rest => .capture true (toProg body env fun _ => .skip) fun _ => toProg rest env k
  | .loop n body :: rest =>
    toProg ((List.replicate n body).flatten ++ rest) env k

def toProgTop (items : List PSyn) : Prog := toProg items [] fun _ => .skip

/-! ## sink scripts -/

def kindOf (s : String) : Option IoKind :=
  if s = "bp" then some .brokenPipe else if s = "ot" then some .other
  else if s = "wb" then some .wouldBlock else if s = "in" then some .interrupted
  else if s = "to" then some .timedOut else if s = "wz" then some .writeZero else none

def kindName : IoKind → String
  | .brokenPipe => "bp" | .other => "ot" | .wouldBlock => "wb"
  | .interrupted => "in" | .writeZero => "wz" | .timedOut => "to"

def kindCode : IoKind → Nat
  | .brokenPipe => 1 | .other => 2 | .wouldBlock => 3
  | .interrupted => 4 | .writeZero => 5 | .timedOut => 6

/-- identity of the stand-in error of a panicking sink (`P`): unwinding stops the evaluation at
    that call exactly like an error does; the driver reports the result as `panic` -/
def panicId : Nat := 999983

/-- how the sink built its io::Error (third field of an `E` token; `s` when absent) -/
def parseForm (f : String) (k : IoKind) (id : Nat) : Option Payload :=
  if f = "s" then some .msg
  else if f = "k" then some .bare
  else if f = "r" then some (.os id)
  else if f = "c" then some .custom
  else if f = "mi" then some (.engine (.leaf .invalidOperation))
  else if f = "mu" then some (.engine (.leaf .undefinedError))
  else if f = "mw" then some (.engine (.leaf .writeFailure))
  else if f = "mt" then some (.engine (.leaf .templateNotFound))
  else if f = "mc" then some (.engine (.chain .invalidOperation (.leaf .undefinedError)))
  else if f = "mx" then some (.engine (.overIo .writeFailure k id))
  else if f = "i" then some (.io .other .msg)
  else none

def formName : Payload → String
  | .msg => "s" | .bare => "k" | .os _ => "r" | .custom => "c"
  | .engine (.leaf .invalidOperation) => "mi"
  | .engine (.leaf .undefinedError) => "mu"
  | .engine (.leaf .writeFailure) => "mw"
  | .engine (.leaf .templateNotFound) => "mt"
  | .engine (.chain _ _) => "mc"
  | .engine (.overIo _ _ _) => "mx"
  | .engine _ => "m?"
  | .io _ _ => "i"

def parseBeh (t : String) : Option Beh :=
  if t = "A" then some .all
  else if t = "P" then some (.err ⟨.other, panicId, .msg⟩)
  else if t = "H" then some .half
  else if t.startsWith "S" then (t.drop 1).toString.toNat?.map Beh.accept
  else if t.startsWith "E" then
    match (t.drop 1).toString.splitOn "." with
    | [k, id] =>
      match kindOf k, id.toNat? with
      | some k, some id => some (.err ⟨k, id, .msg⟩)
      | _, _ => none
    | [k, id, f] =>
      match kindOf k, id.toNat? with
      | some k, some id => (parseForm f k id).map fun pl => .err ⟨k, id, pl⟩
      | _, _ => none
    | _ => none
  else none

def parseTok (t : String) : Option (List Beh) :=
  match t.splitOn "*" with
  | [b] => (parseBeh b).map fun x => [x]
  | [b, n] =>
    match parseBeh b, n.toNat? with
    | some x, some n => some (List.replicate n x)
    | _, _ => none
  | _ => none

def parseScript (s0 : String) : Option (List Beh) :=
  -- a leading `F` (the sink's `flush` fails) is no behaviour of `write`: the model has no flush
  let s := if s0 = "F" then "-" else if s0.startsWith "F," then (s0.drop 2).toString else s0
  if s = "-" then some [] else
  (s.splitOn ",").foldr (fun t acc => match parseTok t, acc with
    | some xs, some ys => some (xs ++ ys)
    | _, _ => none) (some [])

/-! ## answers -/

def modP : Nat := 4294967291

def sumBytes (bs : Bytes) : Nat := bs.foldl (fun s b => (s * 31 + b.toNat + 1) % modP) 0

def callCode (c : Call) : Nat :=
  match c.res with
  | .ok n => 2 * n
  | .err e => 2 * (e.id * 8 + kindCode e.kind) + 1

def digest (cs : List Call) : Nat :=
  cs.foldl (fun d c => (d * 1000003 + c.offered.length * 8191 + callCode c) % modP) 7

def showRes : Chk (Except Err Unit) → String
  | .panic => "panic"
  | .ok (.ok ()) => "ok"
  | .ok (.error (.writeFailure (some e))) =>
    if e.id = panicId then "panic" else s!"wf:{kindName e.kind}:{e.id}:{formName e.payload}"
  | .ok (.error (.writeFailure none)) => "wfnone"
  | .ok (.error _) => "other"

/-- number of operations the evaluation loop executes (the one that stops it included) -/
def countExec : List Op → St WriteWrapper → Nat → Nat
  | [], _, n => n
  | op :: ops, st, n =>
    match step op st with
    | (st', none) => countExec ops st' (n + 1)
    | (_, some _) => n + 1

/-! ## the `Emit` layer: pieces the model predicts for one emitted value -/

def parsePieces (s : String) : Pieces :=
  if s = "-" then [] else
  (s.splitOn ",").map fun t =>
    let b := unhex (t.drop 2).toString
    if t.startsWith "c" then Chunk.chr b else Chunk.str b

def showPieces (ops0 : List Op) : String :=
  -- only the writes; a trailing failure of the emit is visible in the run's result
  let ops := ops0.filter fun o => match o with | .write _ => true | _ => false
  if ops = [] then "-" else
  ",".intercalate (ops.map fun o => match o with
    | .write (.str b) => "w:" ++ String.join (b.map fun x => (String.singleton (Nat.digitChar (x.toNat / 16))) ++ String.singleton (Nat.digitChar (x.toNat % 16)))
    | .write (.chr b) => "c:" ++ String.join (b.map fun x => (String.singleton (Nat.digitChar (x.toNat / 16))) ++ String.singleton (Nat.digitChar (x.toNat % 16)))
    | .panic => "PANIC"
    | .fail _ => "FAIL"
    | _ => "?")

def optHex (s : String) : Option Bytes := if s.startsWith "=" then some (unhex (s.drop 1).toString) else none

/-- undo `HtmlEscape` (every `&` of the output starts a replacement of the table) -/
partial def unescapeHtml : Bytes → Bytes
  | [] => []
  | b :: rest =>
    match MJ.Gen.htmlEscapeTable.find? (fun r => r.2.toUTF8.toList.isPrefixOf (b :: rest)) with
    | some r => UInt8.ofNat r.1.toNat :: unescapeHtml ((b :: rest).drop r.2.toUTF8.toList.length)
    | none => b :: unescapeHtml rest

/-- `key` = `id ae repr d|c text value`; answer = `det=<1|0> <pieces>`: the pieces the model's
    `emitOps` yields; `det=0` when they are copied from the engine's (code outside minijinja's
    source decides them) -/
def emitAnswer (key pieces : String) : String :=
  match key.splitOn " " with
  | [_id, ae, repr, fmt, text, value] =>
    let real := parsePieces pieces
    let realBytes := (real.map Chunk.bytes).flatten
    let text := optHex text
    let value := optHex value
    let aeM : AE := if ae = "html" then .html else if ae = "json" then .json else if ae = "none" then .none else .custom
    if fmt = "c" then s!"det=0 {showPieces (compile [.emitCustom real false])}" else
    let isNat := (repr = "U64" ∨ repr = "I64") ∧ (text.getD []).all (fun c => 48 ≤ c.toNat ∧ c.toNat ≤ 57)
    let (v, det) : Val × Bool :=
      if repr = "SafeString" then (.safe (value.getD []), true)
      else if repr = "String" ∨ repr = "SmallStr" then (.str (value.getD []), true)
      else if repr = "Bool" then (.bool (text = some "True".toUTF8.toList), true)
      else if isNat then
        let n := ((String.fromUTF8! ⟨(text.getD []).toArray⟩).toNat?).getD 0
        (.nat n (text.getD []) real, aeM = .html ∧ n < MJ.Gen.c19SmallIntLimit)
      else if repr = "Object" then
        -- the text `to_string()` collects is not logged for objects: recover it from the output
        (.other real false (if aeM = .html then unescapeHtml realBytes else realBytes), aeM = .html)
      else if repr = "Bytes" then (.other real false (text.getD []), aeM = .html)
      else (.display real, false)
    let det := det ∨ aeM = .json ∨ aeM = .custom
    let ops := emitOps aeM v (if aeM = .json then some realBytes else none)
    s!"det={if det then 1 else 0} {showPieces ops}"
  | _ => "bad-emit"

structure Cur where
  ops : List Op := []
  nReal : Nat := 0            -- number of real operations (without the synthetic `fail`)
  prog : Option Prog := none

/-- which of the two functions that build a `WriteWrapper` an API of the harness goes through -/
def apiOf (api : String) : Api :=
  if api.startsWith "block:" || api.startsWith "ublock:" || api.startsWith "cblock:" || api.startsWith "fn:" then .blockToWrite
  else .capturedTo

/-- The flat renders are answered by the model WITH SWITCHES instantiated with the facts the
    regenerated tables state about the source (`codeFacts`: sticky guard and error store of both
    adapter methods, `check`/`take_err` at the entry point the API goes through, propagation at
    the write sites): if the source loses one of them, the table changes, `code_facts_hold`
    breaks, and this answer is what the model predicts for the source as it then is. -/
def answer (cur : Cur) (api : String) (script : List Beh) : String :=
  let sx : List SXOp := cur.ops.map (SXOp.op 0)
  let o := match cur.prog with
    | some p => renderProgTo p script
    | none => renderToF codeFacts (apiOf api) sx script
  let d := delivered o.calls
  let n := min (execCountF codeFacts sx script) cur.nReal
  s!"calls={o.calls.length} acc={d.length} sum={sumBytes d} dig={digest o.calls} res={showRes o.result} ops={n}"

/-- `clean`: the real run completed (otherwise the real operations, ending with the failure, only
    have to be a prefix of the flattening: nothing after the failure is executed) -/
def flatVerdict (p : Prog) (real : List Op) (clean : Bool) : String :=
  -- which error ends the run is not part of the operation log (the harness only says that the run
  -- failed): an error that comes out of an `Output` of its own arrives wrapped already
  let f := (flatten p).map fun o => match o with | .fail _ => Op.fail (.other 0) | o => o
  let eq (a b : List Op) : Bool := if clean then a == b else b.isPrefixOf a
  if eq f real then "same"
  else if eq (erase 0 f) (erase 0 real) then "erased-same"
  else "differ"

partial def loop (h : IO.FS.Stream) (out : IO.FS.Stream) (cur : Cur) : IO Unit := do
  let line ← h.getLine
  if line.isEmpty then return ()
  let line := (line.dropEndWhile (· == '\n')).toString
  let fields := line.splitOn "\t"
  match fields with
  | "prog" :: key :: _ =>
    let parts := key.splitOn " "
    match parts with
    | _pid :: _api :: clean :: opsS :: more =>
      match parseOps opsS with
      | some aops =>
        let real := aops.map (·.op)
        let ops := real ++ (if clean = "ok" then [] else if clean = "wfnone" then [Op.fail Err.fromFmt]
          else if clean = "panic" then [Op.panic] else [Op.fail (.other 0)])
        let o := renderString ops
        let route := checkRoutes aops ⟨[], []⟩ 0 0 0
        let prog := match more with
          | [ps] => if ps = "-" then none else some (toProgTop (parsePSyn ps))
          | _ => none
        let flat := match prog with
          | some p => flatVerdict p ops (clean = "ok")
          | none => "na"
        out.putStrLn s!"prog\t{key.take 60}\tchunks={(renderTo ops []).calls.length} bytes={o.buf.length} sum={sumBytes o.buf} route={route} flat={flat}"
        loop h out { ops := ops, nReal := real.length, prog := prog }
      | none =>
        out.putStrLn s!"prog\t{key.take 60}\tbad-ops"
        loop h out cur
    | _ =>
      out.putStrLn s!"prog\t{key.take 60}\tbad-case"
      loop h out cur
  | "case" :: key :: _ =>
    match key.splitOn " " with
    | [_pid, api, script] =>
      match parseScript script with
      | some sc => out.putStrLn s!"case\t{key}\t{answer cur api sc}"
      | none => out.putStrLn s!"case\t{key}\tbad-script"
    | _ => out.putStrLn s!"case\t{key}\tbad-case"
    loop h out cur
  | "emit" :: key :: pieces :: _ =>
    out.putStrLn s!"emit\t{(key.splitOn " ").head!}\t{emitAnswer key pieces}"
    loop h out cur
  | tag :: key :: _ =>
    out.putStrLn s!"{tag}\t{key.take 60}\t-"
    loop h out cur
  | _ =>
    out.putStrLn s!"?\t{line.take 60}\tbad-line"
    loop h out cur

def main : IO Unit := do
  loop (← IO.getStdin) (← IO.getStdout) {}
