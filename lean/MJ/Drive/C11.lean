import MJ.Model.DepthAmb
/-! Line driver for C11: `<shape> <limit> <budget> <thread>` → `<case>\t<status>\t<hw_depth>\t<hw_native>`
    as predicted by the depth-accounting model (`MJ.Depth.predict*`). -/
open MJ.Depth

def parseEdge (s : String) : Option Edge :=
  match s.toList with
  | [k, w, f, x, n] =>
    if w.isDigit ∧ f.isDigit ∧ x.isDigit then
      some ⟨k, w.toNat - '0'.toNat, f.toNat - '0'.toNat, n, x.toNat - '0'.toNat⟩
    else none
  | _ => none

def parseEdges (s : String) : Option (Array Edge) :=
  (s.splitOn ",").foldl (fun acc e =>
    match acc, parseEdge e with
    | some a, some x => some (a.push x)
    | _, _ => none) (some #[])

def showPred : Pred → String
  | .ok m => s!"ok\t{m.depthHW}\t{m.nativeHW}"
  | .recursion m => s!"err:recursion\t{m.depthHW}\t{m.nativeHW}"
  | .other w => s!"model:{w}\t0\t0"

def predict (shape : String) (limit budget : Nat) : Option (Pred × Nat) :=
  let b : Option Nat := if budget = 0 then none else some budget
  match shape.splitOn ":" with
  | ["N", spec] =>
    match spec.toList with
    | [c, n] => some (predictNoise c n limit, 0)
    | _ => none
  | [fam, spec] =>
    match fam.toList, parseEdges spec with
    | [f], some edges =>
      if f = 'T' ∨ f = 'M' ∨ f = 'B' then some (predictCycleV f edges limit b) else none
    | _, _ => none
  | ["S", n, _v] => n.toNat?.map (fun n => (predictSuper n limit, 0))
  | ["L", d, _v] => d.toNat?.map (fun d => (predictLoop d limit, 0))
  | _ => none

/-- marks shifted: `dd` off the depth, `dn` off the nesting -/
def unshift (dd dn : Nat) : Pred → Pred
  | .ok m => .ok ⟨m.depthHW - dd, m.nativeHW - dn⟩
  | .recursion m => .recursion ⟨m.depthHW - dd, m.nativeHW - dn⟩
  | p => p

def showPredH : PredH → String
  | .ok m => s!"ok\t{m.m.depthHW}\t{m.m.nativeHW}"
  | .recursion m => s!"err:recursion\t{m.m.depthHW}\t{m.m.nativeHW}"
  | .other w => s!"model:{w}\t0\t0"

def hopsOf : PredH → Nat
  | .ok m => m.hopsHW
  | .recursion m => m.hopsHW
  | .other _ => 0

/-- `budget <label> <stack> <root> <hopBytes> <H> <macro> <caller> <include> <block> <super> <mask> [<leaf>]`:
    evaluates `budgetOK` / `frameLowerOK` / `budgetLeafOK` / `stackerOK` (the hypotheses of
    `stack_budget_holds`, `frame_constants_tied`, `stack_budget_holds_leaf` = `h_budget` of `C11_main`,
    `stacker_configuration`) on measured values; `mask` = five characters `1`/`0`, the kinds `P` -/
def handleBudget (f : List String) : String :=
  let (f, leafS) := match f with
    | [a, b, c, d, e, g, h, i, j, k, l, leaf] => ([a, b, c, d, e, g, h, i, j, k, l], leaf)
    | f => (f, "0")
  match f with
  | [label, stack, root, hopB, h, m, c, i, b, sup, mask] =>
    match [stack, root, hopB, h, m, c, i, b, sup, leafS].map String.toNat? with
    | [some stack, some root, some hopB, some h, some m, some c, some i, some b, some sup, some leaf] =>
      let bytes : Kind → Nat
        | .macroCall => m | .callerCall => c | .includeTpl => i | .blockCall => b | .superCall => sup
      let bits := mask.toList
      let P : Kind → Bool
        | .macroCall => bits[0]? == some '1' | .callerCall => bits[1]? == some '1'
        | .includeTpl => bits[2]? == some '1' | .blockCall => bits[3]? == some '1'
        | .superCall => bits[4]? == some '1'
      let ok := budgetOK stack root hopB h bytes P
      let lower := (allKinds.filter P).all (fun k => decide (MJ.Gen.evalImplArrayBytes ≤ bytes k))
      let okLeaf := budgetLeafOK stack root hopB h leaf bytes P
      let stk := stackerOK hopB h leaf bytes
      s!"budget\t{label}\t{ok}\t{rho (withHops hopB h bytes) P}\t{projected root hopB h bytes P}\t{stack}\t{lower}\t{MJ.Gen.evalImplArrayBytes}\t{okLeaf}\t{stk}"
    | _ => s!"budget\t{label}\tbad-input"
  | _ => "budget\t?\tbad-input"

def handle (line : String) : String :=
  let case := (line.splitOn "\t").head!
  if case.startsWith "budget " then handleBudget ((case.trimAscii.toString.splitOn " ").drop 1) else
  match case.trimAscii.toString.splitOn " " with
  | [shape, limit, budget, thread] =>
    if shape.startsWith "X:" then
      match limit.toNat?, budget.toNat?, parseEdges (shape.drop 2).toString with
      | some l, some b, some edges =>
        let (p, v) := predictX edges (setRecursionLimitCfg ((thread.splitOn "+").contains "stk") l) (if b = 0 then none else some b)
        s!"{case}\t{showPredH p}\t{v}\t{hopsOf p}"
      | _, _, _ => s!"{case}\tbad-case\t0\t0\t0"
    else
    match limit.toNat?, budget.toNat? with
    | some l, some b =>
      let toks := thread.splitOn "+"
      -- `stk`: the build with the `stacker` feature takes the configured limit as it is
      let l' := setRecursionLimitCfg (toks.contains "stk") l
      let r :=
        -- `Template::new_state()` + `State::render_block`: the context starts without a frame and
        -- there is no root activation, so every depth is one less than in a render of the same
        -- program: limit `L` behaves like a render with limit `L + 1`, marks shifted by one
        if toks.contains "state" then (predict shape (l' + 1) b).map (fun (p, v) => (unshift 1 1 p, v))
        -- a macro / block called from Rust on the state of a finished render: the root frame is
        -- there, the root activation is not
        else if toks.contains "capcall" ∨ toks.contains "caprb" then
          (predict shape l' b).map (fun (p, v) => (unshift 0 1 p, v))
        else predict shape l' b
      match r with
      | some (p, v) => s!"{case}\t{showPred p}\t{v}"
      | none => s!"{case}\tbad-case\t0\t0\t0"
    | _, _ => s!"{case}\tbad-case\t0\t0\t0"
  | _ => s!"{case}\tbad-case\t0\t0\t0"

partial def loop (h : IO.FS.Stream) (out : IO.FS.Stream) : IO Unit := do
  let line ← h.getLine
  if line.isEmpty then return ()
  out.putStrLn (handle (line.dropEndWhile (· == '\n')).toString)
  loop h out

def main : IO Unit := do
  loop (← IO.getStdin) (← IO.getStdout)
