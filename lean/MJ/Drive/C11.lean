import MJ.Model.Depth
/-! Line driver for C11: `<shape> <limit> <budget> <thread>` → `<case>\t<status>\t<hw_depth>\t<hw_native>`
    as predicted by the depth-accounting model (`MJ.Depth.predict*`). -/
open MJ.Depth

def parseEdge (s : String) : Option Edge :=
  match s.toList with
  | [k, w, f, _x, n] =>
    if w.isDigit ∧ f.isDigit then some ⟨k, w.toNat - '0'.toNat, f.toNat - '0'.toNat, n⟩ else none
  | _ => none

def parseEdges (s : String) : Option (Array Edge) :=
  (s.splitOn ",").foldl (fun acc e =>
    match acc, parseEdge e with
    | some a, some x => some (a.push x)
    | _, _ => none) (some #[])

def showPred : Pred → String
  | .ok m => s!"ok\t{m.depthHW}\t{m.nativeHW}"
  | .recursion m => s!"err:recursion\t{m.depthHW}\t{m.nativeHW}"
  | .other w => s!"model:{w}\t0\t0"

def predict (shape : String) (limit budget : Nat) : String :=
  let b : Option Nat := if budget = 0 then none else some budget
  match shape.splitOn ":" with
  | ["N", spec] =>
    match spec.toList with
    | [c, n] => showPred (predictNoise c n limit)
    | _ => "bad-case\t0\t0"
  | [fam, spec] =>
    match fam.toList, parseEdges spec with
    | [f], some edges =>
      if f = 'T' ∨ f = 'M' ∨ f = 'B' then showPred (predictCycle f edges limit b) else "bad-case\t0\t0"
    | _, _ => "bad-case\t0\t0"
  | ["S", n, _v] =>
    match n.toNat? with
    | some n => showPred (predictSuper n limit)
    | none => "bad-case\t0\t0"
  | ["L", d, _v] =>
    match d.toNat? with
    | some d => showPred (predictLoop d limit)
    | none => "bad-case\t0\t0"
  | _ => "bad-case\t0\t0"

def handle (line : String) : String :=
  let case := (line.splitOn "\t").head!
  match case.trimAscii.toString.splitOn " " with
  | [shape, limit, budget, _thread] =>
    match limit.toNat?, budget.toNat? with
    | some l, some b => s!"{case}\t{predict shape (setRecursionLimit l) b}"
    | _, _ => s!"{case}\tbad-case\t0\t0"
  | _ => s!"{case}\tbad-case\t0\t0"

partial def loop (h : IO.FS.Stream) (out : IO.FS.Stream) : IO Unit := do
  let line ← h.getLine
  if line.isEmpty then return ()
  out.putStrLn (handle (line.dropEndWhile (· == '\n')).toString)
  loop h out

def main : IO Unit := do
  loop (← IO.getStdin) (← IO.getStdout)
