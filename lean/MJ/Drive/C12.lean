import MJ.Model.UndefVm
/-! Line driver for C12.  Input: the harness lines
`stream<TAB>id<TAB>label<TAB>template<TAB>r0<TAB>r1<TAB>r2<TAB>r3<TAB>prog` (after a line
`ctx<TAB>value` giving the shared context); for every line with a
`prog` ≠ `-` the model runs the REAL instruction stream under the four modes and prints
`id<TAB>m0<TAB>m1<TAB>m2<TAB>m3` (`ok:<hex output>` | `err:<kind>` | `unsupported:<what>`);
other lines print `id<TAB>-`.  A first line `matrix` prints the helper matrix as the model sees it. -/
open MJ.Undef

def hexDigit (c : Char) : Option Nat :=
  if '0' ≤ c ∧ c ≤ '9' then some (c.toNat - '0'.toNat)
  else if 'a' ≤ c ∧ c ≤ 'f' then some (c.toNat - 'a'.toNat + 10)
  else none

/-- hex of ASCII bytes → string (`-` = empty) -/
def unhexAscii (s : String) : Option String :=
  if s = "-" then some "" else
  let rec go : List Char → List Char → Option (List Char)
    | [], acc => some acc.reverse
    | a :: b :: r, acc => match hexDigit a, hexDigit b with
      | some x, some y => go r (Char.ofNat (16 * x + y) :: acc)
      | _, _ => none
    | _, _ => none
  (go s.toList []).map String.ofList

def hexOfNat (n : Nat) : String :=
  let d (k : Nat) : Char := if k < 10 then Char.ofNat (48 + k) else Char.ofNat (87 + k)
  String.ofList [d (n / 16), d (n % 16)]

def hexOfString (s : String) : String :=
  s.toUTF8.foldl (fun acc b => acc ++ hexOfNat b.toNat) ""

abbrev Toks := List String

mutual
partial def parseValue : Toks → Option (V × Toks)
  | "U" :: r => some (.undef, r)
  | "S" :: r => some (.silent, r)
  | "N" :: r => some (.none, r)
  | "T" :: r => some (.bool true, r)
  | "F" :: r => some (.bool false, r)
  | "I" :: i :: r => i.toInt?.map (fun i => (.int i, r))
  | "X" :: h :: r => (unhexAscii h).map (fun s => (.str s, r))
  | "Y" :: h :: r => (unhexAscii h).map (fun s => (.safe s, r))
  | "L" :: n :: r => match n.toNat? with
    | some n => (parseList n r []).map (fun (xs, r) => (.seq xs, r))
    | none => none
  | "M" :: n :: r => match n.toNat? with
    | some n => (parsePairs n r []).map (fun (kvs, r) => (.map kvs, r))
    | none => none
  | _ => none
partial def parseList : Nat → Toks → List V → Option (List V × Toks)
  | 0, r, acc => some (acc.reverse, r)
  | n + 1, r, acc => match parseValue r with
    | some (v, r) => parseList n r (v :: acc)
    | none => none
partial def parsePairs : Nat → Toks → List (String × V) → Option (List (String × V) × Toks)
  | 0, r, acc => some (acc, r)
  | n + 1, k :: r, acc => match unhexAscii k, parseValue r with
    | some k, some (v, r) => parsePairs n r (V.mapInsert acc k v)
    | _, _ => none
  | _, _, _ => none
end

def parseCmpOp : String → Option CmpOp
  | "Eq" => some .eq | "Ne" => some .ne | "Lt" => some .lt | "Lte" => some .lte
  | "Gt" => some .gt | "Gte" => some .gte | "In" => some .in_ | "NotIn" => some .notIn
  | _ => none

def parseInstr : Toks → Option (Instr × Toks)
  | "EmitRaw" :: h :: r => (unhexAscii h).map (fun s => (.emitRaw s, r))
  | "Emit" :: r => some (.emit, r)
  | "StoreLocal" :: h :: r => (unhexAscii h).map (fun s => (.storeLocal s, r))
  | "Lookup" :: h :: r => (unhexAscii h).map (fun s => (.lookup s, r))
  | "GetAttr" :: h :: r => (unhexAscii h).map (fun s => (.getAttr s, r))
  | "GetItem" :: r => some (.getItem, r)
  | "Slice" :: r => some (.slice, r)
  | "LoadConst" :: r => (parseValue r).map (fun (v, r) => (.loadConst v, r))
  | "BuildList" :: n :: r => n.toNat?.map (fun n => (.buildList n, r))
  | "BuildListDyn" :: r => some (.buildListDyn, r)
  | "Neg" :: r => some (.neg, r)
  | "Binop" :: n :: r => some (.binop n, r)
  | "BuildKwargs" :: n :: r => n.toNat?.map (fun n => (.buildKwargs n, r))
  | "MergeKwargs" :: n :: r => n.toNat?.map (fun n => (.mergeKwargs n, r))
  | "UnpackList" :: n :: r => n.toNat?.map (fun n => (.unpackList n, r))
  | "CallFunction" :: h :: n :: r => match unhexAscii h, n.toNat? with
    | some s, some n => some (.callFunction s n, r)
    | _, _ => none
  | "CallMethod" :: h :: n :: r => match unhexAscii h, n.toNat? with
    | some s, some n => some (.callMethod s n, r)
    | _, _ => none
  | "CallObject" :: n :: r => n.toNat?.map (fun n => (.callObject n, r))
  | "CallFunctionDyn" :: h :: r => (unhexAscii h).map (fun s => (.callDyn (.callFunction s 0), r))
  | "CallMethodDyn" :: h :: r => (unhexAscii h).map (fun s => (.callDyn (.callMethod s 0), r))
  | "CallObjectDyn" :: r => some (.callDyn (.callObject 0), r)
  | "ApplyFilterDyn" :: h :: r => (unhexAscii h).map (fun s => (.callDyn (.applyFilter s 0), r))
  | "PerformTestDyn" :: h :: r => (unhexAscii h).map (fun s => (.callDyn (.performTest s 0), r))
  | "UnpackLists" :: n :: r => n.toNat?.map (fun n => (.unpackLists n, r))
  | "IsUndefined" :: r => some (.isUndefined, r)
  | "Enclose" :: h :: r => (unhexAscii h).map (fun s => (.enclose s, r))
  | "GetClosure" :: r => some (.getClosure, r)
  | "BuildMacro" :: h :: o :: f :: r => match unhexAscii h, o.toNat?, f.toNat? with
    | some s, some o, some f => some (.buildMacro s o f, r)
    | _, _, _ => none
  | "Return" :: r => some (.ret, r)
  | "Include" :: b :: r => some (.include_ (b == "1"), r)
  | "CallBlock" :: h :: r => (unhexAscii h).map (fun s => (.callBlock s, r))
  | "LoadBlocks" :: r => some (.loadBlocks, r)
  | "FastSuper" :: r => some (.fastSuper, r)
  | "BuildMap" :: n :: r => n.toNat?.map (fun n => (.buildMap n, r))
  | "Add" :: r => some (.arith .add, r)
  | "Sub" :: r => some (.arith .sub, r)
  | "Mul" :: r => some (.arith .mul, r)
  | "Eq" :: r => some (.cmp .eq, r)
  | "Ne" :: r => some (.cmp .ne, r)
  | "Gt" :: r => some (.cmp .gt, r)
  | "Gte" :: r => some (.cmp .gte, r)
  | "Lt" :: r => some (.cmp .lt, r)
  | "Lte" :: r => some (.cmp .lte, r)
  | "In" :: r => some (.cmp .in_, r)
  | "CompareAndPreserve" :: op :: r => (parseCmpOp op).map (fun op => (.cmpPreserve op, r))
  | "Not" :: r => some (.not, r)
  | "StringConcat" :: r => some (.stringConcat, r)
  | "ApplyFilter" :: h :: n :: r => match unhexAscii h, n.toNat? with
    | some s, some n => some (.applyFilter s n, r)
    | _, _ => none
  | "PerformTest" :: h :: n :: r => match unhexAscii h, n.toNat? with
    | some s, some n => some (.performTest s n, r)
    | _, _ => none
  | "PushLoop" :: f :: r => f.toNat?.map (fun f => (.pushLoop f, r))
  | "Iterate" :: t :: r => t.toNat?.map (fun t => (.iterate t, r))
  | "PushDidNotIterate" :: r => some (.pushDidNotIterate, r)
  | "PopFrame" :: r => some (.popFrame, r)
  | "PopLoopFrame" :: r => some (.popLoopFrame, r)
  | "PushWith" :: r => some (.pushWith, r)
  | "Jump" :: t :: r => t.toNat?.map (fun t => (.jump t, r))
  | "JumpIfFalse" :: t :: r => t.toNat?.map (fun t => (.jumpIfFalse t, r))
  | "JumpIfFalseOrPop" :: t :: r => t.toNat?.map (fun t => (.jumpIfFalseOrPop t, r))
  | "JumpIfTrueOrPop" :: t :: r => t.toNat?.map (fun t => (.jumpIfTrueOrPop t, r))
  | "BeginCapture" :: r => some (.beginCapture false, r)
  | "BeginCaptureDiscard" :: r => some (.beginCapture true, r)
  | "ExportLocals" :: r => some (.exportLocals, r)
  | "PushAutoEscape" :: r => some (.pushAutoEscape, r)
  | "PopAutoEscape" :: r => some (.popAutoEscape, r)
  | "EndCapture" :: r => some (.endCapture, r)
  | "DupTop" :: r => some (.dupTop, r)
  | "DiscardTop" :: r => some (.discardTop, r)
  | "Swap" :: r => some (.swap, r)
  | "Unsupported" :: n :: r => some (.unsupported n, r)
  | _ => none

partial def parseInstrs : Nat → Toks → List Instr → Option (List Instr × Toks)
  | 0, r, acc => some (acc.reverse, r)
  | n + 1, r, acc => match parseInstr r with
    | some (i, r) => parseInstrs n r (i :: acc)
    | none => none

/-- `K <hexname|-> N <count> <instr>…` repeated -/
partial def parseCodes : Nat → Toks → List (String × Array Instr) → Option (List (String × Array Instr))
  | 0, [], acc => some acc.reverse
  | 0, _, _ => none
  | k + 1, "K" :: name :: "N" :: n :: r, acc =>
    match unhexAscii name, n.toNat? with
    | some name, some n => match parseInstrs n r [] with
      | some (is, r) => parseCodes k r ((name, is.toArray) :: acc)
      | none => none
    | _, _ => none
  | _, _, _ => none

/-- `C @ F <formatter> P <number of codes> <code>…`; the first code is the template itself, the
    others are the templates it can include -/
def parseProg (ctx : List (String × V)) (toks : Toks) : Option (St × Prog) :=
  match toks with
  | "C" :: "@" :: "F" :: f :: "A" :: ae :: "P" :: k :: r => match k.toNat? with
    | some k => match parseCodes k r [] with
      | some codes =>
        let named := (codes.zipIdx.drop 1).map (fun p => (p.1.1, p.2))
        -- `@<template>@<block>` (template `-` = the template itself)
        let blk : List (String × String × Nat) := (named.filter (fun p => p.1.startsWith "@")).filterMap (fun p =>
          match (p.1.drop 1).toString.splitOn "@" with
          | [t, b] => some (t, b, p.2)
          | _ => none)
        let tmpls := named.filter (fun p => !p.1.startsWith "@")
        let prog : Prog := { codes := (codes.map (·.2)).toArray,
                             templates := tmpls,
                             blocks := (blk.filter (fun p => p.1 == "-")).map (fun p => p.2),
                             parentBlocks := tmpls.map (fun t => (t.1, (blk.filter (fun p => p.1 == t.1)).map (fun p => p.2))) }
        some ({ ctx := ctx, formatter := f.toNat?.getD 0, autoEscape := ae == "1" }, prog)
      | none => none
    | none => none
  | _ => none

def parseCtx (toks : Toks) : Option (List (String × V)) :=
  match parseValue toks with
  | some (.map ctx, []) => some ctx
  | _ => none

def showRes : Except Err St → String
  | .ok s => "ok:" ++ hexOfString s.observed
  | .error .undefinedError => "err:UndefinedError"
  | .error .invalidOperation => "err:InvalidOperation"
  | .error (.other k) => "err:" ++ k
  | .error (.unsupported w) => "unsupported:" ++ w.replace " " "_"
  | .error .noRow => "model-error:noRow"
  | .error .outOfFuel => "unsupported:fuel"
  | .error .stack => "model-error:stack"

def kindValue (k : String) : V :=
  if k.startsWith "q" then .str ((unhexAscii (k.drop 1).toString).getD "") else
  match k with
  | "u" => .undef
  | "s" => .silent
  | "n" => .none
  | "l" => .seq [.int 1, .undef]
  | "L" => .seq [.int 1, .int 2]
  | "M" => .map [("k", .int 1)]
  | "t" => .str "ab"
  | "k" => .kwargs [("k", .int 1)]
  | _ => .int 1

/-- what a builtin call does with arguments of the given kinds, per mode: the conversion layer
    (`conv-err` = an `UndefinedError` of the conversion, `body` = the body is reached), and whether
    the whole call (conversion + the questions of the body's hand model, nested calls included)
    fails at a question (`ask-err`) -/
def sigLine (contrib : Bool) (id kind name : String) (kinds : List String) : String :=
  match (if contrib then contribSigOf kind name else sigOf kind name) with
  | none => s!"{id}\tno-sig"
  | some (sig, reach) =>
    let args := kinds.map kindValue
    let rs := Mode.all.map (fun m => match (convCall Ops.convOnly sig args).run m with
      | .ok _ => "body"
      | .error .undefinedError => "conv-err"
      | .error _ => "other-err")
    let qs := Mode.all.map (fun m => match (if contrib then none else callBuiltin Ops.convOnly kind name args) with
      | some c => if c.failsAtAsk m then "ask-err" else "pass"
      | none => "pass")
    id ++ "\t" ++ "\t".intercalate rs ++ "\t" ++ (if reach.isEmpty then "pure" else "touching") ++ "\t" ++ "\t".intercalate qs

def handle (ctx : List (String × V)) (line : String) : String :=
  match line.splitOn "\t" with
  | "sig" :: id :: kind :: name :: kinds => sigLine false id kind name (kinds.filter (· != ""))
  | "sigx" :: id :: kind :: name :: kinds => sigLine true id kind name (kinds.filter (· != ""))
  | [_, id, _, _, _, _, _, _, prog] =>
    if prog = "-" then s!"{id}\t-" else
    match parseProg ctx (prog.splitOn " ") with
    | some (s, P) =>
      let rs := Mode.all.map (fun m => showRes (runVm Ops.exec P m 200000 s))
      id ++ "\t" ++ "\t".intercalate rs ++ "\t" ++ (if P.inFragment then "in-fragment" else "outside")
    | none => s!"{id}\tbad-prog"
  | _ => "bad-line"

def showChk : Except Err Unit → String
  | .ok _ => "ok"
  | .error .undefinedError => "err"
  | .error _ => "model-error"

def showFmt : Except Err Bool → String
  | .ok true => "formatter"
  | .ok false => "skipped"
  | .error .undefinedError => "err"
  | .error _ => "model-error"

/-- the helper matrix as interpreted from the generated tables (recorded in the evidence) -/
def matrixLines : List String :=
  let row (name : String) (f : Mode → String) := name ++ "\t" ++ "\t".intercalate (Mode.all.map f)
  [ row "handle_undefined(parent defined)" (fun m => showChk (handleUndefined m false)),
    row "handle_undefined(parent undefined)" (fun m => showChk (handleUndefined m true)),
    row "is_true(undefined)" (fun m => showChk (isTrueChk m .undef)),
    row "is_true(silent)" (fun m => showChk (isTrueChk m .silent)),
    row "assert_iterable(undefined)" (fun m => showChk (assertIterable m .undef)),
    row "assert_iterable(silent)" (fun m => showChk (assertIterable m .silent)),
    row "assert_value_not_undefined(undefined)" (fun m => showChk (assertNotUndef m .undef)),
    row "assert_value_not_undefined(silent)" (fun m => showChk (assertNotUndef m .silent)),
    row "emit(undefined)" (fun m => showChk (emitChk m .undef)),
    row "emit(silent)" (fun m => showChk (emitChk m .silent)),
    row "env.format(undefined)" (fun m => showFmt (envFormat m .undef)),
    row "env.format(silent)" (fun m => showFmt (envFormat m .silent)),
    row "env.format(defined)" (fun m => showFmt (envFormat m .defined)),
    row "slice(undefined)" (fun m => showChk (sliceChk m .undef)),
    row "slice(silent)" (fun m => showChk (sliceChk m .silent)) ]

partial def loop (h : IO.FS.Stream) (out : IO.FS.Stream) (ctx : List (String × V)) : IO Unit := do
  let line ← h.getLine
  if line.isEmpty then return ()
  let l := (line.dropEndWhile (· == '\n')).toString
  if l = "matrix" then
    for m in matrixLines do out.putStrLn ("matrix\t" ++ m)
    loop h out ctx
  else if l.startsWith "ctx\t" then
    match parseCtx ((l.drop 4).toString.splitOn " ") with
    | some c => loop h out c
    | none => out.putStrLn "bad-ctx"; loop h out ctx
  else
    out.putStrLn (handle ctx l)
    loop h out ctx

def main : IO Unit := do
  loop (← IO.getStdin) (← IO.getStdout) []
