import MJ.Model.Loc
/-!
Line driver for C14.  Requests (one per line), answers (one per line):

* `pos <keep> <spec> <o1,o2,…>`  (ascending byte offsets) → `line:col` per offset as reached by the
  model's `Tok.advance` from `Tok.new (tokSource keep src)`, `X` where `advance` panics
* `q <keep> <spec> <offs|-> <serr offs|-> <lines|->` → `pos…|serr;…|win;…` on one source: positions as
  above, the span of `Tok.syntaxError` at each offset (`a:b:c:d:e:f` / `panic`), and the window of
  `render_debug_info` for each line (`first:current:last:count`, 1-based; `x` = no line)
* `cg <ops>` → the model's `CodeGenerator` driven with a script of `l<line>` (set_line), `p<span>`
  (push_span), `o` (pop_span), `a` (add), `s<span>` (add_with_span); then `get_line/get_span` per pc
* `tbl <ops>` → `get_line/get_span` for every pc in `0 .. n+1` after the add sequence
* `caret a:b:c:d:e:f` → `c<col>w<width>` or `-`

`<spec>`: segments joined by `.`; `R<n>x<hex>` = unit repeated n times, `H<hex>` = literal.
-/
open MJ MJ.Loc

def hexVal (c : Char) : Nat :=
  if '0' ≤ c ∧ c ≤ '9' then c.toNat - '0'.toNat
  else if 'a' ≤ c ∧ c ≤ 'f' then c.toNat - 'a'.toNat + 10
  else 0

def unhexGo : List Char → ByteArray → ByteArray
  | a :: b :: rest, acc => unhexGo rest (acc.push (UInt8.ofNat (hexVal a * 16 + hexVal b)))
  | _, acc => acc

def unhex (s : String) : List Char :=
  match String.fromUTF8? (unhexGo s.toList ByteArray.empty) with
  | some t => t.toList
  | none => []

def natOf (cs : List Char) : Nat := cs.foldl (fun a c => a * 10 + (c.toNat - '0'.toNat)) 0

def replicateAppend (unit : List Char) : Nat → List Char → List Char
  | 0, acc => acc
  | n + 1, acc => replicateAppend unit n (unit ++ acc)

def segChars (seg : String) : List Char :=
  match seg.toList with
  | 'H' :: h => unhex (String.ofList h)
  | 'R' :: r =>
    let n := natOf (r.takeWhile (· != 'x'))
    let u := unhex (String.ofList ((r.dropWhile (· != 'x')).drop 1))
    replicateAppend u n []
  | _ => []

def specChars (spec : String) : List Char :=
  (spec.splitOn ".").foldr (fun seg acc => segChars seg ++ acc) []

def spanStr (s : Span) : String :=
  s!"{s.startLine}:{s.startCol}:{s.startOffset}:{s.endLine}:{s.endCol}:{s.endOffset}"

def parseNats (sep : String) (s : String) : List Nat :=
  (s.splitOn sep).filterMap (fun x => x.toNat?)

/-- advance to each offset in turn; a panicking request is answered `X` and leaves the state -/
def posGo : Tok → List Nat → List String → List String
  | _, [], acc => acc.reverse
  | t, o :: os, acc =>
    if o < t.offset then posGo t os ("X" :: acc)
    else match t.advance (o - t.offset) with
      | .panic => posGo t os ("X" :: acc)
      | .ok t' => posGo t' os (s!"{t'.line}:{t'.col}" :: acc)

def doPos (keep spec offs : String) : String :=
  let src := tokSource (keep == "1") (specChars spec)
  ",".intercalate (posGo (Tok.new src) (parseNats "," offs) [])

def serrAt (src : List Char) (o : Nat) : String :=
  match (Tok.new src).advance o with
  | .panic => "panic"
  | .ok t => match t.syntaxError with
    | .panic => "panic"
    | .ok s => spanStr s

def winStr (lines : List (List Char)) (line : Option Nat) : String :=
  match window lines line with
  | .panic => "panic"
  | .ok (pre, cur, post) =>
    let all := pre.map (·.1 + 1) ++ (match cur with | some c => [c.1 + 1] | none => []) ++ post.map (·.1 + 1)
    let curS := match cur with | some c => toString (c.1 + 1) | none => "-"
    match all with
    | [] => s!"-:{curS}:-:0"
    | f :: _ => s!"{f}:{curS}:{all.getLast?.getD 0}:{all.length}"

/-- combined request on one source: positions | syntax-error spans | debug windows -/
def doQ (keep spec offs serrs wins : String) : String :=
  let full := specChars spec
  let src := tokSource (keep == "1") full
  let a := ",".intercalate (posGo (Tok.new src) (parseNats "," offs) [])
  let b := ";".intercalate ((parseNats "," serrs).map (serrAt src))
  let c := if wins == "-" then "" else
    let lines := strLines full
    ";".intercalate ((wins.splitOn ",").map (fun w => winStr lines w.toNat?))
  s!"{a}|{b}|{c}"

def parseSpan (s : String) (sep : String) : Option Span :=
  match parseNats sep s with
  | [a, b, c, d, e, f] => some ⟨a, b, c, d, e, f⟩
  | _ => none

def parseAdd (s : String) : Option Add :=
  match s.toList with
  | ['a'] => some .plain
  | 'l' :: r => (String.ofList r).toNat?.map .withLine
  | 's' :: r => (parseSpan (String.ofList r) ".").map .withSpan
  | _ => none

def lookupStr (ins : Instrs) (pc : Nat) : String :=
  let l := match ins.getLine pc with
    | .panic => "panic"
    | .ok none => "-"
    | .ok (some l) => toString l
  let s := match ins.getSpan pc with
    | .panic => "panic"
    | .ok none => "-"
    | .ok (some s) => spanStr s
  s!"{l}/{s}"

def doTbl (ops : String) : String :=
  let parts := if ops == "-" then [] else ops.splitOn ","
  match parts.mapM parseAdd with
  | none => "bad-case"
  | some adds =>
    let ins := addAll adds
    ",".intercalate ((List.range (adds.length + 2)).map (lookupStr ins))

def parseCgOp (s : String) : Option CgOp :=
  match s.toList with
  | ['a'] => some .add
  | ['o'] => some .popSpan
  | 'l' :: r => (String.ofList r).toNat?.map .setLine
  | 'p' :: r => (parseSpan (String.ofList r) ".").map .pushSpan
  | 's' :: r => (parseSpan (String.ofList r) ".").map .addWithSpan
  | _ => none

/-- `cg <ops>`: drive the model's code generator, then look up every pc -/
def doCg (ops : String) : String :=
  let parts := if ops == "-" then [] else ops.splitOn ","
  match parts.mapM parseCgOp with
  | none => "bad-case"
  | some script =>
    let c := cgRun script Cg.new
    ",".intercalate ((List.range (c.instrs.len + 1)).map (lookupStr c.instrs))

def doCaret (sp : String) : String :=
  match parseSpan sp ":" with
  | none => "bad-case"
  | some s => match caret s with
    | none => "-"
    | some (c, w) => s!"c{c}w{w}"

def handle (line : String) : String :=
  match line.trimAscii.toString.splitOn " " with
  | ["pos", keep, spec, offs] => doPos keep spec offs
  | ["q", keep, spec, offs, serrs, wins] => doQ keep spec offs serrs wins
  | ["tbl", ops] => doTbl ops
  | ["cg", ops] => doCg ops
  | ["caret", sp] => doCaret sp
  | _ => "bad-case"

partial def loop (h : IO.FS.Stream) (out : IO.FS.Stream) : IO Unit := do
  let line ← h.getLine
  if line.isEmpty then return ()
  out.putStrLn (handle line)
  loop h out

def main : IO Unit := do
  loop (← IO.getStdin) (← IO.getStdout)
