import MJ.Model.Loc
import MJ.Model.LocAst
/-!
Line driver for C14.  Requests (one per line), answers (one per line):

* `pos <keep> <spec> <o1,o2,…>`  (ascending byte offsets) → `line:col` per offset as reached by the
  model's `Tok.advance` from `Tok.new (tokSource keep src)`, `X` where `advance` panics
* `q <keep> <spec> <offs|-> <serr offs|-> <lines|->` → `pos…|serr;…|win;…` on one source: positions as
  above, the span of `Tok.syntaxError` at each offset (`a:b:c:d:e:f` / `panic`), and the window of
  `render_debug_info` for each line (`first:current:last:count`, 1-based; `x` = no line)
* `cg <ops>` → the model's `CodeGenerator` driven with a script of `l<line>` (set_line), `p<span>`
  (push_span), `o` (pop_span), `a` (add), `s<span>` (add_with_span); then `get_line/get_span` per pc
* `tbl <ops>` → `get_line/get_span` for every pc in `0 .. n+1` after the add sequence
* `caret a:b:c:d:e:f` → `c<col>w<width>` or `-`
* `cga <s|e> <node>` → the model code generator (`MJ/Model/LocAst.lean`) on a dumped AST (statement /
  expression): `<wf>|<bad>|<root table>;<block>=<table>;…` — `wf` = `1` or `0:<kind>:<flag>` of the first node
  that violates `wf`; `bad` = the instructions whose line (simple line semantics `execL`) is not within the
  range of the emitting construct, `pc:name:line:lo:hi` joined by `,`, or `D` if `execL` and the side tables
  disagree about a line; tables: `name/line/span` per pc; a fourth field lists, per table, the range `lo-hi` of the
  construct every instruction belongs to.
  `<node>` = `( kind sl:sc:so:el:ec:eo flags name num lo hi child* )`, blank-separated.

`<spec>`: segments joined by `.`; `R<n>x<hex>` = unit repeated n times, `H<hex>` = literal.
-/
open MJ MJ.Loc MJ.LocAst

def hexVal (c : Char) : Nat :=
  if '0' ≤ c ∧ c ≤ '9' then c.toNat - '0'.toNat
  else if 'a' ≤ c ∧ c ≤ 'f' then c.toNat - 'a'.toNat + 10
  else 0

def unhexGo : List Char → ByteArray → ByteArray
  | a :: b :: rest, acc => unhexGo rest (acc.push (UInt8.ofNat (hexVal a * 16 + hexVal b)))
  | _, acc => acc

def unhex (s : String) : List Char :=
  match String.fromUTF8? (unhexGo s.toList ByteArray.empty) with
  | some t => t.toList
  | none => []

def natOf (cs : List Char) : Nat := cs.foldl (fun a c => a * 10 + (c.toNat - '0'.toNat)) 0

def replicateAppend (unit : List Char) : Nat → List Char → List Char
  | 0, acc => acc
  | n + 1, acc => replicateAppend unit n (unit ++ acc)

def segChars (seg : String) : List Char :=
  match seg.toList with
  | 'H' :: h => unhex (String.ofList h)
  | 'R' :: r =>
    let n := natOf (r.takeWhile (· != 'x'))
    let u := unhex (String.ofList ((r.dropWhile (· != 'x')).drop 1))
    replicateAppend u n []
  | _ => []

def specChars (spec : String) : List Char :=
  (spec.splitOn ".").foldr (fun seg acc => segChars seg ++ acc) []

def spanStr (s : Span) : String :=
  s!"{s.startLine}:{s.startCol}:{s.startOffset}:{s.endLine}:{s.endCol}:{s.endOffset}"

def parseNats (sep : String) (s : String) : List Nat :=
  (s.splitOn sep).filterMap (fun x => x.toNat?)

/-- advance to each offset in turn; a panicking request is answered `X` and leaves the state -/
def posGo : Tok → List Nat → List String → List String
  | _, [], acc => acc.reverse
  | t, o :: os, acc =>
    if o < t.offset then posGo t os ("X" :: acc)
    else match t.advance (o - t.offset) with
      | .panic => posGo t os ("X" :: acc)
      | .ok t' => posGo t' os (s!"{t'.line}:{t'.col}" :: acc)

def doPos (keep spec offs : String) : String :=
  let src := tokSource (keep == "1") (specChars spec)
  ",".intercalate (posGo (Tok.new src) (parseNats "," offs) [])

def serrAt (src : List Char) (o : Nat) : String :=
  match (Tok.new src).advance o with
  | .panic => "panic"
  | .ok t => match t.syntaxError with
    | .panic => "panic"
    | .ok s => spanStr s

def winStr (lines : List (List Char)) (line : Option Nat) : String :=
  match window lines line with
  | .panic => "panic"
  | .ok (pre, cur, post) =>
    let all := pre.map (·.1 + 1) ++ (match cur with | some c => [c.1 + 1] | none => []) ++ post.map (·.1 + 1)
    let curS := match cur with | some c => toString (c.1 + 1) | none => "-"
    match all with
    | [] => s!"-:{curS}:-:0"
    | f :: _ => s!"{f}:{curS}:{all.getLast?.getD 0}:{all.length}"

/-- combined request on one source: positions | syntax-error spans | debug windows -/
def doQ (keep spec offs serrs wins : String) : String :=
  let full := specChars spec
  let src := tokSource (keep == "1") full
  let a := ",".intercalate (posGo (Tok.new src) (parseNats "," offs) [])
  let b := ";".intercalate ((parseNats "," serrs).map (serrAt src))
  let c := if wins == "-" then "" else
    let lines := strLines full
    ";".intercalate ((wins.splitOn ",").map (fun w => winStr lines w.toNat?))
  s!"{a}|{b}|{c}"

def parseSpan (s : String) (sep : String) : Option Span :=
  match parseNats sep s with
  | [a, b, c, d, e, f] => some ⟨a, b, c, d, e, f⟩
  | _ => none

def parseAdd (s : String) : Option Add :=
  match s.toList with
  | ['a'] => some .plain
  | 'l' :: r => (String.ofList r).toNat?.map .withLine
  | 's' :: r => (parseSpan (String.ofList r) ".").map .withSpan
  | _ => none

def lookupStr (ins : Instrs) (pc : Nat) : String :=
  let l := match ins.getLine pc with
    | .panic => "panic"
    | .ok none => "-"
    | .ok (some l) => toString l
  let s := match ins.getSpan pc with
    | .panic => "panic"
    | .ok none => "-"
    | .ok (some s) => spanStr s
  s!"{l}/{s}"

def doTbl (ops : String) : String :=
  let parts := if ops == "-" then [] else ops.splitOn ","
  match parts.mapM parseAdd with
  | none => "bad-case"
  | some adds =>
    let ins := addAll adds
    ",".intercalate ((List.range (adds.length + 2)).map (lookupStr ins))

def parseCgOp (s : String) : Option CgOp :=
  match s.toList with
  | ['a'] => some .add
  | ['o'] => some .popSpan
  | 'l' :: r => (String.ofList r).toNat?.map .setLine
  | 'p' :: r => (parseSpan (String.ofList r) ".").map .pushSpan
  | 's' :: r => (parseSpan (String.ofList r) ".").map .addWithSpan
  | _ => none

/-- `cg <ops>`: drive the model's code generator, then look up every pc -/
def doCg (ops : String) : String :=
  let parts := if ops == "-" then [] else ops.splitOn ","
  match parts.mapM parseCgOp with
  | none => "bad-case"
  | some script =>
    let c := cgRun script Cg.new
    ",".intercalate ((List.range (c.instrs.len + 1)).map (lookupStr c.instrs))

def doCaret (sp : String) : String :=
  match parseSpan sp ":" with
  | none => "bad-case"
  | some s => match caret s with
    | none => "-"
    | some (c, w) => s!"c{c}w{w}"


def kindOf (s : String) : Kind :=
  match s with
  | "absent" => .absent | "body" => .body | "var" => .var | "const" => .const | "slice" => .slice
  | "not" => .not | "neg" => .neg | "bin" => .bin | "cmp" => .cmp | "cmpop" => .cmpop | "if" => .ifx
  | "filter" => .filter | "test" => .test | "attr" => .attr | "item" => .item | "call" => .call
  | "list" => .list | "tuple" => .tuple | "map" => .map | "apos" => .apos | "akw" => .akw
  | "asplat" => .asplat | "akwsplat" => .akwsplat | "template" => .template | "emitexpr" => .emitexpr
  | "emitraw" => .emitraw | "for" => .forloop | "ifcond" => .ifcond | "with" => .withblock
  | "withassign" => .withassign | "set" => .set | "setblock" => .setblock | "autoescape" => .autoescape
  | "filterblock" => .filterblock | "block" => .block | "import" => .importS | "fromimport" => .fromimport
  | "importname" => .importname | "extends" => .extends | "include" => .includeS | "macro" => .macroS
  | "callermacro" => .callermacro | "macroarg" => .macroarg | "callblock" => .callblock
  | "continue" => .continueS | "break" => .breakS | "do" => .doS
  | _ => .absent

mutual
partial def parseNode : List String → Option (Node × List String)
  | "(" :: kind :: sp :: flags :: name :: num :: lo :: hi :: rest =>
    match parseSpan sp ":", parseKids rest [] with
    | some span, some (kids, rest') =>
      some (.mk (kindOf kind) span (flags.toNat?.getD 0 % 2 == 1)
        (if name == "-" then "" else String.ofList (unhex name)) (num.toNat?.getD 0) (lo.toNat?.getD 0) (hi.toNat?.getD 0) kids,
        rest')
    | _, _ => none
  | _ => none
partial def parseKids : List String → List Node → Option (List Node × List String)
  | ")" :: rest, acc => some (acc.reverse, rest)
  | toks, acc =>
    match parseNode toks with
    | some (n, rest) => parseKids rest (n :: acc)
    | none => none
end

mutual
partial def firstBad : Node → Option Node
  | n =>
    if !(n.lo ≤ n.hi && (!mustAnchor n || (n.lo ≤ n.sp.startLine && n.sp.startLine ≤ n.hi)) && (n.kind != .const || n.flag) && shapeOk n.kind n.kids) then some n
    else firstBadKids n.lo n.hi n.kids
partial def firstBadKids (lo hi : Nat) : List Node → Option Node
  | [] => none
  | c :: rest =>
    if !(lo ≤ c.lo && c.hi ≤ hi) then some c
    else match firstBad c with
      | some b => some b
      | none => firstBadKids lo hi rest
end

def genTable (g : Gen) : String :=
  let names := g.names.reverse
  ",".intercalate ((List.range names.length).map (fun pc => s!"{names.getD pc "?"}/{lookupStr g.cg.instrs pc}"))

/-- the construct ranges the events are tagged with, per generator like `execG` files the instructions:
    (current, suspended, finished by block name) -/
def tagsOf : List Ev → List (Nat × Nat) → List (List (Nat × Nat) × String) → List (String × List (Nat × Nat)) →
    List (Nat × Nat) × List (String × List (Nat × Nat))
  | [], cur, _, done => (cur.reverse, done)
  | .add _ lo hi :: r, cur, st, done => tagsOf r ((lo, hi) :: cur) st done
  | .addSpan _ _ lo hi :: r, cur, st, done => tagsOf r ((lo, hi) :: cur) st done
  | .raw _ lo hi :: r, cur, st, done => tagsOf r ((lo, hi) :: cur) st done
  | .blockBegin nm :: r, cur, st, done => tagsOf r [] ((cur, nm) :: st) done
  | .blockEnd :: r, cur, st, done =>
    match st with
    | [] => tagsOf r cur st done
    | (outer, nm) :: rest => tagsOf r outer rest ((done.filter (·.1 != nm)) ++ [(nm, cur.reverse)])
  | _ :: r, cur, st, done => tagsOf r cur st done

def tagStr (l : List (Nat × Nat)) : String := ",".intercalate (l.map (fun t => s!"{t.1}-{t.2}"))

def genLines (g : Gen) : List (Option Nat) :=
  (List.range g.names.length).map (fun pc => match g.cg.instrs.getLine pc with | .ok l => l | .panic => none)

def doCga (mode : String) (toks : List String) : String :=
  match parseNode toks with
  | none => "bad-case"
  | some (n, _) =>
    let evs := if mode == "e" then cExpr [] n else cStmt [] n
    let w := if wf n then "1" else
      match firstBad n with
      | some b => s!"0:{repr b.kind}:{b.flag}:{b.sp.startLine}:{b.lo}:{b.hi}"
      | none => "0:?"
    let ems := (execL LS.init evs).2
    let g := execG GS.init evs
    let bad := (List.range ems.length).filterMap (fun i =>
      match ems[i]? with
      | some e => if e.ok then none else some s!"{i}:{e.name}:{e.line.getD 0}:{e.lo}:{e.hi}"
      | none => none)
    -- cross-check of the two semantics: the multiset of (name, line) pairs agrees
    let tblPairs := (g.done.map (fun d => (d.2.names.reverse.zip (genLines d.2)))).flatten ++ (g.cur.names.reverse.zip (genLines g.cur))
    let emPairs := ems.map (fun e => (e.name, e.line))
    let key := fun (p : String × Option Nat) => s!"{p.1}/{p.2.getD 0}"
    let srt := fun (l : List (String × Option Nat)) => (l.map key).toArray.qsort (· < ·)
    let agree := srt tblPairs == srt emPairs
    let tables := ";".intercalate ([genTable g.cur] ++ g.done.map (fun d => s!"{d.1}={genTable d.2}"))
    let tg := tagsOf evs [] [] []
    let tags := ";".intercalate ([tagStr tg.1] ++ tg.2.map (fun d => s!"{d.1}={tagStr d.2}"))
    s!"{w}|{if agree then "" else "D"}{",".intercalate bad}|{tables}|{tags}"

def handle (line : String) : String :=
  match line.trimAscii.toString.splitOn " " with
  | ["pos", keep, spec, offs] => doPos keep spec offs
  | ["q", keep, spec, offs, serrs, wins] => doQ keep spec offs serrs wins
  | ["tbl", ops] => doTbl ops
  | ["cg", ops] => doCg ops
  | ["caret", sp] => doCaret sp
  | "cga" :: mode :: toks => doCga mode toks
  | _ => "bad-case"

partial def loop (h : IO.FS.Stream) (out : IO.FS.Stream) : IO Unit := do
  let line ← h.getLine
  if line.isEmpty then return ()
  out.putStrLn (handle line)
  loop h out

def main : IO Unit := do
  loop (← IO.getStdin) (← IO.getStdout)
