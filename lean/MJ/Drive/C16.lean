import MJ.Model.Serde
import MJ.Model.Json
import MJ.Model.ValueSer
import MJ.Model.JsonSer
import MJ.Model.SerdeValue
import MJ.Model.SerdeArg
import MJ.Model.SerdeDispatch
import MJ.Model.JsonFloatRT
/-! Line driver for C16.

  rt <shape> ; <data>             → `<value canon>\t<ok data canon|err|?>`
  x <shape> ; <data> ; <shape2>   → same, deserialising with `shape2`
  json <mode> <value desc>\t<impl hex> → `<hex of model text>|refuse|?` `\t` `back:…` `\t` `impl:same|perm|differs|noparse`
  jparse <hex>                    → hex of the string the Lean JSON string parser reads from the text
  buf <shape> ; <data>            → `<ok data canon|err|?>` through the buffered read path (`de s (normV (ser s d))`)
  arg <form> <shape> ; <data>     → `<canon of the argument>\t<ok data canon|err|?>` (`argConv`; the forms are told apart by the check)
  vv <mode> <value desc>          → `<canon of reval v|err|?>` (modes self / selfref / field), `-` otherwise
  pp <b1|e> <pads>                → `<number of strings>\t<FNV-1a hash of the model's tojson outputs>`
  other lines                     → `-`
-/
open MJ.Serde MJ.Json MJ.ValueSer MJ.JsonSer

abbrev Toks := List String

def hexDigit (n : Nat) : Char := if n < 10 then Char.ofNat (48 + n) else Char.ofNat (87 + n)

def hexOfBytes (b : ByteArray) : String :=
  String.ofList (b.toList.flatMap fun x => [hexDigit (x.toNat / 16), hexDigit (x.toNat % 16)])

def hexOfStr (s : Str) : String := hexOfBytes (String.ofList s).toUTF8

def hexVal (c : Char) : Nat :=
  if '0' ≤ c ∧ c ≤ '9' then c.toNat - 48 else if 'a' ≤ c ∧ c ≤ 'f' then c.toNat - 87 else 0

def bytesOfHex (s : String) : List Nat :=
  let rec go : List Char → List Nat
    | a :: b :: rest => (hexVal a * 16 + hexVal b) :: go rest
    | _ => []
  go s.toList

def strOfHex (s : String) : Option Str :=
  let bytes := ByteArray.mk ((bytesOfHex s).map (fun n => UInt8.ofNat n)).toArray
  (String.fromUTF8? bytes).map String.toList

def intShape (t : String) : Option Shape :=
  match t with
  | "u8" => some (.int true 0 255)
  | "u16" => some (.int true 0 65535)
  | "u32" => some (.int true 0 4294967295)
  | "u64" => some (.int true 0 18446744073709551615)
  | "i8" => some (.int false (-128) 127)
  | "i16" => some (.int false (-32768) 32767)
  | "i32" => some (.int false (-2147483648) 2147483647)
  | "i64" => some (.int false (-9223372036854775808) 9223372036854775807)
  | _ => none

mutual
partial def pShape : Toks → Option (Shape × Toks)
  | [] => none
  | t :: ts =>
    match intShape t with
    | some s => some (s, ts)
    | none =>
      match t with
      | "bool" => some (.bool, ts)
      | "f32" => some (.f32, ts)
      | "f64" => some (.f64, ts)
      | "char" => some (.char, ts)
      | "str" => some (.str, ts)
      | "bytes" => some (.bytes, ts)
      | "unit" => some (.unit, ts)
      | "val" => some (.value, ts)
      | "opt" => (pShape ts).map fun (s, r) => (.opt s, r)
      | "seq" => (pShape ts).map fun (s, r) => (.seq s, r)
      | "map" => (pShape ts).bind fun (k, r) => (pShape r).map fun (v, r') => (.map k v, r')
      | "tup" => (pShapes ts).map fun (ss, r) => (.tup ss, r)
      | "ustruct" => some (.ustruct, ts.drop 1)
      | "nstruct" => (pShape (ts.drop 1)).map fun (s, r) => (.nstruct s, r)
      | "tstruct" => (pShapes (ts.drop 1)).map fun (ss, r) => (.tstruct ss, r)
      | "struct" => (pFields (ts.drop 1)).map fun ((ns, ss), r) => (.struct ns ss, r)
      | "enum" =>
        match ts.drop 1 with
        | n :: r => (n.toNat?).bind fun k => (pVariants k r).map fun ((ns, vs), r') => (.enum ns vs, r')
        | [] => none
      | _ => none
partial def pShapeN : Nat → Toks → Option (List Shape × Toks)
  | 0, ts => some ([], ts)
  | k+1, ts => (pShape ts).bind fun (s, r) => (pShapeN k r).map fun (ss, r') => (s :: ss, r')
partial def pShapes : Toks → Option (List Shape × Toks)
  | n :: ts => (n.toNat?).bind fun k => pShapeN k ts
  | [] => none
partial def pFieldN : Nat → Toks → Option ((List Str × List Shape) × Toks)
  | 0, ts => some (([], []), ts)
  | k+1, name :: ts =>
    (pShape ts).bind fun (s, r) => (pFieldN k r).map fun ((ns, ss), r') => ((name.toList :: ns, s :: ss), r')
  | _, [] => none
partial def pFields : Toks → Option ((List Str × List Shape) × Toks)
  | n :: ts => (n.toNat?).bind fun k => pFieldN k ts
  | [] => none
partial def pVariants : Nat → Toks → Option ((List Str × List VShape) × Toks)
  | 0, ts => some (([], []), ts)
  | k+1, name :: kind :: ts =>
    let one : Option (VShape × Toks) :=
      match kind with
      | "vu" => some (.unit, ts)
      | "vn" => (pShape ts).map fun (s, r) => (.newtype s, r)
      | "vt" => (pShapes ts).map fun (ss, r) => (.tuple ss, r)
      | "vs" => (pFields ts).map fun ((ns, ss), r) => (.struct ns ss, r)
      | _ => none
    one.bind fun (v, r) => (pVariants k r).map fun ((ns, vs), r') => ((name.toList :: ns, v :: vs), r')
  | _, _ => none
end

mutual
partial def pData : Toks → Option (D × Toks)
  | [] => none
  | t :: ts =>
    let rest := (t.drop 1).toString
    match t.toList.head? with
    | some 'T' => some (.bool true, ts)
    | some 'F' => some (.bool false, ts)
    | some 'i' => (rest.toInt?).map fun i => (.int i, ts)
    | some 'f' => (rest.toNat?).map fun n => (.f32 n, ts)
    | some 'd' => (rest.toNat?).map fun n => (.f64 n, ts)
    | some 'c' => (rest.toNat?).map fun n => (.char (Char.ofNat n), ts)
    | some 's' => (strOfHex rest).map fun s => (.str s, ts)
    | some 'y' => some (.bytes (bytesOfHex rest), ts)
    | some 'N' => some (.none, ts)
    | some 'U' => some (.unit, ts)
    | some 'S' => (pData ts).map fun (d, r) => (.some d, r)
    | some 'L' =>
      match ts with
      | n :: r => (n.toNat?).bind fun k => (pDataN k r).map fun (ds, r') => (.list ds, r')
      | [] => none
    | some 'M' =>
      match ts with
      | n :: r => (n.toNat?).bind fun k => (pPairN k r).map fun (ds, r') => (.map ds, r')
      | [] => none
    | some 'V' =>
      match ts with
      | n :: r => (n.toNat?).bind fun k => (pData r).map fun (p, r') => (.variant k p, r')
      | [] => none
    | _ => none
partial def pDataN : Nat → Toks → Option (List D × Toks)
  | 0, ts => some ([], ts)
  | k+1, ts => (pData ts).bind fun (d, r) => (pDataN k r).map fun (ds, r') => (d :: ds, r')
partial def pPairN : Nat → Toks → Option (List (D × D) × Toks)
  | 0, ts => some ([], ts)
  | k+1, ts =>
    (pData ts).bind fun (a, r) => (pData r).bind fun (b, r') =>
      (pPairN k r').map fun (ds, r'') => ((a, b) :: ds, r'')
end

def sortPairs (xs : List (String × String)) : List (String × String) :=
  xs.mergeSort (fun a b => (compare a.1 b.1).then (compare a.2 b.2) != .gt)

mutual
partial def vText : V → String
  | .undefined => "undef"
  | .none => "none"
  | .bool b => if b then "T" else "F"
  | .int _ i => s!"i{i}"
  | .f64 b => s!"d{b}"
  | .str s safe => (if safe then "S" else "s") ++ hexOfStr s
  | .bytes b => "y" ++ hexOfBytes (ByteArray.mk (b.map (fun n => UInt8.ofNat n)).toArray)
  | .seq t xs => " ".intercalate ((if t then "P" else "L") :: toString xs.length :: xs.map vText)
  | .map kvs =>
    let ents := sortPairs (kvs.map fun p => (vText p.1, vText p.2))
    " ".intercalate ("M" :: toString kvs.length :: ents.flatMap fun p => [p.1, p.2])
  | .obj i => s!"O{i}"
  | .invalid => "X"
end


mutual
partial def dText : D → String
  | .bool b => if b then "T" else "F"
  | .int i => s!"i{i}"
  | .f32 b => if isSNaN32 b then "fNaN" else s!"f{b}"
  | .f64 b => s!"d{b}"
  | .char c => s!"c{c.toNat}"
  | .str s => "s" ++ hexOfStr s
  | .bytes b => "y" ++ hexOfBytes (ByteArray.mk (b.map (fun n => UInt8.ofNat n)).toArray)
  | .none => "N"
  | .some d => "S " ++ dText d
  | .unit => "U"
  | .list ds => " ".intercalate ("L" :: toString ds.length :: ds.map dText)
  | .map kvs =>
    let ents := sortPairs (kvs.map fun p => (dText p.1, dText p.2))
    " ".intercalate ("M" :: toString kvs.length :: ents.flatMap fun p => [p.1, p.2])
  | .variant i p => s!"V {i} " ++ dText p
  | .val v => "E " ++ vText v
end

def rText : R D → String
  | .ok d => "ok " ++ dText d
  | .error .err => "err"
  | .error .unmodelled => "?"

def toks (s : String) : Toks := (s.splitOn " ").filter (· ≠ "")

def handleRt (body : String) : String :=
  match body.splitOn " ; " with
  | [s, d] =>
    match pShape (toks s), pData (toks d) with
    | some (shape, []), some (data, []) =>
      let v := ser shape data
      s!"{vText v}\t{rText (de shape v)}"
    | _, _ => "bad-case\tbad-case"
  | [s, d, s2] =>
    match pShape (toks s), pData (toks d), pShape (toks s2) with
    | some (shape, []), some (data, []), some (shape2, []) =>
      let v := ser shape data
      s!"{vText v}\t{rText (de shape2 v)}"
    | _, _, _ => "bad-case\tbad-case"
  | _ => "bad-case\tbad-case"

/-! ### JSON -/

def enOfKind (kind : String) (n : Nat) : Option En :=
  match kind with
  | "os" | "iu" => some (.hinted 0 none)
  | "ie" | "ic" | "oi" | "cx" | "cr" => some (.hinted n (some n))
  | "if" | "ci" => some (.hinted 0 (some n))
  | "cq" | "cl" => some (.sized n)
  | "cv" | "cs" => some .exact
  | "ce" => some .empty
  | "cn" => some .nonEnumerable
  | "ch" => some (.hinted n none)
  | "cw" => some (.hinted (min 1 n) (some n))
  -- objects whose iterator lies about its length
  | "l0" => some (.hinted 0 (some 0))
  | "l1" => some (.hinted (n + 1) (some (n + 1)))
  | "l2" => some (.hinted (n - 1) (some (n - 1)))
  | _ => none

mutual
partial def pLV : Toks → Option (LV × Toks)
  | [] => none
  | "undef" :: ts => some (.leaf .undefined, ts)
  | "none" :: ts => some (.leaf .none, ts)
  | "X" :: ts => some (.leaf .invalid, ts)
  | t :: ts =>
    let rest := (t.drop 1).toString
    match t.toList.head? with
    | some 'T' => some (.leaf (.bool true), ts)
    | some 'F' => some (.leaf (.bool false), ts)
    | some 'i' => (rest.toInt?).map fun i => (.leaf (.int false i), ts)
    | some 'u' => (rest.toInt?).map fun i => (.leaf (.int true i), ts)
    | some 'd' => (rest.toNat?).map fun n => (.leaf (.f64 n), ts)
    | some 's' => (strOfHex rest).map fun s => (.leaf (.str s false), ts)
    | some 'S' => (strOfHex rest).map fun s => (.leaf (.str s true), ts)
    | some 'O' => (strOfHex rest).map fun s => (.leaf (.str s false), ts)   -- plain objects serialise as their text
    | some 'y' => some (.leaf (.bytes (bytesOfHex rest)), ts)
    | some 'L' =>
      match ts with
      | n :: r => (n.toNat?).bind fun k => (pLVN k r).map fun (xs, r') => (.list false xs, r')
      | [] => none
    | some 'P' =>
      match ts with
      | n :: r => (n.toNat?).bind fun k => (pLVN k r).map fun (xs, r') => (.list true xs, r')
      | [] => none
    | some 'Z' =>
      match ts with
      | n :: r => (n.toNat?).bind fun k => (enOfKind rest k).bind fun en =>
          (pLVN k r).map fun (xs, r') => (.lazy en xs, r')
      | [] => none
    | some 'M' =>
      match ts with
      | n :: r => (n.toNat?).bind fun k => (pLVPairN k r).map fun (xs, r') => (.vmap xs, r')
      | [] => none
    | some 'W' =>
      match ts with
      | n :: r => (n.toNat?).bind fun k => (pLVPairN k r).map fun (xs, r') => (.omap (rest != "wn") xs, r')
      | [] => none
    | _ => none
partial def pLVN : Nat → Toks → Option (List LV × Toks)
  | 0, ts => some ([], ts)
  | k+1, ts => (pLV ts).bind fun (d, r) => (pLVN k r).map fun (ds, r') => (d :: ds, r')
partial def pLVPairN : Nat → Toks → Option (List (LV × LV) × Toks)
  | 0, ts => some ([], ts)
  | k+1, ts =>
    (pLV ts).bind fun (a, r) => (pLV r).bind fun (b, r') =>
      (pLVPairN k r').map fun (ds, r'') => ((a, b) :: ds, r'')
end

/-- the entries of every value map in iteration order (`Value::cmp` order for the BTreeMap build) -/
partial def normLV (btree : Bool) : LV → LV
  | .list t xs => .list t (xs.map (normLV btree))
  | .lazy en xs => .lazy en (xs.map (normLV btree))
  | .omap e kvs => .omap e (kvs.map fun p => (normLV btree p.1, normLV btree p.2))
  | .vmap kvs =>
    let kvs' := kvs.map fun p => (normLV btree p.1, normLV btree p.2)
    if btree then
      .vmap (kvs'.foldr (fun p acc =>
        let rec ins : List (LV × LV) → List (LV × LV)
          | [] => [p]
          | q :: rest => if keyCmp (toV false p.1) (toV false q.1) == .lt then p :: q :: rest else q :: ins rest
        ins acc) [])
    else .vmap kvs'
  | v => v

partial def callText : Call → String
  | .unit => "none"
  | .bool b => if b then "T" else "F"
  | .int i => s!"i{i}"
  | .f64 b => s!"d{b}"
  | .str s => "s" ++ hexOfStr s
  | .bytes b => "y" ++ hexOfBytes (ByteArray.mk (b.map (fun n => UInt8.ofNat n)).toArray)
  | .seq a xs =>
    " ".intercalate ("Q" :: (match a with | some n => toString n | none => "_") :: toString xs.length :: xs.map callText)
  | .map a kvs =>
    " ".intercalate ("D" :: (match a with | some n => toString n | none => "_") :: toString kvs.length ::
      kvs.flatMap fun p => [callText p.1, callText p.2])

def handleSer (btree : Bool) (desc : String) : String :=
  match pLV (toks desc) with
  | some (lv, []) => callText (serCalls (normLV btree lv))
  | _ => "bad-case"

def handleLde (btree : Bool) (body : String) : String :=
  match body.splitOn " ; " with
  | [v, s] =>
    -- (plain objects are dynamic objects for the deserializer, not the text they serialise to)
    if (toks v).any (·.startsWith "O") then "?" else
    match pLV (toks v), pShape (toks s) with
    | some (lv, []), some (shape, []) => rText (de shape (toV false (normLV btree lv)))
    | _, _ => "bad-case"
  | _ => "bad-case"

/-- members sorted by key, recursively (the value map iterates in its own key order) -/
partial def normJ : J → J
  | .arr xs => .arr (xs.map normJ)
  | .obj ms =>
    .obj ((ms.map fun p => (p.1, normJ p.2)).mergeSort
      (fun a b => compare (String.ofList a.1) (String.ofList b.1) != .gt))
  | j => j

def sortedChars (t : List Char) : List Char := t.mergeSort (fun a b => a.toNat ≤ b.toNat)

def handleJson (btree : Bool) (mode : String) (desc : String) (impl : String) : String :=
  match pLV (toks desc) with
  | some (lv, []) =>
    let calls := serCalls (normLV btree lv)
    let style : Option (Style × Bool) :=
      match mode with
      | "tojson" | "tojson_in_html" | "tojson_expr" => some (.jinja, true)
      | "tojson_true" => some (.pretty MJ.Gen.tojsonTrueIndent, true)
      | "tojson_kw3" => some (.pretty 3, true)
      | "tojson_0" => some (.pretty 0, true)
      | "tojson_false" => some (.jinja, true)
      | "tojson_kwtrue" => some (.pretty MJ.Gen.tojsonTrueIndent, true)
      | "tojson_8" => some (.pretty 8, true)
      | "auto_json" | "auto_js" | "sj_string" | "auto_write" | "auto_e" | "auto_escape_block" | "auto_yaml"
      | "auto_json_j2" | "auto_fmt" | "auto_cb" => some (.compact, false)
      | "sj_pretty" => some (.pretty 2, false)
      | _ => none
    match style with
    | none => "?\t-\t-"
    | some (st, post) =>
      match writeCalls st calls with
      | .refuse => "refuse\t-\t-"
      | .panic => "panic\t-\t-"
      | .ok t0 =>
        let t := if post then tojson t0 else t0
        let back :=
          match jOfCall calls with
          | .ok j =>
            (match parseJ t with
             | some j' => if j' == j then "back:ok" else "back:differs"
             | none => "back:noparse")
          | _ => "back:noimage"
        let implV :=
          match strOfHex impl with
          | none => "impl:nohex"
          | some it => if it == t then "impl:same" else "impl:differs"
        s!"{hexOfStr t}\t{back}\t{implV}"
  | _ => "bad-case\t-\t-"

/-- `reg <n> <order>`: handles `1..n` are inserted (a fresh thread's counter starts at 0), then removed in
`order` (0-based indices into the inserted values); prints the handles and what each remove found -/
def handleReg (body : String) : String :=
  match toks body with
  | [ns, os] =>
    match ns.toNat? with
    | none => "bad-case\tbad-case"
    | some n =>
      let order : List Nat := if os == "-" then [] else (os.splitOn ",").filterMap String.toNat?
      let handles := (List.range n).map (· + 1)
      let ops : List RegOp := handles.map (fun h => RegOp.ins h (.obj h)) ++ order.map (fun i => RegOp.rem (i + 1))
      let res := (runReg ops Registry.empty).2
      let show1 : Option V → String
        | some (.obj i) => toString i
        | _ => "_"
      s!"{",".intercalate (handles.map toString)}\t{",".intercalate (res.map show1)}"
  | _ => "bad-case\tbad-case"

def handleJparse (h : String) : String :=
  match strOfHex h with
  | none => "bad-case"
  | some t =>
    match parseJ t with
    | some j => "ok " ++ hexOfStr (writeJ .compact j)
    | none => "noparse"

def handleBuf (body : String) : String :=
  match body.splitOn " ; " with
  | [s, d] =>
    match pShape (toks s), pData (toks d) with
    | some (shape, []), some (data, []) => rText (de shape (normV (ser shape data)))
    | _, _ => "bad-case"
  | _ => "bad-case"

def handleArg (body : String) : String :=
  match body.splitOn " ; " with
  | [fs, d] =>
    match toks fs with
    | _form :: st =>
      match pShape st, pData (toks d) with
      | some (shape, []), some (data, []) =>
        let v := ser shape data
        let r := match argConv shape (.value v) with
          | .ok dd => "ok " ++ dText dd
          | .error .unmodelled => "?"
          | .error _ => "err"
        s!"{vText v}\t{r}"
      | _, _ => "bad-case\tbad-case"
    | [] => "bad-case\tbad-case"
  | _ => "bad-case\tbad-case"

def handleVv (btree : Bool) (mode : String) (desc : String) : String :=
  -- (plain objects are dynamic objects here — `reval (.obj _)` is outside the model — although the value
  -- descriptions read them as the text they serialise to)
  if (toks desc).any (·.startsWith "O") then "?"
  else if mode == "self" || mode == "selfref" || mode == "field" then
    match pLV (toks desc) with
    | some (lv, []) =>
      match reval (toV false (normLV btree lv)) with
      | .ok w => vText w
      | .error .err => "err"
      | .error .unmodelled => "?"
    | _ => "bad-case"
  else "-"

/-! ### every `Deserializer` method on every representation (stream `rk`) -/

def iterableKinds : List String := ["cx", "cl", "cn", "os", "ie", "if", "ic", "iu", "oi"]

def handleRk (btree : Bool) (body : String) : String :=
  match toks body with
  | m :: rh :: desc =>
    match MJ.SerdeDispatch.reprOfName ((rh.splitOn "/").headD ""), pLV desc with
    | some r, some (lv, []) =>
      let v := toV false (normLV btree lv)
      -- the payload of a single-entry map may be an iterable object (`V` has sequences only)
      let pk : Option MJ.SerdeDispatch.SKind := match desc with
        | _ :: "1" :: _ :: p :: _ =>
          if p.startsWith "Z" && iterableKinds.contains (p.drop 1).toString then some .iterable else none
        | _ => none
      (MJ.SerdeDispatch.probe m r.skind v pk).getD "err"
    | _, _ => "bad-case"
  | _ => "bad-case"

/-! ### the token of a finite double (stream `ff`): text, did the digit search stop at a candidate, do the
digits lie in the rounding interval (evaluated, independently of the proof) -/

def handleFf (body : String) : String :=
  let neg := body.startsWith "-"
  match ((if neg then (body.drop 1).toString else body).trimAscii.toString).toNat? with
  | some bits =>
    let dk := shortestDec bits
    let t := f64Text (bits + (if neg then 9223372036854775808 else 0))
    s!"{hexOfStr t}\tfound:{if f64Found bits then "T" else "F"}\tin:{if decide (ReadsBack bits dk.1 dk.2) then "T" else "F"}"
  | none => "bad-case"

/-! ### the post-processing of `tojson` on the exhaustive family of the harness -/

def fnvStep (h : UInt64) (b : UInt64) : UInt64 := (h ^^^ b) * 1099511628211

def fnvText (h : UInt64) (t : List Char) : UInt64 :=
  fnvStep (t.foldl (fun acc c => fnvStep acc (UInt64.ofNat c.toNat)) h) 255

def ppSpecials : List Char := ['<', '>', '&', '\'']
def ppTails : List (List Char) := [[], ['>', '\'', '&', '<']]

def handlePp (body : String) : String :=
  match toks body with
  | [b1s, padss] =>
    let pads : List Nat := (padss.splitOn ",").filterMap String.toNat?
    let prefixes : List (List Char) :=
      if b1s == "e" then [[]]
      else if b1s.endsWith "." then
        match (b1s.dropEnd 1).toString.toNat? with
        | some b => [[Char.ofNat b]]
        | none => []
      else match b1s.toNat? with
        | some b => [Char.ofNat b] :: (List.range 128).map fun c => [Char.ofNat b, Char.ofNat c]
        | none => []
    let strings : List (List Char) :=
      prefixes.flatMap fun p => pads.flatMap fun pad => ppSpecials.flatMap fun sp => ppTails.map fun tl =>
        p ++ List.replicate pad 'x' ++ [sp] ++ tl
    let h := strings.foldl (fun acc s => fnvText acc (tojson (writeStr s))) 14695981039346656037
    let hex := String.ofList ((List.range 16).reverse.map fun i => hexDigit ((h.toNat / 16 ^ i) % 16))
    s!"{strings.length}\t{hex}"
  | _ => "bad-case\tbad-case"

def handle (btree : Bool) (line : String) : String :=
  let fields := line.splitOn "\t"
  let case := fields.head!
  if case.startsWith "rt " then handleRt (case.drop 3).toString
  else if case.startsWith "x " then handleRt (case.drop 2).toString
  else if case.startsWith "json " then
    match (case.drop 5).toString.splitOn " " with
    | mode :: rest => handleJson btree mode (" ".intercalate rest) (fields.getD 1 "")
    | [] => "bad-case\t-\t-"
  else if case.startsWith "reg " then handleReg (case.drop 4).toString
  else if case.startsWith "ser " then handleSer btree (case.drop 4).toString
  else if case.startsWith "lde " then handleLde btree (case.drop 4).toString
  else if case.startsWith "jparse " then handleJparse (case.drop 7).toString
  else if case.startsWith "buf " then handleBuf (case.drop 4).toString
  else if case.startsWith "arg " then handleArg (case.drop 4).toString
  else if case.startsWith "vv " then
    match (case.drop 3).toString.splitOn " " with
    | mode :: rest => handleVv btree mode (" ".intercalate rest)
    | [] => "bad-case"
  else if case.startsWith "pp " then handlePp (case.drop 3).toString
  else if case.startsWith "rk " then handleRk btree (case.drop 3).toString
  else if case.startsWith "ff " then handleFf (case.drop 3).toString
  else "-"

partial def loop (btree : Bool) (h : IO.FS.Stream) (out : IO.FS.Stream) : IO Unit := do
  let line ← h.getLine
  if line.isEmpty then return ()
  out.putStrLn (handle btree (line.dropEndWhile (· == '\n')).toString)
  loop btree h out

/-- `drive_c16 [index]`: `index` = the IndexMap build (maps iterate in insertion order); default = the
BTreeMap build (maps iterate in `Value::cmp` order) -/
def main (args : List String) : IO Unit := do
  loop (!args.contains "index") (← IO.getStdin) (← IO.getStdout)
