import MJ.Model.LexerSpec
/-! Line driver for C10.

`seg <tlk> <fam> <segs>\tsrc=<hex>…` → `<case>\ttok=<model tokens>\tspec=<hex|->\tfree=<0|1>\tsrcok=<0|1>`
`line <tlk> <fam> <nl> <lines>\tsrc=<hex>…` → `<case>\ttok=<model tokens of src>`
anything else is echoed as `<case>\t-`.  The spec is rendered with U+0001 for a variable tag and
U+0002 for a block tag. -/
open MJ.Lexer

def hexVal (c : Char) : Option Nat :=
  if '0' ≤ c ∧ c ≤ '9' then some (c.toNat - '0'.toNat)
  else if 'a' ≤ c ∧ c ≤ 'f' then some (c.toNat - 'a'.toNat + 10)
  else none

def unhexBytes : List Char → Option (List UInt8)
  | [] => some []
  | a :: b :: r => do
    let x ← hexVal a
    let y ← hexVal b
    let rest ← unhexBytes r
    pure (UInt8.ofNat (x * 16 + y) :: rest)
  | _ => none

def unhex (s : String) : Option (List Char) := do
  let bs ← unhexBytes s.toList
  let str ← String.fromUTF8? (ByteArray.mk bs.toArray)
  pure str.toList

def hexDigit (n : Nat) : Char := if n < 10 then Char.ofNat (48 + n) else Char.ofNat (87 + n)

def hexOf (cs : List Char) : String :=
  let bytes := (String.ofList cs).toUTF8.toList
  String.ofList (bytes.foldr (fun b acc => hexDigit (b.toNat / 16) :: hexDigit (b.toNat % 16) :: acc) [])

def parseMark (c : Char) : Option Mark :=
  if c = '_' then some .none else if c = '-' then some .minus else if c = '+' then some .plus else none

def parseCfg (s : String) : Option Cfg :=
  match s.toList with
  | [a, b, c] => some { trim := a = '1', lstrip := b = '1', keep := c = '1' }
  | _ => none

def parseFam (s : String) : Option Delims :=
  match s.splitOn ":" with
  | [_, ds] =>
    match (ds.splitOn ",").map unhex with
    | [some bs, some be, some vs, some ve, some cs, some ce, some ls, some lc] =>
      some { bs, be, vs, ve, cs, ce, ls, lc }
    | _ => none
  | _ => none

/-- greedy tokenizer for tag interiors (only used to bring a written interior into the form the
    theorems talk about; `srcs (toToks s) = s` is checked by the caller) -/
partial def toToks (s : List Char) : Option (List Tok) :=
  match s with
  | [] => some []
  | c :: r =>
    if isAsciiWs c then
      let w := s.takeWhile isAsciiWs
      (toToks (s.dropWhile isAsciiWs)).map (Tok.ws w :: ·)
    else if isIdentStart c then
      let w := c :: r.takeWhile isIdentCont
      (toToks (r.dropWhile isIdentCont)).map (Tok.ident w :: ·)
    else if isDigit c then
      let w := s.takeWhile isDigit
      (toToks (s.dropWhile isDigit)).map (Tok.int w :: ·)
    else if c = '\'' || c = '"' then
      let rec body (esc : Bool) (acc : List Char) : List Char → Option (List Char × List Char)
        | [] => none
        | x :: xs =>
          if esc then body false (x :: acc) xs
          else if x = '\\' then body true (x :: acc) xs
          else if x = c then some (acc.reverse, xs)
          else body false (x :: acc) xs
      match body false [] r with
      | some (b, rest) => (toToks rest).map (Tok.str c b :: ·)
      | none => none
    else
      match r with
      | c2 :: r2 =>
        if twoCharOp c c2 then (toToks r2).map (Tok.op2 c c2 :: ·)
        else if (singleOp c).isSome then (toToks r).map (Tok.op c :: ·) else none
      | [] => if (singleOp c).isSome then some [Tok.op c] else none

inductive Item where
  | text (s : List Char)
  | tag (g : Tag)
  /-- a tag whose interior is not a token list of the grammar: only lexed, no spec -/
  | opaque (kind : Char) (l r : Mark) (interior : List Char)

/-- items of a `seg` case; the k-th `B` is `if t` for even k, `endif` for odd k -/
def parseItems : List String → Nat → Option (List Item)
  | [], _ => some []
  | it :: rest, nb =>
    match it.toList with
    | 'T' :: h => do
      let t ← unhex (String.ofList h)
      let r ← parseItems rest nb
      pure (.text t :: r)
    | ['V', l, r] => do
      let l ← parseMark l
      let r ← parseMark r
      let xs ← parseItems rest nb
      pure (.tag ⟨.var (vocabV false), l, r⟩ :: xs)
    | ['v', l, r] => do
      let l ← parseMark l
      let r ← parseMark r
      let xs ← parseItems rest nb
      pure (.tag ⟨.var (vocabV true), l, r⟩ :: xs)
    | 'G' :: k :: l :: r :: h => do
      let l ← parseMark l
      let r ← parseMark r
      let body ← unhex (String.ofList h)
      let xs ← parseItems rest nb
      if k = 'c' then pure (.tag ⟨.comment body, l, r⟩ :: xs)
      else
        match toToks body with
        | some ts =>
          if srcs ts = body then
            pure (.tag ⟨if k = 'v' then .var ts else .block ts, l, r⟩ :: xs)
          else pure (.opaque k l r body :: xs)
        | none => pure (.opaque k l r body :: xs)
    | ['B', l, r] => do
      let l ← parseMark l
      let r ← parseMark r
      let xs ← parseItems rest (nb + 1)
      pure (.tag ⟨.block (if nb % 2 = 0 then vocabIf false else vocabEndif false), l, r⟩ :: xs)
    | ['b', l, r] => do
      let l ← parseMark l
      let r ← parseMark r
      let xs ← parseItems rest (nb + 1)
      pure (.tag ⟨.block (if nb % 2 = 0 then vocabIf true else vocabEndif true), l, r⟩ :: xs)
    | ['C', l, r] => do
      let l ← parseMark l
      let r ← parseMark r
      let xs ← parseItems rest nb
      pure (.tag ⟨.comment [' ', 'c', ' '], l, r⟩ :: xs)
    | 'K' :: l :: r :: h => do
      let l ← parseMark l
      let r ← parseMark r
      let body ← unhex (String.ofList h)
      let xs ← parseItems rest nb
      pure (.tag ⟨.comment body, l, r⟩ :: xs)
    | 'R' :: l :: ri :: l2 :: r2 :: h => do
      let l ← parseMark l
      let ri ← parseMark ri
      let l2 ← parseMark l2
      let r2 ← parseMark r2
      let c ← unhex (String.ofList h)
      let xs ← parseItems rest nb
      pure (.tag ⟨.raw c ri l2 false, l, r2⟩ :: xs)
    | 'r' :: l :: ri :: l2 :: r2 :: h => do
      let l ← parseMark l
      let ri ← parseMark ri
      let l2 ← parseMark l2
      let r2 ← parseMark r2
      let c ← unhex (String.ofList h)
      let xs ← parseItems rest nb
      pure (.tag ⟨.raw c ri l2 true, l, r2⟩ :: xs)
    | _ => none

/-- plain concatenation of the items' sources -/
def itemsSrc (d : Delims) : List Item → List Char
  | [] => []
  | .text t :: r => t ++ itemsSrc d r
  | .tag g :: r => g.src d ++ itemsSrc d r
  | .opaque k l m body :: r =>
    (if k = 'v' then d.vs ++ l.src ++ body ++ m.src ++ d.ve else d.bs ++ l.src ++ body ++ m.src ++ d.be) ++
      itemsSrc d r

def hasOpaque : List Item → Bool
  | [] => false
  | .opaque _ _ _ _ :: _ => true
  | _ :: r => hasOpaque r

/-- alternating form: adjacent texts are joined, adjacent tags get an empty text between them -/
def toTmpl : List Item → Tmpl
  | [] => ⟨[], []⟩
  | .text t :: r => let tm := toTmpl r; ⟨t ++ tm.head, tm.tail⟩
  | .tag g :: r => let tm := toTmpl r; ⟨[], (g, tm.head) :: tm.tail⟩
  | .opaque _ _ _ _ :: r => toTmpl r

/-- a text in which U+0001 stands for the variable tag `{{ v }}` -/
def textWithVars (cs : List Char) : List Item :=
  let rec go (acc : List Char) : List Char → List Item
    | [] => [.text acc.reverse]
    | c :: r =>
      if c = Char.ofNat 1 then .text acc.reverse :: .tag ⟨.var (vocabV false), .none, .none⟩ :: go [] r
      else if c = Char.ofNat 3 then .text acc.reverse :: .tag ⟨.raw ['r'] .none .none false, .none, .none⟩ :: go [] r
      else go (c :: acc) r
  go [] cs

/-- items of a `line` case (see harness): X text line, S statement line, K comment line, Z text with
    a trailing line comment; a final `!` = no line break behind the last line -/
def parseLines (its : List String) (nl : List Char) (nb : Nat) : Option (List Item) :=
  let noFinal := its.getLast? = some "!"
  let its := its.filter (· ≠ "!")
  let rec go : List String → Nat → Option (List Item)
    | [], _ => some []
    | it :: rest, nb =>
      let thisNl := if rest.isEmpty && noFinal then [] else nl
      match it.toList with
      | 'X' :: h => do
        let t ← unhex (String.ofList h)
        let xs ← go rest nb
        pure (textWithVars t ++ .text thisNl :: xs)
      | 'S' :: h =>
        match (String.ofList h).splitOn "." with
        | [a, b] => do
          let ind ← unhex a
          let trail ← unhex b
          let xs ← go rest (nb + 1)
          let ts := if nb % 2 = 0 then (vocabIf false).dropLast else (vocabEndif false).dropLast
          pure (.text ind :: .tag ⟨.lineStmt ts, .none, .none⟩ :: .text (trail ++ thisNl) :: xs)
        | _ => none
      | 'M' :: h =>
        -- the opening statement continues behind a line break inside brackets: `if (t<nl>  )`
        match (String.ofList h).splitOn "." with
        | [a, b] => do
          let ind ← unhex a
          let trail ← unhex b
          let xs ← go rest (nb + 1)
          let ts : List Tok := if nb % 2 = 0 then
              [.ws [' '], .ident ['i', 'f'], .ws [' '], .op '(', .ident ['t'], .ws (nl ++ [' ', ' ']), .op ')']
            else (vocabEndif false).dropLast
          pure (.text ind :: .tag ⟨.lineStmt ts, .none, .none⟩ :: .text (trail ++ thisNl) :: xs)
        | _ => none
      | 'K' :: h =>
        match (String.ofList h).splitOn "." with
        | [a, b] => do
          let ind ← unhex a
          let c ← unhex b
          let xs ← go rest nb
          pure (.text ind :: .tag ⟨.lineComment c, .none, .none⟩ :: .text thisNl :: xs)
        | _ => none
      | 'Z' :: h =>
        match (String.ofList h).splitOn "." with
        | [a, b] => do
          let t ← unhex a
          let c ← unhex b
          let xs ← go rest nb
          pure (textWithVars t ++ .tag ⟨.lineComment c, .none, .none⟩ :: .text thisNl :: xs)
        | _ => none
      | _ => none
  go its nb

def showOuts (o : List Out) : List String :=
  o.map fun
    | .data s => "D" ++ hexOf s
    | .var => "V"
    | .blk => "B"

def showRes : Res → String
  | .ok o => ",".intercalate (showOuts (normOuts o))
  | .err o => ",".intercalate (showOuts (normOuts o) ++ ["!err"])
  | .unsupported => "unsupported"

def field (fields : List String) (key : String) : Option String :=
  (fields.find? (·.startsWith (key ++ "="))).map (fun f => (f.drop (key.length + 1)).toString)

def vmark : List Char := [Char.ofNat 1]
def bmark : List Char := [Char.ofNat 2]

/-- all words over `-`, `{`, `%` with length <= n, shorter first, then in alphabet order -/
def kernWords (n : Nat) : List (List Char) :=
  let alpha := ['-', '{', '%']
  let rec go : Nat → List (List Char) → List (List Char) → List (List Char)
    | 0, _, acc => acc
    | k + 1, level, acc =>
      let next := level.flatMap (fun w => alpha.map (fun c => w ++ [c]))
      go k next (acc ++ next)
  go n [[]] [[]]

/-- all words over `a`, `b`, blank, line break with length <= n, shorter first, then in alphabet order -/
def kacWords (n : Nat) : List (List Char) :=
  let alpha := ['a', 'b', ' ', '\n']
  let rec go : Nat → List (List Char) → List (List Char) → List (List Char)
    | 0, _, acc => acc
    | k + 1, level, acc =>
      let next := level.flatMap (fun w => alpha.map (fun c => w ++ [c]))
      go k next (acc ++ next)
  go n [[]] [[]]

def digit36 (i : Nat) : Char := if i < 10 then Char.ofNat (48 + i) else Char.ofNat (87 + i)

/-- result of a start marker search as three characters: offset, marker, pattern length -/
def showFound (f : Found) : List Char :=
  match f with
  | none => ['.', '.', '.']
  | some (i, m, n) =>
    [digit36 i, (match m with
      | .var => 'v' | .block => 'b' | .comment => 'c' | .lineStmt => 's' | .lineComment => 'l'), digit36 n]

def undigit36 (c : Char) : Nat :=
  if '0' ≤ c ∧ c ≤ '9' then c.toNat - 48 else if 'a' ≤ c ∧ c ≤ 'z' then c.toNat - 87 else 0

/-- `sep` triples (start, end, pattern index) as the harness prints the automaton's report -/
def parseMatches : List Char → List AcMatch
  | s :: e :: p :: r => ⟨undigit36 s, undigit36 p, undigit36 e - undigit36 s⟩ :: parseMatches r
  | _ => []

/-- the hypothesis of `acLoop_eq_findLL_of_spec` evaluated on what the real automaton reported:
    number of haystacks on which the report meets `AcSpec` (decided by `acSpecB`), and what the
    model of the loop makes of the REAL report -/
def kacReal (d : Delims) (pre : List Char) (words : List (List Char)) (ms : String) (mx : String) : String :=
  match validatedStartDelims d with
  | none => "\tacspec=novalid"
  | some pats =>
    let reports := (ms.splitOn ",").map (fun w => parseMatches w.toList)
    if reports.length ≠ words.length then "\tacspec=badlen" else
    let pairs := words.zip reports
    let good := (pairs.filter (fun (h, r) => acSpecB pats h r)).length
    let loop := pairs.flatMap (fun (h, r) => showFound (acLoop d (maxPatternLen pats) pre.reverse h none r))
    let firstBad := match pairs.find? (fun (h, r) => !acSpecB pats h r) with
      | some (h, _) => hexOf h
      | none => "-"
    s!"\tacspec={good}/{words.length}\tacbad={firstBad}\tacloop={String.ofList loop}\tmaxok={if mx.toNat? = some (maxPatternLen pats) then 1 else 0}"

def handleSeg (case : String) (fields : List String) (tlk fam segs : String) : String :=
  match parseCfg tlk, parseFam fam, parseItems (if segs = "." then [] else segs.splitOn ";") 0 with
  | some cfg, some d, some items =>
    let src := itemsSrc d items
    let res := lex cfg d (findStart d) src
    if hasOpaque items then
      let srcok := (field fields "src") = some (hexOf src)
      s!"{case}\ttok={showRes res}\tspec=-\tfree=0\tgood={if goodDelims d then 1 else 0}\tsrcok={if srcok then 1 else 0}"
    else
    let tm := toTmpl items
    let srcok := (field fields "src") = some (hexOf src) && unparse d tm = src
    let free := delimFree d tm
    s!"{case}\ttok={showRes res}\tspec={hexOf (specRender cfg vmark bmark tm)}\tfree={if free then 1 else 0}\tgood={if goodDelims d then 1 else 0}\tsrcok={if srcok then 1 else 0}"
  | _, _, _ => s!"{case}\tbad-case"

def handle (line : String) : String :=
  let fields := line.splitOn "\t"
  let case := fields.head!
  match case.splitOn " " with
  | ["kern", which, needle] =>
    match unhex needle with
    | some n =>
      let hay := kernWords 8
      let digit (r : Option Nat) : Char := match r with
        | some i => if i < 10 then Char.ofNat (48 + i) else Char.ofNat (87 + i)
        | none => '.'
      let res := if which = "memstr" then hay.map (fun h => digit (findSub n h))
        else hay.map (fun h => digit (findChar (n.headD ' ') h))
      s!"{case}\tres={String.ofList res}"
    | none => s!"{case}\tbad-case"
  | ["kac", fam, maxlen, prehex] =>
    -- the start marker search the tokenizer uses, on `prefix ++ haystack` from the end of the prefix
    match parseFam fam, maxlen.toNat?, unhex prehex with
    | some d, some n, some pre =>
      let res := (kacWords n).flatMap (fun h => showFound (findStart d pre.reverse h))
      let real := match field fields "ms", field fields "max" with
        | some ms, some mx => if ms = "-" ∨ ms = "panic" then s!"\tacspec={ms}" else kacReal d pre (kacWords n) ms mx
        | _, _ => ""
      s!"{case}\tres={String.ofList res}\tll={String.ofList ((kacWords n).flatMap (fun h => showFound (findLL d pre.reverse h)))}{real}"
    | _, _, _ => s!"{case}\tbad-case"
  | ["kid", shex] =>
    -- the identifier scan of the model: characters of the ASCII identifier the string starts with, and
    -- whether the scan stops at a non-ASCII character (where the model answers `unsupported`)
    match unhex shex with
    | some s =>
      let rec go : List Char → Bool → Nat → Nat × Bool
        | [], _, n => (n, false)
        | c :: r, first, n =>
          if (if first then isIdentStart c else isIdentCont c) then go r false (n + 1)
          else (n, decide (c.toNat ≥ 128))
      let (n, na) := go s true 0
      s!"{case}\tlen={n}\tnonascii={if na then 1 else 0}"
    | none => s!"{case}\tbad-case"
  | ["itok", fam, kind, shex] =>
    -- the tokens inside a tag: what `scanPieces` records behind the start delimiter (and its marker)
    match parseFam fam, unhex shex with
    | some d, some s =>
      let line := kind = "s"
      let e := if kind = "v" then d.ve else if kind = "b" then d.be else []
      let s' := if line then s else
        match s with
        | c :: r => if c = '-' || c = '+' then r else s
        | [] => s
      let (ps, res) := scanPieces e line .top 0 s' []
      let toks := ps.filterMap (fun p => match p with | .tok t => some (hexOf t) | .blank _ => none)
      let fin := match res with
        | .found rest ws => s!"found:{hexOf rest}:{match ws with | .dflt => "d" | .remove => "-" | .preserve => "+"}"
        | .eof => "eof"
        | .error => "err"
        | .unsupported => "unsupported"
      s!"{case}\ttoks={",".intercalate toks}\tend={fin}\tcat={if piecesSrc ps ++ (match res with | .found rest ws => (if line then s'.drop (piecesSrc ps).length |>.take (s'.length - (piecesSrc ps).length - rest.length) else ws.src ++ e) ++ rest | _ => s'.drop (piecesSrc ps).length) = s' then 1 else 0}"
    | _, _ => s!"{case}\tbad-case"
  | ["entry", tlk, fam, segs] => handleSeg case fields tlk fam segs
  | ["wrap", tlk, fam, _kind, segs] => handleSeg case fields tlk fam segs
  | ["seg", tlk, fam, segs] => handleSeg case fields tlk fam segs
  | ["rand", tlk, fam, _src] =>
    match parseCfg tlk, parseFam fam, (field fields "src").bind unhex with
    | some cfg, some d, some src =>
      s!"{case}\ttok={showRes (lex cfg d (findStart d) src)}\tvalid={if (validatedStartDelims d).isSome then 1 else 0}"
    | _, _, _ => s!"{case}\tbad-case"
  | ["prog", tlk, fam, _segs] =>
    match parseCfg tlk, parseFam fam, (field fields "src").bind unhex with
    | some cfg, some d, some src => s!"{case}\ttok={showRes (lex cfg d (findStart d) src)}"
    | _, _, _ => s!"{case}\tbad-case"
  | ["line", tlk, fam, nl, lines] =>
    match parseCfg tlk, parseFam fam, (field fields "src").bind unhex with
    | some cfg, some d, some src =>
      let res := lex cfg d (findStart d) src
      match parseLines (lines.splitOn ";") (if nl = "n" then ['\n'] else if nl = "rn" then ['\r', '\n'] else ['\r']) 0 with
      | some items =>
        let tm := toTmpl items
        let srcok := itemsSrc d items = src && unparse d tm = src
        s!"{case}\ttok={showRes res}\tspec={hexOf (specRender cfg vmark bmark tm)}\tfree={if delimFree d tm then 1 else 0}\tgood={if goodDelims d then 1 else 0}\tsrcok={if srcok then 1 else 0}"
      | none => s!"{case}\ttok={showRes res}\tspec=-\tfree=0\tgood=0\tsrcok=0"
    | _, _, _ => s!"{case}\tbad-case"
  | ["cfg", fam] =>
    match parseFam fam with
    | some d =>
      let ok := (validatedStartDelims d).isSome && !d.ve.isEmpty && !d.be.isEmpty && !d.ce.isEmpty
      s!"{case}\tvalid={if ok then 1 else 0}"
    | none => s!"{case}\tbad-case"
  | _ => s!"{case}\t-"

partial def loop (h : IO.FS.Stream) (out : IO.FS.Stream) : IO Unit := do
  let line ← h.getLine
  if line.isEmpty then return ()
  out.putStrLn (handle (line.dropEndWhile (· == '\n')).toString)
  loop h out

def main : IO Unit := do
  loop (← IO.getStdin) (← IO.getStdout)
