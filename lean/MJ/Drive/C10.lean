import MJ.Model.LexerSpec
/-! Line driver for C10.

`seg <tlk> <fam> <segs>\tsrc=<hex>…` → `<case>\ttok=<model tokens>\tspec=<hex|->\tfree=<0|1>\tsrcok=<0|1>`
`line <tlk> <fam> <nl> <lines>\tsrc=<hex>…` → `<case>\ttok=<model tokens of src>`
anything else is echoed as `<case>\t-`.  The spec is rendered with U+0001 for a variable tag and
U+0002 for a block tag. -/
open MJ.Lexer

def hexVal (c : Char) : Option Nat :=
  if '0' ≤ c ∧ c ≤ '9' then some (c.toNat - '0'.toNat)
  else if 'a' ≤ c ∧ c ≤ 'f' then some (c.toNat - 'a'.toNat + 10)
  else none

def unhexBytes : List Char → Option (List UInt8)
  | [] => some []
  | a :: b :: r => do
    let x ← hexVal a
    let y ← hexVal b
    let rest ← unhexBytes r
    pure (UInt8.ofNat (x * 16 + y) :: rest)
  | _ => none

def unhex (s : String) : Option (List Char) := do
  let bs ← unhexBytes s.toList
  let str ← String.fromUTF8? (ByteArray.mk bs.toArray)
  pure str.toList

def hexDigit (n : Nat) : Char := if n < 10 then Char.ofNat (48 + n) else Char.ofNat (87 + n)

def hexOf (cs : List Char) : String :=
  let bytes := (String.ofList cs).toUTF8.toList
  String.ofList (bytes.foldr (fun b acc => hexDigit (b.toNat / 16) :: hexDigit (b.toNat % 16) :: acc) [])

def parseMark (c : Char) : Option Mark :=
  if c = '_' then some .none else if c = '-' then some .minus else if c = '+' then some .plus else none

def parseCfg (s : String) : Option Cfg :=
  match s.toList with
  | [a, b, c] => some { trim := a = '1', lstrip := b = '1', keep := c = '1' }
  | _ => none

def parseFam (s : String) : Option Delims :=
  match s.splitOn ":" with
  | [_, ds] =>
    match (ds.splitOn ",").map unhex with
    | [some bs, some be, some vs, some ve, some cs, some ce, some ls, some lc] =>
      some { bs, be, vs, ve, cs, ce, ls, lc }
    | _ => none
  | _ => none

inductive Item where
  | text (s : List Char)
  | tag (g : Tag)

/-- items of a `seg` case; the k-th `B` is `if t` for even k, `endif` for odd k -/
def parseItems : List String → Nat → Option (List Item)
  | [], _ => some []
  | it :: rest, nb =>
    match it.toList with
    | 'T' :: h => do
      let t ← unhex (String.ofList h)
      let r ← parseItems rest nb
      pure (.text t :: r)
    | ['V', l, r] => do
      let l ← parseMark l
      let r ← parseMark r
      let xs ← parseItems rest nb
      pure (.tag ⟨.var false, l, r⟩ :: xs)
    | ['v', l, r] => do
      let l ← parseMark l
      let r ← parseMark r
      let xs ← parseItems rest nb
      pure (.tag ⟨.var true, l, r⟩ :: xs)
    | ['B', l, r] => do
      let l ← parseMark l
      let r ← parseMark r
      let xs ← parseItems rest (nb + 1)
      pure (.tag ⟨.block (if nb % 2 = 0 then .ifT else .endif) false, l, r⟩ :: xs)
    | ['b', l, r] => do
      let l ← parseMark l
      let r ← parseMark r
      let xs ← parseItems rest (nb + 1)
      pure (.tag ⟨.block (if nb % 2 = 0 then .ifT else .endif) true, l, r⟩ :: xs)
    | ['C', l, r] => do
      let l ← parseMark l
      let r ← parseMark r
      let xs ← parseItems rest nb
      pure (.tag ⟨.comment [' ', 'c', ' '], l, r⟩ :: xs)
    | 'K' :: l :: r :: h => do
      let l ← parseMark l
      let r ← parseMark r
      let body ← unhex (String.ofList h)
      let xs ← parseItems rest nb
      pure (.tag ⟨.comment body, l, r⟩ :: xs)
    | 'R' :: l :: ri :: l2 :: r2 :: h => do
      let l ← parseMark l
      let ri ← parseMark ri
      let l2 ← parseMark l2
      let r2 ← parseMark r2
      let c ← unhex (String.ofList h)
      let xs ← parseItems rest nb
      pure (.tag ⟨.raw c ri l2 false, l, r2⟩ :: xs)
    | 'r' :: l :: ri :: l2 :: r2 :: h => do
      let l ← parseMark l
      let ri ← parseMark ri
      let l2 ← parseMark l2
      let r2 ← parseMark r2
      let c ← unhex (String.ofList h)
      let xs ← parseItems rest nb
      pure (.tag ⟨.raw c ri l2 true, l, r2⟩ :: xs)
    | _ => none

/-- plain concatenation of the items' sources -/
def itemsSrc (d : Delims) : List Item → List Char
  | [] => []
  | .text t :: r => t ++ itemsSrc d r
  | .tag g :: r => g.src d ++ itemsSrc d r

/-- alternating form: adjacent texts are joined, adjacent tags get an empty text between them -/
def toTmpl : List Item → Tmpl
  | [] => ⟨[], []⟩
  | .text t :: r => let tm := toTmpl r; ⟨t ++ tm.head, tm.tail⟩
  | .tag g :: r => let tm := toTmpl r; ⟨[], (g, tm.head) :: tm.tail⟩

def showOuts (o : List Out) : List String :=
  o.map fun
    | .data s => "D" ++ hexOf s
    | .var => "V"
    | .blk => "B"

def showRes : Res → String
  | .ok o => ",".intercalate (showOuts (normOuts o))
  | .err o => ",".intercalate (showOuts (normOuts o) ++ ["!err"])
  | .unsupported => "unsupported"

def field (fields : List String) (key : String) : Option String :=
  (fields.find? (·.startsWith (key ++ "="))).map (fun f => (f.drop (key.length + 1)).toString)

def vmark : List Char := [Char.ofNat 1]
def bmark : List Char := [Char.ofNat 2]

def handle (line : String) : String :=
  let fields := line.splitOn "\t"
  let case := fields.head!
  match case.splitOn " " with
  | ["seg", tlk, fam, segs] =>
    match parseCfg tlk, parseFam fam, parseItems (if segs = "." then [] else segs.splitOn ";") 0 with
    | some cfg, some d, some items =>
      let src := itemsSrc d items
      let tm := toTmpl items
      let srcok := (field fields "src") = some (hexOf src) && unparse d tm = src
      let res := lex cfg d (findStart d) src
      let free := delimFree d tm
      s!"{case}\ttok={showRes res}\tspec={hexOf (specRender cfg vmark bmark tm)}\tfree={if free then 1 else 0}\tgood={if goodDelims d then 1 else 0}\tsrcok={if srcok then 1 else 0}"
    | _, _, _ => s!"{case}\tbad-case"
  | ["line", tlk, fam, _nl, _lines] =>
    match parseCfg tlk, parseFam fam, (field fields "src").bind unhex with
    | some cfg, some d, some src => s!"{case}\ttok={showRes (lex cfg d (findStart d) src)}"
    | _, _, _ => s!"{case}\tbad-case"
  | _ => s!"{case}\t-"

partial def loop (h : IO.FS.Stream) (out : IO.FS.Stream) : IO Unit := do
  let line ← h.getLine
  if line.isEmpty then return ()
  out.putStrLn (handle (line.dropEndWhile (· == '\n')).toString)
  loop h out

def main : IO Unit := do
  loop (← IO.getStdin) (← IO.getStdout)
