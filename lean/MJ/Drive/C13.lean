import MJ.Model.Fuel
/-! Line driver for C13.
Input (tab separated): `id  B1,B2,…  probeBudget  k1,k2,…  name name …`
Output: `id  thr  total  B:status:consumed:remaining:executed,…  k:consumed:remaining,…` -/
open MJ MJ.Fuel

def natList (s : String) : List Nat :=
  (s.splitOn ",").filterMap (fun x => x.trimAscii.toString.toNat?)

def showRun (B : Nat) (trace : List String) : String :=
  let r := runFuel B trace
  let st := match r.status with
    | .done => "ok"
    | .outOfFuel => "OutOfFuel"
  s!"{B}:{st}:{r.tracker.consumed}:{r.tracker.remainingFuel}:{r.executed.length}"

def showProbe (B : Nat) (trace : List String) (k : Nat) : String :=
  let l := levelsAt B trace k
  s!"{k}:{l.1}:{l.2}"

def handle (line : String) : String :=
  match line.splitOn "\t" with
  | [id, budgets, pb, ks, names] =>
    let trace := (names.splitOn " ").filter (· ≠ "")
    let runs := ",".intercalate ((natList budgets).map (showRun · trace))
    let probes := match pb.trimAscii.toString.toNat? with
      | some b => ",".intercalate ((natList ks).map (showProbe b trace))
      | none => ""
    s!"{id}\t{thr trace}\t{total trace}\t{runs}\t{probes}"
  | _ => "bad-case"

partial def loop (h : IO.FS.Stream) (out : IO.FS.Stream) : IO Unit := do
  let line ← h.getLine
  if line.isEmpty then return ()
  out.putStrLn (handle (line.dropEndWhile (· == '\n')).toString)
  loop h out

def main : IO Unit := do
  loop (← IO.getStdin) (← IO.getStdout)
