import MJ.Model.FuelProg
import MJ.Model.FuelEdge
/-! Line driver for C13.
Input (tab separated):
* `id  B1,B2,…  probeBudget  k1,k2,…  name name …` — an executed trace;
  output `id  thr  total  B:status:consumed:remaining:executed,…  k:consumed:remaining,…`
* `S  id  B1,B2,…  counts  fails  conds  tokens` — a structured program (`MJ.Fuel.P`) with its context:
  `counts` = `loopid:i.j:count;…`, `fails` = `failid:i.j;…`, `conds` = `condid:i.j;…` (the conditionals
  that take their first branch), `tokens` = prefix form
  (`I name` | `F name id` | `L id nh ni nb nx names… body… E` | `B id then… E else… E` | sequence); output
  `id  thr  cost  B:outcome:consumed:remaining:executed,…  ok|fail  trace`
* `E  id  m  B1,B2,…  frame  callee` — a nested-evaluation edge: its own instructions and the trace of the
  callee it runs `m` times; output `E  id  thr  total  B:status:consumed:remaining,…` predicted from the
  parts (`edgeRun`, theorem `edge_consumption_adds_up`) -/
open MJ MJ.Fuel

def natList (s : String) : List Nat :=
  (s.splitOn ",").filterMap (fun x => x.trimAscii.toString.toNat?)

def showRun (B : Nat) (trace : List String) : String :=
  let r := runFuel B trace
  let st := match r.status with
    | .done => "ok"
    | .outOfFuel => "OutOfFuel"
  s!"{B}:{st}:{r.tracker.consumed}:{r.tracker.remainingFuel}:{r.executed.length}"

def showProbe (B : Nat) (trace : List String) (k : Nat) : String :=
  let l := levelsAt B trace k
  s!"{k}:{l.1}:{l.2}"

/-- `i.j.k` -/
def pathOf (s : String) : List Nat :=
  if s.isEmpty then [] else (s.splitOn ".").filterMap (·.toNat?)

def ctxOf (counts fails : String) (conds : String := "") : Ctx :=
  let cs : List (Nat × List Nat × Nat) := (counts.splitOn ";").filterMap fun e =>
    match e.splitOn ":" with
    | [a, b, c] => match a.toNat?, c.toNat? with
      | some a, some c => some (a, pathOf b, c)
      | _, _ => none
    | _ => none
  let fs : List (Nat × List Nat) := (fails.splitOn ";").filterMap fun e =>
    match e.splitOn ":" with
    | [a, b] => a.toNat?.map fun a => (a, pathOf b)
    | _ => none
  let ds : List (Nat × List Nat) := (conds.splitOn ";").filterMap fun e =>
    match e.splitOn ":" with
    | [a, b] => a.toNat?.map fun a => (a, pathOf b)
    | _ => none
  { count := fun id path => ((cs.find? fun x => x.1 == id && x.2.1 == path).map (·.2.2)).getD 0,
    fails := fun id path => fs.any fun x => x.1 == id && x.2 == path,
    cond := fun id path => ds.any fun x => x.1 == id && x.2 == path }

instance : Inhabited P := ⟨.skip⟩

def seqOf : List P → P
  | [] => .skip
  | [p] => p
  | p :: rest => .seq p (seqOf rest)

/-- parse a sequence of program tokens up to `E` or the end -/
partial def parseSeq (toks : List String) (acc : List P) : P × List String :=
  match toks with
  | [] => (seqOf acc.reverse, [])
  | "E" :: rest => (seqOf acc.reverse, rest)
  | "I" :: n :: rest => parseSeq rest (.instr n :: acc)
  | "B" :: id :: rest =>
    let (a, rest) := parseSeq rest []
    let (b, rest) := parseSeq rest []
    parseSeq rest (.branch (id.toNat?.getD 0) a b :: acc)
  | "F" :: n :: id :: rest => parseSeq rest (.mayFail n (id.toNat?.getD 0) :: acc)
  | "L" :: id :: nh :: ni :: nb :: nx :: rest =>
    let nh := nh.toNat?.getD 0; let ni := ni.toNat?.getD 0; let nb := nb.toNat?.getD 0; let nx := nx.toNat?.getD 0
    let head := rest.take nh; let rest := rest.drop nh
    let iter := rest.take ni; let rest := rest.drop ni
    let back := rest.take nb; let rest := rest.drop nb
    let exit := rest.take nx; let rest := rest.drop nx
    let (body, rest) := parseSeq rest []
    parseSeq rest (.loop (id.toNat?.getD 0) head iter body back exit :: acc)
  | _ :: rest => parseSeq rest acc

def showProgRun (B : Nat) (c : Ctx) (p : P) : String :=
  let r := runProg B c p
  let st := match r.1 with
    | .ok => "ok"
    | .ownError => "ownError"
    | .outOfFuel => "OutOfFuel"
  s!"{B}:{st}:{r.2.tracker.consumed}:{r.2.tracker.remainingFuel}:{r.2.executed.length}"

def showEdgeRun (B : Nat) (frame : List String) (cs : List (List String)) : String :=
  let r := edgeRun B frame cs
  let st := match r.1 with
    | .done => "ok"
    | .outOfFuel => "OutOfFuel"
  s!"{B}:{st}:{r.2.1}:{r.2.2}"

def handle (line : String) : String :=
  match line.splitOn "\t" with
  | ["E", id, m, budgets, frame, inner] =>
    let f := (frame.splitOn " ").filter (· ≠ "")
    let c := (inner.splitOn " ").filter (· ≠ "")
    let cs := List.replicate (m.trimAscii.toString.toNat?.getD 0) c
    let runs := ",".intercalate ((natList budgets).map (showEdgeRun · f cs))
    s!"E\t{id}\t{edgeThr f cs}\t{edgeTotal f cs}\t{runs}"
  | ["S", id, budgets, counts, fails, conds, toks] =>
    let c := ctxOf counts fails conds
    let p := (parseSeq ((toks.splitOn " ").filter (· ≠ "")) []).1
    let k := cost c [] p
    let e := exec c [] p
    let thr := if k.1 = 0 then 0 else k.1 + 1
    let runs := ",".intercalate ((natList budgets).map (showProgRun · c p))
    s!"{id}\t{thr}\t{k.1}\t{runs}\t{if e.2 then "ok" else "fail"}\t{" ".intercalate e.1}"
  | [id, budgets, pb, ks, names] =>
    let trace := (names.splitOn " ").filter (· ≠ "")
    let runs := ",".intercalate ((natList budgets).map (showRun · trace))
    let probes := match pb.trimAscii.toString.toNat? with
      | some b => ",".intercalate ((natList ks).map (showProbe b trace))
      | none => ""
    s!"{id}\t{thr trace}\t{total trace}\t{runs}\t{probes}"
  | _ => "bad-case"

partial def loop (h : IO.FS.Stream) (out : IO.FS.Stream) : IO Unit := do
  let line ← h.getLine
  if line.isEmpty then return ()
  out.putStrLn (handle (line.dropEndWhile (· == '\n')).toString)
  loop h out

def main : IO Unit := do
  loop (← IO.getStdin) (← IO.getStdout)
