import MJ.Model.Kernels
import MJ.Model.IntOps
import MJ.Model.ReprStr
import MJ.Model.Stk
import MJ.Model.Nesting
/-! Line driver for C01: `k <kernel> <args…>` case lines (as `harness/src/bin/c01.rs` names them) →
    `case<TAB>model result`, in the harness' canonical form (`ok:…`, `err`, `panic`); `-` for cases
    the model does not cover. -/
open MJ MJ.Kernels

/-- bytes the allocator grants a worker (the harness runs them under `ulimit -v 2097152`) -/
def workerMem : Nat := 2147483648

def optInt (s : String) : Option (Option Int) :=
  if s = "_" then some none else (s.toInt?).map some

def showRes {α : Type} (f : α → String) : Chk (Out α) → String
  | .panic => "panic"
  | .ok o => match o.res with
    | .error => "err"
    | .ok a => "ok:" ++ f a

def kernelInput (l : Nat) : List Char :=
  (List.range l).map fun i => if i % 3 = 2 then '\n' else 'x'

def joinNat (xs : List Nat) : String := ",".intercalate (xs.map toString)

def modelRange (a : Int) (b c : Option Int) : String :=
  showRes (fun (r : RangeOut) =>
    if r.len = 0 then "0:_:_" else s!"{r.len}:{r.item 0}:{r.item (r.len - 1)}") (rangeK a b c)

def modelCycle (n argc : Nat) : String :=
  let rs := (List.range n).map fun idx => cycleK idx argc
  if rs.any (fun r => match r with | .panic => true | _ => false) then "panic"
  else if rs.any (fun r => match r with | .ok o => (match o.res with | .error => true | _ => false) | _ => false) then "err"
  else "ok:" ++ String.join (rs.map fun r => match r with
    | .ok o => (match o.res with | .ok (some i) => s!"{i}," | _ => ",")
    | _ => "")

def lexText (nl pad : Nat) (tail : String) : Option (List Char) :=
  let pre := List.replicate nl '\n' ++ List.replicate pad ' '
  if tail = "chr" then some (pre ++ "{{ ".toList)
  else if tail = "str" then some (pre ++ "{{ 'abc }}".toList)
  else none

def fmtModel (style : String) (w : Int) : String :=
  let n := asUsize? w
  if style = "pw" ∨ style = "pz" ∨ style = "ps" ∨ style = "sw" ∨ style = "sz" ∨ style = "sc" then
    showRes toString (fmtWidthK n 1)
  else if style = "pp" ∨ style = "sp" then
    showRes (fun (p : Nat) => toString (if p = 0 then 1 else p + 2)) (fmtPrecisionK n 0)
  else if style = "ph" ∨ style = "sh" then
    -- %g of 0.0001234 (exponent -4: the three extra digits are really requested): "0.0001", "0.00012", …
    -- (the kernel returns precision + 3; from ~63 significant digits on the binary expansion is exhausted: 67 bytes)
    showRes (fun (a : Nat) => if a ≤ 4 then "6" else if a = 5 then "7" else if a = 6 then "8" else if a ≤ 18 then "9" else if 70 ≤ a then "67" else "?") (fmtPrecisionK n 3)
  else
    -- %g of 1.5: "2" for precision 0 and 1, "1.5" above; up to three extra digits are requested
    showRes (fun (p : Nat) => if p ≤ 4 then "1" else "3") (fmtPrecisionK n 3)

/-! ### parse derivations: `x` | `c<kind>(P,Rep,…)` | `g(Rep,…)`; `Rep` = `[n*]P` -/
namespace NestDrive
open MJ.Nesting

/-- recursive-descent parser on a character list; returns the derivation and the rest -/
partial def parseP : List Char → Option (P × List Char)
  | 'x' :: rest => some (.leaf, rest)
  | 'c' :: _k :: '(' :: rest =>
    match parseP rest with
    | some (l, rest') =>
      match parseReps rest' [] with
      | some (its, rest'') => some (.chain l its, rest'')
      | none => none
    | none => none
  | 'g' :: '(' :: ')' :: rest => some (.group [], rest)
  | 'g' :: '(' :: rest =>
    match parseRep rest with
    | some (first, rest') =>
      match parseReps rest' first with
      | some (items, rest'') => some (.group items, rest'')
      | none => none
    | none => none
  | _ => none
where
  parseNat (cs : List Char) (acc : Nat) : Nat × List Char :=
    match cs with
    | c :: rest => if c.isDigit then parseNat rest (acc * 10 + (c.toNat - 48)) else (acc, cs)
    | [] => (acc, [])
  parseRep (cs : List Char) : Option (List P × List Char) :=
    match cs with
    | c :: _ =>
      if c.isDigit then
        let (n, rest) := parseNat cs 0
        match rest with
        | '*' :: rest' =>
          match parseP rest' with
          | some (p, rest'') => some (List.replicate n p, rest'')
          | none => none
        | _ => none
      else
        match parseP cs with
        | some (p, rest) => some ([p], rest)
        | none => none
    | [] => none
  parseReps (cs : List Char) (acc : List P) : Option (List P × List Char) :=
    match cs with
    | ')' :: rest => some (acc, rest)
    | ',' :: rest =>
      match parseRep rest with
      | some (ps, rest') => parseReps rest' (acc ++ ps)
      | none => none
    | _ => none

def handle (enc : String) : String :=
  match parseP enc.toList with
  | some (p, []) =>
    match parse .real p with
    | .ok _ => "ok"
    | .error .chain => "err-chain"
    | .error .recursion => "err-rec"
  | _ => "bad-case"

end NestDrive

def showOptNat : Option Nat → String
  | some n => toString n
  | none => ""

def showBool (b : Bool) : String := if b then "True" else "False"

def modelLoopAttr (len : Nat) (sized : Bool) : String :=
  let rows := (List.range len).map fun idx => loopAttrsK idx (if sized then some len else none) 0
  if rows.any (fun r => match r with | .panic => true | _ => false) then "panic"
  else "ok:" ++ String.join (rows.map fun r => match r with
    | .ok (some a) => s!"{a.index0}:{a.index}:{showOptNat a.length}:{showOptNat a.revindex}:{showOptNat a.revindex0}:{showBool a.first}:{showBool a.last}:{a.depth}:{a.depth0};"
    | _ => "::::::::;")

/-- the loop object read after its loop: exhausted (`idx = len`) or left at the first item (`idx = 0`) -/
def modelLoopEsc (len : Nat) (sized brk : Bool) : String :=
  match loopAttrsK (if brk then 0 else len) (if sized then some len else none) 0 with
  | .panic => "panic"
  | .ok (some a) => s!"ok:{a.index0}:{a.index}:{showOptNat a.length}:{showOptNat a.revindex}:{showOptNat a.revindex0}:{showBool a.first}:{showBool a.last}:{a.depth}:{a.depth0};"
  | .ok none => "ok:::::::::;"

def modelZpad (style : String) (d w : Nat) : String :=
  let g := if style = "x" then 4 else 3
  let l := groupedLen d g
  if l < w then showRes toString (zeroPadK l ((d - 1) % g + 1) (w - l) g)
  else s!"ok:{l}"

def handle (case : String) : String :=
  match case.trimAscii.toString.splitOn " " with
  | ["k", "nest", enc] => NestDrive.handle enc
  | ["k", "loopattr", len, sized] =>
    match len.toNat? with
    | some len => modelLoopAttr len (sized == "1")
    | none => "bad-case"
  | ["k", "localid", _kind, k] =>
    match k.toNat? with
    | some k =>
      -- k distinct names in order, then the last three once more in reverse
      let names := (List.range k).map toString
      let ids := assignLocalIds Gen.maxLocals [] (names ++ (names.reverse.take 3))
      "ok:" ++ ",".intercalate (ids.map toString)
    | none => "bad-case"
  | ["k", "mergedepth", _pat, _sized, _k] =>
    -- `mergeSeq_depth_bounded`: the nesting of lazily concatenated sequences never exceeds MAX_DEPTH,
    -- whatever the accumulate pattern and however many rounds
    "ok:bounded"
  | ["k", "loopesc", len, sized, brk] =>
    match len.toNat? with
    | some len => modelLoopEsc len (sized == "1") (brk == "1")
    | none => "bad-case"
  | ["k", "nestamp", _pos, _k, enc] =>
    -- the amplified derivation contains the original one on a path: rejected whenever the original is
    match NestDrive.handle enc with
    | "err-chain" => "err-chain"
    | _ => "-"
  | ["k", "zpad", style, d, w] =>
    match d.toNat?, w.toNat? with
    | some d, some w => modelZpad style d w
    | _, _ => "bad-case"
  | ["k", "range", a, b, c] =>
    match a.toInt?, optInt b, optInt c with
    | some a, some b, some c => modelRange a b c
    | _, _, _ => "bad-case"
  | ["k", "cycle", n, argc] =>
    match n.toNat?, argc.toNat? with
    | some n, some argc => modelCycle n argc
    | _, _ => "bad-case"
  | ["k", "dbgwin", l, n] =>
    match l.toNat?, n.toNat? with
    | some l, some n =>
      match MJ.IntOps.debugWindowK (some l) n with
      | .ok (pre, cur, post) => s!"ok:{joinNat pre};{joinNat cur};{joinNat post}"
      | .panic => "panic"
    | _, _ => "bad-case"
  | ["k", "reprstr", cps] =>
    let cs : List Char := if cps = "_" then [] else (cps.splitOn ",").filterMap (fun t => t.toNat?.map Char.ofNat)
    match MJ.ReprStr.reprOut cs with
    | .ok n => s!"ok:{n}"
    | .panic => "panic"
  | ["k", "intop", op, a, b] =>
    match a.toInt?, b.toInt? with
    | some a, some b =>
      let r : Option (Chk MJ.IntOps.R) := match op with
        | "add" => some (MJ.IntOps.binK .add a b)
        | "sub" => some (MJ.IntOps.binK .sub a b)
        | "mul" => some (MJ.IntOps.binK .mul a b)
        | "rem" => some (MJ.IntOps.binK .rem a b)
        | "intdiv" => some (MJ.IntOps.binK .intDiv a b)
        | "pow" => some (MJ.IntOps.binK .pow a b)
        | "neg" => some (MJ.IntOps.negK a)
        | "abs" => some (MJ.IntOps.absK a)
        | _ => none
      match r with
      | some (.ok (.val v)) => s!"ok:{v}"
      | some (.ok .err) => "err"
      | some .panic => "panic"
      | none => "bad-case"
    | _, _ => "bad-case"
  | ["k", "mulstr", l, n, _side] =>
    match l.toNat?, n.toInt? with
    | some l, some n => showRes toString (mulStrK l (asUsize? n))
    | _, _ => "bad-case"
  | ["k", "mulseq", kind, l, n] =>
    match l.toNat?, n.toInt? with
    | some l, some n =>
      let len := if kind = "unsized" then none else some l
      showRes (fun (t : Nat) => s!"{t}:{min t 1000}") (repeatSeqK (kind == "tuple") len (asUsize? n))
    | _, _ => "bad-case"
  | ["k", "indent", l, w, fi, bl] =>
    match l.toNat?, w.toInt? with
    | some l, some w => showRes toString (indentK (asUsize? w) (fi == "1") (bl == "1") (kernelInput l))
    | _, _ => "bad-case"
  | ["k", "tojson", w] =>
    match w.toInt? with
    | some w => showRes (fun (i : Nat) => toString (5 * i + 12)) (tojsonIndentK (asUsize? w))
    | _ => "bad-case"
  | ["k", "fmtw", style, w] =>
    match w.toInt? with
    | some w => fmtModel style w
    | _ => "bad-case"
  | ["k", "batch", len, n, fill] =>
    match len.toNat?, n.toInt? with
    | some len, some n =>
      showRes (fun (ls : List Nat) => s!"{ls.length}:{joinNat (ls.take 12)}") (batchK workerMem len (asUsize? n) (fill == "1"))
    | _, _ => "bad-case"
  | ["k", "slicef", len, n, fill] =>
    match len.toNat?, n.toInt? with
    | some len, some n =>
      showRes (fun (ls : List Nat) => s!"{ls.length}:{joinNat (ls.take 12)}") (sliceFK workerMem len (asUsize? n) (fill == "1"))
    | _, _ => "bad-case"
  | ["k", "lexcol", nl, pad, tail] =>
    match nl.toNat?, pad.toNat? with
    | some nl, some pad =>
      match lexText nl pad tail with
      | some text => showRes (fun (r : Nat × Nat × Nat) => s!"{r.1}:{r.2.1}:{r.2.2}") (lexErrK text)
      | none => "-"
    | _, _ => "bad-case"
  | _ => "-"

/-! ### operand-stack translation validation: `S <TAB> id <TAB> stream <TAB> tok tok …` -/
namespace StkDrive
open MJ.Stk

def nats (s : String) : List (Option Nat) := ((s.splitOn ":").drop 1).map (·.toNat?)

def parseTok (s : String) : Option Instr :=
  match (s.splitOn ":").head!, nats s with
  | "e", [some a, some b] => some (.eff a b)
  | "z", [] => some .loadZero
  | "o", [] => some .loadOne
  | "ll", [some m] => some (.loadList m)
  | "bl", [some n] => some (.buildList n)
  | "bd", [] => some .buildDyn
  | "ul", [some n] => some (.unpackLists n)
  | "call", [some n, some r, some f] => some (.call n (r == 1) (f == 1))
  | "cdyn", [some r, some f] => some (.callDyn (r == 1) (f == 1))
  | "sw", [] => some .swap
  | "add", [] => some .add
  | "dup", [] => some .dupTop
  | "bm", [some o, some n] => some (.buildMacro o n)
  | "pl", [some r] => some (.pushLoop (r == 1))
  | "it", [some t] => some (.iterate t)
  | "plf", [] => some .popLoopFrame
  | "j", [some t] => some (.jump t)
  | "jf", [some t] => some (.jumpIfFalse t)
  | "jfp", [some t] => some (.jumpIfFalseOrPop t)
  | "jtp", [some t] => some (.jumpIfTrueOrPop t)
  | "fr", [] => some .fastRecurse
  | "ret", [] => some .ret
  | _, _ => none

def parseCode (s : String) : Option Code :=
  let toks := (s.splitOn " ").filter (· ≠ "")
  (toks.mapM parseTok).map List.toArray

def showAE : AE → String
  | .v => "v" | .z => "0" | .o => "1" | .l m => s!"L{m}" | .s m => s!"S{m}" | .p m => s!"P{m}"

def showAbs (a : Abs) : String := s!"[{" ".intercalate (a.stk.map showAE)}] loops={a.loops}"

/-- untrusted: the first pc the checker refuses -/
def diagnose (code : Code) (cert : Cert) : String :=
  match (List.range cert.size).find? (fun pc => !checkPc code cert pc) with
  | some pc => s!"pc={pc} {reprStr code[pc]?} state {(look cert pc).map showAbs}"
  | none =>
    match (entries code).find? (fun e => look cert e.1 ≠ some ⟨List.replicate e.2 .v, []⟩) with
    | some e => s!"entry {e} not certified with its initial stack"
    | none => "a recursive loop is not certified"

def handle (toks : String) : String :=
  match parseCode toks with
  | none => "bad-tokens"
  | some code =>
    let cert := inferStk code
    if checkStk code cert then
      let hmax := (List.range cert.size).foldl (fun m pc => max m ((look cert pc).map (·.stk.length) |>.getD 0)) 0
      s!"ok n={code.size} maxheight={hmax}"
    else s!"reject {diagnose code cert}"

end StkDrive

partial def loop (h : IO.FS.Stream) (out : IO.FS.Stream) : IO Unit := do
  let line ← h.getLine
  if line.isEmpty then return ()
  let case := (line.dropEndWhile (· == '\n')).toString
  match case.splitOn "\t" with
  | ["S", id, name, toks] => out.putStrLn s!"S\t{id}\t{name}\t{StkDrive.handle toks}"
  | _ => out.putStrLn s!"{case}\t{handle case}"
  loop h out

def main : IO Unit := do
  loop (← IO.getStdin) (← IO.getStdout)
