import MJ.Model.Reloader
import MJ.Model.LoaderStore
import MJ.Model.ReloaderLife
import Std.Data.HashSet
/-!
Line driver for C20.  Input lines (`<cfg>` has no blanks, fields separated by `.`):

  <cfg> all                  every schedule of the configuration (hook-to-hook granularity)
  <cfg> count                number of schedules only
  <cfg> sample <n> <seed>    up to n distinct random schedules
  <cfg> upto <n> <seed>      every schedule if there are at most n of them, else n distinct random ones
  <cfg> one <sched>          the given schedule (digits = thread indices)

cfg = `f<0|1>.e<0|1>.<thread>.<thread>…`, `x<0|1|2>` = the creator returns Ok / returns Err / panics;
thread = `R` (requester), `K` (requester through the notifier
clone the creator kept), `F0`/`F1` (`set_fast_reload`), `C0`/`C1` (`set_callback(|| b)`) or `Ac<cb>x<fails><script>` with
script letters `r` (request_reload), `t`/`u` (set_fast_reload true/false); `f1` = fast reload switched on
before any thread starts; `g0`/`g1` = like `f0`/`f1` but without any callback registered (`O=-`); `e1` = enumerate only schedules in which `request_reload` returns right after
it set the flag (a reduction that loses no behaviour, see lib/props/c20.py).

Output per schedule: `<cfg>\t<sched>\t<prediction>` with
  prediction = `P=<arrival point per step>|A=<i:g<gen>l<loadNo> | i:err>,…|G=<gen>@<step>[f],…|C=<creator calls>|O=<on_should_reload calls>`
or `<cfg>\t<sched>\tbad:<reason>`.
-/
open MJ.Reloader

structure Cfg where
  fast : Bool
  noCallbacks : Bool := false   -- `g0`/`g1`: no freshness / on_should_reload callback registered (O is not observable)
  eager : Bool
  threads : List Thread
  n : Nat            -- number of scheduled threads (without the fast-switching helper)

def parseScript (cs : List Char) : Option (List COp) :=
  cs.foldr (fun c acc => match acc with
    | none => none
    | some l => match c with
      | 'r' => some (.req :: l)
      | 't' => some (.setFast true :: l)
      | 'u' => some (.setFast false :: l)
      | '-' => some l
      | _ => none) (some [])

def parseThread (s : String) : Option Thread :=
  match s.toList with
  | ['R'] => some .reqIdle
  | ['K'] => some .reqIdle      -- requester through the notifier clone kept by the creator: same handle
  | ['F', '0'] => some (.fastIdle false)
  | ['F', '1'] => some (.fastIdle true)
  | ['C', '0'] => some (.cbIdle false)
  | ['C', '1'] => some (.cbIdle true)
  | 'A' :: 'c' :: c :: 'x' :: x :: rest =>
    match parseScript rest with
    | some sc => some (.acqIdle { cb := c == '1', fails := x == '1', panics := x == '2', script := sc })
    | none => none
  | _ => none

def parseCfg (s : String) : Option Cfg :=
  match s.splitOn "." with
  | f :: e :: ths =>
    let ts := ths.map parseThread
    if ts.all Option.isSome && (f == "f0" || f == "f1" || f == "g0" || f == "g1") && (e == "e0" || e == "e1") then
      let ts := ts.filterMap id
      let fast := f == "f1" || f == "g1"
      some { fast := fast, noCallbacks := f == "g0" || f == "g1", eager := e == "e1", n := ts.length,
             threads := if fast then ts ++ [.fastIdle true] else ts }
    else none
  | _ => none

def initState (c : Cfg) : State :=
  let σ := init c.threads
  if c.fast then (step σ c.n).getD σ else σ

def code : String → String
  | "BeforeCheck" => "Q" | "BeforeRemark" => "F"
  | "AfterCheck" => "K" | "AfterReset" => "Z" | "BeforeCreate" => "B" | "AfterCreate" => "C"
  | "BeforeSet" => "S" | "AfterSet" => "T" | "Holding" => "H" | "Done" => "D"
  | "AfterClear" => "E" | _ => "?"

/-- scheduling reductions (symmetry of identical threads; eager return) -/
def allowed (c : Cfg) (σ : State) (i : Nat) : Bool :=
  let th := σ.threads[i]?
  let sym := match th with
    | some .reqIdle => (List.range i).all fun j => σ.threads[j]? != some .reqIdle
    | some (.acqIdle cfg) => (List.range i).all fun j => σ.threads[j]? != some (.acqIdle cfg)
    | some (.fastIdle b) => (List.range i).all fun j => σ.threads[j]? != some (.fastIdle b)
    | some (.cbIdle b) => (List.range i).all fun j => σ.threads[j]? != some (.cbIdle b)
    | _ => true
  let eagerOk :=
    if c.eager then
      let pendingReq := (List.range c.n).find? fun j => match σ.threads[j]? with
        | some (.reqSet _) => true | _ => false
      match pendingReq with
      | some j => i == j
      | none => match σ.cur with
        | some a => match a.pc with
          | .innerSet _ _ => i == a.tid
          | _ => true
        | none => true
    else true
  sym && eagerOk

structure Trk where
  sched : List Nat := []       -- reversed
  points : List String := []   -- reversed
  builds : List String := []   -- reversed

def accStep (σ σ' : State) (i : Nat) (a : Trk) : Trk :=
  let k := a.sched.length
  let b := if σ'.creates != σ.creates then
      let mark := match σ.cur with
        | some c => if c.cfg.panics then "p" else if c.cfg.fails then "f" else ""
        | none => ""
      s!"{σ'.creates}@{k}{mark}" :: a.builds
    else a.builds
  { sched := i :: a.sched, points := code (pointName σ' i) :: a.points, builds := b }

def schedStr (l : List Nat) : String := String.join (l.reverse.map toString)

def finish (c : Cfg) (σ : State) (a : Trk) : String :=
  -- load numbers: the harness loads template "t" through every guard it gets; the loader runs
  -- iff the template cache of that environment is empty (new environment or cleared)
  let hand := σ.acqLog.reverse
  let (_, _, res) := hand.foldl (fun (st : Option (Nat × Nat) × Nat × List (Nat × String)) r =>
      let (last, loads, out) := st
      let key := (r.env.gen, r.env.clears)
      let loads := if last == some key then loads else loads + 1
      (some key, loads, (r.tid, s!"g{r.env.gen}l{loads}") :: out)) (none, 0, [])
  let acq := (List.range c.n).filterMap fun i =>
    match (c.threads[i]? : Option Thread) with
    | some (Thread.acqIdle _) =>
      match res.find? (fun p => p.1 == i) with
      | some p => some s!"{i}:{p.2}"
      | none => some (if σ.panicTids.contains i then s!"{i}:panic" else s!"{i}:err")
    | _ => none
  let alldone := (List.range c.n).all fun i => match σ.threads[i]? with
    | some .acqDone | some .reqDone | some .fastDone | some .cbDone => true | _ => false
  if alldone then
    s!"P={",".intercalate a.points.reverse}|A={",".intercalate acq}|G={",".intercalate a.builds.reverse}|C={σ.creates}|O={if c.noCallbacks then "-" else toString σ.onCalls}"
  else "bad:model-deadlock"

partial def dfs (c : Cfg) (σ : State) (a : Trk) (emit : String → String → IO Unit) : IO Unit := do
  let en := (List.range c.n).filter fun i => allowed c σ i && enabled σ i
  if en.isEmpty then
    emit (schedStr a.sched) (finish c σ a)
  else
    for i in en do
      match macroStep σ i with
      | some σ' => dfs c σ' (accStep σ σ' i a) emit
      | none => pure ()

def lcg (s : Nat) : Nat := (s * 6364136223846793005 + 1442695040888963407) % 18446744073709551616

partial def walk (c : Cfg) (σ : State) (a : Trk) (seed : Nat) : (String × String) × Nat :=
  let en := (List.range c.n).filter fun i => allowed c σ i && enabled σ i
  if en.isEmpty then ((schedStr a.sched, finish c σ a), seed)
  else
    let seed := lcg seed
    let i := en[(seed / 4294967296) % en.length]!
    match macroStep σ i with
    | some σ' => walk c σ' (accStep σ σ' i a) seed
    | none => ((schedStr a.sched, "bad:enabled-but-no-step"), seed)

def replay (c : Cfg) (sched : List Nat) : String := Id.run do
  let mut σ := initState c
  let mut a : Trk := {}
  for i in sched do
    match (if i < c.n then macroStep σ i else none) with
    | some σ' => a := accStep σ σ' i a; σ := σ'
    | none => return s!"bad:thread-{i}-not-enabled-at-step-{a.sched.length}"
  return finish c σ a

/-! ### the fs watcher's lifetime: sequential operation sequences (`wfs <site> <ops>`)
ops (comma separated): `P0|P1` persistent_watch, `F0|F1` set_fast_reload, `W` watch_path from outside,
`A` acquire, `R` request_reload + acquire, `X` one file change (= a request iff the model is watching)
+ acquire; site `c`: every creator call registers the path, `o`: it does not.  Every operation is a
thread of the model that runs to its end before the next one starts. -/

def runToEnd (σ : State) (i : Nat) : State := Id.run do
  let mut σ := σ
  for _ in [0:64] do
    match step σ i with
    | some σ' => σ := σ'
    | none => break
  return σ

def wfsPredict (site : String) (ops : List String) : String := Id.run do
  let acfg : AcqCfg := { script := if site == "c" then [.watch] else [] }
  -- threads: 0 = the first acquire; then per op
  let mut ths : List Thread := [.acqIdle acfg]
  for op in ops do
    ths := ths ++ (match op with
      | "P0" => [.persistIdle false] | "P1" => [.persistIdle true]
      | "F0" => [.fastIdle false] | "F1" => [.fastIdle true]
      | "W" => [.watchIdle] | "A" => [.acqIdle acfg]
      | "R" => [.reqIdle, .acqIdle acfg] | "X" => [.reqIdle, .acqIdle acfg]
      | _ => [])
  let mut σ := runToEnd (init ths) 0
  let mut i := 1
  let mut res := ""
  for op in ops do
    match op with
    | "R" => σ := runToEnd (runToEnd σ i) (i + 1); i := i + 2
    | "X" =>
      if σ.watching then
        res := res ++ "n"; σ := runToEnd σ i
      else
        res := res ++ "-"
      σ := runToEnd σ (i + 1); i := i + 2
    | "P0" | "P1" | "F0" | "F1" | "W" | "A" => σ := runToEnd σ i; i := i + 1
    | _ => res := res ++ "?"
  return s!"{res}|C={σ.creates}"


/-! ### the template store that fast reload clears (`store <ops>`)
ops (comma separated), names `a b c`, versions `0`–`3` (source text `<name>#<v>`), `x` = a source that does
not compile, and for the disk also `-` (no such file) and `!` (the loader fails):
`L` set_loader · `D<n><v>` the loader's answer for n changes · `B<n><v>` add_template · `O<n><v>`
add_template_owned · `R<n>` remove_template · `C` clear_templates · `G<n>` get_template · `E<n>` render `{% extends n %}` · `I<n><m>` render
`{% include [n, m] ignore missing %}`.  Observation per B/O/G/I, joined by `,`. -/

namespace StoreDrive
open MJ.LoaderStore

def okSrc (src : String) : Bool := !src.startsWith "{%"

def srcOf (n : Char) (v : Char) : String := if v == 'x' then "{% x" else s!"{n}#{v}"

def diskFn (d : List (String × LoadAns)) (name : String) : LoadAns := (d.lookup name).getD .missing

def showRes : Res → String
  | .tmpl src => "t" ++ src
  | .notFound => "nf"
  | .loaderErr => "le"
  | .syntaxErr => "se"

def predict (ops : List String) : String := Id.run do
  let mut s : Store := {}
  let mut disk : List (String × LoadAns) := []
  let mut out : List String := []
  for op in ops do
    match op.toList with
    | ['L'] => s := setLoader s
    | ['C'] => s := clear s
    | ['D', n, v] =>
      let a : LoadAns := if v == '-' then .missing else if v == '!' then .err else .found (srcOf n v)
      disk := (n.toString, a) :: disk.filter (fun p => p.1 != n.toString)
    | ['B', n, v] =>
      match insertBorrowed okSrc s n.toString (srcOf n v) with
      | some s' => s := s'; out := out ++ ["ok"]
      | none => out := out ++ ["se"]
    | ['O', n, v] =>
      match insertOwned okSrc s n.toString (srcOf n v) with
      | some s' => s := s'; out := out ++ ["ok"]
      | none => out := out ++ ["se"]
    | ['R', n] => s := remove s n.toString
    | ['G', n] | ['E', n] =>
      let g := get okSrc (diskFn disk) s n.toString
      s := g.store
      out := out ++ [showRes g.res ++ (if g.called then "+" else "")]
    | ['I', n, m] =>
      let mut calls := 0
      let mut res := "none"
      for c in [n, m] do
        if res == "none" then
          let g := get okSrc (diskFn disk) s c.toString
          s := g.store
          if g.called then calls := calls + 1
          match g.res with
          | .notFound => pure ()
          | r => res := showRes r
      out := out ++ [s!"{res}+{calls}"]
    | _ => out := out ++ ["?" ++ op]
  return ",".intercalate out

end StoreDrive

/-! ### lifetime of the reloader, two reloaders (`life <ops>`; op language in harness c20_life.inc) -/
namespace LifeDrive

def runToEndL (l : LState) (i : Nat) : LState := Id.run do
  let mut l := l
  for _ in [0:64] do
    match lstep l (.thread i) with
    | some l' => l := l'
    | none => break
  return l

def opThreads (op : String) : List Thread :=
  match op with
  | "A" => [.acqIdle {}]
  | "R" | "K" => [.reqIdle]
  | "F0" => [.fastIdle false] | "F1" => [.fastIdle true]
  | "B0" => [.cbIdle false] | "B1" => [.cbIdle true]
  | _ => []

def split2 (op : String) : Bool × String :=
  if op.startsWith "2" then (true, (op.drop 1).toString) else (false, op)

/-- threads of reloader `second`: its own ops, and a requester for every `X` of the OTHER reloader (the
    request that reloader's creator issues on this one) -/
def threadsOf (ops : List String) (second : Bool) : List Thread :=
  ops.flatMap fun o =>
    let (s2, op) := split2 o
    if op == "X" then (if s2 != second then [.reqIdle] else [])
    else if s2 == second then opThreads op else []

def predict (ops : List String) : String := Id.run do
  let mut p : PState := ⟨linit (threadsOf ops false), linit (threadsOf ops true)⟩
  let mut i1 := 0
  let mut i2 := 0
  let mut arm1 : Option Nat := none     -- reloader 1's creator is armed: index of the requester thread in reloader 2
  let mut arm2 : Option Nat := none
  let mut out : List String := []
  for o in ops do
    let (second, op) := split2 o
    if op == "X" then
      -- the requester thread lives in the OTHER reloader's thread list
      if second then
        arm2 := some i1; i1 := i1 + 1
      else
        arm1 := some i2; i2 := i2 + 1
      continue
    let l := if second then p.r2 else p.r1
    let i := if second then i2 else i1
    let mut l' := l
    match op with
    | "A" =>
      l' := runToEndL l i
      out := out ++ [match l'.base.acqLog.head? with
        | some a => if l'.base.acqLog.length > l.base.acqLog.length then s!"g{a.env.gen}" else "no-guard"
        | none => "no-guard"]
    | "R" | "K" | "F0" | "F1" | "B0" | "B1" => l' := runToEndL l i
    | "D" => l' := (lstep l .drop).getD l
    | "Q" | "q" => out := out ++ [if l.alive then "d0" else "d1"]
    | _ => out := out ++ ["?" ++ op]
    let n := (opThreads op).length
    if second then
      p := { p with r2 := l' }; i2 := i2 + n
    else
      p := { p with r1 := l' }; i1 := i1 + n
    -- the creator ran in this acquire and is armed: its request on the other reloader (the two reloaders are
    -- independent, `several_reloaders_independent`: where in the acquire the request falls does not matter)
    if op == "A" && l'.base.creates > l.base.creates then
      if second then
        match arm2 with
        | some j => p := { p with r1 := runToEndL p.r1 j }; arm2 := none
        | none => pure ()
      else
        match arm1 with
        | some j => p := { p with r2 := runToEndL p.r2 j }; arm1 := none
        | none => pure ()
  out := out ++ [s!"C={p.r1.base.creates}/O={p.r1.base.onCalls}", s!"C={p.r2.base.creates}/O={p.r2.base.onCalls}"]
  return ",".intercalate out

end LifeDrive

def handle (line : String) (out : IO.FS.Stream) : IO Unit := do
  match line.trimAscii.toString.splitOn " " with
  | ["life", ops] => out.putStrLn s!"life\t{ops}\t{LifeDrive.predict (ops.splitOn ",")}"
  | ["store", ops] => out.putStrLn s!"store\t{ops}\t{StoreDrive.predict (ops.splitOn ",")}"
  | ["wfs", site, ops] => out.putStrLn s!"wfs\t{site}\t{ops}\t{wfsPredict site (ops.splitOn ",")}"
  | cfgS :: mode =>
    match parseCfg cfgS with
    | none => out.putStrLn s!"{cfgS}\t-\tbad:cfg"
    | some c =>
      let σ0 := initState c
      match mode with
      | ["all"] => dfs c σ0 {} fun s p => out.putStrLn s!"{cfgS}\t{s}\t{p}"
      | ["count"] =>
        let cnt ← IO.mkRef 0
        dfs c σ0 {} fun _ _ => cnt.modify (· + 1)
        out.putStrLn s!"{cfgS}\tcount\t{← cnt.get}"
      | ["upto", n, seed] =>
        -- every schedule if there are at most n, else n distinct random ones
        let n := n.toNat?.getD 0
        let cnt ← IO.mkRef 0
        dfs c σ0 {} fun _ _ => cnt.modify (· + 1)
        if (← cnt.get) ≤ n then
          dfs c σ0 {} fun s p => out.putStrLn s!"{cfgS}\t{s}\t{p}"
        else
          let mut seed := seed.toNat?.getD 1
          let mut seen : Std.HashSet String := {}
          let mut tries := 0
          while seen.size < n && tries < 4 * n + 16 do
            tries := tries + 1
            let ((s, p), seed') := walk c σ0 {} seed
            seed := seed'
            if !seen.contains s then
              seen := seen.insert s
              out.putStrLn s!"{cfgS}\t{s}\t{p}"
      | ["sample", n, seed] =>
        let n := n.toNat?.getD 0
        let mut seed := seed.toNat?.getD 1
        let mut seen : Std.HashSet String := {}
        let mut tries := 0
        while seen.size < n && tries < 4 * n + 16 do
          tries := tries + 1
          let ((s, p), seed') := walk c σ0 {} seed
          seed := seed'
          if !seen.contains s then
            seen := seen.insert s
            out.putStrLn s!"{cfgS}\t{s}\t{p}"
      | ["one", s] =>
        let sched := s.toList.map fun ch => ch.toNat - '0'.toNat
        out.putStrLn s!"{cfgS}\t{s}\t{replay c sched}"
      | _ => out.putStrLn s!"{cfgS}\t-\tbad:mode"
  | _ => pure ()

partial def loop (h : IO.FS.Stream) (out : IO.FS.Stream) : IO Unit := do
  let line ← h.getLine
  if line.isEmpty then return ()
  if line.trimAscii.toString != "" then handle line out
  loop h out

def main : IO Unit := do
  loop (← IO.getStdin) (← IO.getStdout)
