import MJ.Model.Num
import MJ.Model.NumLex
/-! Line driver for C08: `<op> <A> [<B>]` → `case<TAB>model<TAB>spec`.

* model: result of the Lean model of the engine (`i:<dec>` / `err:InvalidOperation`), `skip` for
  cases outside the modelled fragment (floats, comparisons);
* spec: the exact result computed with unbounded `Int`: `x:<dec>:req` (the engine must return it),
  `x:<dec>:opt` (exact or error), `big` (certainly outside 128 bits), `undef` (no integer result:
  must be an error), `-` (not an integer case). -/
open MJ.Num

/-- how the lexer stores a non-negative decimal integer literal (`u64::from_str_radix`, else `u128`) -/
def litRepr (n : Nat) : NumRepr := MJ.NumLex.reprOf n

/-- an operand as the engine sees it: a value, a syntax error of the lexer, or outside the model -/
inductive Opd where
  | val (r : Res)
  | syntaxErr

/-- a literal as written in the template: optional `(-` … `)` or `-` around a number spelled in any
    radix with separators; lexed by the model of `eat_number` -/
def lexLiteral (text : String) : Option Opd :=
  let t := if text.startsWith "(" ∧ text.endsWith ")" then ((text.drop 1).dropEnd 1).toString else text
  let negated := t.startsWith "-"
  let body := if negated then (t.drop 1).toString else t
  match MJ.NumLex.eatNumber body.toList with
  | (.err, _) => some .syntaxErr
  | (tok, []) =>
    match MJ.NumLex.tokRepr tok with
    | some x => some (.val (if negated then neg x else .ok x))
    | none => none
  | _ => none

/-- operand token → (what the engine computes with, mathematical value).  A negative literal is the
    unary minus applied to the literal (folded by the code generator when it succeeds, an
    `Instruction::Neg` at run time otherwise). -/
def parseOperand (tok : String) : Option (Opd × Int) :=
  match tok.splitOn ":" with
  | [form, v] =>
    if form = "src" then
      match v.splitOn "=" with
      | [text, value] =>
        match value.toInt?, lexLiteral text with
        | some i, some o => some (o, i)
        | _, _ => none
      | _ => none
    else
    match v.toInt? with
    | none => none
    | some i =>
      if form = "lit" then
        if i < 0 then some (.val (neg (litRepr i.natAbs)), i) else some (.val (.ok (litRepr i.toNat)), i)
      else if form = "u64" ∨ form = "su64" ∨ form = "u8" ∨ form = "u16" ∨ form = "u32" ∨ form = "usize" then
        some (.val (.ok (.u64 i.toNat)), i)
      else if form = "i64" ∨ form = "si64" ∨ form = "i8" ∨ form = "i16" ∨ form = "i32" ∨ form = "isize" then
        some (.val (.ok (.i64 i)), i)
      else if form = "u128" ∨ form = "su128" then some (.val (.ok (.u128 i.toNat)), i)
      else if form = "i128" ∨ form = "si128" then some (.val (.ok (.i128 i)), i)
      else none
  | _ => none

def parseOp (s : String) : Option Op :=
  if s = "add" then some .add else if s = "sub" then some .sub else if s = "mul" then some .mul
  else if s = "fdiv" then some .floordiv else if s = "rem" then some .rem
  else if s = "pow" then some .pow else none

def showRes : Res → String
  | .ok v => s!"i:{v.val}"
  | .err => "err:InvalidOperation"

def showSpec (defined : Bool) (big : Bool) (exact : Int) (req : Bool) : String :=
  if !defined then "undef"
  else if big then "big"
  else s!"x:{exact}:{if req then "req" else "opt"}"

def specBin (op : Op) (a b : Int) : String :=
  let inr := decide (InI128 a) && decide (InI128 b)
  match op with
  | .floordiv | .rem =>
    if b = 0 then "undef"
    else
      let e := op.denote a b
      showSpec true false e (inr && decide (InI128 e))
  | .pow =>
    if b < 0 then
      (if a = 1 ∨ a = -1 then showSpec true false (if b % 2 = 0 then 1 else a) false else "undef")
    else if 2 ≤ a.natAbs ∧ 128 ≤ b then "big"
    else if a.natAbs ≤ 1 then
      -- 0, 1, -1 to any power, without computing with a huge exponent
      let e : Int := if a = 0 then (if b = 0 then 1 else 0) else if a = 1 then 1 else if b % 2 = 0 then 1 else -1
      showSpec true false e (inr && decide (b < 4294967296))
    else
      let e := op.denote a b
      showSpec true false e (inr && decide (InI128 e) && decide (b < 4294967296))
  | _ =>
    let e := op.denote a b
    showSpec true false e (inr && decide (InI128 e))

def handle (line : String) : String :=
  let case := (line.splitOn "\t").head!
  match case.trimAscii.toString.splitOn " " with
  | ["lex", text] =>
    let src := text.toList
    match MJ.NumLex.eatNumber src with
    | (.int n, rest) => s!"{case}\tint:{n}@{src.length - rest.length}\t-"
    | (.int128 n, rest) => s!"{case}\tint128:{n}@{src.length - rest.length}\t-"
    | (.float _, rest) => s!"{case}\tfloat@{src.length - rest.length}\t-"
    | (.err, _) => s!"{case}\terr:SyntaxError\t-"
  | ["neg", a] =>
    match parseOperand a with
    | some (oa, va) =>
      let m := match oa with
        | .val (.ok x) => showRes (neg x)
        | .val .err => showRes .err
        | .syntaxErr => "err:SyntaxError"
      s!"{case}\t{m}\t{showSpec true false (-va) (decide (InI128 va) && decide (InI128 (-va)))}"
    | none => s!"{case}\tskip\t-"
  | [op, a, b] =>
    match parseOp op, parseOperand a, parseOperand b with
    | some op, some (oa, va), some (ob, vb) =>
      let m := match oa, ob with
        | .syntaxErr, _ => "err:SyntaxError"
        | _, .syntaxErr => "err:SyntaxError"
        | .val (.ok x), .val (.ok y) => showRes (binop op x y)
        | _, _ => showRes .err
      s!"{case}\t{m}\t{specBin op va vb}"
    | _, _, _ => s!"{case}\tskip\t-"
  | _ => s!"{case}\tskip\t-"

partial def loop (h : IO.FS.Stream) (out : IO.FS.Stream) : IO Unit := do
  let line ← h.getLine
  if line.isEmpty then return ()
  out.putStrLn (handle (line.dropEndWhile (· == '\n')).toString)
  loop h out

def main : IO Unit := do
  loop (← IO.getStdin) (← IO.getStdout)
