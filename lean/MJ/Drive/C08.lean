import MJ.Model.Num
import MJ.Model.NumLex
import MJ.Model.NumF
import MJ.Model.NumX
/-! Line driver for C08: `<op> <A> [<B>]` → `case<TAB>model<TAB>spec`.

* model: result of the Lean model of the engine (`i:<dec>` / `err:InvalidOperation`), `skip` for
  cases outside the modelled fragment (floats, comparisons);
* spec: the exact result computed with unbounded `Int`: `x:<dec>:req` (the engine must return it),
  `x:<dec>:opt` (exact or error), `big` (certainly outside 128 bits), `undef` (no integer result:
  must be an error), `-` (not an integer case). -/
open MJ.Num

/-- how the lexer stores a non-negative decimal integer literal (`u64::from_str_radix`, else `u128`) -/
def litRepr (n : Nat) : NumRepr := MJ.NumLex.reprOf n

/-- an operand as the engine sees it: a value, a syntax error of the lexer, or outside the model -/
inductive Opd where
  | val (r : Res)
  | syntaxErr

/-- a literal as written in the template: optional `(-` … `)` or `-` around a number spelled in any
    radix with separators; lexed by the model of `eat_number` -/
def lexLiteral (text : String) : Option Opd :=
  let t := if text.startsWith "(" ∧ text.endsWith ")" then ((text.drop 1).dropEnd 1).toString else text
  let negated := t.startsWith "-"
  let body := if negated then (t.drop 1).toString else t
  match MJ.NumLex.eatNumber body.toList with
  | (.err, _) => some .syntaxErr
  | (tok, []) =>
    match MJ.NumLex.tokRepr tok with
    | some x => some (.val (if negated then neg x else .ok x))
    | none => none
  | _ => none

/-- operand token → (what the engine computes with, mathematical value).  A negative literal is the
    unary minus applied to the literal (folded by the code generator when it succeeds, an
    `Instruction::Neg` at run time otherwise). -/
def parseOperand (tok : String) : Option (Opd × Int) :=
  match tok.splitOn ":" with
  | [form, v] =>
    if form = "src" then
      match v.splitOn "=" with
      | [text, value] =>
        match value.toInt?, lexLiteral text with
        | some i, some o => some (o, i)
        | _, _ => none
      | _ => none
    else
    match v.toInt? with
    | none => none
    | some i =>
      if form = "lit" then
        if i < 0 then some (.val (neg (litRepr i.natAbs)), i) else some (.val (.ok (litRepr i.toNat)), i)
      else if form = "u64" ∨ form = "su64" ∨ form = "u8" ∨ form = "u16" ∨ form = "u32" ∨ form = "usize" then
        some (.val (.ok (.u64 i.toNat)), i)
      else if form = "i64" ∨ form = "si64" ∨ form = "i8" ∨ form = "i16" ∨ form = "i32" ∨ form = "isize" then
        some (.val (.ok (.i64 i)), i)
      else if form = "u128" ∨ form = "su128" then some (.val (.ok (.u128 i.toNat)), i)
      else if form = "i128" ∨ form = "si128" then some (.val (.ok (.i128 i)), i)
      else none
  | _ => none

def showRes : Res → String
  | .ok v => s!"i:{v.val}"
  | .err => "err:InvalidOperation"

def hexDigit (c : Char) : Option Nat :=
  if '0' ≤ c ∧ c ≤ '9' then some (c.toNat - 48)
  else if 'a' ≤ c ∧ c ≤ 'f' then some (c.toNat - 87)
  else if 'A' ≤ c ∧ c ≤ 'F' then some (c.toNat - 55) else none

def parseHex (s : String) : Option Nat :=
  s.toList.foldl (fun acc c => match acc, hexDigit c with
    | some a, some d => some (a * 16 + d)
    | _, _ => none) (some 0)

def hex16 (n : Nat) : String :=
  let ds := Nat.toDigits 16 n
  String.ofList (List.replicate (16 - ds.length) '0' ++ ds)

/-- `f32 as f64` (exact widening) of a finite single given by its bits -/
def f32ToF64 (b : Nat) : Nat :=
  let sgn := b / 2147483648
  let e := (b % 2147483648) / 8388608
  let m := b % 8388608
  let signBits := sgn * 9223372036854775808
  if e = 0 then
    if m = 0 then signBits
    else
      -- subnormal single: m * 2^-149, normal as a double
      let l := Nat.log2 m
      signBits + (l + 1023 - 149) * 4503599627370496 + (m * 2 ^ (52 - l) - 4503599627370496)
  else if e = 255 then signBits + 2047 * 4503599627370496 + m * 536870912   -- infinity / NaN
  else signBits + (e + 896) * 4503599627370496 + m * 536870912

/-- any numeric operand as a number of the shared value model (floats by bit pattern) -/
def parseN (tok : String) : Option MJ.Val.N :=
  match tok.splitOn ":" with
  | [form, v] =>
    if form = "flit" ∨ form = "f64" ∨ form = "sf64" then (parseHex v).map .f64
    else if form = "f32" ∨ form = "sf32" then (parseHex v).map (fun b => .f64 (f32ToF64 b))
    else if form = "fsrc" ∨ form = "fexp" then
      match v.splitOn "=" with
      | [_, bits] => (parseHex bits).map .f64
      | _ => none
    else
      match parseOperand tok with
      | some (.val (.ok r), _) => some (MJ.NumF.ofRepr r)
      | _ => none
  | _ => none

def showBits (b : Nat) : String := s!"f:{hex16 b}"
def showBool (b : Bool) : String := if b then "b:1" else "b:0"

def parseCmp (s : String) : Option MJ.NumF.CmpOp :=
  if s = "lt" then some .lt else if s = "le" then some .le else if s = "gt" then some .gt
  else if s = "ge" then some .ge else if s = "eq" then some .eq else if s = "ne" then some .ne else none

def isFloatN : MJ.Val.N → Bool
  | .f64 _ => true
  | _ => false

def showN : MJ.Val.N → String
  | .f64 b => showBits b
  | n => s!"i:{n.int}"

def isLiteralTok (tok : String) : Bool :=
  tok.startsWith "lit:" || tok.startsWith "src:" || tok.startsWith "flit:" || tok.startsWith "fsrc:" ||
    tok.startsWith "fexp:"

def allSome {α : Type} : List (Option α) → Option (List α)
  | [] => some []
  | none :: _ => none
  | some x :: xs => (allSome xs).map (x :: ·)

/-- the comparison a registered test name stands for (`ge`, `>=`, `greaterthan`, …) -/
def testOp (name : String) : Option MJ.NumF.CmpOp :=
  match MJ.Gen.compareTestNames.lookup name with
  | some arm => [MJ.NumF.CmpOp.lt, .le, .gt, .ge, .eq, .ne].find? (fun o => MJ.NumF.armName o == arm)
  | none => none

/-- any operand the round-5 model knows: integer of any form, `Bool`, float -/
def parseX (tok : String) : Option MJ.NumX.XOpnd :=
  match tok.splitOn ":" with
  | ["bool", v] => if v = "1" then some (.bool true) else if v = "0" then some (.bool false) else none
  | _ =>
    match parseN tok with
    | some (.f64 b) => some (.float b)
    | _ =>
      match parseOperand tok with
      | some (.val (.ok r), _) => some (.int r)
      | _ => none

def xToI : MJ.NumX.XOpnd → Option MJ.NumX.IOpnd
  | .int r => some (.int r)
  | .bool b => some (.bool b)
  | .float _ => none

def xToV (x : MJ.NumX.XOpnd) : MJ.Val.V :=
  match x with
  | .bool b => .bool b
  | _ => .num x.toN

def xIsBool : MJ.NumX.XOpnd → Bool
  | .bool _ => true
  | _ => false

def xIsFloat : MJ.NumX.XOpnd → Bool
  | .float _ => true
  | _ => false

/-- the comparison instructions on values that may be `Bool`s (C07's `Ord` / `PartialEq` model) -/
def cmpOpV (op : MJ.NumF.CmpOp) (a b : MJ.Val.V) : Bool :=
  match op with
  | .lt => MJ.Cmp.cmpV a b == .lt
  | .le => MJ.Cmp.cmpV a b != .gt
  | .gt => MJ.Cmp.cmpV a b == .gt
  | .ge => MJ.Cmp.cmpV a b != .lt
  | .eq => MJ.Cmp.eqV .btree a b
  | .ne => !MJ.Cmp.eqV .btree a b

def showV : MJ.Val.V → String
  | .bool b => showBool b
  | .num n => showN n
  | _ => "other"

def hexByte (a b : Char) : Option Nat :=
  match hexDigit a, hexDigit b with
  | some x, some y => some (x * 16 + y)
  | _, _ => none

def unhexBytes : List Char → Option (List UInt8)
  | [] => some []
  | a :: b :: rest =>
    match hexByte a b, unhexBytes rest with
    | some v, some t => some (v.toUInt8 :: t)
    | _, _ => none
  | _ => none

/-- `str:<hex of the UTF-8 bytes>` -/
def parseStrTok (tok : String) : Option (List Char) :=
  match tok.splitOn ":" with
  | ["str", h] =>
    match unhexBytes h.toList with
    | some bs => (String.fromUTF8? (ByteArray.mk bs.toArray)).map (·.toList)
    | none => none
  | _ => none

def parseFOp (s : String) : Option MJ.NumX.FOp :=
  if s = "add" then some .add else if s = "sub" then some .sub else if s = "mul" then some .mul
  else if s = "div" then some .div else none

def isBinName (s : String) : Bool :=
  s = "add" || s = "sub" || s = "mul" || s = "fdiv" || s = "rem" || s = "pow"

def opOfName (s : String) : Option Op :=
  if s = "add" then some .add else if s = "sub" then some .sub else if s = "mul" then some .mul
  else if s = "fdiv" then some .floordiv else if s = "rem" then some .rem
  else if s = "pow" then some .pow else none

/-- the round-5 streams: `Bool` operands, float arithmetic, `/`, float `**`, tests, `round(p)`,
    strings -/
def handleX (fields : List String) : Option String :=
  match fields with
  | ["f_strint", a] => (parseStrTok a).map (fun cs => showRes (MJ.NumX.intOfStr cs))
  | ["f_strfloat", a] =>
    (parseStrTok a).map (fun cs => match MJ.NumX.floatOfStr cs with
      | some b => showBits b
      | none => "err:InvalidOperation")
  | ["neg", a] =>
    match parseX a with
    | some (.bool _) => some "err:InvalidOperation"
    | _ => none
  | ["t_odd", a] => (parseX a).map (fun x => showBool (MJ.NumX.isOdd x))
  | ["t_even", a] => (parseX a).map (fun x => showBool (MJ.NumX.isEven x))
  | ["t_divby", a, b] =>
    match parseX a, parseX b with
    | some x, some y => some (showBool (MJ.NumX.isDivisibleBy x y))
    | _, _ => none
  | ["f_int", a] =>
    match parseX a with
    | some (.bool b) => some (showRes (.ok (MJ.NumX.intOfBool b)))
    | _ => none
  | ["f_float", a] =>
    match parseX a with
    | some (.bool b) => some (showBits (MJ.NumX.floatOfBool b))
    | _ => none
  | ["f_abs", a] =>
    match parseX a with
    | some (.bool _) => some "err:InvalidOperation"
    | _ => none
  | ["f_round", a] =>
    match parseX a with
    | some (.bool _) => some "err:InvalidOperation"
    | _ => none
  | ["f_roundp", a, b] =>
    match parseX a, parseX b with
    | some (.int r), some (.int _) => some (showRes (MJ.NumX.roundInt r none))
    | some (.float x), some (.int p) =>
      if MJ.Num.InI128 p.val ∧ -2147483648 ≤ p.val ∧ p.val ≤ 2147483647 then
        (MJ.NumX.roundF x p.val).map showBits
      else none
    | some (.bool _), some (.int _) => some "err:InvalidOperation"
    | _, _ => none
  | ["f_sum", a, b] =>
    match parseX a, parseX b with
    | some x, some y => if xIsBool x || xIsBool y then some "err:InvalidOperation" else none
    | _, _ => none
  | [op, a, b] =>
    match parseX a, parseX b with
    | some x, some y =>
      let anyBool := xIsBool x || xIsBool y
      let anyFloat := xIsFloat x || xIsFloat y
      match parseCmp op with
      | some c => if anyBool then some (showBool (cmpOpV c (xToV x) (xToV y))) else none
      | none =>
        if op = "f_min" ∨ op = "f_max" then
          if anyBool then
            let (va, vb) := (xToV x, xToV y)
            let gt := MJ.Cmp.cmpV va vb == .gt
            some (showV (if op = "f_min" then (if gt then vb else va) else (if gt then va else vb)))
          else none
        else if op = "div" ∨ (anyFloat ∧ (op = "add" ∨ op = "sub" ∨ op = "mul")) then
          match parseFOp op with
          | some f => (MJ.NumX.arithF f x.toN y.toN).map showBits
          | none => none
        else if anyFloat ∧ op = "pow" then
          match MJ.NumX.powF x.toN y.toN with
          | .bits r => some (showBits r)
          | .nan => some "f:nan"
          | .unknown => none
        else if anyFloat ∧ (op = "rem" ∨ op = "fdiv") ∧ anyBool then
          (if op = "rem" then MJ.NumF.remF x.toN y.toN else MJ.NumF.intDivF x.toN y.toN).map showBits
        else if anyBool ∧ ¬ anyFloat then
          match opOfName op, xToI x, xToI y with
          | some o, some ia, some ib => some (showRes (MJ.NumX.binopX o ia ib))
          | _, _, _ => none
        else none
    | _, _ => none
  | _ => none

/-- chained comparisons and the other implementations of the comparison operators -/
def handleImpl (fields : List String) : Option String :=
  match fields with
  | op :: toks =>
    match op.splitOn ":" with
    | ["chain", opsText] =>
      match allSome ((opsText.splitOn ",").map parseCmp), allSome (toks.map parseN) with
      | some ops, some (a :: rest) =>
        if ops.length = rest.length then
          let links := ops.zip rest
          -- a chain of constants is folded at compile time, anything else runs on the VM
          some (showBool (if toks.all isLiteralTok then MJ.NumF.chainFolded a links else MJ.NumF.chain a links))
        else none
      | _, _ => none
    | [kind, name] =>
      match testOp name, toks.map parseN with
      | some o, [some a, some b] =>
        let t := MJ.NumF.implCmp "tests:is" o a b
        if kind = "is" then some (showBool t)
        else if kind = "sel" ∨ kind = "selattr" then some (if t then "i:1" else "i:0")
        else if kind = "rej" then some (if t then "i:0" else "i:1")
        else none
      | _, _ => none
    | _ =>
      match toks.map parseN with
      | [some a, some b] =>
        if op = "f_min" then some (showN (MJ.NumF.minOf a b))
        else if op = "f_max" then some (showN (MJ.NumF.maxOf a b))
        else none
      | _ => none
  | _ => none

/-- cases outside the integer fragment: comparisons, float `//` `%`, float unary minus, filters -/
def handleExtra (fields : List String) : Option String :=
  match handleX fields with
  | some m => some m
  | none =>
  match handleImpl fields with
  | some m => some m
  | none =>
  match fields with
  | ["neg", a] =>
    match parseN a with
    | some (.f64 b) => some (showBits (MJ.NumF.fneg b))
    | _ => none
  | ["f_abs", a] =>
    match parseN a, parseOperand a with
    | some (.f64 b), _ => some (showBits (MJ.NumF.fabs b))
    | _, some (.val (.ok r), _) => some (showRes (absFilter r))
    | _, _ => none
  | ["f_float", a] => (parseN a).map (fun n => showBits (MJ.NumF.asF64Lossy n))
  | ["f_int", a] =>
    match parseN a, parseOperand a with
    | some (.f64 b), _ => some (showRes (MJ.NumF.intOfFloat b))
    | _, some (.val (.ok r), _) => some (showRes (intFilter r))
    | _, _ => none
  | ["f_round", a] =>
    match parseOperand a with
    | some (.val (.ok r), _) => some (showRes (intFilter r))
    | _ => none
  | ["f_sum", a, b] =>
    match parseOperand a, parseOperand b with
    | some (.val (.ok x), _), some (.val (.ok y), _) => some (showRes (sumFilter [x, y]))
    | _, _ => none
  | [op, a, b] =>
    match parseN a, parseN b with
    | some x, some y =>
      match parseCmp op with
      | some c => some (showBool (MJ.NumF.cmpOp c x y))
      | none =>
        if isFloatN x || isFloatN y then
          if op = "rem" then (MJ.NumF.remF x y).map showBits
          else if op = "fdiv" then (MJ.NumF.intDivF x y).map showBits
          else none
        else none
    | _, _ => none
  | _ => none

def parseOp (s : String) : Option Op :=
  if s = "add" then some .add else if s = "sub" then some .sub else if s = "mul" then some .mul
  else if s = "fdiv" then some .floordiv else if s = "rem" then some .rem
  else if s = "pow" then some .pow else none

def showSpec (defined : Bool) (big : Bool) (exact : Int) (req : Bool) : String :=
  if !defined then "undef"
  else if big then "big"
  else s!"x:{exact}:{if req then "req" else "opt"}"

def specBin (op : Op) (a b : Int) : String :=
  let inr := decide (InI128 a) && decide (InI128 b)
  match op with
  | .floordiv | .rem =>
    if b = 0 then "undef"
    else
      let e := op.denote a b
      showSpec true false e (inr && decide (InI128 e))
  | .pow =>
    if b < 0 then
      (if a = 1 ∨ a = -1 then showSpec true false (if b % 2 = 0 then 1 else a) false else "undef")
    else if 2 ≤ a.natAbs ∧ 128 ≤ b then "big"
    else if a.natAbs ≤ 1 then
      -- 0, 1, -1 to any power, without computing with a huge exponent
      let e : Int := if a = 0 then (if b = 0 then 1 else 0) else if a = 1 then 1 else if b % 2 = 0 then 1 else -1
      showSpec true false e inr
    else
      let e := op.denote a b
      showSpec true false e (inr && decide (InI128 e))
  | _ =>
    let e := op.denote a b
    showSpec true false e (inr && decide (InI128 e))

def handle (line : String) : String :=
  let case := (line.splitOn "\t").head!
  match case.trimAscii.toString.splitOn " " with
  | ["lex", text] =>
    let src := text.toList
    match MJ.NumLex.eatNumber src with
    | (.int n, rest) => s!"{case}\tint:{n}@{src.length - rest.length}\t-"
    | (.int128 n, rest) => s!"{case}\tint128:{n}@{src.length - rest.length}\t-"
    | (.float _, rest) => s!"{case}\tfloat@{src.length - rest.length}\t-"
    | (.err, _) => s!"{case}\terr:SyntaxError\t-"
  | ["neg", a] =>
    match parseOperand a with
    | some (oa, va) =>
      let m := match oa with
        | .val (.ok x) => showRes (neg x)
        | .val .err => showRes .err
        | .syntaxErr => "err:SyntaxError"
      s!"{case}\t{m}\t{showSpec true false (-va) (decide (InI128 va) && decide (InI128 (-va)))}"
    | none =>
      match handleExtra ["neg", a] with
      | some m => s!"{case}\t{m}\t-"
      | none => s!"{case}\tskip\t-"
  | [op, a, b] =>
    match parseOp op, parseOperand a, parseOperand b with
    | some op, some (oa, va), some (ob, vb) =>
      let m := match oa, ob with
        | .syntaxErr, _ => "err:SyntaxError"
        | _, .syntaxErr => "err:SyntaxError"
        | .val (.ok x), .val (.ok y) => showRes (binop op x y)
        | _, _ => showRes .err
      s!"{case}\t{m}\t{specBin op va vb}"
    | _, _, _ =>
      match handleExtra [op, a, b] with
      | some m => s!"{case}\t{m}\t-"
      | none => s!"{case}\tskip\t-"
  | fields =>
    match handleExtra fields with
    | some m => s!"{case}\t{m}\t-"
    | none => s!"{case}\tskip\t-"

partial def loop (h : IO.FS.Stream) (out : IO.FS.Stream) : IO Unit := do
  let line ← h.getLine
  if line.isEmpty then return ()
  out.putStrLn (handle (line.dropEndWhile (· == '\n')).toString)
  loop h out

def main : IO Unit := do
  loop (← IO.getStdin) (← IO.getStdout)
