import MJ.Model.Num
/-! Line driver for C08: `<op> <A> [<B>]` → `case<TAB>model<TAB>spec`.

* model: result of the Lean model of the engine (`i:<dec>` / `err:InvalidOperation`), `skip` for
  cases outside the modelled fragment (floats, comparisons);
* spec: the exact result computed with unbounded `Int`: `x:<dec>:req` (the engine must return it),
  `x:<dec>:opt` (exact or error), `big` (certainly outside 128 bits), `undef` (no integer result:
  must be an error), `-` (not an integer case). -/
open MJ.Num

/-- how the lexer stores a non-negative integer literal (`u64::from_str_radix`, else `u128`) -/
def litRepr (n : Nat) : NumRepr :=
  if n < 18446744073709551616 then .u64 n else .u128 n

/-- operand token → (the value the engine computes with, mathematical value).  A negative literal
    is the unary minus applied to the literal (folded by the code generator when it succeeds, an
    `Instruction::Neg` at run time otherwise). -/
def parseOperand (tok : String) : Option (Res × Int) :=
  match tok.splitOn ":" with
  | [form, v] =>
    match v.toInt? with
    | none => none
    | some i =>
      if form = "lit" then
        if i < 0 then some (neg (litRepr i.natAbs), i) else some (.ok (litRepr i.toNat), i)
      else if form = "u64" then some (.ok (.u64 i.toNat), i)
      else if form = "i64" then some (.ok (.i64 i), i)
      else if form = "u128" then some (.ok (.u128 i.toNat), i)
      else if form = "i128" then some (.ok (.i128 i), i)
      else none
  | _ => none

def parseOp (s : String) : Option Op :=
  if s = "add" then some .add else if s = "sub" then some .sub else if s = "mul" then some .mul
  else if s = "fdiv" then some .floordiv else if s = "rem" then some .rem
  else if s = "pow" then some .pow else none

def showRes : Res → String
  | .ok v => s!"i:{v.val}"
  | .err => "err:InvalidOperation"

def showSpec (defined : Bool) (big : Bool) (exact : Int) (req : Bool) : String :=
  if !defined then "undef"
  else if big then "big"
  else s!"x:{exact}:{if req then "req" else "opt"}"

def specBin (op : Op) (a b : Int) : String :=
  let inr := decide (InI128 a) && decide (InI128 b)
  match op with
  | .floordiv | .rem =>
    if b = 0 then "undef"
    else
      let e := op.denote a b
      showSpec true false e (inr && decide (InI128 e))
  | .pow =>
    if b < 0 then
      (if a = 1 ∨ a = -1 then showSpec true false (if b % 2 = 0 then 1 else a) false else "undef")
    else if 2 ≤ a.natAbs ∧ 128 ≤ b then "big"
    else if a.natAbs ≤ 1 then
      -- 0, 1, -1 to any power, without computing with a huge exponent
      let e : Int := if a = 0 then (if b = 0 then 1 else 0) else if a = 1 then 1 else if b % 2 = 0 then 1 else -1
      showSpec true false e (inr && decide (b < 4294967296))
    else
      let e := op.denote a b
      showSpec true false e (inr && decide (InI128 e) && decide (b < 4294967296))
  | _ =>
    let e := op.denote a b
    showSpec true false e (inr && decide (InI128 e))

def handle (line : String) : String :=
  let case := (line.splitOn "\t").head!
  match case.trimAscii.toString.splitOn " " with
  | ["neg", a] =>
    match parseOperand a with
    | some (ra, va) =>
      let m := match ra with
        | .ok x => neg x
        | .err => .err
      s!"{case}\t{showRes m}\t{showSpec true false (-va) (decide (InI128 va) && decide (InI128 (-va)))}"
    | none => s!"{case}\tskip\t-"
  | [op, a, b] =>
    match parseOp op, parseOperand a, parseOperand b with
    | some op, some (ra, va), some (rb, vb) =>
      let m := match ra, rb with
        | .ok x, .ok y => binop op x y
        | _, _ => .err
      s!"{case}\t{showRes m}\t{specBin op va vb}"
    | _, _, _ => s!"{case}\tskip\t-"
  | _ => s!"{case}\tskip\t-"

partial def loop (h : IO.FS.Stream) (out : IO.FS.Stream) : IO Unit := do
  let line ← h.getLine
  if line.isEmpty then return ()
  out.putStrLn (handle (line.dropEndWhile (· == '\n')).toString)
  loop h out

def main : IO Unit := do
  loop (← IO.getStdin) (← IO.getStdout)
