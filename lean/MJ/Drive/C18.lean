import MJ.Model.Meta
import MJ.Model.MetaArms
import MJ.Model.MetaSet
import MJ.Model.MetaEsc
/-! Line driver for C18.

stdin: one template per line, the real AST as prefix tokens (see `harness/src/bin/c18.rs`).
stdout, per line:  `und=<names>\tnested=<dotted names>\tmacros=<name:flag:closure;…>\tmay=<names | SKIP:reason>`
  * `und`     — `findUndeclared` of the model,
  * `nested`  — `findUndeclaredNested` of the model, rendered as dotted names,
  * `macros`  — for every macro and call block of the template: name, `callerRef`, `closureNames`
                (what `compile_macro_expression` must emit: `BuildMacro` flags, `Enclose` names),
  * `may`     — union of `reads t cs 1` over the choice trees of the template (loops: no item /
                all filtered / one iteration; macros: never called / called once; every block
                additionally rendered once through a `self.name()` request at the very first
                statement, where no frame binds anything), or `SKIP` when the template uses
                too many executions.  The look-ups of other templates (included, imported,
                extended) are not part of `may`.  Re-entries of recursive loops are not enumerated: the frames of a
                re-entry bind at least what the frames of an iteration bind.  Macro calls made
                elsewhere (`readsM`) add nothing: a call asks the context for nothing but what
                the blocks it renders ask for.

`drive_c18 arms` prints the model's arm tables (`MJ/Model/MetaArms.lean`) and the run-time
tables of `MJ/Model/MetaSet.lean`, one row per line `table<TAB>variant<TAB>cfg<TAB>op¦op¦…`, so
that `lib/props/c18.py` can name the arm of `meta.rs` that differs from the model.

`drive_c18 heap`: stdin = one trace of closure operations of the real engine per line (tokens
`P0` push frame, `P1` push loop frame, `O` pop, `S:key` store, `D:k1,k2,…` macro declaration with
its `Enclose` names, `I` iterate, `T` / `R` take / reset closure around an include, `M:c:caller`
macro call of a value whose closure is `c` (`-` = none), `L` return); the trace is replayed on the
closure heap machine of `MJ/Model/MetaEsc.lean` (`Heap.step`, nothing else) and, per event, the
closure attachments of the frames of the active context (`closure:closure_context`, bottom
first) are printed, for `M` followed by `/` and the keys of the value's closure object.
-/
open MJ.Meta

structure P where
  toks : Array String
  pos : Nat := 0
  /-- template contains a statement the driver does not know -/
  unmodelled : Bool := false

abbrev PM := StateT P (Except String)

def next : PM String := do
  let p ← get
  if h : p.pos < p.toks.size then
    set { p with pos := p.pos + 1 }
    pure p.toks[p.pos]
  else throw "unexpected end"

def nextNat : PM Nat := do
  let t ← next
  match t.toNat? with
  | some n => pure n
  | none => throw s!"expected a number, got {t}"

def markUnmodelled : PM Unit := modify fun p => { p with unmodelled := true }

partial def times {α : Type} (n : Nat) (p : PM α) : PM (List α) := do
  let mut acc : Array α := #[]
  for _ in [0:n] do
    acc := acc.push (← p)
  pure acc.toList

mutual
partial def pExpr : PM Expr := do
  let t ← next
  match t with
  | "var" => pure (.var (← next))
  | "const" => pure .const
  | "slice" => do
      let e ← pExpr; let a ← pOpt; let b ← pOpt; let c ← pOpt
      pure (.slice e a b c)
  | "unary" => do pure (.unary (← pExpr))
  | "binop" => do
      let _ ← next
      let l ← pExpr; let r ← pExpr
      pure (.binop l r)
  | "compare" => do
      let e ← pExpr; let n ← nextNat
      let ops ← times n pExpr
      pure (.compare e ops)
  | "ifexpr" => do
      let c ← pExpr; let t ← pExpr; let f ← pOpt
      pure (.ifExpr c t f)
  | "filter" => do
      let name ← next; let e ← pOpt; let args ← pArgs
      pure (.filter name e args)
  | "test" => do
      let name ← next; let e ← pExpr; let args ← pArgs
      pure (.test name e args)
  | "getattr" => do
      let e ← pExpr; let name ← next
      pure (.getattr e name)
  | "getitem" => do
      let e ← pExpr; let s ← pExpr
      pure (.getitem e s)
  | "call" => do
      let e ← pExpr; let args ← pArgs
      pure (.call e args)
  | "list" => do
      let n ← nextNat
      pure (.list (← times n pExpr))
  | "tuple" => do
      let n ← nextNat
      pure (.tuple (← times n pExpr))
  | "map" => do
      let n ← nextNat
      pure (.map (← times (2 * n) pExpr))
  | other => throw s!"bad expression token {other}"
partial def pOpt : PM (Option Expr) := do
  let t ← next
  match t with
  | "none" => pure none
  | "some" => do pure (some (← pExpr))
  | other => throw s!"bad option token {other}"
partial def pArg : PM CallArg := do
  let t ← next
  match t with
  | "pos" => do pure (.pos (← pExpr))
  | "kw" => do
      let k ← next
      pure (.kwarg k (← pExpr))
  | "splat" => do pure (.posSplat (← pExpr))
  | "kwsplat" => do pure (.kwargSplat (← pExpr))
  | other => throw s!"bad argument token {other}"
partial def pArgs : PM (List CallArg) := do
  let n ← nextNat
  times n pArg
end

def pCall : PM (Expr × List CallArg) := do
  let t ← next
  if t != "call" then throw s!"expected call, got {t}"
  let e ← pExpr
  let args ← pArgs
  pure (e, args)

def pArgName : PM String := do
  match (← pExpr) with
  | .var x => pure x
  | _ => throw "macro argument is not a name"

mutual
partial def pStmt : PM Stmt := do
  let t ← next
  match t with
  | "emit" => do pure (.emit (← pExpr))
  | "raw" => pure .raw
  | "for" => do
      let r ← next
      let target ← pExpr; let iter ← pExpr; let filter ← pOpt
      let body ← pStmts; let els ← pStmts
      pure (.forLoop target iter filter (r == "1") body els)
  | "if" => do
      let c ← pExpr; let t ← pStmts; let f ← pStmts
      pure (.ifCond c t f)
  | "with" => do
      let n ← nextNat
      let assigns ← times n (do let t ← pExpr; let e ← pExpr; pure (t, e))
      pure (.withBlock assigns (← pStmts))
  | "set" => do
      let t ← pExpr; let e ← pExpr
      pure (.set t e)
  | "setblock" => do
      let t ← pExpr; let f ← pOpt
      pure (.setBlock t f (← pStmts))
  | "autoescape" => do
      let e ← pExpr
      pure (.autoEscape e (← pStmts))
  | "filterblock" => do
      let e ← pExpr
      pure (.filterBlock e (← pStmts))
  | "macro" => do
      let name ← next
      let na ← nextNat; let args ← times na pArgName
      let nd ← nextNat; let defaults ← times nd pExpr
      pure (.macro name args defaults (← pStmts))
  | "callblock" => do
      let (callee, cargs) ← pCall
      let _name ← next
      let na ← nextNat; let args ← times na pArgName
      let nd ← nextNat; let defaults ← times nd pExpr
      pure (.callBlock callee cargs args defaults (← pStmts))
  | "do" => do
      let (callee, cargs) ← pCall
      pure (.doStmt callee cargs)
  | "continue" => pure .cont
  | "break" => pure .brk
  | "block" => do
      let name ← next
      pure (.block name (← pStmts))
  | "include" => do pure (.include (← pExpr))
  | "extends" => do pure (.extends (← pExpr))
  | "import" => do
      let e ← pExpr; let t ← pExpr
      pure (.importAs e t)
  | "fromimport" => do
      let e ← pExpr
      let n ← nextNat
      pure (.fromImport e (← times n pExpr))
  | "unsupported" => do markUnmodelled; pure .raw
  | other => throw s!"unsupported statement {other}"
partial def pStmts : PM (List Stmt) := do
  let n ← nextNat
  times n pStmt
end

/-! ### every choice tree (bounded: one iteration / one call suffices, see the header) -/

def cap : Nat := 3000

mutual
partial def countCh : Stmt → Nat
  | .forLoop _ _ _ _ body els => 2 * countList els + countList body
  | .ifCond _ t f => countList t + countList f
  | .withBlock _ body => countList body
  | .setBlock _ _ body => countList body
  | .autoEscape _ body => countList body
  | .filterBlock _ body => countList body
  | .macro _ _ _ body => 1 + countList body
  | .callBlock _ _ _ _ body => 1 + countList body
  | .block _ body => countList body
  | _ => 1
partial def countList : List Stmt → Nat
  | [] => 1
  | s :: ss => min (cap + 1) (countCh s * countList ss)
end

mutual
partial def enumCh : Stmt → List Ch
  | .forLoop _ _ _ _ body els =>
      (enumList els).map (fun cs => Ch.mk 0 [cs] [] 0) ++ (enumList els).map (fun cs => Ch.mk 1 [cs] [] 0)
        ++ (enumList body).map (fun cs => Ch.mk 2 [cs] [] 0)
  | .ifCond _ t f =>
      (enumList f).map (fun cs => Ch.mk 0 [cs] [] 0) ++ (enumList t).map (fun cs => Ch.mk 1 [cs] [] 0)
  | .withBlock _ body => (enumList body).map (fun cs => Ch.mk 0 [cs] [] 0)
  | .setBlock _ _ body => (enumList body).map (fun cs => Ch.mk 0 [cs] [] 0)
  | .autoEscape _ body => (enumList body).map (fun cs => Ch.mk 0 [cs] [] 0)
  | .filterBlock _ body => (enumList body).map (fun cs => Ch.mk 0 [cs] [] 0)
  | .macro _ _ _ body => Ch.mk 0 [] [] 0 :: (enumList body).map (fun cs => Ch.mk 0 [cs] [] 0)
  | .callBlock _ _ _ _ body => Ch.mk 0 [] [] 0 :: (enumList body).map (fun cs => Ch.mk 0 [cs] [] 0)
  | .block _ body => (enumList body).map (fun cs => Ch.mk 0 [cs] [] 0)
  | _ => [Ch.default]
partial def enumList : List Stmt → List (List Ch)
  | [] => [[]]
  | s :: ss =>
      let rest := enumList ss
      (enumCh s).flatMap (fun c => rest.map (fun cs => c :: cs))
end

def dedup (xs : List String) : List String :=
  (xs.foldl (fun (acc : Array String) x => if acc.contains x then acc else acc.push x) #[]).toList

/-- `self.name()` requests for every block of the template (at top level the running-loop list
is empty, so block `i` is request target `i`) with every choice tree of its body -/
def blockReqs (t : List Stmt) : List Ch :=
  (blockBodiesL t).zipIdx.flatMap (fun (body, i) => (enumList body).map (fun cs => Ch.mk i [cs] [] 0))

def withReqs (reqs : List Ch) : List Ch → List Ch
  | [] => []
  | c :: cs => Ch.mk c.n c.subs reqs 0 :: cs

def blocksCount (t : List Stmt) : Nat :=
  (blockBodiesL t).foldl (fun acc body => acc + countList body) 0

def mayReads (t : List Stmt) : List String :=
  let reqs := blockReqs t
  dedup ((enumList t).flatMap (fun cs => reads t (withReqs reqs cs) 1))

def dotted (l : Leaf) : String := ".".intercalate (l.1 :: l.2)

mutual
/-- every macro and call block: name, `callerRef`, `closureNames` -/
partial def macrosOf : Stmt → List String
  | .forLoop _ _ _ _ body els => macrosOfL body ++ macrosOfL els
  | .ifCond _ t f => macrosOfL t ++ macrosOfL f
  | .withBlock _ body => macrosOfL body
  | .setBlock _ _ body => macrosOfL body
  | .autoEscape _ body => macrosOfL body
  | .filterBlock _ body => macrosOfL body
  | .block _ body => macrosOfL body
  | .macro name args defaults body =>
      macroInfo name args defaults body :: macrosOfL body
  | .callBlock _ _ args defaults body =>
      macroInfo "caller" args defaults body :: macrosOfL body
  | _ => []
partial def macrosOfL : List Stmt → List String
  | [] => []
  | s :: ss => macrosOf s ++ macrosOfL ss
partial def macroInfo (name : String) (args : List String) (defaults : List Expr)
    (body : List Stmt) : String :=
  let cl := (dedup (closureNames args defaults body)).toArray.qsort (· < ·) |>.toList
  s!"{name}:{if callerRef args defaults body then 1 else 0}:{",".intercalate cl}"
end

def join (xs : List String) : String := " ".intercalate (dedup xs)

def handle (line : String) : String :=
  let toks := (line.splitOn " ").filter (· ≠ "") |>.toArray
  match (pStmts.run { toks := toks }) with
  | .error e => s!"error={e}"
  | .ok (t, p) =>
    if p.pos ≠ toks.size then "error=trailing tokens" else
    let may :=
      if p.unmodelled then "SKIP:unmodelled"
      else if countList t > cap || blocksCount t > cap then "SKIP:too-many-executions"
      else join (mayReads t)
    s!"und={join (findUndeclared t)}\tnested={join ((findUndeclaredNested t).map dotted)}\tmacros={";".intercalate (macrosOfL t)}\tmay={may}"

partial def loop (h : IO.FS.Stream) (out : IO.FS.Stream) : IO Unit := do
  let line ← h.getLine
  if line.isEmpty then return ()
  out.putStrLn (handle (line.dropEndWhile (· == '\n')).toString)
  loop h out

/-! ### replay of engine traces on the closure heap machine -/

def optStr : Option Nat → String
  | some c => toString c
  | none => "-"

def snapshot (h : Heap) : String :=
  ",".intercalate (h.stack.reverse.map (fun f => s!"{optStr f.closure}:{optStr f.closureCtx}"))

def sortedKeys (h : Heap) (c : Option Nat) : String :=
  "+".intercalate ((dedup (h.keys c)).toArray.qsort (· < ·)).toList

/-- a declaration whose closure analysis gives exactly `ks` -/
def declOf (ks : List String) : MacroDecl := ⟨[], [], ks.map (fun k => Stmt.emit (.var k))⟩

def parseClosure (s : String) : Option Nat := if s == "-" then none else s.toNat?

def heapEvent (h : Heap) (tok : String) : Heap × String :=
  let parts := tok.splitOn ":"
  match parts with
  | ["P0"] => let h' := h.step .pushFrame; (h', snapshot h')
  | ["P1"] => let h' := h.step .pushLoop; (h', snapshot h')
  | ["O"] => let h' := h.step .popFrame; (h', snapshot h')
  | ["S", k] => let h' := h.step (.store k); (h', snapshot h')
  | ["D", ks] =>
      let names := (ks.splitOn ",").filter (· ≠ "")
      let h' := h.step (.declare (declOf names))
      (h', snapshot h' ++ "/" ++ optStr ((h'.pool.getLast?.map (·.closure)).getD none))
  | ["I"] => let h' := h.step .iterate; (h', snapshot h')
  | ["T"] => let h' := h.step .includeEnter; (h', snapshot h')
  | ["R"] => let h' := h.step .includeLeave; (h', snapshot h')
  | ["M", c, caller] =>
      let cl := parseClosure c
      match h.pool.findIdx? (fun v => v.closure == cl) with
      | some v =>
          let h' := h.step (.enterMacro v (caller == "1"))
          (h', snapshot h' ++ "/" ++ sortedKeys h' cl)
      | none => (h, "?no-value-with-closure-" ++ c)
  | ["L"] => let h' := h.step .leaveMacro; (h', snapshot h')
  | _ => (h, "?bad-token-" ++ tok)

def handleHeap (line : String) : String :=
  let toks := (line.splitOn " ").filter (· ≠ "")
  let (_, outs) := toks.foldl (fun (acc : Heap × Array String) tok =>
    let (h', o) := heapEvent acc.1 tok
    (h', acc.2.push o)) (({} : Heap), #[])
  " ".intercalate outs.toList

partial def loopHeap (h : IO.FS.Stream) (out : IO.FS.Stream) : IO Unit := do
  let line ← h.getLine
  if line.isEmpty then return ()
  out.putStrLn (handleHeap (line.dropEndWhile (· == '\n')).toString)
  loopHeap h out

def printRows (out : IO.FS.Stream) (table : String) (rows : List Row) : IO Unit := do
  for (v, cfg, ops) in renderRows rows do
    out.putStrLn s!"{table}\t{v}\t{cfg}\t{"¦".intercalate ops}"

def main (args : List String) : IO Unit := do
  let stdin ← IO.getStdin
  let stdout ← IO.getStdout
  if args == ["arms"] then
    printRows stdout "C18_TRACK_WALK_ARMS" modelWalkArms
    printRows stdout "C18_VISIT_EXPR_ARMS" modelExprArms
    printRows stdout "C18_TRACK_ASSIGN_ARMS" modelAssignArms
    printRows stdout "C18_TRACKER_HELPERS" modelHelpers
    stdout.putStrLn s!"C18_LOAD_ORDER\t\t\t{"¦".intercalate loadOrder}"
    stdout.putStrLn s!"C18_MACRO_CALL_FRAMES\t\t\t{"¦".intercalate macroCallFrames}"
    stdout.putStrLn s!"C18_MACRO_CODEGEN\t\t\t{"¦".intercalate macroCodegen}"
  else if args == ["heap"] then
    loopHeap stdin stdout
  else
    loop stdin stdout
