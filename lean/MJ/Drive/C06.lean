import MJ.Model.Blocks
import MJ.Model.BlocksSpec
/-! Line driver for C06: the harness' case line (see `harness/src/bin/c06.rs`) → model result. -/
open MJ.Blocks

abbrev P := StateT (List String) (Except String)

def tok : P String := do
  match (← get) with
  | [] => throw "unexpected end"
  | t :: rest => set rest; pure t

def num : P Nat := do
  match (← tok).toNat? with
  | some n => pure n
  | none => throw "number expected"

def rep {α : Type} (n : Nat) (p : P α) : P (List α) := do
  let mut out := #[]
  for _ in [0:n] do
    out := out.push (← p)
  pure out.toList

/-- a candidate: a number `t` (the string naming template `t`) or `!i` / `!n` / `!u` / `!b` (a
    value that is not a string) -/
def pCand : P Cand := do
  let t ← tok
  match t.toNat? with
  | some n => pure (some n)
  | none => if t.startsWith "!" then pure none else throw "candidate expected"

/-- `kind k cand..`: the value behind include / import / from-import.  The kind says which kind
    of `Value` the harness' expression evaluates to (see `Arg` in `harness/src/bin/c06.rs`). -/
def pArg : P Arg := do
  let kind ← tok
  let k ← num
  let cands ← rep k pCand
  match kind with
  | "str" | "sc" =>
    match cands with
    | [c] => pure (.single c)
    | _ => throw "one candidate expected"
  | "lit" | "tup" | "ctx" => pure (.object .seq (some cands))
  | "slice" | "rev" | "lazy" | "once" => pure (.object .iterable (some cands))
  | "rep" => pure (.object .iterable (some (cands ++ cands)))
  | "map" | "ctxmap" => pure (.object .map (some cands))
  | "pobj" => pure (.object .plain (some cands))
  | "plain" => pure (.object .plain none)
  | other => throw s!"bad argument kind {other}"

mutual
partial def pItem : P Item := do
  match (← tok) with
  | "t" => pure (.text (← tok))
  -- a pure expression with one filter / test: its value does not depend on where it stands, so
  -- to the composition model it is text — what it prints when rendered on its own (the harness
  -- passes that along), or nothing when it is hidden in a branch that does not run.  That the
  -- per-activation caches respect this is `MJ.C06.parent_switch_resets_per_template_state`.
  | "fx" => do
    let hide ← num; let _name ← tok; let expected ← tok
    pure (.text (if hide == 0 then expected else ""))
  -- `{{ fuse() }}` prints nothing (the recovery stream arms it only for extra renders)
  | "fuse" => pure (.text "")
  -- `{{ try_block("b<n>", k) }}`: a helper renders block n on the running State, swallows its
  -- failure and prints nothing; the render of a block leaves no variables behind
  | "tryb" => do let _n ← num; let _k ← num; pure (.text "")
  | "b" => pure (.callBlock (← num))
  | "s" => pure .super
  | "x" => do
    let exec ← num; let _mode ← tok; let t ← num
    pure (.extends (exec == 1) t)
  | "i" => do
    let ign ← num; let k ← num
    let names ← rep k num
    -- one name is printed as a string (literal or variable), anything else as a list literal
    match names with
    | [t] => pure (.incl (.name t) (ign == 1))
    | _ => pure (.incl (.names names) (ign == 1))
  | "ia" => do
    let ign ← num
    pure (.incl (← pArg) (ign == 1))
  | "impa" => do let a ← pArg; pure (.importAs a (← num))
  | "froma" => do let a ← pArg; let n ← num; pure (.fromImport a n (← num))
  | "v" => pure (.emitVar (← num))
  | "set" => do let v ← num; pure (.setVar v (← tok))
  | "mac" => do let v ← num; pure (.defMacro v (← tok))
  | "macv" => do let m ← num; pure (.defMacroV m (← num))
  | "imp" => do let t ← num; pure (.importAs (.name t) (← num))
  | "from" => do let t ← num; let n ← num; pure (.fromImport (.name t) n (← num))
  | "attr" => do let v ← num; pure (.emitAttr v (← num))
  | "keys" => pure (.emitKeys (← num))
  | "call" => pure (.callVar (← num))
  | "req" => pure .required
  | "ssuper" => pure (.setSuper (← num))
  | "sself" => do let v ← num; pure (.setSelf v (← num))
  | "self" => pure (.callBlock (← num))
  | "for" => do
    let v ← num; let k ← num
    let vals ← rep k tok
    pure (.loop v vals (← pItems))
  | "inmac" => do
    let m ← num; let arg ← num; let val ← tok
    pure (.inMacro m arg val (← pItems))
  | "bad" => do let _kind ← tok; pure .badTarget
  | "ae" => do
    let mode ← tok
    let m : AE := if mode == "html" then .html else if mode == "json" then .json else .none
    pure (.autoesc m (← pItems))
  | other => throw s!"bad item tag {other}"
partial def pItems : P (List Item) := do
  let n ← num
  rep n pItem
end

def pTemplate : P Template := do
  let t ← tok
  if t != "T" then throw "T expected"
  let ext ← tok
  let layout ← pItems
  let nb ← num
  let blocks ← rep nb (do let n ← num; let b ← pItems; pure (n, b))
  -- the template is named `t<i>.<ext>`: its initial mode is what the default callback says
  -- `ext!s` / `ext!r` / `ext!c`: the name exists but the lookup fails (does not compile / the
  -- loader refuses / the loader returns some other error)
  let (ext, loadErr) : String × Option LoadErr :=
    match ext.splitOn "!" with
    | [e, "s"] => (e, some .syntax)
    | [e, "r"] => (e, some .refused)
    | [e, "c"] => (e, some .custom)
    | _ => (ext, none)
  pure { layout, blocks, ae := modeOfName ("t." ++ ext), loadErr }

/-- the configuration suffix of the family token: `fam~LSPUB` — loader-backed?, custom syntax?,
    path-join callback?, undefined behaviour (0 lenient, 1 chainable, 2 semi-strict, 3 strict),
    block index for the `render_block` streams.  Only `U` and `B` matter to the model. -/
def pCfg (fam : String) : UB × Nat :=
  match (fam.splitOn "~") with
  | [_, c] =>
    let ds := c.toList
    let ub : UB := match ds[3]? with
      | some '1' => .chainable
      | some '2' => .semiStrict
      | some '3' => .strict
      | _ => .lenient
    let b : Nat := match ds[4]? with
      | some '1' => 1
      | some '2' => 2
      | _ => 0
    (ub, b)
  | _ => (.lenient, 0)

def pCase : P (Env × UB × Nat) := do
  let fam ← tok
  let n ← num
  let env ← rep n pTemplate
  pure (env, pCfg fam)

def kindName : Kind → String
  | .invalidOperation => "InvalidOperation"
  | .templateNotFound => "TemplateNotFound"
  | .badInclude => "BadInclude"
  | .evalBlock => "EvalBlock"
  | .unknownBlock => "UnknownBlock"
  | .unknownFunction => "UnknownFunction"
  | .undefinedError => "UndefinedError"
  | .recursion => "FUEL-EXHAUSTED"
  | .panic => "PANIC"
  | .unsupported => "UNSUPPORTED"
  | .syntaxError t => s!"SyntaxError@t{t}"
  | .badSerialization => "BadSerialization"

def showErr (e : Err) : String := ">".intercalate (e.map kindName)

/-- the render context of the harness (`V0` in `harness/src/bin/c06.rs`) -/
def V0 : String := "C<&\"'/é0"

def handle (line : String) : String :=
  let case := (line.splitOn "\t").head!
  let toks := (case.splitOn " ").filter (· ≠ "")
  match (pCase.run toks) with
  | .error e => s!"{case}\tbad-case:{e}\tn/a\tn/a\tn/a"
  | .ok ((env, ub, b), _) =>
    let showRes (r : Except Err (List String)) : String :=
      match r with
      | .ok pieces => s!"ok:{String.join pieces}"
      | .error e => s!"err:{showErr e}"
    let cfg : Cfg := { rootCtx := [(0, .str V0)], ub := ub }
    -- the fuel for which `MJ.C06.rendering_terminates` shows that the model's fuel is never what
    -- stops a render (no constant, no assumption)
    let fuel := renderFuel env
    -- third column: the Lean *specification* (`specRender`) when the case lies in the fragment
    -- for which `blocks_refine_spec` is proved
    let spec := if decide (EnvOK env) then showRes (specRender env cfg fuel 0) else "n/a"
    s!"{case}\t{showRes (render env cfg fuel 0)}\t{spec}\t{showRes (renderThenBlock env cfg fuel 0 b)}\t{showRes (blockOnFreshState env cfg fuel 0 b)}"

partial def loop (h : IO.FS.Stream) (out : IO.FS.Stream) : IO Unit := do
  let line ← h.getLine
  if line.isEmpty then return ()
  out.putStrLn (handle (line.dropEndWhile (· == '\n')).toString)
  loop h out

def main : IO Unit := do
  loop (← IO.getStdin) (← IO.getStdout)
