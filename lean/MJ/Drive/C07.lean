import MJ.Model.Cmp
import MJ.Model.Coll
/-! Line driver for C07.

usage: `drive_c07 <btree|index>`; stdin lines (anything after a TAB is ignored):

* `val <i> <enc>`                 registers zoo value `i`, answers `val <i>\t<Kind> len=<entries of a map|-> selfeq=<0|1> selfcmp=<L|E|G>`
* `pair <i> <j>`                  answers `pair <i> <j>\t<L|E|G> <0|1> <0|1>[ h]` (cmp, eq, same hash key;
                                  `h`: an `IndexMap` lookup met a key that is `==` but hashes differently,
                                  so the implementation's answer depends on the hash table layout)
* `batch <len> <count> <fill>`, `slicef <len> <count> <fill>`   answers the run lengths like the harness
* `lk vm <n> <key> <probe>`      answers `get=<0|1> attr=<0|1|->[ h]`: `get_value(probe)` and, for a string
                                  probe, `get_value_by_str(probe)` on the `n`-entry map holding `key`
-/
open MJ MJ.Val MJ.Cmp MJ.Coll

namespace C07Drive

def hexVal (c : Char) : Nat :=
  if '0' ≤ c ∧ c ≤ '9' then c.toNat - '0'.toNat
  else if 'a' ≤ c ∧ c ≤ 'f' then c.toNat - 'a'.toNat + 10
  else 0

def unhex : List Char → List Nat
  | a :: b :: rest => (hexVal a * 16 + hexVal b) :: unhex rest
  | _ => []

def hexNat (cs : List Char) : Nat := cs.foldl (fun acc c => acc * 16 + hexVal c) 0

def isAtomEnd (c : Char) : Bool := c == ',' || c == ':' || c == ']' || c == '}' || c == ')' || c == '>'

def atomOf (s : String) : Option V :=
  match s.splitOn "." with
  | ["u"] => some .undef
  | ["n"] => some .none
  | ["t"] => some (.bool true)
  | ["f"] => some (.bool false)
  | ["U64", d] => d.toNat?.map (fun n => .num (.u64 n))
  | ["I64", d] => d.toInt?.map (fun n => .num (.i64 n))
  | ["U128", d] => d.toNat?.map (fun n => .num (.u128 n))
  | ["I128", d] => d.toInt?.map (fun n => .num (.i128 n))
  | ["F", h] => some (.num (.f64 (hexNat h.toList)))
  | ["Ss", h] => some (.str (unhex h.toList))
  | ["Sn", h] => some (.str (unhex h.toList))
  | ["Sf", h] => some (.str (unhex h.toList))
  | ["Y", h] => some (.bytes (unhex h.toList))
  | ["P", h] => some (.plain (unhex h.toList))
  | _ => none

mutual
partial def parseV (m : Mode) : List Char → Option (V × List Char)
  | '[' :: rest => (parseItems m ']' rest).map fun (xs, r) => (.seq xs, r)
  | '(' :: rest => (parseItems m ')' rest).map fun (xs, r) => (.tuple xs, r)
  | '<' :: '?' :: rest => (parseItems m '>' rest).map fun (xs, r) => (.iter xs, r)
  | '<' :: rest => (parseItems m '>' rest).map fun (xs, r) => (.iter xs, r)
  | '{' :: rest => (parsePairs m rest).map fun (ps, r) => (mkMap m ps, r)
  | cs =>
    let a := cs.takeWhile (fun c => !isAtomEnd c)
    let r := cs.dropWhile (fun c => !isAtomEnd c)
    (atomOf (String.ofList a)).map fun v => (v, r)
partial def parseItems (m : Mode) (close : Char) : List Char → Option (List V × List Char)
  | c :: rest =>
    if c == close then some ([], rest)
    else
      match parseV m (c :: rest) with
      | some (v, ',' :: r) => (parseItems m close r).map fun (xs, r') => (v :: xs, r')
      | some (v, c' :: r) => if c' == close then some ([v], r) else none
      | _ => none
  | [] => none
partial def parsePairs (m : Mode) : List Char → Option (List (V × V) × List Char)
  | '}' :: rest => some ([], rest)
  | cs =>
    match parseV m cs with
    | some (k, ':' :: r) =>
      match parseV m r with
      | some (v, ',' :: r') => (parsePairs m r').map fun (ps, r'') => ((k, v) :: ps, r'')
      | some (v, '}' :: r') => some ([(k, v)], r')
      | _ => none
    | _ => none
end

def le8 (n : Nat) : List Nat := (List.range 8).map fun i => (n / 256 ^ i) % 256

/-- the bytes a `Hasher` receives for a hash key -/
def tokBytes : HTok → List Nat
  | .u8 n => [n]
  | .i64 v => le8 (v % 18446744073709551616).toNat
  | .bits none => le8 0
  | .bits (some b) => le8 1 ++ le8 b
  | .str s => s ++ [255]
  | .bytes s => le8 s.length ++ s

def hashBytes (v : V) : List Nat := (hkey v).flatMap tokBytes

def ordChar : Ordering → String
  | .lt => "L"
  | .eq => "E"
  | .gt => "G"

/-- does evaluating `a == b` with `IndexMap` lookups meet a stored key that is `==` to the key
    looked up but hashes differently (then the real answer depends on the table layout)? -/
partial def hashDep (a b : V) : Bool :=
  match a, b with
  | .seq xs, .seq ys | .seq xs, .iter ys | .iter xs, .seq ys | .iter xs, .iter ys | .tuple xs, .tuple ys =>
    (xs.zip ys).any fun (x, y) => hashDep x y
  | .map ps, .map qs =>
    ps.any fun (k, v1) =>
      qs.any fun (k', v') =>
        (qs.length ≠ 1 && eqV .index k k' && hashBytes k != hashBytes k') || hashDep k k' || hashDep v' v1
  | _, _ => false

def joinNats (xs : List Nat) : String := ",".intercalate (xs.map toString)

def showRuns (r : Out (List (List Int))) : String :=
  match r with
  | .panic => "panic"
  | .error => "err:InvalidOperation"
  | .ok rs => "ok:" ++ ",".intercalate (rs.map fun run => ".".intercalate (run.map toString))

def runFilter (which : String) (len : Nat) (count : Nat) (fill : Bool) : String :=
  if count > usizeMax then "err:InvalidOperation"   -- the `usize` argument conversion fails
  else
    let xs : List Int := (List.range len).map Int.ofNat
    let f : Option Int := if fill then some (-1) else none
    if which = "batch" then showRuns (batch xs count f) else showRuns (slicef xs count f)

def handle (m : Mode) (zoo : Array V) (line : String) : Array V × String :=
  let case := (line.splitOn "\t").head!
  match case.trimAscii.toString.splitOn " " with
  | ["val", i, enc] =>
    match parseV m enc.toList with
    | some (v, []) =>
      let len := match v with
        | .map ps => toString ps.length
        | _ => "-"
      (zoo.push v, s!"val {i}\t{v.kindName} len={len} selfeq={if eqV m v v then 1 else 0} selfcmp={ordChar (cmpV v v)}")
    | _ => (zoo.push .undef, s!"val {i}\tbad-case")
  | ["pair", i, j] =>
    match i.toNat?, j.toNat? with
    | some i', some j' =>
      let a := zoo[i']!
      let b := zoo[j']!
      let h := if hashBytes a == hashBytes b then 1 else 0
      let dep := if m == .index && (hashDep a b) then " h" else ""
      (zoo, s!"pair {i} {j}\t{ordChar (cmpV a b)} {if eqV m a b then 1 else 0} {h}{dep}")
    | _, _ => (zoo, s!"{case}\tbad-case")
  | ["lk", _backing, n, kenc, penc] =>
    match n.toNat?, parseV m kenc.toList, parseV m penc.toList with
    | some n, some (k, []), some (p, []) =>
      let marker : V := .num (.i64 777)
      let fillers : List (V × V) := (List.range (n - 1)).map fun i =>
        (V.str (s!"~f{i + 1}".toUTF8.toList.map (·.toNat)), V.num (.u64 (i + 1)))
      match mkMap m ((k, marker) :: fillers) with
      | .map ps =>
        let isM : Option V → String := fun o => match o with
          | some (.num (.i64 777)) => "1"
          | _ => "0"
        let attr := match p with
          | .str t => isM (getByStr m ps t)
          | _ => "-"
        -- IndexMap: a stored key that is == the probe but hashes differently is found or not
        -- depending on the table layout
        let dep := if m == .index && ps.length ≠ 1 &&
            ps.any (fun q => eqV .index p q.1 && hashBytes p != hashBytes q.1) then " h" else ""
        (zoo, s!"{case}\tget={isM (getV m ps p)} attr={attr}{dep}")
      | _ => (zoo, s!"{case}\tbad-case")
    | _, _, _ => (zoo, s!"{case}\tbad-case")
  | [which, len, count, fill] =>
    match len.toNat?, count.toNat? with
    | some len, some count => (zoo, s!"{case}\t{runFilter which len count (fill == "1")}")
    | _, _ => (zoo, s!"{case}\tbad-case")
  | _ => (zoo, s!"{case}\tbad-case")

partial def loop (m : Mode) (zoo : Array V) (h : IO.FS.Stream) (out : IO.FS.Stream) : IO Unit := do
  let line ← h.getLine
  if line.isEmpty then return ()
  let (zoo', res) := handle m zoo (line.dropEndWhile (· == '\n')).toString
  out.putStrLn res
  loop m zoo' h out

end C07Drive

def main (args : List String) : IO Unit := do
  let m : Mode := if args.head? == some "index" then .index else .btree
  C07Drive.loop m #[] (← IO.getStdin) (← IO.getStdout)
