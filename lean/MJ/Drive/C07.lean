import MJ.Model.Cmp
import MJ.Model.Coll
import MJ.Model.CollV
import MJ.Model.CollX
/-! Line driver for C07.

usage: `drive_c07 <btree|index>`; stdin lines (anything after a TAB is ignored):

* `val <i> <enc>`                 registers zoo value `i`, answers `val <i>\t<Kind> len=<entries of a map|-> selfeq=<0|1> selfcmp=<L|E|G>`
* `pair <i> <j>`                  answers `pair <i> <j>\t<L|E|G> <0|1> <0|1>[ h]` (cmp, eq, same hash key;
                                  `h`: an `IndexMap` lookup met a key that is `==` but hashes differently,
                                  so the implementation's answer depends on the hash table layout)
* `batch <len> <count> <fill>`, `slicef <len> <count> <fill>`   answers the run lengths like the harness
* `lk vm <n> <key> <probe>`      answers `get=<0|1> attr=<0|1|->[ h]`: `get_value(probe)` and, for a string
                                  probe, `get_value_by_str(probe)` on the `n`-entry map holding `key`
-/
open MJ MJ.Val MJ.Cmp MJ.Coll MJ.CollV MJ.CollX

namespace C07Drive

def hexVal (c : Char) : Nat :=
  if '0' ≤ c ∧ c ≤ '9' then c.toNat - '0'.toNat
  else if 'a' ≤ c ∧ c ≤ 'f' then c.toNat - 'a'.toNat + 10
  else 0

def unhex : List Char → List Nat
  | a :: b :: rest => (hexVal a * 16 + hexVal b) :: unhex rest
  | _ => []

def hexNat (cs : List Char) : Nat := cs.foldl (fun acc c => acc * 16 + hexVal c) 0

def isAtomEnd (c : Char) : Bool := c == ',' || c == ':' || c == ']' || c == '}' || c == ')' || c == '>'

def atomOf (s : String) : Option V :=
  match s.splitOn "." with
  | ["u"] => some .undef
  | ["us"] => some .undef
  | ["n"] => some .none
  | ["t"] => some (.bool true)
  | ["f"] => some (.bool false)
  | ["U64", d] => d.toNat?.map (fun n => .num (.u64 n))
  | ["I64", d] => d.toInt?.map (fun n => .num (.i64 n))
  | ["U128", d] => d.toNat?.map (fun n => .num (.u128 n))
  | ["I128", d] => d.toInt?.map (fun n => .num (.i128 n))
  | ["F", h] => some (.num (.f64 (hexNat h.toList)))
  | ["Ss", h] => some (.str (unhex h.toList))
  | ["Sn", h] => some (.str (unhex h.toList))
  | ["Sf", h] => some (.str (unhex h.toList))
  | ["Y", h] => some (.bytes (unhex h.toList))
  | ["P", h] => some (.plain (unhex h.toList))
  | _ => none

mutual
partial def parseV (m : Mode) : List Char → Option (V × List Char)
  -- user objects of the size-hint stream: repr `s` → sequence, `i` → iterable; `n` (NonEnumerable) is not modelled
  | '[' :: '@' :: rp :: en :: _ :: _ :: '|' :: rest =>
    if en == 'n' then none
    else (parseItems m ']' rest).map fun (xs, r) =>
      let xs' := if en == 'e' then [] else xs
      (if rp == 's' then V.seq xs' else V.iter xs', r)
  | '{' :: '@' :: _ :: en :: _ :: _ :: '|' :: rest =>
    if en == 'n' then none
    else (parsePairs m rest).map fun (ps, r) => (V.map (if en == 'e' then [] else ps), r)
  | '[' :: '=' :: rest => (parseItems m ']' rest).map fun (xs, r) => (.seq xs, r)
  | '[' :: rest => (parseItems m ']' rest).map fun (xs, r) => (.seq xs, r)
  | '(' :: rest => (parseItems m ')' rest).map fun (xs, r) => (.tuple xs, r)
  | '<' :: '?' :: rest => (parseItems m '>' rest).map fun (xs, r) => (.iter xs, r)
  | '<' :: '!' :: rest => (parseItems m '>' rest).map fun (xs, r) => (.iter xs, r)
  | '<' :: rest => (parseItems m '>' rest).map fun (xs, r) => (.iter xs, r)
  | '{' :: '=' :: rest => (parsePairs m rest).map fun (ps, r) => (.map ps, r)
  -- a namespace object keeps its (string) keys in key order whatever the map type of the build
  | '{' :: '#' :: rest => (parsePairs m rest).map fun (ps, r) => (mkMap .btree ps, r)
  | '{' :: rest => (parsePairs m rest).map fun (ps, r) => (mkMap m ps, r)
  | cs =>
    let a := cs.takeWhile (fun c => !isAtomEnd c)
    let r := cs.dropWhile (fun c => !isAtomEnd c)
    (atomOf (String.ofList a)).map fun v => (v, r)
partial def parseItems (m : Mode) (close : Char) : List Char → Option (List V × List Char)
  | c :: rest =>
    if c == close then some ([], rest)
    else
      match parseV m (c :: rest) with
      | some (v, ',' :: r) => (parseItems m close r).map fun (xs, r') => (v :: xs, r')
      | some (v, c' :: r) => if c' == close then some ([v], r) else none
      | _ => none
  | [] => none
partial def parsePairs (m : Mode) : List Char → Option (List (V × V) × List Char)
  | '}' :: rest => some ([], rest)
  | cs =>
    match parseV m cs with
    | some (k, ':' :: r) =>
      match parseV m r with
      | some (v, ',' :: r') => (parsePairs m r').map fun (ps, r'') => ((k, v) :: ps, r'')
      | some (v, '}' :: r') => some ([(k, v)], r')
      | _ => none
    | _ => none
end

def le8 (n : Nat) : List Nat := (List.range 8).map fun i => (n / 256 ^ i) % 256

/-- the bytes a `Hasher` receives for a hash key -/
def tokBytes : HTok → List Nat
  | .u8 n => [n]
  | .i64 v => le8 (v % 18446744073709551616).toNat
  | .bits none => le8 0
  | .bits (some b) => le8 1 ++ le8 b
  | .str s => s ++ [255]
  | .bytes s => le8 s.length ++ s

def hashBytes (v : V) : List Nat := (hkey v).flatMap tokBytes

def ordChar : Ordering → String
  | .lt => "L"
  | .eq => "E"
  | .gt => "G"

/-- does evaluating `a == b` with `IndexMap` lookups meet a stored key that is `==` to the key
    looked up but hashes differently (then the real answer depends on the table layout)? -/
partial def hashDep (a b : V) : Bool :=
  match a, b with
  | .seq xs, .seq ys | .seq xs, .iter ys | .iter xs, .seq ys | .iter xs, .iter ys | .tuple xs, .tuple ys =>
    (xs.zip ys).any fun (x, y) => hashDep x y
  | .map ps, .map qs =>
    ps.any fun (k, v1) =>
      qs.any fun (k', v') =>
        (qs.length ≠ 1 && eqV .index k k' && hashBytes k != hashBytes k') || hashDep k k' || hashDep v' v1
  | _, _ => false

def joinNats (xs : List Nat) : String := ",".intercalate (xs.map toString)

def showRuns (r : Out (List (List Int))) : String :=
  match r with
  | .panic => "panic"
  | .error => "err:InvalidOperation"
  | .ok rs => "ok:" ++ ",".intercalate (rs.map fun run => ".".intercalate (run.map toString))

def runFilter (which : String) (len : Nat) (count : Nat) (fill : Bool) : String :=
  if count > usizeMax then "err:InvalidOperation"   -- the `usize` argument conversion fails
  else
    let xs : List Int := (List.range len).map Int.ofNat
    let f : Option Int := if fill then some (-1) else none
    if which = "batch" then showRuns (batch xs count f) else showRuns (slicef xs count f)


/-- structural equality (used to name alphabet letters) -/
partial def beqV : V → V → Bool
  | .undef, .undef => true
  | .none, .none => true
  | .bool a, .bool b => a == b
  | .num a, .num b => a == b
  | .str a, .str b => a == b
  | .bytes a, .bytes b => a == b
  | .plain a, .plain b => a == b
  | .seq a, .seq b => a.length == b.length && (a.zip b).all fun (x, y) => beqV x y
  | .tuple a, .tuple b => a.length == b.length && (a.zip b).all fun (x, y) => beqV x y
  | .iter a, .iter b => a.length == b.length && (a.zip b).all fun (x, y) => beqV x y
  | .map a, .map b => a.length == b.length && (a.zip b).all fun (p, q) => beqV p.1 q.1 && beqV p.2 q.2
  | _, _ => false

def letters : List Char := "0123456789abcdefgh".toList

structure Al where
  vals : Array V := #[]

def Al.get (al : Al) (c : Char) : V :=
  match letters.idxOf? c with
  | some i => al.vals[i]!
  | none => .undef

def Al.letter (al : Al) (v : V) : String :=
  match (List.range al.vals.size).find? (fun i => beqV al.vals[i]! v) with
  | some i => String.singleton (letters[i]!)
  | none => "?"

def strK : List Nat := [107]          -- "k"
def strId : List Nat := [105, 100]    -- "id"

def strG : List Nat := [103]          -- "g"

def wrapItem (m : Mode) (v : V) (idx : Nat) : V :=
  mkMap m [(.str strK, v), (.str strId, .num (.u64 idx)), (.str strG, .num (.u64 (idx % 3)))]
def bareItem (m : Mode) (idx : Nat) : V := mkMap m [(.str strId, .num (.u64 idx))]

def idOf (m : Mode) (v : V) : String :=
  match attrOr m strId .undef v with
  | .num (.u64 n) => toString n
  | _ => "?"

def showItems (m : Mode) (al : Al) (wrap : Bool) (vs : List V) : String :=
  if wrap then ".".intercalate (vs.map (idOf m)) else String.join (vs.map al.letter)

def itemsOf (m : Mode) (al : Al) (word : String) (wrap : Bool) : List V :=
  (word.toList.zipIdx).map fun (c, i) => if wrap then wrapItem m (al.get c) i else al.get c

def strP : List Nat := [112]          -- "p"

/-- items of the path cases: every third lacks `p`, every fifth has a `p` that is not a map -/
def itemsP (m : Mode) (al : Al) (word : String) : List V :=
  (word.toList.zipIdx).map fun (c, i) =>
    if i % 3 == 2 then bareItem m i
    else if i % 5 == 4 then mkMap m [(.str strP, .num (.i64 7)), (.str strId, .num (.u64 i))]
    else mkMap m [(.str strP, mkMap m [(.str strK, al.get c)]), (.str strId, .num (.u64 i))]

def showOptNat : Option Nat → String
  | some n => toString n
  | none => "-"

/-- `zip`: the second operand is a lazy iterable (length known only when it is empty) -/
def runZip (m : Mode) (al : Al) (words : List String) : String :=
  let xss := words.map fun wd => itemsOf m al wd false
  let lens := (xss.zipIdx).map fun (xs, i) => if i == 1 && !xs.isEmpty then none else some xs.length
  "ok:" ++ ",".intercalate ((zipV xss).map fun t => showItems m al false t) ++
    s!" len={showOptNat (zipKnownLen lens)} tuples=1"

/-- `chain` of sequences (`seq`, `tuple`: all operands are sequences) or with a lazy first operand (`mixed`) -/
def runChain (m : Mode) (al : Al) (kind : String) (words : List String) : String :=
  let xss := words.map fun wd => itemsOf m al wd false
  let lens := (xss.zipIdx).map fun (xs, i) => if kind == "mixed" && i == 0 && !xs.isEmpty then none else some xs.length
  let all := chainSeq xss
  let idx := String.join ((List.range (all.length + 1)).map fun i =>
    match (if kind == "mixed" then all[i]? else chainIdx xss i) with
    | some v => al.letter v
    | none => "u")
  s!"ok:{showItems m al false all} kind={if kind == "mixed" then "Iterable" else "Seq"} len={showOptNat (chainLen lens)} idx={idx}"

def testOf (s : String) : Test :=
  match s with
  | "eq" => .eq | "ne" => .ne | "lt" => .lt | "le" => .le | "gt" => .gt | "ge" => .ge | _ => .isIn

def showNum : V → String
  | .num (.u64 n) => toString n
  | .num (.i64 n) => toString n
  | _ => "?"

def runFv (m : Mode) (al : Al) (f : List String) : String :=
  let b := fun (x : String) => x == "1"
  let w := fun (x : String) => if x == "-" then "" else x
  match f with
  | ["sort", cs, rev, form, word] =>
    let wrap := form == "wrap"
    "ok:" ++ showItems m al wrap (sortV m (b cs) (b rev) (if wrap then some strK else none) (itemsOf m al (w word) wrap))
  | ["sortm", cs, rev, word] =>
    "ok:" ++ showItems m al true (sortMultiV m (b cs) (b rev) [strG, strK] (itemsOf m al (w word) true))
  | ["unique", cs, form, word] =>
    let wrap := form == "wrap"
    "ok:" ++ showItems m al wrap (uniqueV m lowerAscii (b cs) (if wrap then some strK else none) (itemsOf m al (w word) wrap))
  | ["groupby", cs, d, word] =>
    let dflt := if d == "-" then V.undef else al.get d.toList.head!
    let items := ((w word).toList.zipIdx).map fun (c, i) => if i % 3 == 2 then bareItem m i else wrapItem m (al.get c) i
    let gs := groupbyV m (b cs) strK dflt items
    "ok:" ++ ";".intercalate (gs.map fun (g, xs) =>
      (match g with | .undef => "u" | _ => al.letter g) ++ ":" ++ showItems m al true xs)
  | ["dictsort", cs, rev, bv, word] =>
    let n := (w word).length
    let pairs := ((w word).toList.zipIdx).map fun (c, i) => (al.get c, V.num (.u64 ((n - i) % 3)))
    match mkMap m pairs with
    | .map ps =>
      "ok:" ++ ",".intercalate ((dictsortV (b cs) (b rev) (b bv) ps).map fun (k, v) => al.letter k ++ "=" ++ showNum v)
    | _ => "bad-case"
  | ["sel", t, inv, form, word, arg] =>
    let wrap := form == "wrap"
    "ok:" ++ showItems m al wrap (selectV m (b inv) (if wrap then some strK else none) (testOf t) (al.get arg.toList.head!) (itemsOf m al (w word) wrap))
  | ["min", word] =>
    match minBy cmpV (itemsOf m al (w word) false) with
    | some v => "ok:" ++ al.letter v
    | none => "ok:u"
  | ["max", word] =>
    match maxBy cmpV (itemsOf m al (w word) false) with
    | some v => "ok:" ++ al.letter v
    | none => "ok:u"
  | ["cin", kind, word, arg] =>
    let items := itemsOf m al (w word) false
    let x := al.get arg.toList.head!
    let one : V := .num (.i64 1)
    let r : Option Bool :=
      match kind with
      | "seq" => containsV m (.seq items) x
      | "oseq" => containsV m (.seq items) x
      | "tuple" => containsV m (.tuple items) x
      | "iter" => containsV m (.iter items) x
      | "once" => containsV m (.iter items) x
      | "map" => containsV m (mkMap m (items.map fun k => (k, one))) x
      -- the harness's user map object looks keys up with `==` (stored key on the left)
      | _ => some (items.any fun k => eqV m k x)
    match r with
    | some true => "1"
    | some false => "0"
    | none => "e"
  | ["sortp", cs, rev, word] =>
    "ok:" ++ showItems m al true (sortPathV m (b cs) (b rev) [.name strP, .name strK] (itemsP m al (w word)))
  | ["sorti", cs, rev, word] =>
    let items := ((w word).toList.zipIdx).map fun (c, i) => V.seq [al.get c, .num (.u64 i)]
    "ok:" ++ ".".intercalate ((sortPathV m (b cs) (b rev) [.idx 0] items).map fun v =>
      match getIdx m 1 v with
      | some x => showNum x
      | none => "?")
  | ["uniquep", cs, word] =>
    "ok:" ++ showItems m al true (uniquePathV m lowerAscii (b cs) [.name strP, .name strK] (itemsP m al (w word)))
  | ["groupbyp", cs, d, word] =>
    let dflt := if d == "-" then V.undef else al.get d.toList.head!
    let gs := groupbyPathV m (b cs) [.name strP, .name strK] dflt (itemsP m al (w word))
    "ok:" ++ ";".intercalate (gs.map fun (g, xs) =>
      (match g with | .undef => "u" | _ => al.letter g) ++ ":" ++ showItems m al true xs)
  | ["sum", word] =>
    match sumV (itemsOf m al (w word) false) with
    | some (.ok r) => "ok:" ++ toString r.val
    | some _ => "err:InvalidOperation"
    | none => "nomodel"
  | ["zip", a, c] => runZip m al [w a, w c]
  | ["zip3", a, c, d] => runZip m al [w a, w c, w d]
  | ["chain", "map", a, c] =>
    let mk := fun (word : String) (base : Nat) =>
      match mkMap m (((w word).toList.zipIdx).map fun (ch, i) => (al.get ch, V.num (.u64 (base + i)))) with
      | .map ps => ps
      | _ => []
    let maps := [mk a 0, mk c 10]
    let keys := chainKeys maps
    "ok:" ++ ",".intercalate (keys.map fun k => al.letter k ++ "=" ++
      (match chainGet m maps k with | some v => showNum v | none => "")) ++
      s!" kind=Map len={keys.length}"
  | ["chain", "mapu", a, c] =>
    -- the entries at the even positions hold undefined values: listed and found (`u`)
    let mk := fun (word : String) (base : Nat) =>
      match mkMap m (((w word).toList.zipIdx).map fun (ch, i) =>
        (al.get ch, if i % 2 == 0 then V.undef else V.num (.u64 (base + i)))) with
      | .map ps => ps
      | _ => []
    let maps := [mk a 0, mk c 10]
    let keys := chainKeys maps
    "ok:" ++ ",".intercalate (keys.map fun k => al.letter k ++ "=" ++
      (match chainGet m maps k with | some .undef => "u" | some v => showNum v | none => "")) ++
      s!" kind=Map len={keys.length}"
  | ["chain", kind, a, c] => runChain m al kind [w a, w c]
  | ["chain3", a, c, d] => runChain m al "seq" [w a, w c, w d]
  | ["items", word] =>
    match mkMap m (((w word).toList.zipIdx).map fun (ch, i) => (al.get ch, V.num (.u64 i))) with
    | .map ps =>
      let its := itemsV ps
      let allTuples := its.all fun t => match t with | .tuple _ => true | _ => false
      "ok:" ++ ",".intercalate ((pairsOf its).map fun (k, v) => al.letter k ++ "=" ++ showNum v) ++ s!" tuples={if allTuples then 1 else 0}"
    | _ => "bad-case"
  | ["list", kind, word] =>
    let items := itemsOf m al (w word) false
    let c : V := match kind with
      | "seq" | "oseq" => .seq items
      | "tuple" => .tuple items
      | "iter" | "once" => .iter items
      | "map" => mkMap m (items.map fun k => (k, V.num (.i64 1)))
      | "omap" => .map (items.map fun k => (k, V.num (.i64 1)))
      | "str" => .str ((w word).toUTF8.toList.map (·.toNat))
      | "undef" => .undef
      | _ => .none
    match listV c with
    | some vs =>
      if kind == "str" then "ok:" ++ String.join (vs.map fun v => match v with
        | .str bs => String.ofList (bs.map fun n => Char.ofNat n)
        | _ => "?")
      else "ok:" ++ showItems m al false vs
    | none => "err:InvalidOperation"
  | ["sameas", a, c, inst] =>
    if sameasV m (inst == "same") (al.get a.toList.head!) (al.get (if inst == "same" then a else c).toList.head!) then "1" else "0"
  | ["cnt", kind, word, arg] =>
    let _ := kind
    s!"ok:{countV m (itemsOf m al (w word) false) (al.get arg.toList.head!)}"
  | ["pyd", meth, word, arg] =>
    match mkMap m (((w word).toList.zipIdx).map fun (ch, i) => (al.get ch, V.num (.u64 i))) with
    | .map ps =>
      let x := al.get arg.toList.head!
      let showV := fun (v : V) => match v with | .none => "None" | v => showNum v
      match meth with
      | "get" => "ok:" ++ showV (dictGet m ps x none)
      | "get2" => "ok:" ++ showV (dictGet m ps x (some (.num (.i64 99))))
      | "keys" => "ok:" ++ showItems m al false (dictKeys ps)
      | "values" => "ok:" ++ ",".intercalate ((dictValues ps).map showNum)
      | _ => "ok:" ++ ",".intercalate ((pairsOf (dictItems ps)).map fun (k, v) => al.letter k ++ "=" ++ showNum v)
    | _ => "bad-case"
  | ["lit", word] =>
    let pairs := ((w word).toList.zipIdx).map fun (c, i) => (al.get c, V.num (.i64 i))
    "ok:" ++ ",".intercalate ((mapLit m pairs).map fun (k, v) => al.letter k ++ "=" ++ showNum v)
  | _ => "bad-case"

/-- a zoo value: inside `V`, or one of the top-level kinds modelled next to it (an invalid value, a plain
    object with identity and `custom_cmp`) -/
inductive ZV where
  | v (x : V)
  | inv (i : Inv)
  | obj (o : PObj)

structure St where
  zoo : Array (Option ZV) := #[]
  rzoo : Array (Option ZV) := #[]
  al : Al := {}

/-- `X.<hex of the detail>`: `Error::new(InvalidOperation, detail)`; `C.<n>_<tag>`: the harness's `VerObj` (one Rust
    type, `custom_cmp` by `n`, rendered `ver<n, six digits><tag>`); `idx` makes the object id (instance A of zoo
    entry `i` gets `2i`, instance B `2i+1`: a pair always compares two different objects) -/
def parseZV (m : Mode) (enc : String) (idx : Nat) : Option ZV :=
  match enc.splitOn "." with
  | ["X", h] => some (.inv ⟨0, some (unhex h.toList)⟩)
  | ["C", rest] =>
    match rest.splitOn "_" with
    | n :: tag =>
      match n.toNat? with
      | some k =>
        let digits := toString k
        let padded := String.ofList (List.replicate (6 - digits.length) '0') ++ digits
        let text := ("ver" ++ padded ++ "_".intercalate tag).toUTF8.toList.map (·.toNat)
        some (.obj ⟨2 * idx, 1, some (k : Int), text⟩)
      | none => none
    | [] => none
  | _ =>
    match parseV m enc.toList with
    | some (v, []) => some (.v v)
    | _ => none

def valAnswer (m : Mode) (tag i : String) (ov : Option ZV) : String :=
  match ov with
  | some (.v v) =>
    let len := match v with
      | .map ps => toString ps.length
      | _ => "-"
    s!"{tag} {i}\t{v.kindName} len={len} selfeq={if eqV m v v then 1 else 0} selfcmp={ordChar (cmpV v v)}"
  | some (.inv a) => s!"{tag} {i}\tInvalid len=- selfeq={if eqInv a a then 1 else 0} selfcmp={ordChar (cmpInv a a)}"
  | some (.obj o) => s!"{tag} {i}\tPlain len=- selfeq={if eqPObj o o then 1 else 0} selfcmp={ordChar (cmpPObj o o)}"
  | none => s!"{tag} {i}\tnomodel"

def pairAnswer (m : Mode) (case : String) (oa ob : Option ZV) : String :=
  match oa, ob with
  | some (.v a), some (.v b) =>
    let h := if hashBytes a == hashBytes b then 1 else 0
    let dep := if m == .index && (hashDep a b) then " h" else ""
    s!"{case}\t{ordChar (cmpV a b)} {if eqV m a b then 1 else 0} {h}{dep}"
  | some (.inv a), some (.inv b) =>
    s!"{case}\t{ordChar (cmpInv a b)} {if eqInv a b then 1 else 0} {if hkeyInv a == hkeyInv b then 1 else 0}"
  | some (.obj a), some (.obj b) =>
    -- the second operand is instance B: another object (plain objects feed the hasher nothing but the tuple flag)
    let b' := { b with id := b.id + 1 }
    s!"{case}\t{ordChar (cmpPObj a b')} {if eqPObj a b' then 1 else 0} 1"
  | _, _ => s!"{case}\tnomodel"

def handle (m : Mode) (st : St) (line : String) : St × String :=
  let case := (line.splitOn "\t").head!
  match case.trimAscii.toString.splitOn " " with
  | ["val", i, enc] =>
    let ov := parseZV m enc st.zoo.size
    ({ st with zoo := st.zoo.push ov }, valAnswer m "val" i ov)
  | ["pair", i, j] =>
    match i.toNat?, j.toNat? with
    | some i', some j' => (st, pairAnswer m case (st.zoo[i']!) (st.zoo[j']!))
    | _, _ => (st, s!"{case}\tbad-case")
  | ["rval", b, i, enc] =>
    let ov := parseZV m enc (if i == "0" then 0 else st.rzoo.size)
    let rz := if i == "0" then #[ov] else st.rzoo.push ov
    ({ st with rzoo := rz }, valAnswer m s!"rval {b}" i ov)
  | ["rpair", _b, i, j] =>
    match i.toNat?, j.toNat? with
    | some i', some j' => (st, pairAnswer m case (st.rzoo[i']!) (st.rzoo[j']!))
    | _, _ => (st, s!"{case}\tbad-case")
  | ["fa", _l, enc] =>
    match parseV m enc.toList with
    | some (v, []) => ({ st with al := { vals := st.al.vals.push v } }, s!"{case}\tok")
    | _ => (st, s!"{case}\tbad-case")
  | "fv" :: rest => (st, s!"{case}\t{runFv m st.al rest}")
  | ["lk", _backing, n, kenc, penc] =>
    match n.toNat?, parseV m kenc.toList, parseV m penc.toList with
    | some n, some (k, []), some (p, []) =>
      let marker : V := .num (.i64 777)
      let fillers : List (V × V) := (List.range (n - 1)).map fun i =>
        (V.str (s!"~f{i + 1}".toUTF8.toList.map (·.toNat)), V.num (.u64 (i + 1)))
      match mkMap m ((k, marker) :: fillers) with
      | .map ps =>
        let isM : Option V → String := fun o => match o with
          | some (.num (.i64 777)) => "1"
          | _ => "0"
        let attr := match p with
          | .str t => isM (getByStr m ps t)
          | _ => "-"
        -- IndexMap: a stored key that is == the probe but hashes differently is found or not
        -- depending on the table layout
        let dep := if m == .index && ps.length ≠ 1 &&
            ps.any (fun q => eqV .index p q.1 && hashBytes p != hashBytes q.1) then " h" else ""
        (st, s!"{case}\tget={isM (getV m ps p)} attr={attr}{dep}")
      | _ => (st, s!"{case}\tbad-case")
    | _, _, _ => (st, s!"{case}\tbad-case")
  | [which, len, count, fill] =>
    match len.toNat?, count.toNat? with
    | some len, some count => (st, s!"{case}\t{runFilter which len count (fill == "1")}")
    | _, _ => (st, s!"{case}\tbad-case")
  | _ => (st, s!"{case}\tbad-case")

partial def loop (m : Mode) (st : St) (h : IO.FS.Stream) (out : IO.FS.Stream) : IO Unit := do
  let line ← h.getLine
  if line.isEmpty then return ()
  let (st', res) := handle m st (line.dropEndWhile (· == '\n')).toString
  out.putStrLn res
  loop m st' h out

end C07Drive

def main (args : List String) : IO Unit := do
  let m : Mode := if args.head? == some "index" then .index else .btree
  C07Drive.loop m {} (← IO.getStdin) (← IO.getStdout)
