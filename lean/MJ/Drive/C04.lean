import MJ.Model.Fold
import MJ.Model.FoldPrims
import MJ.Model.FoldStmt
import MJ.Model.FoldCode
/-! Line driver for C04.

    stdin : `<mode>\t<ast tokens>` (the real parser's AST as dumped by `harness/src/bin/c04.rs`)
    stdout: `fold=<none|some V>\tcomp=<ok V|err:Kind>\trt=<ok V|err:Kind>\tsupp=<0|1>\twf=<0|1>`
    (a line `consts\t<AST tokens>` is answered by `consts=<V>,<V>,…`, the constants of the emitted code)

    `fold` = `asConst`, `comp` = `evalC` (what the emitted code computes), `rt` = `evalRt` (unfolded
    run-time semantics), all with the concrete primitives of `MJ.Fold.Conc`; `supp` = every primitive
    application met lies in the transcribed region; `wf` = `Expr.WF` (decided here). -/
open MJ.Fold MJ.Fold.Conc

def hexVal (c : Char) : Nat :=
  if '0' ≤ c ∧ c ≤ '9' then c.toNat - '0'.toNat
  else if 'a' ≤ c ∧ c ≤ 'f' then c.toNat - 'a'.toNat + 10 else 0

def unhexBytes : List Char → List UInt8
  | a :: b :: rest => (hexVal a * 16 + hexVal b).toUInt8 :: unhexBytes rest
  | _ => []

def unhexStr (s : String) : String :=
  (String.fromUTF8? (ByteArray.mk (unhexBytes s.toList).toArray)).getD "?"

def hexDigit (n : Nat) : Char := if n < 10 then Char.ofNat (48 + n) else Char.ofNat (87 + n)

def hexStr (s : String) : String :=
  String.ofList (s.toUTF8.toList.flatMap fun b => [hexDigit (b.toNat / 16), hexDigit (b.toNat % 16)])

def hexNat (s : String) : Nat := s.toList.foldl (fun acc c => acc * 16 + hexVal c) 0

def hex16 (n : Nat) : String :=
  String.ofList ((List.range 16).reverse.map fun i => hexDigit ((n / 16 ^ i) % 16))

/-! ### values -/

partial def parseV : List String → Option (V × List String)
  | "U" :: r => some (.undef, r)
  | "N" :: r => some (.none, r)
  | "B0" :: r => some (.bool false, r)
  | "B1" :: r => some (.bool true, r)
  | "Fnan" :: r => some (.float 0x7ff8000000000000, r)
  | "L(" :: r => (parseVs r []).map fun (xs, r) => (.list xs, r)
  | "T(" :: r => (parseVs r []).map fun (xs, r) => (.tuple xs, r)
  | "M(" :: r => (parseVs r []).map fun (xs, r) => (mkMapRaw xs, r)
  | t :: r =>
    if t.startsWith "I" then (t.drop 1).toString.toInt?.map fun n => (.int n, r)
    else if t.startsWith "F" then some (.float (hexNat (t.drop 1).toString), r)
    else if t.startsWith "S" then some (.str (unhexStr (t.drop 1).toString), r)
    else none
  | [] => none
where
  parseVs : List String → List V → Option (List V × List String)
    | ")" :: r, acc => some (acc.reverse, r)
    | ts, acc => match parseV ts with
      | some (v, r) => parseVs r (v :: acc)
      | none => none
  mkMapRaw (xs : List V) : V :=
    let rec pairs : List V → List (V × V)
      | k :: v :: rest => (k, v) :: pairs rest
      | _ => []
    .map (pairs xs)

partial def showV : V → String
  | .undef | .silent => "U"
  | .none => "N"
  | .bool b => if b then "B1" else "B0"
  | .int n => s!"I{n}"
  | .float b => if (decodeF b).isNan then "Fnan" else "F" ++ hex16 b
  | .str s => "S" ++ hexStr s
  | .list xs => "L(" ++ String.join (xs.map fun x => " " ++ showV x) ++ " )"
  | .tuple xs => "T(" ++ String.join (xs.map fun x => " " ++ showV x) ++ " )"
  | .map xs => "M(" ++ String.join (xs.map fun (k, v) => " " ++ showV k ++ " " ++ showV v) ++ " )"
  | .other _ => "O"

/-! ### expressions -/

def binOf : String → Option BinOp
  | "add" => some .add | "sub" => some .sub | "mul" => some .mul | "div" => some .div
  | "fdiv" => some .fdiv | "rem" => some .rem | "pow" => some .pow | "cat" => some .cat
  | "eq" => some .eq | "ne" => some .ne | "lt" => some .lt | "le" => some .le
  | "gt" => some .gt | "ge" => some .ge | "in" => some .in_ | "and" => some .and | "or" => some .or
  | _ => none

def cmpOf : String → Option CmpOp
  | "eq" => some .eq | "ne" => some .ne | "lt" => some .lt | "le" => some .le
  | "gt" => some .gt | "ge" => some .ge | "in" => some .in_ | "notin" => some .notIn
  | _ => none

def kindOf : String → Option CallKind
  | "function" => some .function | "method" => some .method | "object" => some .object
  | "filter" => some .filter | "test" => some .test
  | _ => none

mutual
  partial def parseE : List String → Option (Expr × List String)
    | "k" :: r => (parseV r).map fun (v, r) => (.const v, r)
    | "v" :: x :: r => some (.var x, r)
    | "L" :: n :: r => n.toNat?.bind fun n => (parseEs n r).map fun (es, r) => (.list es, r)
    | "T" :: n :: r => n.toNat?.bind fun n => (parseEs n r).map fun (es, r) => (.tuple es, r)
    | "M" :: n :: r => n.toNat?.bind fun n => (parsePs n r).map fun (ps, r) => (.map ps, r)
    | "not" :: r => (parseE r).map fun (e, r) => (.not e, r)
    | "neg" :: r => (parseE r).map fun (e, r) => (.neg e, r)
    | "b" :: op :: r =>
      match binOf op, parseE r with
      | some op, some (l, r) => (parseE r).map fun (rr, r) => (.bin op l rr, r)
      | _, _ => none
    | "c" :: n :: r =>
      match n.toNat?, parseE r with
      | some n, some (e, r) => (parseC n r).map fun (ops, r) => (.cmp e ops, r)
      | _, _ => none
    | "call" :: name :: np :: nk :: r =>
      match np.toNat?, nk.toNat? with
      | some np, some nk =>
        match parseEs np r with
        | some (pos, r) => (parseK nk r).map fun (kws, r) => (.call name pos kws, r)
        | none => none
      | _, _ => none
    | "filt" :: name :: np :: nk :: r =>
      match np.toNat?, nk.toNat?, parseE r with
      | some np, some nk, some (e, r) =>
        match parseEs np r with
        | some (pos, r) => (parseK nk r).map fun (kws, r) => (.filter name e pos kws, r)
        | none => none
      | _, _, _ => none
    | "test" :: name :: np :: nk :: r =>
      match np.toNat?, nk.toNat?, parseE r with
      | some np, some nk, some (e, r) =>
        match parseEs np r with
        | some (pos, r) => (parseK nk r).map fun (kws, r) => (.test name e pos kws, r)
        | none => none
      | _, _, _ => none
    | "callx" :: kind :: nr :: name :: na :: r =>
      match kindOf kind, nr.toNat?, na.toNat? with
      | some kind, some nr, some na =>
        match parseEs nr r with
        | some (recv, r) => (parseA na r).map fun (args, r) => (.callx kind recv (if name == "-" then "" else name) args, r)
        | none => none
      | _, _, _ => none
    | "ga" :: name :: r => (parseE r).map fun (e, r) => (.getAttr e name, r)
    | "gi" :: r =>
      match parseE r with
      | some (e, r) => (parseE r).map fun (i, r) => (.getItem e i, r)
      | none => none
    | "sl" :: r =>
      match parseE r with
      | some (e, r) => match parseO r with
        | some (a, r) => match parseO r with
          | some (b, r) => (parseO r).map fun (c, r) => (.slice e a b c, r)
          | none => none
        | none => none
      | none => none
    | "if" :: r =>
      match parseE r with
      | some (c, r) => match parseE r with
        | some (t, r) => (parseO r).map fun (f, r) => (.ifExpr c t f, r)
        | none => none
      | none => none
    | _ => none
  partial def parseO : List String → Option (OptExpr × List String)
    | "_" :: r => some (.none, r)
    | r => (parseE r).map fun (e, r) => (.some e, r)
  partial def parseEs : Nat → List String → Option (Exprs × List String)
    | 0, r => some (.nil, r)
    | n + 1, r => match parseE r with
      | some (e, r) => (parseEs n r).map fun (es, r) => (.cons e es, r)
      | none => none
  partial def parsePs : Nat → List String → Option (Pairs × List String)
    | 0, r => some (.nil, r)
    | n + 1, r => match parseE r with
      | some (k, r) => match parseE r with
        | some (v, r) => (parsePs n r).map fun (ps, r) => (.cons k v ps, r)
        | none => none
      | none => none
  partial def parseC : Nat → List String → Option (Chain × List String)
    | 0, r => some (.nil, r)
    | n + 1, op :: r => match cmpOf op, parseE r with
      | some op, some (e, r) => (parseC n r).map fun (c, r) => (.cons op e c, r)
      | _, _ => none
    | _, [] => none
  partial def parseA : Nat → List String → Option (Args × List String)
    | 0, r => some (.nil, r)
    | n + 1, "p" :: r => match parseE r with
      | some (e, r) => (parseA n r).map fun (a, r) => (.pos e a, r)
      | none => none
    | n + 1, "ps" :: r => match parseE r with
      | some (e, r) => (parseA n r).map fun (a, r) => (.posSplat e a, r)
      | none => none
    | n + 1, "k" :: name :: r => match parseE r with
      | some (e, r) => (parseA n r).map fun (a, r) => (.kw name e a, r)
      | none => none
    | n + 1, "ks" :: r => match parseE r with
      | some (e, r) => (parseA n r).map fun (a, r) => (.kwSplat e a, r)
      | none => none
    | _, _ => none
  partial def parseK : Nat → List String → Option (Kws × List String)
    | 0, r => some (.nil, r)
    | n + 1, name :: r => match parseE r with
      | some (e, r) => (parseK n r).map fun (k, r) => (.cons name e k, r)
      | none => none
    | _, [] => none
end

/-! ### `Expr.WF`, decided -/

mutual
  def wfE : Expr → Bool
    | .const v => !isUndef v
    | .var _ => true
    | .list es | .tuple es => wfEs es
    | .map ps => wfPs ps
    | .not e | .neg e => wfE e
    | .bin _ l r => wfE l && wfE r
    | .cmp e ops => wfE e && (match ops with | .nil => false | _ => true) && wfC ops
    | .getAttr e _ => wfE e
    | .getItem e i => wfE e && wfE i
    | .slice e a b c => wfE e && wfO a && wfO b && wfO c
    | .ifExpr c t f => wfE c && wfE t && wfO f
    | .filter _ e pos kws | .test _ e pos kws => wfE e && wfEs pos && wfK kws
    | .call _ pos kws => wfEs pos && wfK kws
    | .callx _ recv _ args => wfEs recv && wfA args
  def wfO : OptExpr → Bool
    | .none => true
    | .some e => wfE e
  def wfEs : Exprs → Bool
    | .nil => true
    | .cons e es => wfE e && wfEs es
  def wfPs : Pairs → Bool
    | .nil => true
    | .cons k v r => wfE k && wfE v && wfPs r
  def wfC : Chain → Bool
    | .nil => true
    | .cons _ e r => wfE e && wfC r
  def wfA : Args → Bool
    | .nil => true
    | .pos e r | .posSplat e r | .kw _ e r | .kwSplat e r => wfE e && wfA r
  def wfK : Kws → Bool
    | .nil => true
    | .cons _ e r => wfE e && wfK r
end

/-! ### are all primitive applications in the transcribed region?  (conservative: every
    sub-expression is evaluated on its own, short-circuiting ignored) -/

/-- the harness' globals: `ob` (an object) and `kw` (a function) as values; every other variable is undefined -/
def ρ0 : Env := fun x => if x = "ob" then some (.other 1) else if x = "kw" then some (.other 2) else none

def valOf (m : Mode) (e : Expr) : Option V :=
  match evalRt prims m ρ0 e with
  | .ok v => some v
  | .error _ => none

def valOfO (m : Mode) : OptExpr → Option V
  | .none => some .none
  | .some e => valOf m e

def valsOf (m : Mode) (es : Exprs) : Option (List V) :=
  match evalRtList prims m ρ0 es with
  | .ok vs => some vs
  | .error _ => none

def kvalsOf (m : Mode) (ks : Kws) : Option (List (String × V)) :=
  match evalRtKws prims m ρ0 ks with
  | .ok vs => some vs
  | .error _ => none

def opName (op : BinOp) : String := match op with
  | .add => "add" | .sub => "sub" | .mul => "mul" | .div => "div" | .fdiv => "fdiv" | .rem => "rem"
  | .pow => "pow" | .cat => "cat" | .in_ => "in:nan" | .and => "and" | .or => "or" | _ => "cmp:nan"

def why (ok : Bool) (reason : String) : List String := if ok then [] else [reason]

mutual
  def suppE (m : Mode) : Expr → List String
    | .const _ | .var _ => []
    | .list es | .tuple es => suppEs m es
    | .map ps => suppPs m ps
    | .not e => suppE m e
    | .neg e => suppE m e ++ (match valOf m e with | some v => why (suppNeg v) "neg" | none => [])
    | .bin op l r => suppE m l ++ suppE m r ++
      (match valOf m l, valOf m r with
       | some a, some b => why (suppBin op a b) (opName op)
       | _, _ => [])
    | .cmp e ops => suppE m e ++ suppC m e ops
    | .getAttr e _ => suppE m e
    | .getItem e i => suppE m e ++ suppE m i ++
      (match valOf m e, valOf m i with
       | some a, some b => why (suppGetItem a b) "getitem"
       | _, _ => [])
    | .slice e a b c => suppE m e ++ suppO m a ++ suppO m b ++ suppO m c ++
      (match valOf m e, valOfO m a, valOfO m b, valOfO m c with
       | some v, some x, some y, some z => why (suppSlice v x y z) "slice"
       | _, _, _, _ => [])
    | .ifExpr c t f => suppE m c ++ suppE m t ++ suppO m f
    | .filter name e pos kws => suppE m e ++ suppEs m pos ++ suppK m kws ++
      (match valOf m e, valsOf m pos, kvalsOf m kws with
       | some v, some ps, some ks => why (suppFilter name (v :: ps) ks) ("filter:" ++ name)
       | _, _, _ => [])
    | .test name e pos kws => suppE m e ++ suppEs m pos ++ suppK m kws ++
      (match valOf m e, valsOf m pos, kvalsOf m kws with
       | some v, some ps, some ks => why (suppTest name (v :: ps) ks) ("test:" ++ name)
       | _, _, _ => [])
    | .call name pos kws => why (name == "kw") ("call:" ++ name) ++ suppEs m pos ++ suppK m kws
    | .callx kind recv name args => suppEs m recv ++ suppA m args ++
      (match valsOf m recv, evalRtArgsPos prims m ρ0 args, evalRtArgsKw prims m ρ0 args with
       | some rv, .ok ps, .ok ks => why (suppCallX kind name rv (ps ++ ks)) ("callx:" ++ name)
       | _, _, _ => [])
  def suppO (m : Mode) : OptExpr → List String
    | .none => []
    | .some e => suppE m e
  def suppEs (m : Mode) : Exprs → List String
    | .nil => []
    | .cons e es => suppE m e ++ suppEs m es
  def suppPs (m : Mode) : Pairs → List String
    | .nil => []
    | .cons k v r => suppE m k ++ suppE m v ++ suppPs m r ++
      (match valOf m k with | some kv => why (!hasOdd kv) "mapkey:nan" | none => [])
  def suppC (m : Mode) (left : Expr) : Chain → List String
    | .nil => []
    | .cons op e r => suppE m e ++ suppC m e r ++
      (match valOf m left, valOf m e with
       | some a, some b => why (suppCmp op a b) "cmp:nan"
       | _, _ => [])
  def suppA (m : Mode) : Args → List String
    | .nil => []
    | .pos e r | .posSplat e r | .kw _ e r | .kwSplat e r => suppE m e ++ suppA m r
  def suppK (m : Mode) : Kws → List String
    | .nil => []
    | .cons _ e r => suppE m e ++ suppK m r
end

def showRes : Except Err V → String
  | .ok v => "ok " ++ showV v
  | .error .invalidOperation => "err:InvalidOperation"
  | .error .undefinedError => "err:UndefinedError"
  | .error (.named n) => s!"err:{n}"

def modeOf : String → Option Mode
  | "lenient" => some .lenient | "chainable" => some .chainable
  | "semistrict" => some .semiStrict | "strict" => some .strict
  | _ => none

def suppStr (rs : List String) : String := if rs.isEmpty then "1" else "0:" ++ ",".intercalate rs.eraseDups

def b01 (b : Bool) : String := if b then "1" else "0"

/-! ### statement shapes: `<Kind> <name|-> <nheads> <nbodies> (<len> stmt*)*` -/

def dummyHeads : Nat → Exprs
  | 0 => .nil
  | n + 1 => .cons (.var "_") (dummyHeads n)

mutual
  partial def parseS : List String → Option (Stmt × List String)
    | kind :: name :: nh :: nb :: r =>
      match nh.toNat?, nb.toNat? with
      | some nh, some nb => (parseBs nb r).map fun (bs, r) => (.mk kind (if name == "-" then "" else name) (dummyHeads nh) bs, r)
      | _, _ => none
    | _ => none
  partial def parseBs : Nat → List String → Option (Bodies × List String)
    | 0, r => some (.nil, r)
    | n + 1, len :: r =>
      match len.toNat? with
      | some len => match parseSs len r with
        | some (ss, r) => (parseBs n r).map fun (bs, r) => (.cons ss bs, r)
        | none => none
      | none => none
    | _, [] => none
  partial def parseSs : Nat → List String → Option (Stmts × List String)
    | 0, r => some (.nil, r)
    | n + 1, r => match parseS r with
      | some (s, r) => (parseSs n r).map fun (ss, r) => (.cons s ss, r)
      | none => none
end

def sortStrs (xs : List String) : List String := (xs.toArray.qsort (· < ·)).toList

/-! ### the instruction stream (`codeC`), printed like the harness prints the real one -/

def binName : BinOp → String
  | .add => "Add" | .sub => "Sub" | .mul => "Mul" | .div => "Div" | .fdiv => "IntDiv" | .rem => "Rem"
  | .pow => "Pow" | .cat => "StringConcat" | .eq => "Eq" | .ne => "Ne" | .lt => "Lt" | .le => "Lte"
  | .gt => "Gt" | .ge => "Gte" | .in_ => "In" | .and => "?and" | .or => "?or"

def cmpName : CmpOp → String
  | .eq => "Eq" | .ne => "Ne" | .lt => "Lt" | .le => "Lte" | .gt => "Gt" | .ge => "Gte" | .in_ => "In" | .notIn => "NotIn"

def argcStr : Option Nat → String
  | some n => toString n
  | none => "-"

def showI : Instr → String
  | .loadConst _ => "K"
  | .lookup x => s!"Lookup:{x}"
  | .buildList n => s!"BuildList:{n}"
  | .buildTuple n => s!"BuildTuple:{n}"
  | .buildMap n => s!"BuildMap:{n}"
  | .buildKwargs n => s!"BuildKwargs:{n}"
  | .mergeKwargs n => s!"MergeKwargs:{n}"
  | .unpackLists n => s!"UnpackLists:{n}"
  | .not => "Not"
  | .neg => "Neg"
  | .bin op => binName op
  | .jumpIfFalseOrPop k => s!"JFP:{k}"
  | .jumpIfTrueOrPop k => s!"JTP:{k}"
  | .jumpIfFalse k => s!"JF:{k}"
  | .jump k => s!"J:{k}"
  | .compareAndPreserve op => s!"CAP:{cmpName op}"
  | .swap => "Swap"
  | .discardTop => "DiscardTop"
  | .getAttr n => s!"GetAttr:{n}"
  | .getItem => "GetItem"
  | .slice => "Slice"
  | .applyFilter n a => s!"ApplyFilter:{n}:{argcStr a}"
  | .performTest n a => s!"PerformTest:{n}:{argcStr a}"
  | .callFunction n a => s!"CallFunction:{n}:{argcStr a}"
  | .callMethod n a => s!"CallMethod:{n}:{argcStr a}"
  | .callObject a => s!"CallObject:{argcStr a}"

def handle (line : String) : String :=
  match line.splitOn "\t" with
  | ["stmt", toks] =>
    -- the block table the model's traversal registers for a statement tree
    match parseS ((toks.splitOn " ").filter (· ≠ "")) with
    | some (s, []) => "blocks=" ++ ",".intercalate (sortStrs (registeredBlocks s).eraseDups)
    | _ => "bad-case"
  | ["consts", toks] =>
    -- the `LoadConst` values of the code the model's `compile_expr` emits for a hoisting variant
    match parseE ((toks.splitOn " ").filter (· ≠ "")) with
    | some (e, []) => "consts=" ++ ",".intercalate ((constsC prims e).map showV) ++
        "\tops=" ++ " ".intercalate ((codeC prims e).map showI)
    | _ => "bad-case"
  | [mode, toks] =>
    match modeOf mode, parseE ((toks.splitOn " ").filter (· ≠ "")) with
    | some m, some (e, []) =>
      let fold := match asConst prims e with
        | some v => "some " ++ showV v
        | none => "none"
      s!"fold={fold}\tcomp={showRes (evalC prims m ρ0 e)}\trt={showRes (evalRt prims m ρ0 e)}\tsupp={suppStr (suppE m e)}\twf={b01 (wfE e)}"
    | _, _ => "bad-case"
  | _ => "bad-case"

partial def loop (h : IO.FS.Stream) (out : IO.FS.Stream) : IO Unit := do
  let line ← h.getLine
  if line.isEmpty then return ()
  out.putStrLn (handle (line.dropEndWhile (· == '\n')).toString)
  loop h out

def main : IO Unit := do
  loop (← IO.getStdin) (← IO.getStdout)
