import MJ.Model.Eval
import MJ.Model.Compile
import MJ.Model.Vm
import MJ.Model.VmM
import MJ.Proofs.Scoping
/-!
Line driver for C03 (reference interpreter).

input :  `<id>\t<ctx s-expr>\t<program s-expr>`
output:  `<id>\t<exec result>\t<model code>\t<model VM result on the model code>\t<frag3|-:why>\t<extended model VM result>` with result `ok:<hex of utf-8 output>` | `err:<class>` |
         `bad-case:<why>` and model code `(code …)` (same syntax as the harness dump of the real
         instruction stream) or `oof` when the program leaves the fragment of `MJ.Compile`

S-expression grammar: see `harness/src/bin/c03.rs` (`to_sexp`).  Strings are hex-encoded UTF-8,
names are bare atoms.
-/
open MJ.Eval

inductive SExp where
  | atom (s : String)
  | list (xs : List SExp)
  deriving Inhabited

partial def parseSExps (cs : List Char) (acc : List SExp) : Option (List SExp × List Char) :=
  match cs with
  | [] => some (acc.reverse, [])
  | ' ' :: rest => parseSExps rest acc
  | ')' :: rest => some (acc.reverse, rest)
  | '(' :: rest =>
    match parseSExps rest [] with
    | some (xs, rest') => parseSExps rest' (SExp.list xs :: acc)
    | none => none
  | _ =>
    let tok := cs.takeWhile fun c => c != ' ' && c != '(' && c != ')'
    let rest := cs.dropWhile fun c => c != ' ' && c != '(' && c != ')'
    parseSExps rest (SExp.atom (String.ofList tok) :: acc)

def parseSExp (s : String) : Option SExp :=
  match parseSExps s.toList [] with
  | some ([x], []) => some x
  | _ => none

def hexVal (c : Char) : Option Nat :=
  if '0' ≤ c ∧ c ≤ '9' then some (c.toNat - '0'.toNat)
  else if 'a' ≤ c ∧ c ≤ 'f' then some (c.toNat - 'a'.toNat + 10)
  else none

partial def unhexBytes : List Char → Option (List UInt8)
  | [] => some []
  | a :: b :: rest =>
    match hexVal a, hexVal b, unhexBytes rest with
    | some x, some y, some r => some (UInt8.ofNat (x * 16 + y) :: r)
    | _, _, _ => none
  | _ => none

/-- `-` is the empty string -/
def unhex (s : String) : Option String :=
  if s = "-" then some "" else
  match unhexBytes s.toList with
  | some bs => String.fromUTF8? (ByteArray.mk bs.toArray)
  | none => none

def hexDigit (n : Nat) : Char :=
  if n < 10 then Char.ofNat ('0'.toNat + n) else Char.ofNat ('a'.toNat + n - 10)

def hexOf (s : String) : String :=
  if s.isEmpty then "-" else
  String.ofList (s.toUTF8.toList.flatMap fun b => [hexDigit (b.toNat / 16), hexDigit (b.toNat % 16)])

def binOpOf : String → Option BinOp
  | "add" => some .add | "sub" => some .sub | "mul" => some .mul | "fdiv" => some .floordiv
  | "rem" => some .rem | "cat" => some .concat | "eq" => some .eq | "ne" => some .ne
  | "lt" => some .lt | "le" => some .le | "gt" => some .gt | "ge" => some .ge
  | "in" => some .isin | "and" => some .and | "or" => some .or
  | _ => none

def cmpOpOf : String → Option CmpOp
  | "eq" => some .eq | "ne" => some .ne | "lt" => some .lt | "le" => some .le
  | "gt" => some .gt | "ge" => some .ge | "in" => some .isin | "notin" => some .notin
  | _ => none

def allSome {α : Type} : List (Option α) → Option (List α)
  | [] => some []
  | none :: _ => none
  | some x :: rest => (allSome rest).map (x :: ·)

mutual
  partial def toExpr : SExp → Option Expr
    | .list [.atom "c", .atom "none"] => some (.const .none)
    | .list [.atom "c", .atom "t"] => some (.const (.bool true))
    | .list [.atom "c", .atom "f"] => some (.const (.bool false))
    | .list [.atom "c", .atom "i", .atom n] => n.toInt?.map fun i => .const (.int i)
    | .list [.atom "c", .atom "s", .atom h] => (unhex h).map fun s => .const (.str s)
    | .list [.atom "v", .atom x] => some (.var x)
    | .list [.atom "not", e] => (toExpr e).map (.unop .not)
    | .list [.atom "neg", e] => (toExpr e).map (.unop .neg)
    | .list [.atom "b", .atom op, l, r] =>
      match binOpOf op, toExpr l, toExpr r with
      | some op, some l, some r => some (.binop op l r)
      | _, _, _ => none
    | .list (.atom "cmp" :: e :: ops) =>
      match toExpr e, allSome (ops.map toCmp) with
      | some e, some ops => some (.cmp e ops)
      | _, _ => none
    | .list [.atom "if", c, t] =>
      match toExpr c, toExpr t with
      | some c, some t => some (.ife c t none)
      | _, _ => none
    | .list [.atom "if", c, t, f] =>
      match toExpr c, toExpr t, toExpr f with
      | some c, some t, some f => some (.ife c t (some f))
      | _, _, _ => none
    | .list (.atom "flt" :: .atom name :: e :: args) =>
      match toExpr e, allSome (args.map toArg) with
      | some e, some args => some (.filter name e args)
      | _, _ => none
    | .list (.atom "tst" :: .atom name :: e :: args) =>
      match toExpr e, allSome (args.map toArg) with
      | some e, some args => some (.test name e args)
      | _, _ => none
    | .list [.atom "attr", e, .atom name] => (toExpr e).map fun e => .getattr e name
    | .list [.atom "item", e, i] =>
      match toExpr e, toExpr i with
      | some e, some i => some (.getitem e i)
      | _, _ => none
    | .list (.atom "call" :: f :: args) =>
      match toExpr f, allSome (args.map toArg) with
      | some f, some args => some (.call f args)
      | _, _ => none
    | .list (.atom "list" :: items) => (allSome (items.map toExpr)).map .list
    | .list (.atom "map" :: kvs) => (allSome (kvs.map toPair)).map .map
    | _ => none
  partial def toCmp : SExp → Option (CmpOp × Expr)
    | .list [.atom op, e] =>
      match cmpOpOf op, toExpr e with
      | some op, some e => some (op, e)
      | _, _ => none
    | _ => none
  partial def toArg : SExp → Option (Option String × Expr)
    | .list [.atom "p", e] => (toExpr e).map fun e => (none, e)
    | .list [.atom "k", .atom k, e] => (toExpr e).map fun e => (some k, e)
    | _ => none
  partial def toPair : SExp → Option (Expr × Expr)
    | .list [.atom "kv", k, v] =>
      match toExpr k, toExpr v with
      | some k, some v => some (k, v)
      | _, _ => none
    | _ => none
end

partial def toTarget : SExp → Option Target
  | .list [.atom "tv", .atom x] => some (.var x)
  | .list (.atom "tt" :: ts) => (allSome (ts.map toTarget)).map .tuple
  | _ => none

def toFilterApp : SExp → Option FilterApp
  | .list (.atom "f" :: .atom name :: args) => (allSome (args.map toArg)).map fun a => (name, a)
  | _ => none

def toNames : List SExp → Option (List String)
  | xs => allSome (xs.map fun | .atom a => some a | _ => none)

def toBool : SExp → Option Bool
  | .atom "t" => some true
  | .atom "f" => some false
  | _ => none

mutual
  partial def toStmt : SExp → Option Stmt
    | .list [.atom "text", .atom h] => (unhex h).map .text
    | .list [.atom "emit", e] => (toExpr e).map .emit
    | .list [.atom "ifs", c, t, f] =>
      match toExpr c, toBlock t, toBlock f with
      | some c, some t, some f => some (.ifS c t f)
      | _, _, _ => none
    | .list [.atom "for", t, it, flt, body, els] =>
      let flt' : Option (Option Expr) := match flt with
        | .atom "_" => some none
        | e => (toExpr e).map some
      match toTarget t, toExpr it, flt', toBlock body, toBlock els with
      | some t, some it, some flt, some body, some els => some (.forS t it flt body els)
      | _, _, _, _, _ => none
    | .list [.atom "set", t, e] =>
      match toTarget t, toExpr e with
      | some t, some e => some (.set t e)
      | _, _ => none
    | .list [.atom "setb", .atom x, .list (.atom "fl" :: fs), body] =>
      match allSome (fs.map toFilterApp), toBlock body with
      | some fs, some body => some (.setBlock x fs body)
      | _, _ => none
    | .list [.atom "with", .list (.atom "binds" :: bs), body] =>
      match allSome (bs.map toBind), toBlock body with
      | some bs, some body => some (.withS bs body)
      | _, _ => none
    | .list [.atom "fblk", .list (.atom "fl" :: fs), body] =>
      match allSome (fs.map toFilterApp), toBlock body with
      | some fs, some body => some (.filterBlock fs body)
      | _, _ => none
    | .list [.atom "macro", .atom name, .list (.atom "params" :: ps), .list (.atom "defs" :: ds), body, uc] =>
      match toNames ps, allSome (ds.map toExpr), toBlock body, toBool uc with
      | some ps, some ds, some body, some uc => some (.macroS name ps ds body uc)
      | _, _, _, _ => none
    | .list [.atom "callb", f, .list (.atom "args" :: as), .list (.atom "params" :: ps),
             .list (.atom "defs" :: ds), body, uc] =>
      match toExpr f, allSome (as.map toArg), toNames ps, allSome (ds.map toExpr), toBlock body, toBool uc with
      | some f, some as, some ps, some ds, some body, some uc => some (.callBlock f as ps ds body uc)
      | _, _, _, _, _, _ => none
    | .list [.atom "break"] => some .breakS
    | .list [.atom "continue"] => some .continueS
    | _ => none
  partial def toBlock : SExp → Option (List Stmt)
    | .list (.atom "blk" :: ss) => allSome (ss.map toStmt)
    | _ => none
  partial def toBind : SExp → Option (Target × Expr)
    | .list [.atom "bind", t, e] =>
      match toTarget t, toExpr e with
      | some t, some e => some (t, e)
      | _, _ => none
    | _ => none
end

mutual
  partial def toVal : SExp → Option Val
    | .atom "none" => some .none
    | .atom "t" => some (.bool true)
    | .atom "f" => some (.bool false)
    | .list [.atom "i", .atom n] => n.toInt?.map .int
    | .list [.atom "s", .atom h] => (unhex h).map .str
    | .list [.atom "ss", .atom h] => (unhex h).map .str   -- a string marked safe
    | .list (.atom "l" :: xs) => (allSome (xs.map toVal)).map .list
    | .list (.atom "m" :: kvs) => (allSome (kvs.map toKV)).map fun ps =>
        .map (ps.foldl (fun acc kv => mapInsert kv.1 kv.2 acc) [])
    | _ => none
  partial def toKV : SExp → Option (String × Val)
    | .list [.atom h, v] =>
      match unhex h, toVal v with
      | some k, some v => some (k, v)
      | _, _ => none
    | _ => none
end

def toCtx : SExp → Option Scope
  | .list (.atom "ctx" :: kvs) => allSome (kvs.map fun
      | .list [.atom k, v] => (toVal v).map fun v => (k, v)
      | _ => none)
  | _ => none

def errName : Err → String
  | .invalidOp => "InvalidOperation"
  | .undefinedErr => "UndefinedError"
  | .unknownFunction => "UnknownFunction"
  | .unknownFilter => "UnknownFilter"
  | .unknownTest => "UnknownTest"
  | .tooManyArgs => "TooManyArguments"
  | .missingArg => "MissingArgument"
  | .cannotUnpack => "CannotUnpack"
  | .fuel => "FUEL"
  | .outOfFragment => "OUT-OF-FRAGMENT"

partial def valStr : Val → String
  | .undef => "undef"
  | .none => "none"
  | .bool true => "t"
  | .bool false => "f"
  | .int i => s!"(i {i})"
  | .str s => s!"(s {hexOf s})"
  | .list xs => "(l" ++ String.join (xs.map fun x => " " ++ valStr x) ++ ")"
  | .map kvs => "(m" ++ String.join (kvs.map fun kv => s!" ({hexOf kv.1} {valStr kv.2})") ++ ")"
  | .macro .. => "(other macro)"
  | .vmMacro .. => "(other macro)"
  | .kwargs kvs => "(m" ++ String.join (kvs.map fun kv => s!" ({hexOf kv.1} {valStr kv.2})") ++ ")"
  | .loopObj _ => "(other loop)"

def cmpName : CmpOp → String
  | .eq => "Eq" | .ne => "Ne" | .lt => "Lt" | .le => "Lte" | .gt => "Gt" | .ge => "Gte"
  | .isin => "In" | .notin => "NotIn"

open MJ.Compile in
/-- the arguments of an instruction in the notation of the harness -/
def instrArgs : Instr → String
  | .emitRaw s => s!" {hexOf s}"
  | .storeLocal x => s!" {x}"
  | .lookup x => s!" {x}"
  | .getAttr n => s!" {n}"
  | .loadConst v => s!" {valStr v}"
  | .buildMap n => s!" {n}"
  | .buildList (some n) => s!" {n}"
  | .buildList none => " _"
  | .unpackList n => s!" {n}"
  | .compareAndPreserve op => s!" {cmpName op}"
  | .applyFilter name argc id => s!" {name} {argc} {id}"
  | .performTest name argc id => s!" {name} {argc} {id}"
  | .pushLoop f => s!" {f}"
  | .iterate t => s!" {t}"
  | .jump t => s!" {t}"
  | .jumpIfFalse t => s!" {t}"
  | .jumpIfFalseOrPop t => s!" {t}"
  | .jumpIfTrueOrPop t => s!" {t}"
  | .beginCapture => " Capture"
  | .buildKwargs n => s!" {n}"
  | .callFunction name argc => s!" {name} {argc}"
  | .callObject argc => s!" {argc}"
  | .enclose x => s!" {x}"
  | .buildMacro name offset flags => s!" {name} {offset} {flags}"
  | _ => ""

open MJ.Compile in
def instrStr (i : Instr) : String := s!"({i.opName}{instrArgs i})"

def codeStr (prog : List Stmt) : String :=
  match MJ.Compile.compileTemplate prog with
  | some code => "(code" ++ String.join (code.map fun i => " " ++ instrStr i) ++ ")"
  | none => "oof"

/-- a case: a stand-alone program, or `(wrap kind P T)` — `P` through another entry form with the
tail `T` (see `harness/src/bin/c03_wrap.inc`); `discard` = the output of `P` is thrown away -/
structure Case where
  prog : List Stmt
  tail : List Stmt := []
  discard : Bool := false
  /-- `tw-*` kinds: `tail` is the neutral twin of `prog`, both must render the same -/
  twin : Bool := false

def toCase : SExp → Option Case
  | .list [.atom "wrap", .atom kind, p, t] =>
    match toBlock p, toBlock t with
    | some p, some t => some { prog := p, tail := t, discard := ["child", "from", "import", "block", "macro", "rustkw"].contains kind,
                               twin := kind.startsWith "tw-" }
    | _, _ => none
  | x => (toBlock x).map fun p => { prog := p }

mutual
  /-- does a macro / call block of the program have a parameter default? -/
  partial def hasDefaults : Stmt → Bool
    | .ifS _ t f => anyDefaults t || anyDefaults f
    | .forS _ _ _ body els => anyDefaults body || anyDefaults els
    | .setBlock _ _ body => anyDefaults body
    | .withS _ body => anyDefaults body
    | .filterBlock _ body => anyDefaults body
    | .macroS _ _ defaults body _ => !defaults.isEmpty || anyDefaults body
    | .callBlock _ _ _ defaults body _ => !defaults.isEmpty || anyDefaults body
    | _ => false
  partial def anyDefaults : List Stmt → Bool
    | [] => false
    | s :: rest => hasDefaults s || anyDefaults rest
end

/-- why a program is outside the fragment of the refinement theorem (coarse) -/
def whyOutside (prog : List Stmt) : String :=
  if anyDefaults prog then "parameter default that calls a macro or reads a parameter, or a reason of the next line"
  else "macro used as a value / explicit caller= / call of a name that is no declared macro / read not enclosed"

def showRes : MJ.Eval.Res String → String
  | .ok out => s!"ok:{hexOf out}"
  | .error e => s!"err:{errName e}"

def handle (line : String) : String :=
  match line.splitOn "\t" with
  | [id, ctx, prog] =>
    match (parseSExp ctx).bind toCtx, (parseSExp prog).bind toCase with
    | some ctx, some c =>
      if c.twin && showRes (renderTemplate 4000 ctx c.prog) != showRes (renderTemplate 4000 ctx c.tail) then
        s!"{id}\tbad-case:the twin is not neutral in the reference semantics\toof\t-\t-\t-"
      else
      let c : Case := if c.twin then { c with tail := [] } else c
      let whole := c.prog ++ c.tail
      -- generated programs need a few hundred units; unbounded macro recursion shows up as FUEL
      let res := showRes (if c.discard then renderAfter 4000 ctx c.prog c.tail else renderTemplate 4000 ctx whole)
      let boundary := match MJ.Compile.compileTemplate c.prog with
        | some code => code.length
        | none => 0
      -- the model VM on the model code (stage 2): must agree with `exec` and with the engine
      let vm := match MJ.Compile.compileTemplate whole with
        | none => "-"
        | some code =>
          match (if c.discard then MJ.Vm.renderCodeAfter 20000 ctx code boundary else MJ.Vm.renderCode 20000 ctx code) with
          | .ok out => s!"ok:{hexOf out}"
          | .error .outOfFragment => "-"      -- `CallObject` (a call of a value): see the extended VM below
          | .error e => s!"err:{errName e}"
      -- the extended model VM (macros, calls, live loop object) on the model code
      let vmM := match MJ.Compile.compileTemplate whole with
        | none => "-"
        | some code =>
          showRes (if c.discard then MJ.VmM.renderCodeAfterM 4000 ctx code boundary else MJ.VmM.renderCodeM 4000 ctx code)
      -- is the program in the fragment for which the refinement theorem is proved?
      let frag := if decide (MJ.Compile.CoreFragment whole) then "frag3" else s!"-:{whyOutside whole}"
      s!"{id}\t{res}\t{codeStr whole}\t{vm}\t{frag}\t{vmM}"
    | none, _ => s!"{id}\tbad-case:ctx"
    | _, none => s!"{id}\tbad-case:prog"
  | _ => "?\tbad-case:fields"

partial def loop (h : IO.FS.Stream) (out : IO.FS.Stream) : IO Unit := do
  let line ← h.getLine
  if line.isEmpty then return ()
  out.putStrLn (handle (line.dropEndWhile (· == '\n')).toString)
  loop h out

def main : IO Unit := do
  loop (← IO.getStdin) (← IO.getStdout)
