import MJ.Model.Bal
/-! Line driver for C05: `D <TAB> case <TAB> stream <TAB> class <TAB> tok tok …` →
`case <TAB> stream <TAB> ok <TAB> n=<instructions> loops=<k> …` or
`case <TAB> stream <TAB> reject <TAB> <diagnosis>`.  The verdict is the VERIFIED `checkCert` run on
the certificate proposed by the untrusted `inferCert`; the diagnosis is untrusted. -/
open MJ MJ.Bal

def natAfter (s : String) (n : Nat) : Option Nat := (s.drop n).toString.toNat?

def parseTok (s : String) : Option Instr :=
  if s = "o" then some .other
  else if s = "pw" then some .pushWith
  else if s = "pf" then some .popFrame
  else if s = "plf" then some .popLoopFrame
  else if s = "dn" then some .pushDidNotIterate
  else if s = "bc" then some .beginCapture
  else if s = "ec" then some .endCapture
  else if s = "pa" then some .pushAutoEscape
  else if s = "qa" then some .popAutoEscape
  else if s = "fr" then some .fastRecurse
  else if s = "cf" then some .callFunction
  else if s = "ret" then some .ret
  else if s.startsWith "pl" then (natAfter s 2).map (fun f => .pushLoop (f % 2 == 1) ((f / 2) % 2 == 1))
  else if s.startsWith "it" then (natAfter s 2).map .iterate
  else if s.startsWith "bm" then (natAfter s 2).map .buildMacro
  else if s.startsWith "jfp" then (natAfter s 3).map .jumpIfFalseOrPop
  else if s.startsWith "jtp" then (natAfter s 3).map .jumpIfTrueOrPop
  else if s.startsWith "jf" then (natAfter s 2).map .jumpIfFalse
  else if s.startsWith "j" then (natAfter s 1).map .jump
  else none

def parseCode (s : String) : Option Code :=
  let toks := (s.splitOn " ").filter (· ≠ "")
  (toks.mapM parseTok).map List.toArray

def showFrame : FrameKind → String
  | .withF => "W"
  | .loopF id v r => s!"L{id}{if v then "v" else ""}{if r then "r" else ""}"

def showAbs (a : AbsState) : String :=
  s!"[{" ".intercalate (a.frames.map showFrame)}] caps={a.caps} escs={a.escs}"

def showOpt : Option AbsState → String
  | none => "unreached"
  | some a => showAbs a

def showInstr (i : Option Instr) : String :=
  match i with
  | none => "end"
  | some i => (reprStr i).replace "MJ.Bal.Instr." ""

/-- untrusted: where and why the certificate is not accepted -/
def diagnose (code : Code) (cert : Cert) : String :=
  let badEntry := (entries code).find? (fun e => look cert e ≠ some AbsState.init)
  match badEntry with
  | some e => s!"entry {e} not certified with the initial state"
  | none =>
    match (List.range cert.size).find? (fun pc => !checkPc code cert pc) with
    | none => "accepted"
    | some pc =>
      match look cert pc with
      | none => s!"pc={pc}"
      | some A =>
        let i := code[pc]?
        let what :=
          match i with
          | none => "stream ends with unbalanced state"
          | some ins =>
            if !wsFrames code cert A.frames A.caps A.escs then "recursive loop frame not on its entry state"
            else match edges cert pc ins A with
              | none => "instruction refused (pops what is not there / wrong kind / unbalanced exit)"
              | some es =>
                match es.find? (fun (p, B) => look cert p ≠ some B) with
                | some (p, B) => s!"edge to pc={p} carries {showAbs B} but pc={p} is certified {showOpt (look cert p)}"
                | none => "?"
        s!"pc={pc} {showInstr i} state {showAbs A}: {what}"

def handle (line : String) : String :=
  match line.splitOn "\t" with
  | ["D", case, stream, _cls, toks] =>
    match parseCode toks with
    | none => s!"{case}\t{stream}\tbad-stream\tunknown token"
    | some code =>
      let cert := inferCert code
      if checkCert code cert then
        let reached := (List.range cert.size).filter (fun pc => (look cert pc).isSome)
        let maxd := reached.foldl (fun m pc => match look cert pc with
          | some a => Nat.max m (a.frames.length + a.caps + a.escs) | none => m) 0
        s!"{case}\t{stream}\tok\tn={code.size} reached={reached.length} entries={(entries code).length} maxdepth={maxd}"
      else s!"{case}\t{stream}\treject\t{diagnose code cert}"
  | _ => s!"?\t?\tbad-line\t{line.take 40}"

partial def loop (h : IO.FS.Stream) (out : IO.FS.Stream) : IO Unit := do
  let line ← h.getLine
  if line.isEmpty then return ()
  out.putStrLn (handle (line.dropEndWhile (· == '\n')).toString)
  loop h out

def main : IO Unit := do
  loop (← IO.getStdin) (← IO.getStdout)
