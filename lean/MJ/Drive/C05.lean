import MJ.Model.Bal
import MJ.Model.BalGen
import MJ.Model.Ops
import MJ.Model.OpsBal
import MJ.Model.BalPatch
/-! Line driver for C05: `D <TAB> case <TAB> stream <TAB> class <TAB> tok tok …` →
`case <TAB> stream <TAB> ok <TAB> n=<instructions> loops=<k> …` or
`case <TAB> stream <TAB> reject <TAB> <diagnosis>`.  The verdict is the VERIFIED `checkCert` run on
the certificate proposed by the untrusted `inferCert`; the diagnosis is untrusted. -/
open MJ MJ.Bal MJ.BalGen

def natAfter (s : String) (n : Nat) : Option Nat := (s.drop n).toString.toNat?

def parseTok (s : String) : Option Instr :=
  if s = "o" then some .other
  else if s = "pw" then some .pushWith
  else if s = "pf" then some .popFrame
  else if s = "plf" then some .popLoopFrame
  else if s = "dn" then some .pushDidNotIterate
  else if s = "bc" then some .beginCapture
  else if s = "ec" then some .endCapture
  else if s = "pa" then some .pushAutoEscape
  else if s = "qa" then some .popAutoEscape
  else if s = "fr" then some .fastRecurse
  else if s = "cf" then some .callFunction
  else if s = "ret" then some .ret
  else if s.startsWith "pl" then (natAfter s 2).map (fun f => .pushLoop (f % 2 == 1) ((f / 2) % 2 == 1))
  else if s.startsWith "it" then (natAfter s 2).map .iterate
  else if s.startsWith "bm" then (natAfter s 2).map .buildMacro
  else if s.startsWith "jfp" then (natAfter s 3).map .jumpIfFalseOrPop
  else if s.startsWith "jtp" then (natAfter s 3).map .jumpIfTrueOrPop
  else if s.startsWith "jf" then (natAfter s 2).map .jumpIfFalse
  else if s.startsWith "j" then (natAfter s 1).map .jump
  else none

def parseCode (s : String) : Option Code :=
  let toks := (s.splitOn " ").filter (· ≠ "")
  (toks.mapM parseTok).map List.toArray

def showFrame : FrameKind → String
  | .withF => "W"
  | .loopF id v r => s!"L{id}{if v then "v" else ""}{if r then "r" else ""}"

def showAbs (a : AbsState) : String :=
  s!"[{" ".intercalate (a.frames.map showFrame)}] caps={a.caps} escs={a.escs}"

def showOpt : Option AbsState → String
  | none => "unreached"
  | some a => showAbs a

def showInstr (i : Option Instr) : String :=
  match i with
  | none => "end"
  | some i => (reprStr i).replace "MJ.Bal.Instr." ""

/-- untrusted: where and why the certificate is not accepted -/
def diagnose (code : Code) (cert : Cert) : String :=
  let badEntry := (entries code).find? (fun e => look cert e ≠ some AbsState.init)
  match badEntry with
  | some e => s!"entry {e} not certified with the initial state"
  | none =>
    match (List.range cert.size).find? (fun pc => !checkPc code cert pc) with
    | none => "accepted"
    | some pc =>
      match look cert pc with
      | none => s!"pc={pc}"
      | some A =>
        let i := code[pc]?
        let what :=
          match i with
          | none => "stream ends with unbalanced state"
          | some ins =>
            if !wsFrames code cert A.frames A.caps A.escs then "recursive loop frame not on its entry state"
            else match edges cert pc ins A with
              | none => "instruction refused (pops what is not there / wrong kind / unbalanced exit)"
              | some es =>
                match es.find? (fun (p, B) => look cert p ≠ some B) with
                | some (p, B) => s!"edge to pc={p} carries {showAbs B} but pc={p} is certified {showOpt (look cert p)}"
                | none => "?"
        s!"pc={pc} {showInstr i} state {showAbs A}: {what}"

/-! ## shape descriptor → statement AST of the model generator (independent of the real stream) -/

def os (n : Nat) : Stmt := .simple (List.replicate n .other)

/-- a sentinel piece `[dX]{{ h }}{{ w|default('-') }}{{ g }}{{ ma|default('') }}{{ probe() }}` -/
def piece : Stmt := .simple (List.replicate 13 .other ++ [.callFunction, .other])

def seqOf : List Stmt → Stmt
  | [] => .skip
  | [s] => s
  | s :: rest => .seq s (seqOf rest)

def capturedPending : Stmt :=
  .simple [.other, .other, .callFunction, .other, .other, .other, .other, .other]

def leafStmts (leaf : String) : Option (List Stmt) :=
  if leaf = "T" ∨ leaf = "empty" then some []
  else if leaf = "brk" then some [.breakS]
  else if leaf = "cont" then some [.continueS]
  else if leaf = "rec" then some [.simple [.other, .fastRecurse]]
  else if leaf = "recf" then some [.simple [.other, .callFunction, .other, .other]]
  -- `{{ ('p' ~ loop(x) ~ 'q')|safe }}`
  else if leaf = "recp" then some [capturedPending]
  -- `{{ pj('p', ['l', loop(x)]) }}`
  else if leaf = "recl" then some [.simple [.other, .other, .other, .callFunction, .other, .callFunction, .other]]
  -- `{% if loop.depth0 % 2 == … %}` captured form `{% else %}{{ loop(x) }}{% endif %}`
  else if leaf = "recm" ∨ leaf = "recn" then some [.ifElse 6 capturedPending (.simple [.other, .fastRecurse])]
  else if leaf = "fail" then some [.simple [.callFunction, .other]]
  else if leaf = "failk" then some [.simple [.other, .other, .other, .callFunction, .other]]
  else if leaf = "finc" then some [.simple [.other, .other]]
  else if leaf = "bi" then
    -- builtins (filters / tests are `other`), `debug()`, a set block, `issafe(sc)`
    some [.simple (List.replicate 3 .other ++ [.callFunction] ++ List.replicate 3 .other), .capture (os 1) 1,
          .simple [.other, .callFunction, .other]]
  else none

/-- statements of the chain from position `i` on, and the block streams defined below it -/
def buildShape (leaf : String) : List String → Nat → Option (List Stmt × List (String × Stmt))
  | [], _ => (leafStmts leaf).map (fun l => (l, []))
  | kind :: rest, d =>
    match buildShape leaf rest (d + 1) with
    | none => none
    | some (child, blocks) =>
      let bare := leaf = "empty" ∧ rest = []
      let inElse := kind = "forEl" ∨ kind = "ifEl"
      let isSeq := kind.startsWith "seq"
      let pc (absent : Bool) : List Stmt := if absent then [] else [piece]
      let a := pc (bare ∧ ¬ inElse ∧ ¬ isSeq)
      let b := pc (bare ∧ ¬ inElse)
      let e := pc (bare ∧ inElse)
      let f := pc (bare ∧ inElse)
      let body := seqOf (a ++ child ++ b)
      let elseL := e ++ child ++ f
      -- closure probe: `{% set cv = 'o' %}{% macro cmD() %}{{ cv }}{% endmacro %}` in front of the
      -- construct, `{% set cv = 'nD' %}{{ cmD() }}` behind it
      let decl : List Stmt := [os 2, .macroS 0 (os 2) 2 1]
      let check : List Stmt := [os 2, .simple [.callFunction, .other]]
      let mk (l : List Stmt) := some (decl ++ l ++ check ++ [piece], blocks)
      if kind = "for" then mk [.forS true false 1 1 body]
      else if kind = "fore" then mk [.forElse true false 1 1 body piece]
      else if kind = "forEl" then
        mk [if elseL.isEmpty then .forS true false 1 1 piece else .forElse true false 1 1 piece (seqOf elseL)]
      else if kind = "forf" then
        mk [os 2, .forS false false 0 2 (.ifElse 3 (os 3) (os 1)), os 1, .forS true false 0 1 body]
      else if kind = "forr" then mk [.forS true true 1 1 body]
      else if kind = "forre" then mk [.forElse true true 1 1 body piece]
      else if kind = "with" then mk [.withS 2 body]
      else if kind = "set" then mk [.capture body 1, os 2]
      else if kind = "filt" then mk [.capture body 2]
      else if kind = "ae1" ∨ kind = "ae0" then mk [.autoEscape 1 body]
      else if kind = "ifc" then mk [.ifS 1 body]
      else if kind = "ifk" then mk [.ifS 3 body]
      else if kind = "ifa" then
        -- `c and x is defined or 3 < k < 9`, then `{{ 'y' if c else 'n' }}`
        mk [.flat [.other, .jumpIfFalseOrPop 4, .other, .other, .jumpIfTrueOrPop 14, .other, .other, .other,
                   .jumpIfFalseOrPop 12, .other, .other, .jump 14, .other, .other],
            .ifS 0 body,
            .flat [.other, .jumpIfFalse 4, .other, .jump 5, .other], os 1]
      else if kind = "ifEl" then mk [if elseL.isEmpty then .ifS 1 piece else .ifElse 1 piece (seqOf elseL)]
      else if kind = "mac" then mk [.macroS 0 body 2 1, .simple [.callFunction, .other]]
      else if kind = "call" then
        mk [.macroS 0 (.simple [.other, .callFunction, .other, .other]) 2 1, os 1, .macroS 0 body 2 1,
            .simple [.callFunction, .other]]
      else if kind = "blk" then some (decl ++ [os 1] ++ check ++ [piece], (s!"b{d}", body) :: blocks)
      else if kind = "seqW" then mk ([.withS 2 piece] ++ child)
      else if kind = "seqS" then mk ([.capture piece 1, os 2] ++ child)
      else if kind = "seqA" then mk ([.autoEscape 1 piece] ++ child)
      else if kind = "seqL" then mk ([.forS true false 1 1 piece] ++ child)
      else if kind = "seqI" then mk ([os 4] ++ child)
      else if kind = "seqM" then mk ([.importS 1 4, .simple [.other, .callFunction, .other]] ++ child)
      else if kind = "seqN" then mk ([os 4] ++ child)
      else if kind = "seqH" then mk ([os 2] ++ child)
      else if kind = "seqP" then mk ([.importS 1 1, os 4] ++ child)
      else if kind = "tmac" then
        -- `macro nD(ma, mb='q')`: the default of `mb` is a jump over `DiscardTop; LoadConst`
        mk [.macroS 0 (.seq (.flat [.other, .other, .jumpIfFalse 5, .other, .other]) (.seq (os 2) body)) 2 1,
            .simple [.other, .other, .callFunction, .other]]
      else if kind = "tcal" then
        mk [.macroS 0 (.simple [.other, .other, .callFunction, .other, .other]) 2 1, os 1, .macroS 0 body 2 1,
            .simple [.callFunction, .other]]
      else if kind = "tblk" then
        some (decl ++ [.ifS 1 (os 1), .simple [.other, .callFunction, .other]] ++ check ++ [piece],
          (s!"t{d}", body) :: blocks)
      else none

/-- the statement the model generator compiles for a stream of a shape -/
def shapeStream (case stream : String) : Option Stmt :=
  let parts := case.splitOn ">"
  match parts.reverse with
  | [] => none
  | leaf :: revKinds =>
    match buildShape leaf revKinds.reverse 1 with
    | none => none
    | some (top, blocks) =>
      if stream = "main" then some (seqOf ([os 2, piece] ++ top ++ [piece]))
      else if stream.startsWith "block:" then
        (blocks.find? (fun x => x.1 = (stream.drop 6).toString)).map (·.2)
      else none

/-- model generator vs real stream, modulo `other` instructions -/
def genVerdict (case stream : String) (real : Code) : String :=
  if case.startsWith "file:" ∨ case.startsWith "extra:" ∨ case.startsWith "src:" then "gen=na"
  else
    match shapeStream case stream with
    | none => "gen=unknown-shape"
    | some st =>
      let P := compileTemplate st
      let model := P.map (·.1)
      -- the certificate the model generator emits, checked by the verified checker (what
      -- `compile_has_cert` proves for every statement)
      let certOk := checkCert (codeOf P) (certOf P AbsState.init)
      -- the generator as the Rust is written (instructions appended, jump targets written into them
      -- afterwards through `pending_block`); `genTemplate_eq` proves it equal to `compileTemplate`
      let patched := BalPatch.genTemplate st
      if !(BalGen.ok false st) then "gen=not-in-fragment"
      else if patched != model then "gen=BACKPATCH-DIFFERS"
      else if skeleton model != skeleton real.toList then "gen=MISMATCH"
      else if !certOk then "gen=CERT-REJECTED"
      else if model == real.toList then "gen=exact"
      else "gen=match"

/-! ## operand stack: the machine of `MJ/Model/Ops.lean` run along the heights observed on the engine -/

def parseOpTok (s : String) : Option Ops.Instr :=
  if s = "dy" then some .dyn
  else if s = "cd" then some .callDyn
  else if s = "pw" then some .pushWith
  else if s = "pf" then some .popFrame
  else if s = "plf" then some .popLoopFrame
  else if s = "dn" then some .pushDidNotIterate
  else if s = "bc" then some .beginCapture
  else if s = "ec" then some .endCapture
  else if s = "pa" then some .pushAutoEscape
  else if s = "qa" then some .popAutoEscape
  else if s = "fr" then some .fastRecurse
  else if s = "ret" then some .ret
  else if s = "xl" then some .exportLocals
  else if s.startsWith "e" then
    match ((s.drop 1).toString.splitOn "_").map String.toNat? with
    | [some a, some b] => some (.eff a b)
    | _ => none
  else if s.startsWith "ul" then (natAfter s 2).map .unpack
  else if s.startsWith "c" then (natAfter s 1).map .call
  else if s.startsWith "pl" then (natAfter s 2).map (fun f => .pushLoop (f % 2 == 1) ((f / 2) % 2 == 1))
  else if s.startsWith "it" then (natAfter s 2).map .iterate
  else if s.startsWith "bm" then (natAfter s 2).map .buildMacro
  else if s.startsWith "jfp" then (natAfter s 3).map .jumpIfFalseOrPop
  else if s.startsWith "jtp" then (natAfter s 3).map .jumpIfTrueOrPop
  else if s.startsWith "jf" then (natAfter s 2).map .jumpIfFalse
  else if s.startsWith "j" then (natAfter s 1).map .jump
  else none

def parseOpCode (s : String) : Option Ops.Code :=
  let toks := (s.splitOn " ").filter (· ≠ "")
  (toks.mapM parseOpTok).map List.toArray

def parseTrace (s : String) : Option (List (Nat × Nat)) :=
  ((s.splitOn " ").filter (· ≠ "")).mapM (fun ev =>
    match (ev.splitOn ":").map String.toNat? with
    | [some pc, some h] => some (pc, h)
    | _ => none)

def showOpInstr (code : Ops.Code) (pc : Nat) : String :=
  match code[pc]? with
  | none => "end"
  | some i => (reprStr i).replace "MJ.Ops.Instr." ""

/-- the site of a deviation: what kind of instruction the engine and the machine disagree on -/
def deviationSite (code : Ops.Code) (s : Ops.State) : String :=
  match code[s.pc]? with
  | some .popLoopFrame =>
    match s.frames with
    | .loopF l :: _ => if l.ret.isSome then "recursion-return" else "loop-end"
    | _ => "loop-end"
  | some (.pushLoop _ _) => "push-loop"
  | some (.call _) => "call"
  | some .callDyn => "call"
  | some .fastRecurse => "recursion-call"
  | some (.eff _ _) => "effect"
  | some .dyn => "effect"
  | some (.unpack _) => "effect"
  | _ => "control"

def opsVerdict (code : Ops.Code) (traces : List (List (Nat × Nat))) : String :=
  let rec go (ts : List (List (Nat × Nat))) (n steps recs : Nat) : String :=
    match ts with
    | [] => s!"ops-ok\ttraces={n} steps={steps} recursions={recs}"
    | t :: rest =>
      match Ops.replay Ops.condReal code t with
      | .ok st r => go rest (n + 1) (steps + st) (recs + r)
      | .deviates i s pc h =>
        s!"ops-deviates\t{deviationSite code s}\ttrace {n} event {i}: at pc={s.pc} {showOpInstr code s.pc} height {s.h} bases {s.bases} the engine goes to pc={pc} height {h}; the machine allows {(Ops.step Ops.condReal code s (Ops.guessK code s h)).map (fun t => (t.pc, t.h))}"
      | .notRestored i what g f pc =>
        s!"ops-not-restored\t{what}\ttrace {n} event {i}: the {what} closed at pc={pc} {showOpInstr code pc} was opened at operand height {g} and is closed at {f}"
      | .below i b f pc =>
        s!"ops-below\trecursion-return\ttrace {n} event {i}: the recursion level ending at pc={pc} recorded base {b} but the operand stack is down to {f}"
  go traces 0 0 0

def handle (line : String) : String :=
  match line.splitOn "\t" with
  | ["O", case, stream, _cls, toks, traces] =>
    match parseOpCode toks, ((traces.splitOn "|").filter (· ≠ "")).mapM parseTrace with
    | some code, some ts =>
      -- the hypothesis of `certified_recursion_bases_paired`: the projection of this very stream
      -- has a certificate the verified checker accepts
      if Bal.validate (OpsBal.projCode code) then s!"{case}\t{stream}\t{opsVerdict code ts}"
      else s!"{case}\t{stream}\tops-uncertified\tprojection\tthe projection of the stream to the balance alphabet has no accepted certificate"
    | _, _ => s!"{case}\t{stream}\tops-bad-line\tunknown token"
  | ["D", case, stream, _cls, toks] =>
    match parseCode toks with
    | none => s!"{case}\t{stream}\tbad-stream\tunknown token"
    | some code =>
      let cert := inferCert code
      let gen := genVerdict case stream code
      if checkCert code cert then
        let reached := (List.range cert.size).filter (fun pc => (look cert pc).isSome)
        let maxd := reached.foldl (fun m pc => match look cert pc with
          | some a => Nat.max m (a.frames.length + a.caps + a.escs) | none => m) 0
        s!"{case}\t{stream}\tok\tn={code.size} reached={reached.length} entries={(entries code).length} maxdepth={maxd} {gen}"
      else s!"{case}\t{stream}\treject\t{diagnose code cert} {gen}"
  | _ => s!"?\t?\tbad-line\t{line.take 40}"

partial def loop (h : IO.FS.Stream) (out : IO.FS.Stream) : IO Unit := do
  let line ← h.getLine
  if line.isEmpty then return ()
  out.putStrLn (handle (line.dropEndWhile (· == '\n')).toString)
  loop h out

def main : IO Unit := do
  loop (← IO.getStdin) (← IO.getStdout)
