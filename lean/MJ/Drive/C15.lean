import MJ.Model.Store
/-! Line driver for C15: a history of environment operations (see `harness/src/bin/c15.rs` for the
token syntax) → per step: the operation's result and, for every live environment, the model's
answer to `get_template` for every name, the `templates()` listing and the registry contents. -/
open MJ.Store

namespace C15Drive

/-- source alphabet of the harness: sources 8 and 9 do not compile -/
def compiles (s : Source) : Bool := s != 8 && s != 9

/-- loader tables of the harness (index 0 is never installed) -/
def loaderTable (l : Nat) (n : Name) : LoadRes :=
  match l, n with
  | 1, 0 => .src 0 | 1, 1 => .src 6 | 1, 2 => .src 3 | 1, 3 => .src 8
  | 2, 0 => .src 1 | 2, 1 => .src 5 | 2, 2 => .err | 2, 3 => .src 2
  | 3, 0 => .src 4 | 3, 1 => .src 14 | 3, 2 => .src 13 | 3, 3 => .missing
  | 4, 0 => .src 7 | 4, 1 => .src 10 | 4, 2 => .src 12 | 4, 3 => .src 6
  | 5, 0 => .missing | 5, 1 => .src 15 | 5, 2 => .src 9 | 5, 3 => .src 11
  | _, _ => .missing

def builtin : Nat := 9

def initWorld : World := World.init [(1, builtin)] [(1, builtin)] [(1, builtin)]

def showRes : Res → String
  | .done => "ok"
  | .compileError => "SE"
  | .found s => s!"s{s}"
  | .notFound => "NF"
  | .loaderError => "E:InvalidOperation"

def nameStr : Nat → String
  | 0 => "a" | 1 => "b" | 2 => "c" | _ => "d"

def insertSorted (p : Nat × Nat) : List (Nat × Nat) → List (Nat × Nat)
  | [] => [p]
  | q :: t => if p.1 < q.1 || (p.1 == q.1 && p.2 ≤ q.2) then p :: q :: t else q :: insertSorted p t

def sortPairs (l : List (Nat × Nat)) : List (Nat × Nat) := l.foldr insertSorted []

def showReg (r : Option Registry) (k : Nat) : String :=
  match r with
  | none => "?"
  | some r =>
    match find r k with
    | none => "-"
    | some v => if v == builtin then "B" else toString v

def showEnv (w : World) (i : Nat) : String :=
  match w.stores[i]? with
  | none => "?"
  | some s =>
    let gets := (List.range 4).map (fun n => s!"{nameStr n}={showRes (s.get compiles n).2}")
    let listing := (sortPairs s.iter).map (fun p => s!"{p.1}:{p.2}")
    let f := w.filters.view i
    let t := w.tests.view i
    let g := w.globals.view i
    let regs := [showReg f 0, showReg f 1, showReg t 0, showReg t 1, showReg g 0, showReg g 1]
    s!"{",".intercalate gets};L={",".intercalate listing};R={",".intercalate regs}"

def showEnvs (w : World) : String :=
  "|".intercalate ((List.range w.stores.length).map (showEnv w))

def parseReg (s : String) : Option Nat :=
  if s = "B" then some builtin else s.toNat?

def regKind (c : String) : Option RegKind :=
  if c = "f" then some .filter else if c = "t" then some .test else if c = "g" then some .global else none

/-- replay the loader lookups the engine made (names in `log`), flagging a lookup of a name the
    model already holds -/
def replayLog (w : World) (e : Nat) : List Nat → World × Option Nat
  | [] => (w, none)
  | m :: ms =>
    match w.stores[e]? with
    | none => (w, none)
    | some s =>
      let present := (find s.borrowed m).isSome || (find s.owned m).isSome
      let w' := (w.step compiles (.store e (.get m))).1
      let (w'', bad) := replayLog w' e ms
      (w'', if present then some m else bad)

/-- one token → (new world, result string) -/
def stepTok (w : World) (tok : String) : World × String :=
  let f := tok.splitOn ":"
  let num (i : Nat) : Option Nat := (f[i]?).bind String.toNat?
  let live := w.stores.length
  let guard (e : Nat) (k : Unit → World × String) : World × String :=
    if e < live then k () else (w, "bad-env")
  match f.head?, num 1 with
  | some "ab", some e => guard e fun _ =>
    match num 2, num 3 with
    | some n, some s => let r := w.step compiles (.store e (.addBorrowed n s)); (r.1, showRes r.2)
    | _, _ => (w, "bad-case")
  | some "ao", some e => guard e fun _ =>
    match num 2, num 3 with
    | some n, some s => let r := w.step compiles (.store e (.addOwned n s)); (r.1, showRes r.2)
    | _, _ => (w, "bad-case")
  | some "rm", some e => guard e fun _ =>
    match num 2 with
    | some n => ((w.step compiles (.store e (.remove n))).1, "ok")
    | none => (w, "bad-case")
  | some "cl", some e => guard e fun _ => ((w.step compiles (.store e .clear)).1, "ok")
  | some "sl", some e => guard e fun _ =>
    match num 2 with
    | some l => ((w.step compiles (.store e (.setLoader (loaderTable l)))).1, "ok")
    | none => (w, "bad-case")
  | some "cn", some e => guard e fun _ =>
    if live ≥ 3 then (w, "full") else ((w.step compiles (.clone e)).1, "ok")
  | some "r", some e => guard e fun _ =>
    match num 2 with
    | some n =>
      let log := match f[4]? with
        | none => []
        | some "-" => []
        | some l => (l.splitOn ",").filterMap String.toNat?
      let (w', bad) := replayLog w e log
      let r := w'.step compiles (.store e (.get n))
      match bad with
      | some m => (r.1, s!"!loader-consulted-for-held-template:{m}:{showRes r.2}")
      | none => (r.1, showRes r.2)
    | none => (w, "bad-case")
  | some "jk", some e => guard e fun _ => (w, "jk")  -- failing compiles/renders do not touch the store
  | some "th", some e => guard e fun _ =>
    -- the phase ends with a lookup of every name
    ((List.range 4).foldl (fun w n => (w.step compiles (.store e (.get n))).1) w, "ok")
  | some op, some e => guard e fun _ =>
    match op.toList with
    | ['a', k] =>
      match regKind (String.singleton k), num 2, (f[3]?).bind parseReg with
      | some k, some name, some v => ((w.step compiles (.regAdd k e name v)).1, "ok")
      | _, _, _ => (w, "bad-case")
    | ['r', k] =>
      match regKind (String.singleton k), num 2 with
      | some k, some name => ((w.step compiles (.regRemove k e name)).1, "ok")
      | _, _ => (w, "bad-case")
    | _ => (w, "bad-case")
  | _, _ => (w, "bad-case")

def runCase (case : String) : String :=
  let toks := (case.splitOn " ").filter (· ≠ "")
  let (_, outs) := toks.foldl (fun (acc : World × List String) tok =>
    let (w', r) := stepTok acc.1 tok
    (w', s!"{r}|{showEnvs w'}" :: acc.2)) (initWorld, [])
  " / ".intercalate outs.reverse

/-! foreign-value stream `fx:<x>:<site>:<consumer>:<via>`: the model predicts, for each of the 14
variants of the harness, whether the consuming render accepts the exported value.  Threads: 0 =
main, 1 = exporting thread, 2.. = consumer threads; every render creates (at least) one state. -/

/-- exporter 6 exports a `loop` object (not bound to a state); all others export macros (directly,
    in a namespace, as `caller`, or inside a module object) -/
def exportBound (x : Nat) : Bool := x != 6

def consumerCalls (c : String) : Bool := c != "info"

def preRenders (s : IdSys) (t k : Nat) : IdSys := s.run (List.replicate k t)

/-- create the consuming state on thread `t` after `k` other renders there; returns the class -/
def consume (s : IdSys) (t k : Nat) (exportId : Nat) (bound calls : Bool) : IdSys × String :=
  let s := preRenders s t k
  let id := s.next
  let s := s.newState t
  (s, if bound && calls then (if macroAccepted id exportId then "accepted" else "rejected") else "free")

def runForeign (case : String) : String :=
  let f := case.splitOn ":"
  let x := ((f[1]?).bind String.toNat?).getD 0
  let site := (f[2]?).getD "M"
  let cons := (f[3]?).getD "same"
  let bound := exportBound x
  let calls := consumerCalls cons
  -- the main thread has rendered before (any number; 5 here)
  let s := preRenders IdSys.init 0 5
  let (s, exportId, onThread) :=
    match site.toNat? with
    | none => let id := s.next; (s.newState 0, id, false)
    | some j => let s := preRenders s 1 j; let id := s.next; (s.newState 1, id, true)
  let kk := (site.toNat?).getD 0
  -- the exporting thread renders once more right after the export
  let (s, sameThread) := if onThread then consume s 1 0 exportId bound calls else (s, "-")
  let (s, vMain) := consume s 0 0 exportId bound calls
  let (s, news) := (List.range 4).foldl (fun (acc : IdSys × List String) k =>
    let (s', r) := consume acc.1 (2 + k) k exportId bound calls
    (s', acc.2 ++ [r])) (s, [])
  let (s, conc0) := (List.range 4).foldl (fun (acc : IdSys × List String) i =>
    let (s', r) := consume acc.1 (10 + i) 0 exportId bound calls
    (s', acc.2 ++ [r])) (s, [])
  let (_, concK) := (List.range 4).foldl (fun (acc : IdSys × List String) i =>
    let (s', r) := consume acc.1 (20 + i) kk exportId bound calls
    (s', acc.2 ++ [r])) (s, [])
  " / ".intercalate ([vMain] ++ news ++ [sameThread] ++ conc0 ++ concK)

end C15Drive

partial def loop (h : IO.FS.Stream) (out : IO.FS.Stream) : IO Unit := do
  let line ← h.getLine
  if line.isEmpty then return ()
  let line := (line.dropEndWhile (· == '\n')).toString
  let case := (line.splitOn "\t").head!
  if case.startsWith "fx:" then
    out.putStrLn s!"{case}\t{C15Drive.runForeign case}"
  else
    out.putStrLn s!"{case}\t{C15Drive.runCase case}"
  loop h out

def main : IO Unit := do
  loop (← IO.getStdin) (← IO.getStdout)
