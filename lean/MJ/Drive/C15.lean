import MJ.Model.Store
import MJ.Model.MemoConc
/-! Line driver for C15: a history of environment operations (see `harness/src/bin/c15.rs` for the
token syntax) → per step: the operation's result and, for every live environment, the model's
answer to `get_template` for every name (source and load-time configuration of the stored
compilation), the `templates()` listing, the registry contents and both configurations. -/
open MJ.Store

namespace C15Drive

/-- the `compiles` parameter of the model, measured by the harness on the real compiler
    (`#cmp <syntax> <source> <0|1>` header lines): does the source compile under that syntax? -/
abbrev CmpTable := List ((Nat × Nat) × Bool)

def compilesWith (t : CmpTable) (cfg : LtCfg) (s : Source) : Bool :=
  match t.find? (fun p => p.1 == (cfg.syn, s)) with
  | some p => p.2
  | none => true

/-- loader tables of the harness (index 0 is never installed); table 6 answers by phase -/
def loaderTable (l : Nat) (phase : Nat) (n : Name) : LoadRes :=
  let row := if l == 6 then (if phase == 0 then 6 else 7) else l
  match row, n with
  | 1, 0 => .src 0 | 1, 1 => .src 6 | 1, 2 => .src 3 | 1, 3 => .src 8 | 1, 4 => .src 2
  | 2, 0 => .src 1 | 2, 1 => .src 5 | 2, 2 => .err | 2, 3 => .src 2 | 2, 4 => .missing
  | 3, 0 => .src 4 | 3, 1 => .src 14 | 3, 2 => .src 13 | 3, 3 => .missing | 3, 4 => .src 16
  | 4, 0 => .src 7 | 4, 1 => .src 10 | 4, 2 => .src 12 | 4, 3 => .src 6 | 4, 4 => .src 17
  | 5, 0 => .panics | 5, 1 => .src 15 | 5, 2 => .src 9 | 5, 3 => .src 11 | 5, 4 => .src 0
  | 6, 0 => .err | 6, 1 => .src 9 | 6, 2 => .missing | 6, 3 => .err | 6, 4 => .src 8
  | 7, 0 => .src 2 | 7, 1 => .src 6 | 7, 2 => .src 16 | 7, 3 => .src 17 | 7, 4 => .src 1
  | _, _ => .missing

def builtin : Nat := 9

/-- the driver's state: the model world plus what identifies the installed loaders (the model holds
    loaders as functions) and the phase of the outside world -/
structure DState where
  w : World
  loaderIds : List Nat
  phase : Nat
  cmp : CmpTable
  /-- the thread the history runs on -/
  thread : ThreadState
  /-- has an operation been executed already? -/
  started : Bool := false

def initWorld : World := World.init [(1, builtin)] [(1, builtin)] [(1, builtin)]

def b2n (b : Bool) : Nat := if b then 1 else 0

def ltCode (c : LtCfg) : String := s!"{b2n c.trim}{b2n c.lstrip}{b2n c.ktn}{c.syn}{c.autoEscape}"

def rtCode (r : RtCfg) : String :=
  s!"{r.undefined}{r.formatter}{r.debug}{r.recursionLimit}{r.fuel}{r.pathJoin}{r.unknownMethod}"

def showRes : Res → String
  | .done => "ok"
  | .compileError => "SE"
  | .found t => s!"s{t.1}@{ltCode t.2}"
  | .notFound => "NF"
  | .loaderError => "E:InvalidOperation"
  | .panicked => "panic"

def insertSorted (p : Nat × String) : List (Nat × String) → List (Nat × String)
  | [] => [p]
  | q :: t => if p.1 < q.1 || (p.1 == q.1 && p.2 ≤ q.2) then p :: q :: t else q :: insertSorted p t

def sortPairs (l : List (Nat × String)) : List (Nat × String) := l.foldr insertSorted []

def showReg (r : Option Registry) (k : Nat) : String :=
  match r with
  | none => "?"
  | some r =>
    match find r k with
    | none => "-"
    | some v => if v == builtin then "B" else toString v

/-- names 0..4 are the name alphabet, 5 and 6 the look-up-only names ("A", " a") -/
def showEnv (d : DState) (i : Nat) : String :=
  let w := d.w
  match w.stores[i]? with
  | none => "?"
  | some s =>
    let gets := (List.range 7).map (fun n => s!"{n}={showRes (s.get (compilesWith d.cmp) n).2}")
    let listing := (sortPairs (s.iter.map (fun p => (p.1, s!"{p.2.1}@{ltCode p.2.2}")))).map (fun p => s!"{p.1}:{p.2}")
    let f := w.filters.view i
    let t := w.tests.view i
    let g := w.globals.view i
    let regs := [showReg f 0, showReg f 1, showReg t 0, showReg t 1, showReg g 0, showReg g 1]
    let rt := (w.rts[i]?).getD RtCfg.default
    s!"{",".intercalate gets};L={",".intercalate listing};R={",".intercalate regs};C={ltCode s.cfg}/{rtCode rt}"

def showEnvs (d : DState) : String :=
  "|".intercalate ((List.range d.w.stores.length).map (showEnv d))

def parseReg (s : String) : Option Nat :=
  if s = "B" then some builtin else s.toNat?

def regKind (c : String) : Option RegKind :=
  if c = "f" then some .filter else if c = "t" then some .test else if c = "g" then some .global else none

/-- replay the loader lookups the engine made (names in `log`), flagging a lookup of a name the
    model already holds -/
def replayLog (cmp : CmpTable) (w : World) (e : Nat) : List Nat → World × Option Nat
  | [] => (w, none)
  | m :: ms =>
    match w.stores[e]? with
    | none => (w, none)
    | some s =>
      let present := (find s.borrowed m).isSome || (find s.owned m).isSome
      let w' := (w.step (compilesWith cmp) (.store e (.get m))).1
      let (w'', bad) := replayLog cmp w' e ms
      (w'', if present then some m else bad)

def setLtField (c : LtCfg) (f v : Nat) : LtCfg :=
  match f with
  | 0 => { c with trim := v == 1 }
  | 1 => { c with lstrip := v == 1 }
  | 2 => { c with ktn := v == 1 }
  | 3 => { c with syn := v }
  | _ => { c with autoEscape := v }

def setRtField (r : RtCfg) (f v : Nat) : RtCfg :=
  match f with
  | 0 => { r with undefined := v }
  | 1 => { r with formatter := v }
  | 2 => { r with debug := v }
  | 3 => { r with recursionLimit := v }
  | 4 => { r with fuel := v }
  | 5 => { r with pathJoin := v }
  | _ => { r with unknownMethod := v }

def parseLog (f : List String) (i : Nat) : List Nat :=
  match f[i]? with
  | none => []
  | some "-" => []
  | some l => (l.splitOn ",").filterMap String.toNat?

/-- a lookup of `n` on env `e` after replaying the loader lookups of the engine -/
def lookup (d : DState) (e n : Nat) (log : List Nat) : DState × String :=
  let (w', bad) := replayLog d.cmp d.w e log
  let r := w'.step (compilesWith d.cmp) (.store e (.get n))
  match bad with
  | some m => ({ d with w := r.1 }, s!"!loader-consulted-for-held-template:{m}:{showRes r.2}")
  | none => ({ d with w := r.1 }, showRes r.2)

/-- one token → (new state, result string) -/
def stepTok (d : DState) (tok : String) : DState × String :=
  let w := d.w
  let c := compilesWith d.cmp
  let f := tok.splitOn ":"
  let num (i : Nat) : Option Nat := (f[i]?).bind String.toNat?
  let live := w.stores.length
  let guard (e : Nat) (k : Unit → DState × String) : DState × String :=
    if e < live then k () else (d, "bad-env")
  match f.head?, num 1 with
  | some "fl", some v =>
    -- the outside world changes: every environment whose loader is table 6 now has another function
    let w' := (List.range live).foldl (fun (w : World) e =>
      if (d.loaderIds[e]?).getD 0 == 6 then (w.step c (.store e (.setLoader (loaderTable 6 v)))).1 else w) w
    ({ d with w := w', phase := v }, "ok")
  | some "ab", some e => guard e fun _ =>
    match num 2, num 3 with
    | some n, some s => let r := w.step c (.store e (.addBorrowed n s)); ({ d with w := r.1 }, showRes r.2)
    | _, _ => (d, "bad-case")
  | some "ao", some e => guard e fun _ =>
    match num 2, num 3 with
    | some n, some s => let r := w.step c (.store e (.addOwned n s)); ({ d with w := r.1 }, showRes r.2)
    | _, _ => (d, "bad-case")
  | some "ax", some e => guard e fun _ =>
    -- `add_template_owned` with a borrowed name (1), a borrowed source (2) or both (3): the arm of
    -- `insert_cow` is chosen by `insertArmOf`
    match num 2, num 3, num 4 with
    | some n, some s, some m =>
      let op := if insertArmOf (m == 1 || m == 3) (m == 2 || m == 3) then Op.addBorrowed n s else Op.addOwned n s
      let r := w.step c (.store e op); ({ d with w := r.1 }, showRes r.2)
    | _, _, _ => (d, "bad-case")
  | some "em", some _ =>
    -- the history starts from `Environment::empty()` (only as the first operation)
    if d.started then (d, "late") else ({ d with w := World.initEmpty }, "ok")
  | some "ns", some e => guard e fun _ =>
    -- rendering a source from a string under a name: only the lookups of its includes reach the store
    ({ d with w := (replayLog d.cmp d.w e (parseLog f 5)).1 }, "ns")
  | some "rm", some e => guard e fun _ =>
    match num 2 with
    | some n => ({ d with w := (w.step c (.store e (.remove n))).1 }, "ok")
    | none => (d, "bad-case")
  | some "rx", some e => guard e fun _ =>
    match num 2 with
    | some p => ({ d with w := (w.step c (.store e (.remove (5 + p)))).1 }, "ok")
    | none => (d, "bad-case")
  | some "cl", some e => guard e fun _ => ({ d with w := (w.step c (.store e .clear)).1 }, "ok")
  | some "sl", some e => guard e fun _ =>
    match num 2 with
    | some l => ({ d with w := (w.step c (.store e (.setLoader (loaderTable l d.phase)))).1,
                          loaderIds := d.loaderIds.set e l }, "ok")
    | none => (d, "bad-case")
  | some "lt", some e => guard e fun _ =>
    match w.stores[e]?, num 2, num 3 with
    | some s, some fld, some v => ({ d with w := (w.step c (.store e (.setCfg (setLtField s.cfg fld v)))).1 }, "ok")
    | _, _, _ => (d, "bad-case")
  | some "ru", some e => guard e fun _ =>
    match num 2, num 3 with
    | some fld, some v =>
      let r := (w.rts[e]?).getD RtCfg.default
      ({ d with w := (w.step c (.setRt e (setRtField r fld v))).1 }, "ok")
    | _, _ => (d, "bad-case")
  | some "cn", some e => guard e fun _ =>
    if live ≥ 3 then (d, "full")
    else ({ d with w := (w.step c (.clone e)).1, loaderIds := d.loaderIds ++ [(d.loaderIds[e]?).getD 0] }, "ok")
  | some "r", some e => guard e fun _ =>
    match num 2 with
    | some n => lookup d e n (parseLog f 4)
    | none => (d, "bad-case")
  | some "hd", some e => guard e fun _ =>
    match num 2 with
    | some n => lookup d e n (parseLog f 3)
    | none => (d, "bad-case")
  | some "pn", some e => guard e fun _ =>
    -- an operation that unwinds and is caught: nothing of the environment changes; operations 0, 1, 2
    -- and 13 unwind out of a `Value::from(Serde(..))` conversion (2 and 13 out of a nested one), whose
    -- guards restore the thread's flag
    let body : List ConvEv := match num 2 with
      | some 0 | some 1 => [.park 1, .take, .park 2, .take]
      | some 2 => [.park 1, .take, .enter, .park 1, .take, .park 2, .take]
      | some 13 => [.enter, .park 1, .take, .park 2, .take]
      | _ => []
    let t' := match num 2 with
      | some 0 | some 1 | some 2 | some 13 => panickingConversion true d.thread body
      | _ => d.thread
    ({ d with thread := t' }, "panic")
  | some "jk", some e => guard e fun _ =>
    -- failing compiles/renders do not touch the environment; 8 and 9 are conversions that return but
    -- leak one / two parked values in the thread's handle registry
    let t' := match num 2 with
      | some 8 => (d.thread.run [.enter, .park 1, .leave])
      | some 9 => (d.thread.run [.enter, .park 1, .park 2, .leave])
      | _ => d.thread
    ({ d with thread := t' }, "jk")
  | some "th", some e => guard e fun _ =>
    -- the phase ends with a lookup of every name
    ({ d with w := (List.range 5).foldl (fun w n => (w.step c (.store e (.get n))).1) w }, "ok")
  | some op, some e => guard e fun _ =>
    match op.toList with
    | ['a', k] =>
      match regKind (String.singleton k), num 2, (f[3]?).bind parseReg with
      | some k, some name, some v => ({ d with w := (w.step c (.regAdd k e name v)).1 }, "ok")
      | _, _, _ => (d, "bad-case")
    | ['r', k] =>
      match regKind (String.singleton k), num 2 with
      | some k, some name => ({ d with w := (w.step c (.regRemove k e name)).1 }, "ok")
      | _, _ => (d, "bad-case")
    | _ => (d, "bad-case")
  | _, _ => (d, "bad-case")

def runCase (cmp : CmpTable) (case : String) : String :=
  let toks := (case.splitOn " ").filter (· ≠ "")
  let d0 : DState := { w := initWorld, loaderIds := [0], phase := 0, cmp := cmp, thread := ThreadState.clean }
  let (_, outs) := toks.foldl (fun (acc : DState × List String) tok =>
    let (d', r) := stepTok acc.1 tok
    let d' := { d' with started := true }
    (d', s!"{r}~T{b2n (!emitsData d'.thread)}|{showEnvs d'}" :: acc.2)) (d0, [])
  " / ".intercalate outs.reverse

def parseCmp (line : String) : Option ((Nat × Nat) × Bool) :=
  match line.splitOn " " with
  | ["#cmp", a, b, c] =>
    match a.toNat?, b.toNat?, c.toNat? with
    | some a, some b, some c => some ((a, b), c == 1)
    | _, _, _ => none
  | _ => none

/-! foreign-value stream `fx:<x>:<site>:<consumer>:<via>`: the model predicts, for each of the 14
variants of the harness, whether the consuming render accepts the exported value.  Threads: 0 =
main, 1 = exporting thread, 2.. = consumer threads; every render creates (at least) one state. -/

/-- exporter 6 exports a `loop` object (not bound to a state); all others export macros (directly,
    in a namespace, as `caller`, or inside a module object) -/
def exportBound (x : Nat) : Bool := x != 6

def consumerCalls (c : String) : Bool := c != "info"

def preRenders (s : IdSys) (t k : Nat) : IdSys := s.run (List.replicate k t)

/-- create the consuming state on thread `t` after `k` other renders there; returns the class -/
def consume (s : IdSys) (t k : Nat) (exportId : Nat) (bound calls : Bool) : IdSys × String :=
  let s := preRenders s t k
  let id := s.next
  let s := s.newState t
  (s, if bound && calls then (if macroAccepted id exportId then "accepted" else "rejected") else "free")

def runForeign (case : String) : String :=
  let f := case.splitOn ":"
  let x := ((f[1]?).bind String.toNat?).getD 0
  let site := (f[2]?).getD "M"
  let cons := (f[3]?).getD "same"
  let bound := exportBound x
  let calls := consumerCalls cons
  -- the main thread has rendered before (any number; 5 here)
  let s := preRenders IdSys.init 0 5
  let (s, exportId, onThread) :=
    match site.toNat? with
    | none => let id := s.next; (s.newState 0, id, false)
    | some j => let s := preRenders s 1 j; let id := s.next; (s.newState 1, id, true)
  let kk := (site.toNat?).getD 0
  -- the exporting thread renders once more right after the export
  let (s, sameThread) := if onThread then consume s 1 0 exportId bound calls else (s, "-")
  let (s, vMain) := consume s 0 0 exportId bound calls
  let (s, news) := (List.range 4).foldl (fun (acc : IdSys × List String) k =>
    let (s', r) := consume acc.1 (2 + k) k exportId bound calls
    (s', acc.2 ++ [r])) (s, [])
  let (s, conc0) := (List.range 4).foldl (fun (acc : IdSys × List String) i =>
    let (s', r) := consume acc.1 (10 + i) 0 exportId bound calls
    (s', acc.2 ++ [r])) (s, [])
  let (_, concK) := (List.range 4).foldl (fun (acc : IdSys × List String) i =>
    let (s', r) := consume acc.1 (20 + i) kk exportId bound calls
    (s', acc.2 ++ [r])) (s, [])
  " / ".intercalate ([vMain] ++ news ++ [sameThread] ++ conc0 ++ concK)

/-! ### gated-loader stream: one schedule of `MJ.MemoConc` per case `cc:<others>:<w|n>` -/

open MJ.MemoConc in
def ccLoader (p : Nat) (n : Name) : LoadRes := if n == 0 || n == 1 then .src (10 * p + n) else .missing

def ccText (r : Res) : String :=
  match r with
  | .found (src, _) => if src == 9 then "B9" else s!"P{src / 10}N{src % 10}"
  | .notFound => "NF"
  | _ => "?"

open MJ.MemoConc in
def runCc (case : String) : String :=
  let f := case.splitOn ":"
  let others := ((f[1]?).getD "").toList
  let world := (f[2]?).getD "n" == "w"
  let c : LtCfg → Source → Bool := fun _ _ => true
  let s : Store := { loader := some (ccLoader 1), cfg := LtCfg.default, borrowed := [(2, (9, LtCfg.default))], owned := [] }
  let nameOf (ch : Char) : Name := if ch == 's' then 0 else if ch == 'd' then 1 else 2
  let todos := [0] :: others.map (fun ch => [nameOf ch])
  let k := others.length
  -- A: acquire, look (miss) — it is now inside the creator
  let σ := (Sys.start s todos).run c [.thread 0, .thread 0]
  -- every other thread gets one step: answered from the borrowed tier, or blocked at the mutex
  let σ := σ.run c ((List.range k).map (fun i => Ev.thread (i + 1)))
  let early := (List.range k).map (fun i => match σ.thr[i + 1]? with | some t => !t.done.isEmpty | none => false)
  let σ := if world then σ.run c [.world (ccLoader 2)] else σ
  -- A: create + insert, release; then the others, one after the other
  let σ := σ.run c [.thread 0, .thread 0]
  let σ := σ.run c ((List.range k).flatMap (fun i => List.replicate 4 (Ev.thread (i + 1))))
  let answers := σ.thr.map (fun t => match t.done with | [(_, r)] => ccText r | _ => "unfinished")
  let earlyS := String.ofList (early.map (fun b => if b then '1' else '0'))
  -- the creator runs inside the critical section: the loader is asked once per loader-backed name
  let loads := if others.any (· == 'd') then "c0:1,c1:1" else "c0:1"
  s!"{" / ".intercalate answers}\tearly={earlyS}\tloads={loads}"

end C15Drive

partial def loop (h : IO.FS.Stream) (out : IO.FS.Stream) (cmp : C15Drive.CmpTable) : IO Unit := do
  let line ← h.getLine
  if line.isEmpty then return ()
  let line := (line.dropEndWhile (· == '\n')).toString
  if line.startsWith "#" then
    match C15Drive.parseCmp line with
    | some e => loop h out (e :: cmp)
    | none => loop h out cmp
  else
    let case := (line.splitOn "\t").head!
    if case.startsWith "fx:" then
      out.putStrLn s!"{case}\t{C15Drive.runForeign case}"
    else if case.startsWith "cc:" then
      out.putStrLn s!"{case}\t{C15Drive.runCc case}"
    else
      out.putStrLn s!"{case}\t{C15Drive.runCase cmp case}"
    loop h out cmp

def main : IO Unit := do
  loop (← IO.getStdin) (← IO.getStdout) []
