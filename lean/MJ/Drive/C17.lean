import MJ.Model.Path
import MJ.Model.PathPlat
import MJ.Model.PathRoutes
/-!
Line driver for C17.  Input: harness lines `case<TAB>…` (only the case is read).  Cases

* `sj <base> <name>`   → `none` | `some <path> <flags> <comps> <normalized comps>`
* `push <path> <seg>`  → `<path>`
* `wsj <base> <name>`  → the WINDOWS instance of the platform-generic model (`MJ/Model/PathPlat.lean`):
  `none` | `some <path> <drive length><R|r> <comps> <pushed arguments>`
* `wpush <path> <seg>` → `<path>` (`pushP windows`)
* `comps <path>`       → `<flags> <comps> <normalized comps>`
* `hist <base> <name>,<path>,<disk> …` → the answers of `Env.run` over that history (`nf`, `e`,
  `f:<content>`), then ` | ` and the store afterwards.  Each step's snapshot holds `<disk>`
  (`-` not found, `!` other error, else the content) at `<path>` and nothing anywhere else;
  `<path>` is where the REAL `safe_join` pointed, so a model that joins differently reads nothing.
* `route <base> <cb:0|1> <token> …` → the routes model (`MJ/Model/PathRoutes.lean`): tokens
  `o,<entry>,<name>,<parent>` (one template over the route `env|state|include|import|from|extends`),
  `c,<parent>,<name>,<name>…` (a list of include choices) are the requests, in order; tokens
  `s,<path>,<disk>` make the snapshot (as for `hist`).  `cb` = 1 installs the documented relative
  path-join callback (`docJoin`).  Answer: `<f|nf|e>,… | <names the loader closure is called with>,…`.

Strings are percent-encoded UTF-8 (bytes `0x21..0x7e` except `%` and `,` stand for themselves,
everything else is `%xx`); `flags` = `R`/`r` (has root or not) then `C`/`c` (leading `.` component
or not); component lists are comma-joined.
-/
open MJ.Path

def hexDigit (n : Nat) : Char := if n < 10 then Char.ofNat (48 + n) else Char.ofNat (87 + n)

def encBytes (bs : List UInt8) : String :=
  String.ofList (bs.flatMap fun b =>
    let n := b.toNat
    if 0x21 ≤ n ∧ n ≤ 0x7e ∧ n ≠ 0x25 ∧ n ≠ 0x2c then [Char.ofNat n]
    else ['%', hexDigit (n / 16), hexDigit (n % 16)])

def enc (s : Str) : String := encBytes (String.ofList s).toUTF8.toList

def hexVal (c : Char) : Option Nat :=
  if '0' ≤ c ∧ c ≤ '9' then some (c.toNat - 48)
  else if 'a' ≤ c ∧ c ≤ 'f' then some (c.toNat - 87)
  else none

def decBytes : List Char → Option (List UInt8)
  | [] => some []
  | '%' :: a :: b :: r =>
    match hexVal a, hexVal b, decBytes r with
    | some x, some y, some t => some (UInt8.ofNat (16 * x + y) :: t)
    | _, _, _ => none
  | '%' :: _ => none
  | c :: r =>
    if c.toNat < 0x21 ∨ c.toNat > 0x7e then none
    else match decBytes r with
      | some t => some (UInt8.ofNat c.toNat :: t)
      | none => none

def dec (s : String) : Option Str :=
  match decBytes s.toList with
  | none => none
  | some bs => (String.fromUTF8? (ByteArray.mk bs.toArray)).map String.toList

def flags (p : Str) : String := (if isAbs p then "R" else "r") ++ (if curDir p then "C" else "c")

def encList (l : List Str) : String := ",".intercalate (l.map enc)

def describe (p : Str) : String :=
  s!"{flags p} {encList (comps p)} {encList (normalize (isAbs p) (comps p))}"

def handle (line : String) : String :=
  let case := (line.splitOn "\t").head!
  match case.splitOn " " with
  | ["sj", b, n] =>
    match dec b, dec n with
    | some b, some n =>
      match safeJoin b n with
      | none => "none"
      | some p => s!"some {enc p} {describe p}"
    | _, _ => "bad-case"
  | ["push", p, s] =>
    match dec p, dec s with
    | some p, some s => enc (push p s)
    | _, _ => "bad-case"
  | ["wsj", b, n] =>
    match dec b, dec n with
    | some b, some n =>
      match MJ.PathPlat.safeJoinTr MJ.PathPlat.windows b n with
      | none => "none"
      | some (p, tr) =>
        let w := MJ.PathPlat.windows
        s!"some {enc p} {MJ.PathPlat.driveLen w p}{if MJ.PathPlat.hasRoot w p then "R" else "r"} {encList (MJ.PathPlat.compsP w p)} {encList tr.pushed}"
    | _, _ => "bad-case"
  | ["wpush", p, s] =>
    match dec p, dec s with
    | some p, some s => enc (MJ.PathPlat.pushP MJ.PathPlat.windows p s)
    | _, _ => "bad-case"
  | ["comps", p] =>
    match dec p with
    | some p => describe p
    | none => "bad-case"
  | "hist" :: b :: steps =>
    match dec b with
    | none => "bad-case"
    | some b =>
      -- a step is a request `name,path,disk` or the event `CLEAR` (`Environment::clear_templates`)
      let parsed : List (Option (Option (Snapshot × Str))) := steps.map fun st =>
        if st = "CLEAR" then some none else
        match st.splitOn "," with
        | [n, hp, res] =>
          match dec n, (if hp = "" then some none else (dec hp).map some) with
          | some n, some hp =>
            let answer : ReadResult :=
              if res = "-" then .notFound else if res = "!" then .failed else .content res.toList
            some (some ((fun p => if some p = hp then answer else .notFound), n))
          | _, _ => none
        | _ => none
      if parsed.any Option.isNone then "bad-case" else
      let evs := parsed.filterMap id
      let showR : LoadResult → String
        | .found s => "f:" ++ String.ofList s
        | .missing => "nf"
        | .unreadable => "e"
      let e0 : Env := ⟨pathLoader (fun _ => .notFound) b, []⟩
      -- `Env.run` between two clears
      let (e, rs) := evs.foldl (fun (acc : Env × List String) ev =>
          match ev with
          | none => (acc.1.clear, acc.2)
          | some x => (acc.1.after [x], acc.2 ++ (acc.1.run [x]).map fun y => showR y.2)) (e0, [])
      let ts := e.templates.map fun x => enc x.1 ++ "=" ++ String.ofList x.2
      " ".intercalate rs ++ " | " ++ ";".intercalate ts
  | "route" :: b :: cb :: toks =>
    match dec b with
    | none => "bad-case"
    | some b =>
      let entryOf : String → Option Entry
        | "env" => some .envGetTemplate | "state" => some .stateGetTemplate | "include" => some .includeStmt
        | "import" => some .importStmt | "from" => some .fromImportStmt | "extends" => some .extendsStmt
        | _ => none
      let decAll (l : List String) : Option (List Str) := l.mapM dec
      let reqs : List (Option Req) := toks.filterMap fun t =>
        match t.splitOn "," with
        | ["o", e, n, p] =>
          some (match entryOf e, dec n, dec p with
            | some e, some n, some p => some (Req.one e n p)
            | _, _, _ => none)
        | "c" :: p :: ns =>
          some (match dec p, decAll ns with
            | some p, some ns => some (Req.choices ns p)
            | _, _ => none)
        | _ => none
      let snaps : List (Option (Str × ReadResult)) := toks.filterMap fun t =>
        match t.splitOn "," with
        | ["s", hp, res] =>
          some ((dec hp).map fun hp =>
            (hp, if res = "-" then ReadResult.notFound else if res = "!" then .failed else .content res.toList))
        | _ => none
      if reqs.any Option.isNone || snaps.any Option.isNone then "bad-case" else
      let tbl := snaps.filterMap id
      let fs : Snapshot := fun p => match tbl.find? (fun x => x.1 = p) with
        | some x => x.2
        | none => .notFound
      let g0 := Engine.new b (if cb = "1" then some docJoin else none)
      let showR : LoadResult → String
        | .found _ => "f"
        | .missing => "nf"
        | .unreadable => "e"
      let (_, ans, calls) := (reqs.filterMap id).foldl (fun (acc : Engine × List String × List Str) r =>
          ((acc.1.serve fs r).2, acc.2.1 ++ [showR (acc.1.serve fs r).1], acc.2.2 ++ acc.1.loaderCalls fs r))
        (g0, [], [])
      ",".intercalate ans ++ " | " ++ ",".intercalate (calls.map enc)
  | _ => "bad-case"

partial def loop (h : IO.FS.Stream) (out : IO.FS.Stream) : IO Unit := do
  let line ← h.getLine
  if line.isEmpty then return ()
  out.putStrLn (handle (line.dropEndWhile (· == '\n')).toString)
  loop h out

def main : IO Unit := do
  loop (← IO.getStdin) (← IO.getStdout)
