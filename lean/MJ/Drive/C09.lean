import MJ.Model.Slice
import MJ.Model.PySlice
import MJ.Model.Subscript
import MJ.Model.SubKinds
import MJ.Model.SubObj
/-! Line driver for C09: `slice kind len a b c form` / `index kind len i form` → model and spec. -/
open MJ MJ.Slice

def parseBound (s : String) : Option (Option Int) :=
  if s = "_" then some none else (s.toInt?).map some

def joinNats (xs : List Nat) : String := ",".intercalate (xs.map toString)

def classOf (kind : String) : String :=
  if kind.startsWith "str" then "str" else if kind = "bytes" then "bytes"
  else if kind = "tuple" then "tuple" else "list"

def showRes (kind : String) : Chk (Res Nat) → String
  | .panic => "panic"
  | .ok .zeroStep => "err:InvalidOperation"
  | .ok (.ok xs) => s!"{classOf kind}:{joinNats xs}"

def modelSlice (kind : String) (len : Nat) (a b c : Option Int) : String :=
  let xs := List.range len
  if kind = "undef" ∨ kind = "none" then
    (if c = some 0 then "err:InvalidOperation" else "list:")
  else if kind = "iterunsized" then showRes kind (sliceUnsized xs a b c)
  else showRes kind (slice xs a b c)

def specSlice (kind : String) (len : Nat) (a b c : Option Int) : String :=
  if c = some 0 then "err:InvalidOperation"
  else if kind = "undef" ∨ kind = "none" then "list:"
  else s!"{classOf kind}:{joinNats (PySlice.indices len a b (c.getD 1))}"

def showElem : Option Nat → String
  | some i => s!"elem:{i}"
  | none => "undef"

/-- ops of a chain suffix such as `[1:4][::-1][0]` -/
inductive ChainOp where
  | sl (a b c : Option Int)
  | ix (i : Int)

def parseOptInt (s : String) : Option (Option Int) :=
  if s.isEmpty then some none else (s.toInt?).map some

def parseChain (suffix : String) : Option (List ChainOp) :=
  let parts := (suffix.splitOn "[").drop 1
  parts.mapM fun p =>
    let body := (p.splitOn "]").head!
    match body.splitOn ":" with
    | [i] => (i.toInt?).map ChainOp.ix
    | [a, b] => do pure (ChainOp.sl (← parseOptInt a) (← parseOptInt b) none)
    | [a, b, c] => do pure (ChainOp.sl (← parseOptInt a) (← parseOptInt b) (← parseOptInt c))
    | _ => none

/-- run a chain on the model (`useModel = true`: Rust model; `false`: Python spec) -/
def runChain (useModel : Bool) (kind : String) (len : Nat) (ops : List ChainOp) : String :=
  let rec go (xs : List Nat) (first : Bool) : List ChainOp → String
    | [] => s!"{classOf kind}:{joinNats xs}"
    | ChainOp.sl a b c :: rest =>
      if c = some 0 then "err:InvalidOperation" else
      if useModel then
        let r := if first && (kind = "iterunsized" || kind = "oneshot") then sliceUnsized xs a b c else slice xs a b c
        match r with
        | .panic => "panic"
        | .ok .zeroStep => "err:InvalidOperation"
        | .ok (.ok ys) => go ys false rest
      else
        go ((PySlice.indices xs.length a b (c.getD 1)).filterMap (xs[·]?)) false rest
    | ChainOp.ix i :: rest =>
      let r := if useModel then index? xs i else (PySlice.index xs.length i).bind (xs[·]?)
      match rest with
      | [] => showElem r
      | _ => "bad-case"
  go (List.range len) true ops


/-! ## glue streams: `gs` / `gi` / `ga` / `long` -/
namespace Glue
open MJ.Sub

def hexDigit (c : Char) : Option Nat :=
  if '0' ≤ c ∧ c ≤ '9' then some (c.toNat - '0'.toNat)
  else if 'a' ≤ c ∧ c ≤ 'f' then some (c.toNat - 'a'.toNat + 10) else none

def unhex (s : String) : Option (List UInt8) :=
  let rec go : List Char → Option (List UInt8)
    | [] => some []
    | a :: b :: rest => do
      let x ← hexDigit a
      let y ← hexDigit b
      let r ← go rest
      pure (UInt8.ofNat (x * 16 + y) :: r)
    | _ => none
  go s.toList

def hexOf (bs : List UInt8) : String :=
  let d (n : Nat) : Char := if n < 10 then Char.ofNat (48 + n) else Char.ofNat (87 + n)
  String.ofList (bs.flatMap fun b => [d (b.toNat / 16), d (b.toNat % 16)])

def splitTag (spec : String) : String × String :=
  match spec.splitOn ":" with
  | [t] => (t, "")
  | t :: rest => (t, ":".intercalate rest)
  | [] => ("", "")

def parseMKey (k : String) : Option MKey :=
  match k.splitOn "=" with
  | ["T"] => some (.bool true)
  | ["F"] => some (.bool false)
  | ["i", n] => n.toInt?.map MKey.int
  | ["sm", h] => (unhex h).map MKey.str
  | ["sn", h] => (unhex h).map MKey.str
  | _ => none

def enumFrom {β : Type} (i : Nat) : List β → List (β × Nat)
  | [] => []
  | x :: xs => (x, i) :: enumFrom (i + 1) xs

/-- the items of the harness objects `CE:<S|I>:<variant>:<n>`: the numbers `0..n`; names (`Str`) and
    pairs (the key-value iterators) are shown by the harness as `1000 + i` / `2000 + i` -/
def eoItems (variant : String) (n : Nat) : List Nat :=
  let off := if variant = "str" then 1000 else if variant.startsWith "kv" || variant.startsWith "revkv" then 2000 else 0
  (List.range n).map (· + off)

def parseBase (spec : String) : Option (Val Nat) :=
  let (tag, arg) := splitTag spec
  match tag with
  | "U" => some .undef
  | "Z" => some .none
  | "_" => some .none
  | "T" => some (.bool true)
  | "F" => some (.bool false)
  | "i" => arg.toInt?.map fun x => .num (.i64 x)
  | "u" => arg.toNat?.map fun x => .num (.u64 x)
  | "I" => arg.toInt?.map fun x => .num (.i128 x)
  | "W" => arg.toNat?.map fun x => .num (.u128 x)
  | "f" => arg.toNat?.map fun x => .num (.f64 x)
  | "sn" => (unhex arg).map (Val.str .normal)
  | "sm" => (unhex arg).map fun bs => Val.str (if bs.length ≤ MJ.Gen.smallStrCap then .small else .normal) bs
  | "sa" => (unhex arg).map (Val.str .safe)
  | "b" => (unhex arg).map Val.bytes
  | "L" => arg.toNat?.map fun n => .seq (List.range n)
  | "D" => arg.toNat?.map fun n => .seq (List.range n)
  | "CS" => arg.toNat?.map fun n => .seq (List.range n)
  | "A" => arg.toNat?.map fun n => .seq (List.range n)
  | "P" => arg.toNat?.map fun n => .tuple (List.range n)
  | "E" => arg.toNat?.map fun n => .iter true (List.range n)
  | "R" => arg.toNat?.map fun n => .iter true (List.range n)
  | "CI" => arg.toNat?.map fun n => .iter true (List.range n)
  | "X" => arg.toNat?.map fun n => .iter false (List.range n)
  | "O" => arg.toNat?.map fun n => .once (List.range n)
  | "M" =>
    let ks := (arg.splitOn ",").filter (· ≠ "")
    (ks.mapM parseMKey).map fun mks => .map (enumFrom 0 mks)
  | "MS" =>
    let ks := (arg.splitOn ",").filter (· ≠ "")
    (ks.mapM unhex).map fun mks => .map (enumFrom 0 (mks.map MKey.str))
  | "Q" => some .plain
  -- std sets / linked lists: sized iterables
  | "BS" => arg.toNat?.map fun n => .iter true (List.range n)
  | "LL" => arg.toNat?.map fun n => .iter true (List.range n)
  | "HS" => arg.toNat?.map fun n => .iter true (List.range n)
  -- repetitions, built by the model of `repeat_iterable`
  | "RP" =>
    match (arg.splitOn "x").map String.toNat? with
    | [some n, some k] =>
      match repeatIterable (.plain (List.range n)) k with
      | .ok r => some r.val
      | .error _ => none
    | _ => none
  | "RR" =>
    match (arg.splitOn "x").map String.toNat? with
    | [some n, some a, some b] =>
      match repeatIterable (.plain (List.range n)) a with
      | .ok r =>
        match repeatIterable (.rep r) b with
        | .ok r2 => some r2.val
        | .error _ => none
      | .error _ => none
    | _ => none
  -- custom objects: one per `Enumerator` variant and sequence-like representation
  | "CE" =>
    match arg.splitOn ":" with
    | [rp, variant, n] =>
      match n.toNat? with
      | some n =>
        match harnessObj (rp == "S") variant (eoItems variant n) with
        | some o => some (if rp = "S" then .seq (eoItems variant n) else .iter o.queryLen.isSome (eoItems variant n))
        | none => none
      | none => none
    | _ => none
  | _ => none

/-- does the value of this spec enumerate through `Enumerator::RevIter`? -/
def enumeratesRevIter (spec : String) : Bool :=
  spec.startsWith "BS:" || spec.startsWith "LL:" || (spec.startsWith "CE:" && ["rev", "revlo", "revnone"].contains ((spec.splitOn ":").getD 2 ""))

def parseVal (spec : String) : Option (Val Nat) :=
  let (tag, arg) := splitTag spec
  if tag = "RV" then
    let inner := arg.replace "=" ":"
    match parseBase inner with
    | some v =>
      -- `Value::reverse` by the regenerated arm table: an arm marked `forward` does not reverse
      if enumeratesRevIter inner && MJ.Gen.c09ReverseArms.lookup "RevIter" == some "forward" then
        match v with
        | .iter _ xs => some (.iter true xs)
        | .seq xs => some (.iter true xs)
        | v => some v
      else reverseView v
    | none => none
  else parseBase spec

def parseMode : String → Option Mode
  | "L" => some .lenient
  | "C" => some .chainable
  | "S" => some .semiStrict
  | "X" => some .strict
  | _ => none

def showErr (e : Err) : String := s!"err:{e.kind}|{e.detail}"

def showVal : Val Nat → String
  | .str r bs => (if r = .safe then "safestr:" else "str:") ++ hexOf bs
  | .bytes bs => "bytes:" ++ hexOf bs
  | .seq xs => "seq:" ++ joinNats xs
  | .tuple xs => "tuple:" ++ joinNats xs
  | .iter sized xs => (if sized then "iterS:" else "iterU:") ++ joinNats xs
  | .undef => "undef"
  | .none => "none"
  | _ => "other"

def showItem : Item Nat → String
  | .elem n => s!"elem:{n}"
  | .chr c => "chr:" ++ hexOf (String.utf8EncodeChar c)
  | .byte b => s!"byte:{b.toNat}"
  | .undef => "undef"

def showSlice : Chk (Except Err (Val Nat)) → String
  | .panic => "panic"
  | .ok (.error e) => showErr e
  | .ok (.ok v) => showVal v

def showGet : Except Err (Item Nat) → String
  | .error e => showErr e
  | .ok it => showItem it

/-! long sequences -/
def longChr (i : Nat) : Char :=
  let q := i / 4
  match i % 4 with
  | 0 => Char.ofNat (0x61 + q % 26)
  | 1 => Char.ofNat (0x300 + q % 32)
  | 2 => Char.ofNat (0x4e00 + q % 1000)
  | _ => Char.ofNat (0x1f600 + q % 64)

def longByte (i : Nat) : UInt8 := UInt8.ofNat ((i * 7 + 3) % 256)

def mkLong (kind : String) (len : Nat) : Option (Val Nat) :=
  let cs := (List.range len).map longChr
  match kind with
  | "strn" => some (.str .normal (encode cs))
  | "strm" => some (let bs := encode cs; .str (if bs.length ≤ MJ.Gen.smallStrCap then .small else .normal) bs)
  | "stra" => some (.str .safe (encode cs))
  | "bytes" => some (.bytes ((List.range len).map longByte))
  | "list" => some (.seq (List.range len))
  | "deque" => some (.seq (List.range len))
  | "tuple" => some (.tuple (List.range len))
  | "itersized" => some (.iter true (List.range len))
  | "range" => some (.iter true (List.range len))
  | "iterunsized" => some (.iter false (List.range len))
  | "oneshot" => some (.once (List.range len))
  | _ => none

def digest (cls : String) (xs : List Nat) : String :=
  let h : UInt64 := xs.foldl (fun h x => (h ^^^ UInt64.ofNat x) * 0x100000001b3) 0xcbf29ce484222325
  s!"{cls}#{xs.length}#{h.toNat}#{joinNats (xs.take 6)}"

def showLong : Chk (Except Err (Val Nat)) → String
  | .panic => "panic"
  | .ok (.error e) => showErr e
  | .ok (.ok (.str r bs)) => digest (if r = .safe then "safestr" else "str") ((chars bs).map Char.toNat)
  | .ok (.ok (.bytes bs)) => digest "bytes" (bs.map UInt8.toNat)
  | .ok (.ok (.tuple xs)) => digest "tuple" xs
  | .ok (.ok (.seq xs)) => digest "list" xs
  | .ok (.ok (.iter _ xs)) => digest "list" xs
  | .ok (.ok _) => "other"

/-- a decimal integer as the narrowest of I64/U64/I128/U128 holding it -/
def intVal (s : String) : Option (Val Nat) :=
  if s = "_" then some .none else
  s.toInt?.map fun x =>
    if i64Min ≤ x ∧ x ≤ i64Max then .num (.i64 x)
    else if 0 ≤ x ∧ x ≤ usizeMax then .num (.u64 x.toNat)
    else if -170141183460469231731687303715884105728 ≤ x ∧ x ≤ 170141183460469231731687303715884105727 then .num (.i128 x)
    else .num (.u128 x.toNat)

def handleLong (kind len a b c : String) : String :=
  match len.toNat? with
  | none => "bad-case"
  | some len =>
    match mkLong kind len with
    | none => "bad-case"
    | some v =>
      if c.startsWith "i" then
        match intVal (c.drop 1).toString with
        | some k =>
          match vmGetItem .lenient v k with
          | .error e => showErr e
          | .ok (.elem n) => s!"elem:{n}"
          | .ok (.chr ch) => s!"chr:{ch.toNat}"
          | .ok (.byte x) => s!"elem:{x.toNat}"
          | .ok .undef => "undef"
        | none => "bad-case"
      else
        match intVal a, intVal b, intVal c with
        | some a, some b, some c => showLong (vmSlice .lenient v a b c)
        | _, _, _ => "bad-case"

def showList (xs : List Nat) : String := "[" ++ joinNats xs ++ "]"

def parseB (s : String) : Option (Option Int) := if s = "_" then some none else s.toInt?.map some

/-- the ops of an `os` case on the state of ONE one-shot iterator -/
def runOnce (rem : List Nat) (ops : List String) (acc : String) : String :=
  match ops with
  | [] => acc
  | op :: rest =>
    let h := (op.take 1).toString
    let arg := (op.drop 1).toString
    if h = "i" then
      match arg.toInt? with
      | some k =>
        let (x, rem') := onceGetItem rem (Val.num (.i64 k) : Val Nat)
        runOnce rem' rest (acc ++ (match x with | some n => toString n | none => "") ++ "|")
      | none => "bad-case"
    else if h = "s" || h = "t" then
      match arg.splitOn "," with
      | [a, b, c] =>
        match parseB a, parseB b, parseB c with
        | some a, some b, some c =>
          let st := c.getD 1
          if st = 0 then "err:InvalidOperation|cannot slice by step size of 0" else
          match onceSliceEnum rem a b st with
          | .panic => "panic"
          | .ok (ys, rem') =>
            if h = "s" then runOnce rem' rest (acc ++ showList ys ++ "|")
            else
              match onceSliceEnum rem' a b st with
              | .panic => "panic"
              | .ok (zs, rem'') => runOnce rem'' rest (acc ++ showList ys ++ "~" ++ showList zs ++ "|")
        | _, _, _ => "bad-case"
      | _ => "bad-case"
    else if h = "l" then
      let (ys, rem') := onceList rem
      runOnce rem' rest (acc ++ showList ys ++ "|")
    else if h = "f" then
      let (x, rem') := onceFirst rem
      runOnce rem' rest (acc ++ (match x with | some n => toString n | none => "") ++ "|")
    else "bad-case"

def handle (f : List String) : String :=
  match f with
  | ["gs", mode, _entry, vs, a, b, c] =>
    match parseMode mode, parseVal vs, parseVal a, parseVal b, parseVal c with
    | some m, some v, some a, some b, some c => showSlice (vmSlice m v a b c)
    | _, _, _, _, _ => "bad-case"
  | ["gi", mode, entry, vs, k] =>
    match parseMode mode, parseVal vs, parseVal k with
    | some m, some v, some k =>
      if entry = "api" then showGet (getItem v k)
      else if entry = "apiidx" then
        match k with
        | .num (.u64 n) => showGet (getItemByIndex v n)
        | _ => "bad-case"
      else showGet (vmGetItem m v k)
    | _, _, _ => "bad-case"
  | ["ga", mode, entry, vs, name] =>
    match parseMode mode, parseVal vs, unhex name with
    | some m, some v, some name =>
      if entry = "api" then showGet (getAttr v name) else showGet (vmGetAttr m v name)
    | _, _, _ => "bad-case"
  | ["long", kind, len, a, b, c] => handleLong kind len a b c
  | ["mg", lens, _types, _entry, k] =>
    -- operands hold consecutive numbers: operand j = [offset_j, …, offset_j + len_j - 1]
    let ls := ((lens.splitOn ",").filter (· ≠ "")).filterMap String.toNat?
    let xss : List (List Nat) := (ls.foldl (fun (acc : List (List Nat) × Nat) n =>
      (acc.1 ++ [(List.range n).map (· + acc.2)], acc.2 + n)) ([], 0)).1
    match parseVal k with
    | some key =>
      match mergeGetItem xss key with
      | some n => s!"elem:{n}"
      | none => "undef"
    | none => "bad-case"
  | ["mr", rel, vs] =>
    match parseVal vs with
    | some v =>
      let rv := parseVal ("RV:" ++ vs.replace ":" "=")
      if rel = "rev" then
        let lhs := match rv with | some r => showVal r | none => "-"
        s!"{lhs}~~{showSlice (vmSlice .lenient v .none .none (.num (.i64 (-1))))}"
      else if rel = "first" then s!"-~~{showGet (vmGetItem .lenient v (.num (.i64 0)))}"
      else if rel = "last" then s!"-~~{showGet (vmGetItem .lenient v (.num (.i64 (-1))))}"
      else "-~~-"
    | none => "bad-case"
  | ["eo", "V", tmpl, n, "s", a, b, c] =>
    match parseVal (tmpl.replace "#" n), intVal a, intVal b, intVal c with
    | some v, some a, some b, some c =>
      match vmSlice .lenient v a b c with
      | .panic => "panic"
      | .ok (.error e) => showErr e
      | .ok (.ok (.iter _ ys)) => "iter:" ++ joinNats ys
      | .ok (.ok r) => showVal r
    | _, _, _, _ => "bad-case"
  | ["eo", "V", tmpl, n, "m"] =>
    match parseVal (tmpl.replace "#" n) with
    | some (.seq xs) => "seq:" ++ joinNats xs
    | some (.iter _ xs) => "seq:" ++ joinNats xs
    | _ => "bad-case"
  | ["eo", "V", tmpl, n, "i", k] =>
    match parseVal (tmpl.replace "#" n), parseVal k with
    | some v, some key => showGet (vmGetItem .lenient v key)
    | _, _ => "bad-case"
  | ["eo", rp, how, n, "s", a, b, c] =>
    match n.toNat?, intVal a, intVal b, intVal c with
    | some n, some a, some b, some c =>
      match harnessObj (rp == "S") how (eoItems how n) with
      | some o =>
        match objSliceV o a b c with
        | .panic => "panic"
        | .ok (.error e) => showErr e
        | .ok (.ok ys) => "iter:" ++ joinNats ys
      | none => "bad-case"
    | _, _, _, _ => "bad-case"
  | ["eo", rp, how, n, "m"] =>
    match n.toNat? with
    | some n =>
      match harnessObj (rp == "S") how (eoItems how n) with
      | some o =>
        match o.tryIter with
        | some xs => "seq:" ++ joinNats xs
        | none => "not-iterable"
      | none => "bad-case"
    | none => "bad-case"
  | ["eo", rp, how, n, "i", k] =>
    match n.toNat?, parseVal k with
    | some n, some key =>
      match harnessObj (rp == "S") how (eoItems how n) with
      | some o =>
        match objGetItem o key with
        | some x => s!"elem:{x}"
        | none => "undef"
      | none => "bad-case"
    | _, _ => "bad-case"
  | ["os", len, ops] =>
    match len.toNat? with
    | some len => runOnce (List.range len) (ops.splitOn ";") ""
    | none => "bad-case"
  | _ => "bad-case"

end Glue

def handle (line : String) : String :=
  let case := (line.splitOn "\t").head!
  match case.trimAscii.toString.splitOn " " with
  | ["slice", kind, len, a, b, c, _form] =>
    match len.toNat?, parseBound a, parseBound b, parseBound c with
    | some len, some a, some b, some c =>
      s!"{case}\t{modelSlice kind len a b c}\t{specSlice kind len a b c}"
    | _, _, _, _ => s!"{case}\tbad-case\tbad-case"
  | ["index", kind, len, i, _form] =>
    match len.toNat?, i.toInt? with
    | some len, some i =>
      if kind = "undef" then s!"{case}\terr:UndefinedError\terr:UndefinedError"
      else if kind = "none" then s!"{case}\tundef\tundef"
      else
        let m := showElem (index? (List.range len) i)
        let sp := showElem (PySlice.index len i)
        s!"{case}\t{m}\t{sp}"
    | _, _ => s!"{case}\tbad-case\tbad-case"
  | ["chain", kind, len, suffix] =>
    match len.toNat?, parseChain suffix with
    | some len, some ops => s!"{case}\t{runChain true kind len ops}\t{runChain false kind len ops}"
    | _, _ => s!"{case}\tbad-case\tbad-case"
  | "gs" :: _ | "gi" :: _ | "ga" :: _ | "long" :: _ | "mg" :: _ | "mr" :: _ | "os" :: _ | "eo" :: _ =>
    let r := Glue.handle (case.trimAscii.toString.splitOn " ")
    s!"{case}\t{r}\t-"
  | "meta" :: _ | "dv" :: _ | "ds" :: _ | "dr" :: _ | "pb" :: _ | "huge" :: _ | "cv" :: _ => s!"{case}\t-\t-"
  | _ => s!"{case}\tbad-case\tbad-case"

partial def loop (h : IO.FS.Stream) (out : IO.FS.Stream) : IO Unit := do
  let line ← h.getLine
  if line.isEmpty then return ()
  out.putStrLn (handle (line.dropEndWhile (· == '\n')).toString)
  loop h out

def main : IO Unit := do
  loop (← IO.getStdin) (← IO.getStdout)
