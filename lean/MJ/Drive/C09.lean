import MJ.Model.Slice
import MJ.Model.PySlice
/-! Line driver for C09: `slice kind len a b c form` / `index kind len i form` → model and spec. -/
open MJ MJ.Slice

def parseBound (s : String) : Option (Option Int) :=
  if s = "_" then some none else (s.toInt?).map some

def joinNats (xs : List Nat) : String := ",".intercalate (xs.map toString)

def classOf (kind : String) : String :=
  if kind.startsWith "str" then "str" else if kind = "bytes" then "bytes"
  else if kind = "tuple" then "tuple" else "list"

def showRes (kind : String) : Chk (Res Nat) → String
  | .panic => "panic"
  | .ok .zeroStep => "err:InvalidOperation"
  | .ok (.ok xs) => s!"{classOf kind}:{joinNats xs}"

def modelSlice (kind : String) (len : Nat) (a b c : Option Int) : String :=
  let xs := List.range len
  if kind = "undef" ∨ kind = "none" then
    (if c = some 0 then "err:InvalidOperation" else "list:")
  else if kind = "iterunsized" then showRes kind (sliceUnsized xs a b c)
  else showRes kind (slice xs a b c)

def specSlice (kind : String) (len : Nat) (a b c : Option Int) : String :=
  if c = some 0 then "err:InvalidOperation"
  else if kind = "undef" ∨ kind = "none" then "list:"
  else s!"{classOf kind}:{joinNats (PySlice.indices len a b (c.getD 1))}"

def showElem : Option Nat → String
  | some i => s!"elem:{i}"
  | none => "undef"

/-- ops of a chain suffix such as `[1:4][::-1][0]` -/
inductive ChainOp where
  | sl (a b c : Option Int)
  | ix (i : Int)

def parseOptInt (s : String) : Option (Option Int) :=
  if s.isEmpty then some none else (s.toInt?).map some

def parseChain (suffix : String) : Option (List ChainOp) :=
  let parts := (suffix.splitOn "[").drop 1
  parts.mapM fun p =>
    let body := (p.splitOn "]").head!
    match body.splitOn ":" with
    | [i] => (i.toInt?).map ChainOp.ix
    | [a, b] => do pure (ChainOp.sl (← parseOptInt a) (← parseOptInt b) none)
    | [a, b, c] => do pure (ChainOp.sl (← parseOptInt a) (← parseOptInt b) (← parseOptInt c))
    | _ => none

/-- run a chain on the model (`useModel = true`: Rust model; `false`: Python spec) -/
def runChain (useModel : Bool) (kind : String) (len : Nat) (ops : List ChainOp) : String :=
  let rec go (xs : List Nat) (first : Bool) : List ChainOp → String
    | [] => s!"{classOf kind}:{joinNats xs}"
    | ChainOp.sl a b c :: rest =>
      if c = some 0 then "err:InvalidOperation" else
      if useModel then
        let r := if first && (kind = "iterunsized" || kind = "oneshot") then sliceUnsized xs a b c else slice xs a b c
        match r with
        | .panic => "panic"
        | .ok .zeroStep => "err:InvalidOperation"
        | .ok (.ok ys) => go ys false rest
      else
        go ((PySlice.indices xs.length a b (c.getD 1)).filterMap (xs[·]?)) false rest
    | ChainOp.ix i :: rest =>
      let r := if useModel then index? xs i else (PySlice.index xs.length i).bind (xs[·]?)
      match rest with
      | [] => showElem r
      | _ => "bad-case"
  go (List.range len) true ops

def handle (line : String) : String :=
  let case := (line.splitOn "\t").head!
  match case.trimAscii.toString.splitOn " " with
  | ["slice", kind, len, a, b, c, _form] =>
    match len.toNat?, parseBound a, parseBound b, parseBound c with
    | some len, some a, some b, some c =>
      s!"{case}\t{modelSlice kind len a b c}\t{specSlice kind len a b c}"
    | _, _, _, _ => s!"{case}\tbad-case\tbad-case"
  | ["index", kind, len, i, _form] =>
    match len.toNat?, i.toInt? with
    | some len, some i =>
      if kind = "undef" then s!"{case}\terr:UndefinedError\terr:UndefinedError"
      else if kind = "none" then s!"{case}\tundef\tundef"
      else
        let m := showElem (index? (List.range len) i)
        let sp := showElem (PySlice.index len i)
        s!"{case}\t{m}\t{sp}"
    | _, _ => s!"{case}\tbad-case\tbad-case"
  | ["chain", kind, len, suffix] =>
    match len.toNat?, parseChain suffix with
    | some len, some ops => s!"{case}\t{runChain true kind len ops}\t{runChain false kind len ops}"
    | _, _ => s!"{case}\tbad-case\tbad-case"
  | _ => s!"{case}\tbad-case\tbad-case"

partial def loop (h : IO.FS.Stream) (out : IO.FS.Stream) : IO Unit := do
  let line ← h.getLine
  if line.isEmpty then return ()
  out.putStrLn (handle (line.dropEndWhile (· == '\n')).toString)
  loop h out

def main : IO Unit := do
  loop (← IO.getStdin) (← IO.getStdout)
