import MJ.Model.Slice
import MJ.Model.CmpF64
import MJ.Gen.Tables
/-!
# Model of the glue around the slice arithmetic (C09)

`ops::slice` (conversion of `start/stop/step` values, `slice_bound`, the zero-step error, the
dispatch over `ValueRepr`, what is built for each kind), `Value::get_item_opt` (with its local
`index`), `Value::get_item`, `get_item_by_index`, `get_attr`, and the VM arms `GetItem`, `GetAttr`,
`Slice` with `UndefinedBehavior::handle_undefined`.

Everything the model needs to know about *which* arm does *what* comes from `MJ.Gen.Tables`
(regenerated from `/repo` by `lib/tables/c09.py` on every run): the reprs `slice` dispatches on, the
arms of `primitive_int_try_from!`, the clamp rows of `slice_bound`, the length function
`get_item_opt` hands to `index` per repr, the object-repr strategies, the `handle_undefined` table,
error kinds/messages, `ValueKind` names.  The arithmetic itself is `MJ.Slice` (shared with C01).

Strings are UTF-8 byte lists (what a Rust `&str` is); `chars` is the `Chars` iterator (a byte
cursor that decodes one scalar value and advances by its encoded width, 1–4 bytes), built on core
Lean's `ByteArray.utf8DecodeChar?`.  `MJ/Proofs/SubUtf8.lean` proves that on `encode cs` the
cursor only ever stands on character boundaries and yields exactly `cs`.

Elements of sequences are opaque (`α`): subscripts and slices select, they never inspect.
-/
namespace MJ.Sub
open MJ Chk Slice

/-! ## UTF-8 -/

/-- the bytes of a Rust `String` holding the scalar values `cs` -/
def encode (cs : List Char) : List UInt8 := cs.flatMap String.utf8EncodeChar

/-- decode the scalar value whose encoding starts at the front of `bs` (an encoding is at most four
    bytes long, so only those are looked at) -/
def decodeAt (bs : List UInt8) : Option Char := ByteArray.utf8DecodeChar? (bs.take 4).toByteArray 0

/-- `Chars::next` iterated: (byte offset, char) pairs = `str::char_indices`; `pos` is the cursor.
    Decoding cannot fail on a valid `str`; the model stops if it does. -/
def charIndicesFuel : Nat → Nat → List UInt8 → List (Nat × Char)
  | 0, _, _ => []
  | fuel + 1, pos, bs =>
    match decodeAt bs with
    | some c => (pos, c) :: charIndicesFuel fuel (pos + c.utf8Size) (bs.drop c.utf8Size)
    | none => []

def charIndices (bs : List UInt8) : List (Nat × Char) := charIndicesFuel bs.length 0 bs

/-- `str::chars()` collected -/
def chars (bs : List UInt8) : List Char := (charIndices bs).map (·.2)

/-! ## Values -/

/-- the numeric variants of `ValueRepr`; a float is its bit pattern -/
inductive N where
  | i64 (x : Int)
  | u64 (x : Nat)
  | i128 (x : Int)
  | u128 (x : Nat)
  | f64 (bits : Nat)
  deriving Repr, DecidableEq

inductive StrRepr where
  | small    -- `ValueRepr::SmallStr`
  | normal   -- `ValueRepr::String(_, StringType::Normal)`
  | safe     -- `ValueRepr::String(_, StringType::Safe)`
  deriving Repr, DecidableEq

/-- keys of a `ValueMap` as far as the lookup distinguishes them (numbers compare by value, strings
    by content, booleans only equal booleans) -/
inductive MKey where
  | bool (b : Bool)
  | int (x : Int)
  | str (bs : List UInt8)
  deriving Repr, DecidableEq

inductive Val (α : Type) where
  | undef
  | none
  | bool (b : Bool)
  | num (n : N)
  | str (r : StrRepr) (bs : List UInt8)
  | bytes (bs : List UInt8)
  | seq (xs : List α)                       -- `Vec<Value>`, `VecDeque`, arrays: `ObjectRepr::Seq`
  | tuple (xs : List α)                     -- `Tuple`: `ObjectRepr::Seq`, `is_tuple()`
  | iter (sized : Bool) (xs : List α)       -- `ObjectRepr::Iterable` without own `get_value`
  | once (xs : List α)                      -- one-shot iterator: unknown length, iterable once
  | map (kvs : List (MKey × α))             -- `ObjectRepr::Map` (`ValueMap`)
  | plain                                   -- `ObjectRepr::Plain` without fields
  | invalid
  deriving Repr

/-- the variant of `ValueRepr` (objects: with their `ObjectRepr`) — the names the tables use -/
def Val.repr {α : Type} : Val α → String
  | .undef => "Undefined"
  | .none => "None"
  | .bool _ => "Bool"
  | .num (.i64 _) => "I64"
  | .num (.u64 _) => "U64"
  | .num (.i128 _) => "I128"
  | .num (.u128 _) => "U128"
  | .num (.f64 _) => "F64"
  | .str .small _ => "SmallStr"
  | .str _ _ => "String"
  | .bytes _ => "Bytes"
  | .seq _ => "Object:Seq"
  | .tuple _ => "Object:Seq"
  | .iter _ _ => "Object:Iterable"
  | .once _ => "Object:Iterable"
  | .map _ => "Object:Map"
  | .plain => "Object:Plain"
  | .invalid => "Invalid"

def lookupD (tbl : List (String × String)) (k : String) (d : String) : String :=
  match tbl.lookup k with
  | some v => v
  | Option.none => d

/-- `Value::kind()` as `Display` prints it -/
def Val.kindDisplay {α : Type} (v : Val α) : String :=
  lookupD MJ.Gen.c09KindDisplay (lookupD MJ.Gen.c09ReprKind v.repr "?") "?"

structure Err where
  kind : String
  detail : String
  deriving Repr, DecidableEq

def subst (fmt key val : String) : String := fmt.replace ("{" ++ key ++ "}") val

/-! ## Integer conversions (`primitive_int_try_from!`) -/

def i64Min : Int := -9223372036854775808
def i64Max : Int := 9223372036854775807
def usizeMax : Int := 18446744073709551615

/-- the float arm: `val as i64 as f64 == val && val < i64::MAX as f64` then `val as i64` -/
def f64ToI64 (b : Nat) : Option Int :=
  let c := F64.castInt i64Min i64Max b
  if F64.feq (F64.ofInt c) b && F64.flt b (F64.ofInt i64Max) then some c else Option.none

/-- the integer the matching arm of `primitive_int_try_from!` hands to `TryFrom::try_from` -/
def Val.payload {α : Type} : Val α → Option Int
  | .bool b => some (if b then 1 else 0)
  | .num (.i64 x) => some x
  | .num (.u64 x) => some x
  | .num (.i128 x) => some x
  | .num (.u128 x) => some x
  | .num (.f64 b) => f64ToI64 b
  | _ => Option.none

/-- `<int type lo..=hi>::try_from(value).ok()` -/
def tryInt {α : Type} (lo hi : Int) (v : Val α) : Option Int :=
  if MJ.Gen.c09IntTryFromArms.contains v.repr then
    match v.payload with
    | some x => if lo ≤ x ∧ x ≤ hi then some x else Option.none
    | Option.none => Option.none
  else Option.none

/-- `Value::as_i64` (and `isize::try_from` of it, the same range on the 64-bit targets) -/
def valI64 {α : Type} (v : Val α) : Option Int := tryInt i64Min i64Max v
/-- `Value::as_usize` -/
def valUsize {α : Type} (v : Val α) : Option Nat := (tryInt 0 usizeMax v).map Int.toNat

def convErr {α : Type} (v : Val α) : Err :=
  ⟨MJ.Gen.c09ConversionErr.1, subst (subst MJ.Gen.c09ConversionErr.2 "kind" v.kindDisplay) "target" "i64"⟩

/-- the `clamped` value of `slice_bound`: first matching row of the regenerated arm table -/
def clampRow {α : Type} (v : Val α) : List (String × String) → Option Int
  | [] => Option.none
  | (r, how) :: rest =>
    if r = v.repr then
      if how = "max" then some i64Max
      else if how = "min" then some i64Min
      else if how = "min-if-negative" then
        (if v.payload.getD 0 < 0 then some i64Min else clampRow v rest)
      else Option.none
    else clampRow v rest

/-- `ops::slice_bound` -/
def sliceBound {α : Type} (v : Val α) : Except Err Int :=
  match clampRow v MJ.Gen.c09SliceBoundClamp with
  | some c => .ok ((valI64 v).getD c)
  | Option.none =>
    match valI64 v with
    | some x => .ok x
    | Option.none => .error (convErr v)

/-- `if x.is_none() { None } else { Some(slice_bound(x)?) }` -/
def optBound {α : Type} (v : Val α) : Except Err (Option Int) :=
  match v with
  | .none => .ok Option.none
  | v => (sliceBound v).map some

/-! ## `ops::slice` -/

def zeroStepErr : Err := ⟨MJ.Gen.c09ZeroStepErr.1, MJ.Gen.c09ZeroStepErr.2⟩
def unsliceableErr {α : Type} (v : Val α) : Err :=
  ⟨MJ.Gen.c09UnsliceableErr.1, subst MJ.Gen.c09UnsliceableErr.2 "kind" v.kindDisplay⟩

/-- what the arm of `match value.0` that takes this value does: `str`, `bytes`, `empty`,
    `object` (guard `matches!(obj.repr(), …)` satisfied) or `error` (the default arm) -/
def sliceClass {α : Type} (v : Val α) : String :=
  match MJ.Gen.c09SliceDispatch.lookup v.repr with
  | some c => c
  | Option.none =>
    if MJ.Gen.c09SliceObjectReprs.any (fun r => "Object:" ++ r = v.repr) then "object" else "error"

/-- run the list-level slice code and wrap the selection -/
def wrapRes {α β : Type} (r : Chk (Res α)) (f : List α → β) : Chk (Except Err β) :=
  match r with
  | .panic => .panic
  | .ok .zeroStep => .ok (.error zeroStepErr)        -- unreachable: the zero step is rejected before
  | .ok (.ok ys) => .ok (.ok (f ys))

/-- the lazy result of slicing an iterable of unknown length.  Forward and no bound relative to
    the end: `get_offset_and_len(start, stop, || known_len.unwrap_or(usize::MAX))`, then
    `skip/take/step_by` on the live iterator; its size hints are exact (= the result knows its
    length) only for `take(0)`.  Otherwise the items are collected first and the result is sized. -/
def sliceUnsizedG {α : Type} (xs : List α) (start stop : Option Int) (step : Int) : Chk (Except Err (Val α)) :=
  if step > 0 ∧ (isNeg start || isNeg stop) = false then
    match offsetLen start stop MJ.Gen.c09UnsizedLen with
    | .panic => .panic
    | .ok (off, n) => .ok (.ok (.iter (decide (n = 0)) (stepBy (asUsize step) ((xs.drop off).take n))))
  else wrapRes (slice xs start stop (some step)) (Val.iter true)

/-- `ops::slice(value, start, stop, step)` -/
def sliceV {α : Type} (v a b c : Val α) : Chk (Except Err (Val α)) :=
  match optBound a with
  | .error e => .ok (.error e)
  | .ok start =>
  match optBound b with
  | .error e => .ok (.error e)
  | .ok stop =>
  match optBound c with
  | .error e => .ok (.error e)
  | .ok step0 =>
  let step : Int := step0.getD 1
  if step = 0 then .ok (.error zeroStepErr)
  else
    let cls := sliceClass v
    if cls = "error" then .ok (.error (unsliceableErr v))
    else if cls = "empty" then .ok (.ok (.seq []))
    else
      match v with
      | .str _ bs =>
        if cls = "str" then wrapRes (slice (chars bs) start stop (some step)) (fun ys => Val.str .normal (encode ys))
        else .ok (.error (unsliceableErr v))
      | .bytes bs =>
        if cls = "bytes" then wrapRes (slice bs start stop (some step)) Val.bytes
        else .ok (.error (unsliceableErr v))
      | .tuple xs => wrapRes (slice xs start stop (some step)) Val.tuple
      | .seq xs => wrapRes (slice xs start stop (some step)) (Val.iter true)
      | .iter true xs => wrapRes (slice xs start stop (some step)) (Val.iter true)
      | .iter false xs => sliceUnsizedG xs start stop step
      | .once xs => sliceUnsizedG xs start stop step
      | v => .ok (.error (unsliceableErr v))

/-! ## Subscripts -/

inductive Item (α : Type) where
  | elem (a : α)
  | chr (c : Char)       -- `Value::from(char)`: a one-character string
  | byte (b : UInt8)     -- a number
  | undef
  deriving Repr, DecidableEq

/-- `get_item_opt::index` -/
def indexOf {α : Type} (key : Val α) (len : Option Nat) : Option Nat :=
  match valI64 key with
  | some i =>
    if i < 0 then
      match len with
      | some n => if i.natAbs ≤ n then some (n - i.natAbs) else Option.none     -- checked_sub
      | Option.none => Option.none
    else some i.toNat
  | Option.none => Option.none

/-- the length `get_item_opt` offers to `index` for strings / bytes, by the regenerated table -/
def lenBy (fn : String) (bs : List UInt8) : Option Nat :=
  if fn = "chars" then some (chars bs).length
  else if fn = "bytes" then some bs.length
  else Option.none

/-- does the map key equal the probe (`Ord`/`Eq` of `Value`: numbers by value incl. integral
    floats, strings by content whatever the representation, booleans only booleans)? -/
def keyMatch {α : Type} (mk : MKey) (key : Val α) : Bool :=
  match mk, key with
  | .bool b, .bool b' => b == b'
  | .int x, .num n => (Val.num n : Val α).payload == some x
  | .str bs, .str _ bs' => bs == bs'
  | _, _ => false

def mapGet {α : Type} (kvs : List (MKey × α)) (key : Val α) : Option α :=
  (kvs.find? (fun p => keyMatch p.1 key)).map (·.2)

/-- `Vec::get_value` / `Tuple::get_value`: `self.get(key.as_usize()?)` -/
def vecGet {α : Type} (xs : List α) (key : Val α) : Option α :=
  match valUsize key with
  | some n => xs[n]?
  | Option.none => Option.none

/-- `Value::get_item_opt` -/
def getItemOpt {α : Type} (v key : Val α) : Option (Item α) :=
  match v with
  | .str _ bs =>
    match MJ.Gen.c09GetItemLenFn.lookup v.repr with
    | some fn =>
      match indexOf key (lenBy fn bs) with
      | some idx => ((chars bs)[idx]?).map Item.chr
      | Option.none => Option.none
    | Option.none => Option.none
  | .bytes bs =>
    match MJ.Gen.c09GetItemLenFn.lookup v.repr with
    | some fn =>
      match indexOf key (lenBy fn bs) with
      | some idx => (bs[idx]?).map Item.byte
      | Option.none => Option.none
    | Option.none => Option.none
  | .seq xs | .tuple xs =>
    if MJ.Gen.c09GetItemObject.lookup "Seq" = some "get_value(index-or-key)" then
      match indexOf key (some xs.length) with
      | some idx => (xs[idx]?).map Item.elem              -- `get_value(&Value::from(idx))`
      | Option.none => (vecGet xs key).map Item.elem
    else Option.none
  | .iter _ xs =>
    if MJ.Gen.c09GetItemObject.lookup "Iterable" = some "get_value-then-nth(index,len-or-count-on-demand)" then
      match indexOf key (some xs.length) with               -- `enumerator_len()` or `count()`
      | some idx => (xs[idx]?).map Item.elem                 -- `iter.nth(idx)`
      | Option.none => Option.none
    else Option.none
  | .once xs =>
    -- an index relative to the end counts, i.e. drains, the iterator before `nth` runs
    if MJ.Gen.c09GetItemObject.lookup "Iterable" = some "get_value-then-nth(index,len-or-count-on-demand)" then
      match valI64 key with
      | some i => if i < 0 then Option.none else (xs[i.toNat]?).map Item.elem
      | Option.none => Option.none
    else Option.none
  | .map kvs =>
    if MJ.Gen.c09GetItemObject.lookup "Map" = some "get_value" then (mapGet kvs key).map Item.elem
    else Option.none
  | _ => Option.none

def undefinedErr : Err := ⟨"UndefinedError", ""⟩

/-- `Value::get_item` -/
def getItem {α : Type} (v key : Val α) : Except Err (Item α) :=
  match v with
  | .undef => .error undefinedErr
  | v => .ok ((getItemOpt v key).getD .undef)

/-- `Value::get_item_by_index` -/
def getItemByIndex {α : Type} (v : Val α) (idx : Nat) : Except Err (Item α) := getItem v (.num (.u64 idx))

/-- `get_value_by_str` of the objects the engine builds: maps find the string key, the default
    implementation asks `get_value(&Value::from(key))` (sequences: `as_usize` of a string = none) -/
def getValueByStr {α : Type} (v : Val α) (name : List UInt8) : Option (Item α) :=
  match v with
  | .map kvs => (mapGet kvs (Val.str .normal name : Val α)).map Item.elem
  | .seq xs | .tuple xs => (vecGet xs (Val.str .normal name : Val α)).map Item.elem
  | _ => Option.none

/-- `Value::get_attr` -/
def getAttr {α : Type} (v : Val α) (name : List UInt8) : Except Err (Item α) :=
  match v with
  | .undef => .error undefinedErr
  | v => .ok ((getValueByStr v name).getD .undef)

inductive Mode where
  | lenient | chainable | semiStrict | strict
  deriving Repr, DecidableEq

def Mode.name : Mode → String
  | .lenient => "Lenient"
  | .chainable => "Chainable"
  | .semiStrict => "SemiStrict"
  | .strict => "Strict"

/-- `UndefinedBehavior::handle_undefined(parent_was_undefined)` by the regenerated table -/
def handleUndefined {α : Type} (m : Mode) (parentUndef : Bool) : Except Err (Item α) :=
  match MJ.Gen.c09HandleUndefined.lookup (m.name ++ ":" ++ (if parentUndef then "true" else "false")) with
  | some "undefined" => .ok .undef
  | some k => .error ⟨k, ""⟩
  | Option.none => .error ⟨"?", ""⟩

def Val.isUndef {α : Type} : Val α → Bool
  | .undef => true
  | _ => false

/-- the VM's `Instruction::GetItem` -/
def vmGetItem {α : Type} (m : Mode) (v key : Val α) : Except Err (Item α) :=
  match getItemOpt v key with
  | some it => .ok it
  | Option.none => handleUndefined m v.isUndef

/-- the VM's `Instruction::GetAttr` (`get_attr_fast`) -/
def vmGetAttr {α : Type} (m : Mode) (v : Val α) (name : List UInt8) : Except Err (Item α) :=
  match getValueByStr v name with
  | some it => .ok it
  | Option.none => handleUndefined m v.isUndef

/-- the VM's `Instruction::Slice` -/
def vmSlice {α : Type} (m : Mode) (v a b c : Val α) : Chk (Except Err (Val α)) :=
  if v.isUndef && MJ.Gen.c09VmSliceUndefinedErrModes.contains m.name then
    .ok (.error ⟨MJ.Gen.c09VmSliceUndefinedErr, ""⟩)
  else sliceV v a b c

/-! ## `MergeSeq::get_value` (the sequence `|chain` builds from sequences) -/

/-- the walk over the operands: `cur` is `current_idx`; the operand whose index range
    `cur .. cur + len` contains `idx` answers with its item `idx - cur` -/
def mergeGetFrom {α : Type} (xss : List (List α)) (idx cur : Nat) : Option α :=
  match xss with
  | [] => Option.none
  | xs :: rest =>
    if idx < cur + xs.length then xs[idx - cur]?       -- `value.get_item(idx - current_idx)`
    else mergeGetFrom rest idx (cur + xs.length)

def mergeGet {α : Type} (xss : List (List α)) (idx : Nat) : Option α := mergeGetFrom xss idx 0

/-- `get_item_opt` on a `MergeSeq` of `ObjectRepr::Seq`: `index` against the total length, then
    `get_value(index-or-key)` like every sequence -/
def mergeGetItem {α : Type} (xss : List (List α)) (key : Val α) : Option α :=
  match indexOf key (some (xss.map List.length).sum) with
  | some idx => mergeGet xss idx
  | Option.none =>
    match valUsize key with
    | some n => mergeGet xss n
    | Option.none => Option.none

end MJ.Sub
