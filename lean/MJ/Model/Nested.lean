/-!
# Nested evaluations: what is saved, what is given back (C05)

Hand transcription of the wrappers around a nested run of the interpreter:

* `State::with_execution_state` (`vm/state.rs`): saves instructions, auto-escape mode, current block
  and — depending on the `BlockState` — the frame stack depth (`Keep`, `Replace`) and the block
  table / loaded templates (`Isolate`: checkpoint, `Replace`: swapped out); runs the closure; gives
  everything back **without looking at the result** (`let rv = f(self); … restore …; rv`).
* `Executor::eval_macro` (`vm/mod.rs`, reached through `Macro::call`, `State::call_macro`,
  `Value::call`): swaps the whole context for a pooled macro context, runs the body with
  `BlockState::Isolate`, swaps the caller's context back, then returns the result.
* `Executor::call_block` (`CallBlock`, `State::render_block`): `BlockState::Keep`, pushes a frame
  inside the closure.
* `Executor::perform_super`: advances the block cursor, pushes a frame, optionally begins a capture,
  `BlockState::Keep`, pops the frame, moves the cursor back, *then* looks at the result.
* `Executor::perform_include`: adds the include cost to the depth, takes the closure of the top
  frame, `BlockState::Replace`, puts the closure back, subtracts the cost, *then* looks at the result.

The nested run itself (`Body`) is a parameter: any function of the state and the output.  What the
theorems need from it is stated as hypotheses in `MJ/Props/C05.lean` (it only pushes frames on top of
the ones it found — which is what `checkCert_sound` establishes for certified streams — and block
stacks only grow).

Frames are identities (contents are not modelled: an include deliberately shares the scope of the
includer), instructions / templates / block names are numbers.
-/
namespace MJ.Nested

structure Frame where
  id : Nat
  /-- `Frame::closure` -/
  closure : Option Nat
  deriving DecidableEq, Repr

/-- `BlockStack`: the instructions of a block at every template level and the `super()` cursor -/
structure BlockStack where
  instrs : List Nat
  depth : Nat
  deriving DecidableEq, Repr

/-- the fields of `State` (+ its `Context`) that a nested evaluation works on -/
structure St where
  /-- `Context::stack`, top first -/
  frames : List Frame
  /-- `Context::outer_stack_depth` -/
  outerDepth : Nat
  instructions : Nat
  autoEscape : Nat
  currentBlock : Option Nat
  blocks : Nat → Option BlockStack
  /-- `loaded_templates` -/
  loaded : List Nat
  /-- size of `macro_context_pool` (bookkeeping, not part of the restored state) -/
  pool : Nat

/-- an `Output`: depth of its capture stack -/
structure Out where
  caps : Nat
  deriving DecidableEq, Repr

inductive Res where
  | ok
  | err
  deriving DecidableEq, Repr

/-- a nested run of the interpreter on the shared state and output -/
abbrev Body := St → Out → Res × St × Out

inductive Mode where
  | keep
  | isolate
  | replace (blocks : Nat → Option BlockStack)

/-- `Context::restore_stack_depth`: `Vec::truncate` keeps the bottom `d` frames -/
def truncate (fs : List Frame) (d : Nat) : List Frame := fs.drop (fs.length - d)

/-- restoring an `Isolated` checkpoint: entries that were not there are removed, the others are
cut back to the recorded number of levels and get the recorded cursor -/
def restoreIsolated (saved cur : Nat → Option BlockStack) : Nat → Option BlockStack :=
  fun n =>
    match saved n with
    | none => none
    | some b => (cur n).map (fun c => { instrs := c.instrs.take b.instrs.length, depth := b.depth })

/-- what the nested run sees as block table / loaded templates -/
def enterBlocks : Mode → (Nat → Option BlockStack) → (Nat → Option BlockStack)
  | .replace b, _ => b
  | .keep, cur => cur
  | .isolate, cur => cur

def enterLoaded : Mode → List Nat → List Nat
  | .replace _, _ => []          -- an included template starts its own inheritance chain
  | .keep, l => l
  | .isolate, l => l

/-- `stack_depth` is only recorded (and restored) for `Keep` and `Replace` -/
def exitFrames : Mode → Nat → List Frame → List Frame
  | .isolate, _, fs => fs
  | .keep, d, fs => truncate fs d
  | .replace _, d, fs => truncate fs d

def exitBlocks : Mode → (Nat → Option BlockStack) → (Nat → Option BlockStack) → (Nat → Option BlockStack)
  | .keep, _, cur => cur
  | .isolate, saved, cur => restoreIsolated saved cur
  | .replace _, saved, _ => saved

def exitLoaded : Mode → List Nat → List Nat → List Nat
  | .keep, _, cur => cur
  | .isolate, saved, _ => saved
  | .replace _, saved, _ => saved

/-- `State::with_execution_state`: the restore does not depend on the result of `f` -/
def withExec (mode : Mode) (instr ae : Nat) (cb : Option Nat) (f : Body) (s : St) (o : Out) :
    Res × St × Out :=
  let s1 : St :=
    { s with
      instructions := instr, autoEscape := ae, currentBlock := cb,
      blocks := enterBlocks mode s.blocks, loaded := enterLoaded mode s.loaded }
  let res := f s1 o
  let s2 := res.2.1
  (res.1,
   { s2 with
     frames := exitFrames mode s.frames.length s2.frames,
     instructions := s.instructions, autoEscape := s.autoEscape, currentBlock := s.currentBlock,
     blocks := exitBlocks mode s.blocks s2.blocks,
     loaded := exitLoaded mode s.loaded s2.loaded },
   res.2.2)

/-- `Context::depth` -/
def St.depth (s : St) : Nat := s.outerDepth + s.frames.length

/-- `Executor::eval_macro` (after the lookup of the macro's instructions).  `base` / `closureF` are
the two frames of the macro context.  The macro writes into the `Output` that `Macro::call` created
for it. -/
def evalMacro (instr cost limit : Nat) (base closureF : Frame) (body : Body) (s : St) : Res × St :=
  let newOuter := s.depth + cost
  -- `ctx.incr_depth(..)` fails: the pooled context goes back, the state was not touched
  if newOuter + 2 > limit then (.err, s) else
  let s1 : St := { s with frames := [closureF, base], outerDepth := newOuter }
  let res := withExec .isolate instr s.autoEscape none body s1 ⟨0⟩
  -- `mem::replace(&mut state.ctx, old_ctx)` — before the result is looked at
  (res.1, { res.2.1 with frames := s.frames, outerDepth := s.outerDepth, pool := res.2.1.pool + 1 })

/-- the same with the nested run wrapped in `ok!(..)`: on `Err` the function returns before the
caller's context is put back (what a well-meant tidy-up would do) -/
def evalMacroEarlyReturn (instr cost limit : Nat) (base closureF : Frame) (body : Body) (s : St) :
    Res × St :=
  let newOuter := s.depth + cost
  if newOuter + 2 > limit then (.err, s) else
  let s1 : St := { s with frames := [closureF, base], outerDepth := newOuter }
  let res := withExec .isolate instr s.autoEscape none body s1 ⟨0⟩
  match res.1 with
  | .err => (.err, res.2.1)
  | .ok => (.ok, { res.2.1 with frames := s.frames, outerDepth := s.outerDepth, pool := res.2.1.pool + 1 })

/-- `Macro::call` / `State::call_macro` / `Value::call` on a macro: own `Output` -/
def macroCall (instr cost limit : Nat) (base closureF : Frame) (body : Body) (s : St) (o : Out) :
    Res × St × Out :=
  let res := evalMacro instr cost limit base closureF body s
  (res.1, res.2, o)

/-- the closure `call_block` hands to `with_execution_state`:
`ok!(state.ctx.push_frame(..)); Self::eval_state(state, out)` — the frame is taken off again when
the depth check of `push_frame` fails -/
def pushThen (limit : Nat) (newFrame : Frame) (body : Body) : Body :=
  fun s1 o1 =>
    if s1.depth + 1 > limit then (.err, s1, o1)
    else body { s1 with frames := newFrame :: s1.frames } o1

/-- `Executor::call_block`; `required` = the block is a required block without an override -/
def callBlock (name limit : Nat) (required : Bool) (newFrame : Frame) (body : Body) (s : St) (o : Out) :
    Res × St × Out :=
  match s.blocks name with
  | none => (.err, s, o)
  | some bs =>
    if required then (.err, s, o) else
    withExec .keep (bs.instrs.getD bs.depth 0) s.autoEscape (some name) (pushThen limit newFrame body) s o

/-- `State::render_block`: own `Output` -/
def renderBlock (name limit : Nat) (required : Bool) (newFrame : Frame) (body : Body) (s : St) (o : Out) :
    Res × St × Out :=
  let res := callBlock name limit required newFrame body s ⟨0⟩
  (res.1, res.2.1, o)

def update (f : Nat → Option BlockStack) (n : Nat) (b : Option BlockStack) : Nat → Option BlockStack :=
  fun m => if m = n then b else f m

/-- `Executor::perform_super` -/
def performSuper (limit : Nat) (capture : Bool) (newFrame : Frame) (body : Body) (s : St) (o : Out) :
    Res × St × Out :=
  match s.currentBlock with
  | none => (.err, s, o)
  | some name =>
    match s.blocks name with
    | none => (.err, s, o)
    | some bs =>
      -- `BlockStack::push`
      if ¬ (bs.depth + 1 < bs.instrs.length) then (.err, s, o) else
      -- `push_frame` fails: the cursor is moved back
      if s.depth + 1 > limit then (.err, s, o) else
      let s1 : St :=
        { s with
          blocks := update s.blocks name (some { bs with depth := bs.depth + 1 }),
          frames := newFrame :: s.frames }
      let o1 : Out := if capture then ⟨o.caps + 1⟩ else o
      let res := withExec .keep (bs.instrs.getD (bs.depth + 1) 0) s.autoEscape s.currentBlock body s1 o1
      let s3 := res.2.1
      -- `state.ctx.pop_frame(); state.blocks.get_mut(name).unwrap().pop();` — before `ok!(rv…)`
      let s4 : St :=
        { s3 with
          frames := s3.frames.tail,
          blocks := update s3.blocks name ((s3.blocks name).map (fun b => { b with depth := b.depth - 1 })) }
      match res.1 with
      | .err => (.err, s4, res.2.2)               -- the capture is not ended on this path
      | .ok => (.ok, s4, if capture then ⟨res.2.2.caps - 1⟩ else res.2.2)

def setTopClosure (c : Option Nat) : List Frame → List Frame
  | [] => []
  | f :: fs => { f with closure := c } :: fs

def topClosure : List Frame → Option Nat
  | [] => none
  | f :: _ => f.closure

/-- `Executor::perform_include`, once the template was found -/
def performInclude (instr tmplAe cost limit : Nat) (newBlocks : Nat → Option BlockStack) (body : Body)
    (s : St) (o : Out) : Res × St × Out :=
  -- `ok!(state.ctx.incr_depth(INCLUDE_RECURSION_COST))`
  if s.depth + cost > limit then (.err, s, o) else
  let old := topClosure s.frames
  let s1 : St := { s with outerDepth := s.outerDepth + cost, frames := setTopClosure none s.frames }
  let res := withExec (.replace newBlocks) instr tmplAe s.currentBlock body s1 o
  let s3 := res.2.1
  -- `reset_closure(old_closure); decr_depth(..)` — before `ok!(rv.map_err(..))`
  (res.1, { s3 with frames := setTopClosure old s3.frames, outerDepth := s3.outerDepth - cost }, res.2.2)

/-- what the lookup of one candidate name of an `include` yields -/
inductive Choice where
  /-- the name is not a string: `Err` -/
  | notString
  /-- `TemplateNotFound`: remembered in `templates_tried`, next candidate -/
  | missing
  /-- any other loader error: `Err` -/
  | loadError
  /-- the template exists -/
  | found (instr tmplAe : Nat) (newBlocks : Nat → Option BlockStack) (body : Body)

/-- the whole `Executor::perform_include`: the candidates are tried in order, the first that exists
is evaluated (`performInclude`: the closure of the including frame is detached only around that
evaluation); if none exists the statement is an error or — with `ignore missing` / an empty list —
does nothing at all -/
def includeStmt (cost limit : Nat) (ignoreMissing : Bool) :
    List Choice → Nat → St → Out → Res × St × Out
  | [], tried, s, o => if tried > 0 ∧ ignoreMissing = false then (.err, s, o) else (.ok, s, o)
  | .notString :: _, _, s, o => (.err, s, o)
  | .loadError :: _, _, s, o => (.err, s, o)
  | .missing :: rest, tried, s, o => includeStmt cost limit ignoreMissing rest (tried + 1) s o
  | .found instr ae nb body :: _, _, s, o => performInclude instr ae cost limit nb body s o

/-- the same with `take_closure()` hoisted in front of the loop over the candidates while
`reset_closure(..)` stays behind the evaluation of a found template: every way out that does not
evaluate a template leaves the closure of the including frame detached -/
def includeStmtHoisted (cost limit : Nat) (ignoreMissing : Bool) (choices : List Choice)
    (s : St) (o : Out) : Res × St × Out :=
  let old := topClosure s.frames
  let s0 : St := { s with frames := setTopClosure none s.frames }
  let rec go : List Choice → Nat → Res × St × Out
    | [], tried => if tried > 0 ∧ ignoreMissing = false then (.err, s0, o) else (.ok, s0, o)
    | .notString :: _, _ => (.err, s0, o)
    | .loadError :: _, _ => (.err, s0, o)
    | .missing :: rest, tried => go rest (tried + 1)
    | .found instr ae nb body :: _, _ =>
      if s0.depth + cost > limit then (.err, s0, o) else
      let s1 : St := { s0 with outerDepth := s0.outerDepth + cost }
      let res := withExec (.replace nb) instr ae s.currentBlock body s1 o
      (res.1, { res.2.1 with frames := setTopClosure old res.2.1.frames,
                             outerDepth := res.2.1.outerDepth - cost }, res.2.2)
  go choices 0

/-- `State::with_auto_escape` (vm/state.rs; caller: the builtin `escape` filter when the template's
format is a custom one): nothing to do when the mode is already the wanted one, otherwise the mode
is replaced, `f` runs, and the old mode is put back — unconditionally, before the result is
returned -/
def withAutoEscape (ae : Nat) (f : Body) (s : St) (o : Out) : Res × St × Out :=
  if s.autoEscape = ae then f s o
  else
    let res := f { s with autoEscape := ae } o
    (res.1, { res.2.1 with autoEscape := s.autoEscape }, res.2.2)

/-- the single-exit variant whose restore is guarded by `old == auto_escape`: the mode is put back
exactly when there is nothing to put back -/
def withAutoEscapeInverted (ae : Nat) (f : Body) (s : St) (o : Out) : Res × St × Out :=
  let res := f { s with autoEscape := ae } o
  (res.1, (if s.autoEscape = ae then { res.2.1 with autoEscape := s.autoEscape } else res.2.1), res.2.2)

/-- the restored part of the state -/
def Same (a b : St) : Prop :=
  a.frames = b.frames ∧ a.outerDepth = b.outerDepth ∧ a.instructions = b.instructions ∧
  a.autoEscape = b.autoEscape ∧ a.currentBlock = b.currentBlock ∧ a.blocks = b.blocks ∧
  a.loaded = b.loaded

end MJ.Nested
