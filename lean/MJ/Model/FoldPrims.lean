import MJ.Model.Fold
import MJ.Gen.Tables
/-!
# A concrete instance of the shared value operations (for the C04 driver)

The C04 theorems hold for every `Prims`.  To *run* the model against the real engine the driver
needs one concrete instance: a transcription of the parts of `value/ops.rs`, `value/mod.rs`,
`filters.rs` and `tests.rs` that the fragment reaches (`coerce`, `add … pow`, `neg`,
`string_concat`, `contains`, `PartialEq`, `Ord`, `is_true`, `Display`/`Debug` including the text of
floats and python style string escapes, `ValueMap` insertion, `get_item_opt`, `get_attr_fast`,
`slice`, a few filters and tests).

Floats are IEEE-754 binary64 **bit patterns**; every operation is computed exactly on
`(sign, mantissa, exponent)` with integers and rounded once to nearest-even, so the model does not
depend on the host's floating point.  What is not transcribed (`powf` with inexact results,
integral floats used as indexes/repeat counts, filters outside the list) is recognised by the
`supp*` predicates; the driver reports such cases as `unmodelled` instead of comparing them.
-/
namespace MJ.Fold.Conc
open MJ.Fold

def i128Max : Int := 170141183460469231731687303715884105727
def i128Min : Int := -170141183460469231731687303715884105728

/-- `int_as_value` of a checked `i128` result -/
def chk (n : Int) : Except Err V :=
  if i128Min ≤ n ∧ n ≤ i128Max then .ok (.int n) else .error .invalidOperation

def bad : Except Err V := .error .invalidOperation

/-! ## binary64 on bit patterns -/

inductive Fl where
  | fin (neg : Bool) (m : Nat) (e : Int)   -- (-1)^neg * m * 2^e
  | inf (neg : Bool)
  | nan

def nanBits : Nat := 0x7ff8000000000000
def signBit : Nat := 9223372036854775808
def two52 : Nat := 4503599627370496
def two53 : Nat := 9007199254740992

def decodeF (bits : Nat) : Fl :=
  let neg := decide (bits / signBit % 2 = 1)
  let ex := (bits / two52) % 2048
  let fr := bits % two52
  if ex = 2047 then (if fr ≠ 0 then .nan else .inf neg)
  else if ex = 0 then .fin neg fr (-1074)
  else .fin neg (fr + two52) ((ex : Int) - 1075)

/-- `m >> s` rounded to nearest, ties to even -/
def shrRNE (m s : Nat) : Nat :=
  if s = 0 then m else
  let q := m / 2 ^ s
  let r := m % 2 ^ s
  let half := 2 ^ (s - 1)
  if r > half ∨ (r = half ∧ q % 2 = 1) then q + 1 else q

/-- round `(-1)^neg * m * 2^e` to the nearest binary64 (ties to even, overflow to infinity) -/
def encodeFin (neg : Bool) (m : Nat) (e : Int) : Nat :=
  let s := if neg then signBit else 0
  if m = 0 then s else
  let len : Int := (Nat.log2 m + 1 : Nat)
  let top := e + len - 1            -- exponent of the leading bit
  if top < -1022 then
    -- subnormal range: units of 2^-1074
    let sh := e + 1074
    let q := if sh ≥ 0 then m * 2 ^ sh.toNat else shrRNE m (-sh).toNat
    s + q
  else
    let sh := len - 53
    let sig := if sh ≤ 0 then m * 2 ^ (-sh).toNat else shrRNE m sh.toNat
    let (sig, top) := if sig = two53 then (two52, top + 1) else (sig, top)
    if top > 1023 then s + 0x7ff0000000000000
    else s + (top + 1023).toNat * two52 + (sig - two52)

def encodeF : Fl → Nat
  | .nan => nanBits
  | .inf neg => (if neg then signBit else 0) + 0x7ff0000000000000
  | .fin neg m e => encodeFin neg m e

def Fl.isNan : Fl → Bool
  | .nan => true
  | _ => false

def Fl.neg : Fl → Fl
  | .fin s m e => .fin (!s) m e
  | .inf s => .inf (!s)
  | .nan => .nan

def sInt (neg : Bool) (m : Nat) : Int := if neg then -(m : Int) else m

def addFl : Fl → Fl → Fl
  | .nan, _ | _, .nan => .nan
  | .inf s, .inf t => if s = t then .inf s else .nan
  | .inf s, _ => .inf s
  | _, .inf t => .inf t
  | .fin s1 m1 e1, .fin s2 m2 e2 =>
    let e := min e1 e2
    let sum := sInt s1 (m1 * 2 ^ (e1 - e).toNat) + sInt s2 (m2 * 2 ^ (e2 - e).toNat)
    if sum = 0 then .fin (s1 && s2) 0 e else .fin (decide (sum < 0)) sum.natAbs e

def mulFl : Fl → Fl → Fl
  | .nan, _ | _, .nan => .nan
  | .inf s, .inf t => .inf (s != t)
  | .inf s, .fin t m _ | .fin t m _, .inf s => if m = 0 then .nan else .inf (s != t)
  | .fin s1 m1 e1, .fin s2 m2 e2 => .fin (s1 != s2) (m1 * m2) (e1 + e2)

def divFl : Fl → Fl → Fl
  | .nan, _ | _, .nan => .nan
  | .inf _, .inf _ => .nan
  | .inf s, .fin t _ _ => .inf (s != t)
  | .fin s _ _, .inf t => .fin (s != t) 0 0
  | .fin s1 m1 e1, .fin s2 m2 e2 =>
    if m2 = 0 then (if m1 = 0 then .nan else .inf (s1 != s2))
    else if m1 = 0 then .fin (s1 != s2) 0 0
    else
      -- at least 64 quotient bits plus a sticky bit: rounding it equals rounding the exact quotient
      let k := 64 + Nat.log2 m2 + 1
      let n := m1 * 2 ^ k
      let q := n / m2
      let sticky := if n % m2 = 0 then 0 else 1
      .fin (s1 != s2) (2 * q + sticky) (e1 - e2 - k - 1)

/-- C `fmod` (Rust `%` on `f64`): exact -/
def fmodFl : Fl → Fl → Fl
  | .nan, _ | _, .nan => .nan
  | .inf _, _ => .nan
  | .fin s m e, .inf _ => .fin s m e
  | .fin s1 m1 e1, .fin _ m2 e2 =>
    if m2 = 0 then .nan
    else if m1 = 0 then .fin s1 0 e1
    else
      let e := min e1 e2
      let r := (m1 * 2 ^ (e1 - e).toNat) % (m2 * 2 ^ (e2 - e).toNat)
      .fin s1 r e

/-- `f64::trunc` -/
def truncFl : Fl → Fl
  | .fin s m e => if e ≥ 0 then .fin s m e else .fin s (m / 2 ^ (-e).toNat) 0
  | x => x

/-- `f64::round` (half away from zero) -/
def roundFl : Fl → Fl
  | .fin s m e =>
    if e ≥ 0 then .fin s m e else
    let d := 2 ^ (-e).toNat
    .fin s (if 2 * (m % d) ≥ d then m / d + 1 else m / d) 0
  | x => x

def absFl : Fl → Fl
  | .fin _ m e => .fin false m e
  | .inf _ => .inf false
  | .nan => .nan

/-- `x < 0.0` -/
def Fl.ltZero : Fl → Bool
  | .fin s m _ => s && m != 0
  | .inf s => s
  | .nan => false

/-- `x > 0.0` -/
def Fl.gtZero : Fl → Bool
  | .fin s m _ => !s && m != 0
  | .inf s => !s
  | .nan => false

def Fl.isFinite : Fl → Bool
  | .fin .. => true
  | _ => false

/-- operations are "decode, compute exactly, round once" -/
def rnd (x : Fl) : Fl := decodeF (encodeF x)

def fAdd (a b : Nat) : Nat := encodeF (addFl (decodeF a) (decodeF b))
def fSub (a b : Nat) : Nat := encodeF (addFl (decodeF a) (decodeF b).neg)
def fMul (a b : Nat) : Nat := encodeF (mulFl (decodeF a) (decodeF b))
def fDiv (a b : Nat) : Nat := encodeF (divFl (decodeF a) (decodeF b))
def fMod (a b : Nat) : Nat := encodeF (fmodFl (decodeF a) (decodeF b))

/-- `f64::rem_euclid`: `let r = a % b; if r < 0.0 { r + b.abs() } else { r }` -/
def fRemEuclid (a b : Nat) : Nat :=
  let r := fMod a b
  if (decodeF r).ltZero then encodeF (addFl (decodeF r) (absFl (decodeF b))) else r

/-- `f64::div_euclid` -/
def fDivEuclidStd (a b : Nat) : Nat :=
  let q := encodeF (truncFl (decodeF (fDiv a b)))
  if (decodeF (fMod a b)).ltZero then
    (if (decodeF b).gtZero then fSub q (encodeFin false 1 0) else fAdd q (encodeFin false 1 0))
  else q

/-- `ops::f64_div_euclid` -/
def fDivEuclid (a b : Nat) : Nat :=
  let q := encodeF (roundFl (decodeF (fDiv (fSub a (fRemEuclid a b)) b)))
  if (decodeF q).isFinite then q else fDivEuclidStd a b

/-- `n as f64` -/
def fOfInt (n : Int) : Nat := encodeFin (decide (n < 0)) n.natAbs 0

/-- the exactly representable cases of `powf` (x ** 0, 1 ** y, x ** n for a small positive integer
    n with an exact result); `none` = not transcribed -/
def fPow (a b : Nat) : Option Nat :=
  let one := encodeFin false 1 0
  match decodeF a, decodeF b with
  | _, .fin _ 0 _ => some one
  | .nan, _ | _, .nan => if a = one then some one else some nanBits
  | .fin s m e, .fin false n ne =>
    if a = one then some one else
    -- y a positive integer ≤ 64 ?
    let yInt : Option Nat :=
      if ne ≥ 0 then some (n * 2 ^ ne.toNat)
      else if n % 2 ^ (-ne).toNat = 0 then some (n / 2 ^ (-ne).toNat) else none
    match yInt with
    | some k =>
      if k ≤ 64 then
        let bits := encodeF (Fl.fin (s && k % 2 = 1) (m ^ k) (e * k))
        -- exact?
        match decodeF bits with
        | .fin _ m' e' =>
          let e0 := min (e * k) e'
          if m ^ k * 2 ^ (e * k - e0).toNat = m' * 2 ^ (e' - e0).toNat then some bits else none
        | _ => none
      else none
    | none => none
  | _, _ => if a = one then some one else none

/-! ### text of floats (`impl Display for f64`, `impl Debug for f64`: shortest round-trip digits) -/

/-- compare `d * 10^p` with `num / den` -/
def cmpDec (d : Nat) (p : Int) (num den : Nat) : Ordering :=
  if p ≥ 0 then compare (d * 10 ^ p.toNat * den) num else compare (d * den) (num * 10 ^ (-p).toNat)

/-- `floor(log10(num/den))` for a positive rational -/
def floorLog10 (num den : Nat) : Int :=
  let est : Int := (((Nat.log2 num : Int) - (Nat.log2 den : Int)) * 30103) / 100000
  -- the estimate is within ±2; fix it up
  let fix (n : Int) : Int :=
    -- largest n' in [n-3, n+3] with 10^n' ≤ x
    let cands := [3, 2, 1, 0, -1, -2, -3].map (fun (d : Int) => n + d)
    (cands.find? fun c => cmpDec 1 c num den != .gt).getD (n - 4)
  fix est

/-- shortest decimal `(digits, p)` with `digits * 10^p` inside the rounding interval of the finite
    positive float with decoded mantissa `m`, exponent `e` (closest to it among the shortest) -/
def shortest (m : Nat) (e : Int) : Nat × Int :=
  let k := if e ≥ 2 then 0 else (2 - e).toNat
  let sc := (e + k).toNat                       -- ≥ 2
  let x := m * 2 ^ sc
  let den := 2 ^ k
  let hi := x + 2 ^ (sc - 1)
  -- below a power of two the gap is half as large (unless it is the smallest normal/subnormal)
  let lo := if m = two52 ∧ e > -1074 then x - 2 ^ (sc - 2) else x - 2 ^ (sc - 1)
  let incl := m % 2 = 0
  let inside (d : Nat) (p : Int) : Bool :=
    let a := cmpDec d p lo den
    let b := cmpDec d p hi den
    (a == .gt || (incl && a == .eq)) && (b == .lt || (incl && b == .eq))
  let n10 := floorLog10 x den
  let rec go (fuel : Nat) (kd : Nat) : Nat × Int :=
    match fuel with
    | 0 => (m, e)  -- unreachable: 17 digits always round-trip
    | fuel + 1 =>
      let p : Int := n10 - (kd - 1 : Nat)
      -- floor(x / 10^p)
      let dlow := if p ≥ 0 then x / (den * 10 ^ p.toNat) else (x * 10 ^ (-p).toNat) / den
      let dhigh := dlow + 1
      let okl := inside dlow p
      let okh := inside dhigh p
      if okl ∧ okh then
        -- closer one: compare (x - dlow*10^p) with (dhigh*10^p - x)  ⇔  2x vs (dlow+dhigh)*10^p
        match cmpDec (dlow + dhigh) p (2 * x) den with
        | .gt => (dlow, p)
        | .lt => (dhigh, p)
        -- an exact tie goes UP (`flt2dec` dragon `format_shortest`: round up iff `2 * remainder >= scale`),
        -- e.g. 900719925474099.25 prints as 900719925474099.3
        | .eq => (dhigh, p)
      else if okl then (dlow, p)
      else if okh then (dhigh, p)
      else go fuel (kd + 1)
  let (d, p) := go 17 1
  -- strip trailing zeros
  let rec strip (fuel : Nat) (d : Nat) (p : Int) : Nat × Int :=
    match fuel with
    | 0 => (d, p)
    | fuel + 1 => if d ≠ 0 ∧ d % 10 = 0 then strip fuel (d / 10) (p + 1) else (d, p)
  strip 20 d p

def zeros (n : Nat) : String := String.ofList (List.replicate n '0')

/-- digits and decimal point position → plain decimal (`flt2dec::digits_to_dec_str`); `minFrac` is
    the minimal number of fractional digits -/
def decStr (d : Nat) (p : Int) (minFrac : Nat) : String :=
  let ds := toString d
  let n := ds.length
  let exp : Int := p + n          -- value = 0.ds * 10^exp
  if exp ≤ 0 then "0." ++ zeros (-exp).toNat ++ ds
  else if exp ≥ n then ds ++ zeros (exp.toNat - n) ++ (if minFrac > 0 then "." ++ zeros minFrac else "")
  else String.ofList (ds.toList.take exp.toNat) ++ "." ++ String.ofList (ds.toList.drop exp.toNat)

/-- `d.ddd e<exp>` (`flt2dec::digits_to_exp_str`, lower case) -/
def expStr (d : Nat) (p : Int) : String :=
  let ds := toString d
  let n := ds.length
  let exp : Int := p + n - 1
  let mant := if n = 1 then ds else String.ofList (ds.toList.take 1) ++ "." ++ String.ofList (ds.toList.drop 1)
  mant ++ "e" ++ toString exp

/-- `Display for Value` on `F64` -/
def dispFloat (bits : Nat) : String :=
  match decodeF bits with
  | .nan => "NaN"
  | .inf s => if s then "-inf" else "inf"
  | .fin s m e =>
    let body :=
      if m = 0 then "0"
      else let (d, p) := shortest m e; decStr d p 0
    let body := if body.toList.contains '.' then body else body ++ ".0"
    (if s then "-" else "") ++ body

/-- `Debug for f64` (`float_to_general_debug`) -/
def reprFloat (bits : Nat) : String :=
  match decodeF bits with
  | .nan => "NaN"
  | .inf s => if s then "-inf" else "inf"
  | .fin s m e =>
    let body :=
      if m = 0 then "0.0"
      else
        let (d, p) := shortest m e
        -- 1e-4 ≤ |x| < 1e16 → decimal, else exponential
        let n10 : Int := p + (toString d).length - 1
        if n10 ≥ 16 ∨ n10 < -4 then expStr d p else decStr d p 1
    (if s then "-" else "") ++ body

/-! ## numbers -/

/-- `i128::try_from(Value)` on the kinds `coerce` passes to it -/
def asI128 : V → Option Int
  | .bool b => some (if b then 1 else 0)
  | .int n => if n ≤ i128Max then some n else none
  | _ => none

/-- `as_f64(value, lossy = true)` as a bit pattern -/
def asF64 : V → Option Nat
  | .bool b => some (if b then encodeFin false 1 0 else 0)
  | .int n => some (fOfInt n)
  | .float b => some b
  | _ => none

inductive Co where
  | i (a b : Int)
  | f (a b : Nat)
  | s (a b : String)

/-- `coerce(a, b, lossy = true)` -/
def coerce (a b : V) : Option Co :=
  match a, b with
  | .str x, .str y => some (.s x y)
  | .float x, b => (asF64 b).map fun y => .f x y
  | a, .float y => (asF64 a).map fun x => .f x y
  | a, b => match asI128 a, asI128 b with
    | some x, some y => some (.i x y)
    | _, _ => none

def isStr : V → Bool
  | .str _ => true
  | _ => false

def isSeq : V → Bool
  | .list _ | .tuple _ => true
  | _ => false

def add (a b : V) : Except Err V :=
  match a, b with
  | .tuple xs, .tuple ys => .ok (.tuple (xs ++ ys))
  | .tuple _, _ | _, .tuple _ => bad
  | .list xs, .list ys => .ok (.list (xs ++ ys))
  | a, b => match coerce a b with
    | some (.i x y) => chk (x + y)
    | some (.f x y) => .ok (.float (fAdd x y))
    | some (.s x y) => .ok (.str (x ++ y))
    | none => bad

def sub (a b : V) : Except Err V :=
  match coerce a b with
  | some (.i x y) => chk (x - y)
  | some (.f x y) => .ok (.float (fSub x y))
  | _ => bad

/-- the integer an integral float denotes (`val as i64 as f64 == val`); magnitudes from 2^53 on are
    not transcribed (`bigIntegralFloat`) -/
def floatAsInt (bits : Nat) : Option Int :=
  match decodeF bits with
  | .fin s m e =>
    if e ≥ 0 then some (sInt s (m * 2 ^ e.toNat))
    else if m % 2 ^ (-e).toNat = 0 then some (sInt s (m / 2 ^ (-e).toNat)) else none
  | _ => none

def bigIntegralFloat : V → Bool
  | .float b => match floatAsInt b with
    | some n => decide (n.natAbs ≥ 9007199254740992)
    | none => false
  | _ => false

/-- `Value::as_usize` -/
def asUsize : V → Option Nat
  | .bool b => some (if b then 1 else 0)
  | .int n => if 0 ≤ n ∧ n < 18446744073709551616 then some n.toNat else none
  | .float b => match floatAsInt b with
    | some n => if 0 ≤ n then some n.toNat else none
    | none => none
  | _ => none

def repeatList (xs : List V) : Nat → List V
  | 0 => []
  | n + 1 => xs ++ repeatList xs n

/-- `repeat_iterable`: the item count is limited like a repeated string -/
def repeatSeq (mk : List V → V) (xs : List V) (n : V) (tuple : Bool) : Except Err V :=
  match asUsize n with
  | none => bad
  | some n =>
    if xs.length * n ≤ MJ.Gen.maxRepeatedStringLen ∧ (!tuple ∨ xs.length * n * 24 ≤ MJ.Gen.maxRepeatedStringLen) then
      .ok (mk (if xs.isEmpty then [] else repeatList xs n))
    else bad

def mul (a b : V) : Except Err V :=
  match a, b with
  | .str s, n | n, .str s =>
    match asUsize n with
    | none => bad
    | some n => if s.utf8ByteSize * n ≤ MJ.Gen.maxRepeatedStringLen then .ok (.str (String.join (List.replicate n s))) else bad
  | .list xs, n | n, .list xs => repeatSeq .list xs n false
  | .tuple xs, n | n, .tuple xs => repeatSeq .tuple xs n true
  | a, b => match coerce a b with
    | some (.i x y) => chk (x * y)
    | some (.f x y) => .ok (.float (fMul x y))
    | _ => bad

def div (a b : V) : Except Err V :=
  match asF64 a, asF64 b with
  | some x, some y => .ok (.float (fDiv x y))
  | _, _ => bad

/-- `i128::checked_div_euclid` / `f64_div_euclid` -/
def fdiv (a b : V) : Except Err V :=
  match coerce a b with
  | some (.i x y) => if y = 0 then bad else chk (x / y)
  | some (.f x y) => .ok (.float (fDivEuclid x y))
  | _ => bad

/-- `i128::checked_rem_euclid` (with `x % -1 = 0`) / `f64::rem_euclid` -/
def rem (a b : V) : Except Err V :=
  match coerce a b with
  | some (.i x y) => if y = 0 then bad else chk (x % y)
  | some (.f x y) => .ok (.float (fRemEuclid x y))
  | _ => bad

/-- `u32::try_from(b)` then `i128::checked_pow` / `powf` (exact cases only) -/
def pow (a b : V) : Except Err V :=
  match coerce a b with
  | some (.i x y) =>
    -- `u32::try_from(b)` + `checked_pow`; since `fix:` 3a8d5c6 the bases 0, 1 and -1 also take exponents
    -- beyond `u32` (`if b % 2 == 0 { a * a } else { a }`); a negative exponent is an error for every base
    if y < 0 then bad
    else if x = 0 ∨ x = 1 ∨ x = -1 then
      .ok (.int (if y = 0 then 1 else if x = 0 then 0 else if x = 1 then 1 else if y % 2 = 0 then 1 else -1))
    else if 4294967295 < y ∨ 127 < y then bad
    else chk (x ^ y.toNat)
  | some (.f x y) => match fPow x y with
    | some r => .ok (.float r)
    | none => bad  -- not transcribed (see `suppBin`)
  | _ => bad

def neg : V → Except Err V
  | .float b => .ok (.float (if b < signBit then b + signBit else b - signBit))
  -- the pinned special case: the literal 2^127 negates to itself
  | .int n => if n = i128Max + 1 then .ok (.int n) else if n ≤ i128Max then chk (-n) else bad
  | _ => bad

/-! ### comparison (`coerce(.., lossy = false)` + `cmp_uncoercible_numbers`: exact) -/

def flOf : V → Option Fl
  | .bool b => some (.fin false (if b then 1 else 0) 0)
  | .int n => some (.fin (decide (n < 0)) n.natAbs 0)
  | .float b => some (decodeF b)
  | _ => none

def cmpFl : Fl → Fl → Option Ordering
  | .nan, _ | _, .nan => none
  | .inf s, .inf t => some (if s = t then .eq else if s then .lt else .gt)
  | .inf s, _ => some (if s then .lt else .gt)
  | _, .inf t => some (if t then .gt else .lt)
  | .fin s1 m1 e1, .fin s2 m2 e2 =>
    let e := min e1 e2
    some (compare (sInt s1 (m1 * 2 ^ (e1 - e).toNat)) (sInt s2 (m2 * 2 ^ (e2 - e).toNat)))

/-- `f64::total_cmp` fallback of `cmp_f64` when a NaN is involved: by the bit patterns as signed
    magnitudes (the canonical NaN is above +inf) -/
def totalKey (bits : Nat) : Int :=
  if bits < signBit then (bits : Int) else -((bits - signBit : Nat) : Int) - 1

/-- `Value::kind`, with iterables in the slot of sequences (`cmp_kind`) -/
def kindName : V → String
  | .undef | .silent => "Undefined" | .none => "None" | .bool _ => "Bool" | .int _ | .float _ => "Number"
  | .str _ => "String" | .list _ | .tuple _ => "Seq" | .map _ => "Map" | .other _ => "Plain"

/-- the position of the kind in `enum ValueKind` (derive(Ord)), as declared in the source -/
def kindRank (v : V) : Nat := MJ.Gen.valueKindOrder.idxOf (kindName v)

def cmpStr (a b : String) : Ordering := if a < b then .lt else if a = b then .eq else .gt

mutual
  /-- `Ord for Value` -/
  def cmpV : V → V → Ordering
    | .list xs, .list ys => cmpL xs ys
    | .tuple xs, .tuple ys => cmpL xs ys
    | .list _, .tuple _ => .lt
    | .tuple _, .list _ => .gt
    | .map xs, .map ys => cmpP xs ys
    | a, b =>
      if kindRank a ≠ kindRank b then compare (kindRank a) (kindRank b)
      else match a, b with
        | .str x, .str y => cmpStr x y
        | a, b => match flOf a, flOf b with
          | some x, some y => (cmpFl x y).getD .eq
          | _, _ => .eq
  def cmpL : List V → List V → Ordering
    | [], [] => .eq
    | [], _ :: _ => .lt
    | _ :: _, [] => .gt
    | x :: xs, y :: ys => match cmpV x y with
      | .eq => cmpL xs ys
      | o => o
  def cmpP : List (V × V) → List (V × V) → Ordering
    | [], [] => .eq
    | [], _ :: _ => .lt
    | _ :: _, [] => .gt
    | (k, v) :: xs, (k', v') :: ys => match cmpV k k' with
      | .eq => match cmpV v v' with
        | .eq => cmpP xs ys
        | o => o
      | o => o
end

/-- `BTreeMap::get` -/
def mapGet (k : V) : List (V × V) → Option V
  | [] => none
  | (k', v) :: rest => if cmpV k k' == .eq then some v else mapGet k rest

mutual
  /-- `PartialEq for Value` -/
  def eqV : V → V → Bool
    | .none, .none => true
    | .undef, .undef | .undef, .silent | .silent, .undef | .silent, .silent => true
    | .str x, .str y => x == y
    | .list xs, .list ys => eqL xs ys
    | .tuple xs, .tuple ys => eqL xs ys
    | .map xs, .map ys => xs.length == ys.length && eqM xs ys
    | a, b => match flOf a, flOf b with
      | some x, some y => cmpFl x y == some .eq
      | _, _ => false
  def eqL : List V → List V → Bool
    | [], [] => true
    | x :: xs, y :: ys => eqV x y && eqL xs ys
    | _, _ => false
  def eqM : List (V × V) → List (V × V) → Bool
    | [], _ => true
    | (k, v) :: xs, ys => (match mapGet k ys with
      | some v' => eqV v v'
      | none => false) && eqM xs ys
end

def isTrue : V → Bool
  | .bool b => b
  | .int n => n != 0
  | .float b => b % signBit != 0 -- x != 0.0 (NaN is true)
  | .str s => !s.isEmpty
  | .list xs | .tuple xs => !xs.isEmpty
  | .map xs => !xs.isEmpty
  | _ => false

/-- `ValueMap::insert` on a `BTreeMap`: an equal key keeps the old key and takes the new value -/
def mapInsert (k v : V) : List (V × V) → List (V × V)
  | [] => [(k, v)]
  | (k', v') :: rest => match cmpV k k' with
    | .lt => (k, v) :: (k', v') :: rest
    | .eq => (k', v) :: rest
    | .gt => (k', v') :: mapInsert k v rest

def mkMap (ps : List (V × V)) : V := .map (ps.foldl (fun acc p => mapInsert p.1 p.2 acc) [])

/-! ### text -/

def hexDigitLower (n : Nat) : Char := if n < 10 then Char.ofNat (48 + n) else Char.ofNat (87 + n)

def hexPad (n width : Nat) : String :=
  String.ofList ((List.range width).reverse.map fun i => hexDigitLower ((n / 16 ^ i) % 16))

/-- `char::is_control` (general category Cc) -/
def isControl (c : Char) : Bool := c.val < 32 || (127 ≤ c.val && c.val < 160)

/-- `python_string_debug_fmt` -/
def pyRepr (s : String) : String :=
  let cs := s.toList
  let quote : Char := if cs.contains '\'' && !cs.contains '"' then '"' else '\''
  let esc (c : Char) : String :=
    if c = '\'' ∧ quote = '\'' then "\\'"
    else if c = '"' ∧ quote = '"' then "\\\""
    else if c = '\\' then "\\\\"
    else if c = '\n' then "\\n"
    else if c = '\r' then "\\r"
    else if c = '\t' then "\\t"
    else if isControl c then
      (if c.val ≤ 0xff then "\\x" ++ hexPad c.val.toNat 2
       else if c.val ≤ 0xffff then "\\u" ++ hexPad c.val.toNat 4
       else "\\U" ++ hexPad c.val.toNat 8)
    else String.singleton c
  String.singleton quote ++ String.join (cs.map esc) ++ String.singleton quote

mutual
  /-- `Debug for Value` -/
  def reprV : V → String
    | .undef | .silent => "undefined"
    | .none => "None"
    | .bool b => if b then "True" else "False"
    | .int n => toString n
    | .float b => reprFloat b
    | .str s => pyRepr s
    | .list xs => "[" ++ reprL xs ++ "]"
    | .tuple xs => "(" ++ reprL xs ++ (if xs.length == 1 then "," else "") ++ ")"
    | .map xs => "{" ++ reprP xs ++ "}"
    | .other _ => "?"
  def reprL : List V → String
    | [] => ""
    | [x] => reprV x
    | x :: xs => reprV x ++ ", " ++ reprL xs
  def reprP : List (V × V) → String
    | [] => ""
    | [(k, v)] => reprV k ++ ": " ++ reprV v
    | (k, v) :: xs => reprV k ++ ": " ++ reprV v ++ ", " ++ reprP xs
end

/-- `Display for Value` -/
def dispV : V → String
  | .undef | .silent => ""
  | .str s => s
  | .float b => dispFloat b
  | v => reprV v

def concat (a b : V) : V := .str (dispV a ++ dispV b)

def isInfix (p : List Char) : List Char → Bool
  | [] => p.isEmpty
  | c :: cs => p.isPrefixOf (c :: cs) || isInfix p cs

def contains (container item : V) : Except Err V :=
  match container with
  | .undef | .silent => .ok (.bool false)
  | .str s => .ok (.bool (isInfix (dispV item).toList s.toList))
  | .list xs | .tuple xs => .ok (.bool (xs.any fun x => eqV x item))
  | .map xs => .ok (.bool (mapGet item xs).isSome)
  | _ => bad

/-! ### item access and slices -/

/-- `i64::try_from(Value)` -/
def asI64 : V → Option Int
  | .bool b => some (if b then 1 else 0)
  | .int n => if -9223372036854775808 ≤ n ∧ n < 9223372036854775808 then some n else none
  | .float b => floatAsInt b
  | _ => none

/-- the `index` helper of `get_item_opt` -/
def indexOf (key : V) (len : Nat) : Option Nat :=
  match asI64 key with
  | some i => if i < 0 then (if i.natAbs ≤ len then some (len - i.natAbs) else none) else some i.toNat
  | none => none

def getItem (c key : V) : Option V :=
  match c with
  -- the harness' object `ob`: its only item is the function `kw`
  | .other 1 => (match key with | .str "f" => some (.other 2) | _ => none)
  | .map xs => mapGet key xs
  | .list xs | .tuple xs => (indexOf key xs.length).bind fun i => xs[i]?
  | .str s => (indexOf key s.length).bind fun i => (s.toList[i]?).map fun ch => .str (String.singleton ch)
  | _ => none

def getAttr (c : V) (name : String) : Option V :=
  match c with
  | .other 1 => if name = "f" then some (.other 2) else none
  | .map xs => mapGet (.str name) xs
  | _ => none

/-- CPython `PySlice_AdjustIndices` + the selected positions (what `ops::slice` computes, C09) -/
def sliceIdx (len : Nat) (start stop : Option Int) (step : Int) : List Nat :=
  let n : Int := len
  let clamp (x : Option Int) (dfltPos dfltNeg : Int) : Int :=
    match x with
    | none => if step > 0 then dfltPos else dfltNeg
    | some v =>
      if v < 0 then (let w := v + n; if w < 0 then (if step < 0 then -1 else 0) else w)
      else if v ≥ n then (if step < 0 then n - 1 else n) else v
  let a := clamp start 0 (n - 1)
  let b := clamp stop n (-1)
  let cnt : Nat :=
    if step > 0 then (if a < b then ((b - a - 1) / step + 1).toNat else 0)
    else (if b < a then ((a - b - 1) / (-step) + 1).toNat else 0)
  (List.range cnt).map fun (i : Nat) => (a + (i : Int) * step).toNat

def pick {α : Type} (xs : List α) (is : List Nat) : List α := is.filterMap fun i => xs[i]?

def slice (v start stop step : V) : Except Err V :=
  let bound (x : V) : Except Err (Option Int) :=
    match x with
    | .none => .ok none
    -- `slice_bound`: integers beyond the `i64` range are clamped like Python does
    | .int n => .ok (some (if n < -9223372036854775808 then -9223372036854775808
                           else if n > 9223372036854775807 then 9223372036854775807 else n))
    | x => match asI64 x with
      | some i => .ok (some i)
      | none => .error .invalidOperation
  match bound start with
  | .error e => .error e
  | .ok a => match bound stop with
    | .error e => .error e
    | .ok b => match bound step with
      | .error e => .error e
      | .ok c =>
        let st := c.getD 1
        if st = 0 then bad else
        match v with
        | .str s => .ok (.str (String.ofList (pick s.toList (sliceIdx s.length a b st))))
        | .undef | .silent | .none => .ok (.list [])
        | .list xs => .ok (.list (pick xs (sliceIdx xs.length a b st)))
        | .tuple xs => .ok (.tuple (pick xs (sliceIdx xs.length a b st)))
        | _ => bad

/-! ### callables: the harness' `kw`/`kwf`, and the builtins `default`, `length`, `abs`, `first`,
    `divisibleby`, `defined`, `none`, `odd`, `even` -/

def kwInsert (k : String) (v : V) : List (String × V) → List (String × V)
  | [] => [(k, v)]
  | (k', v') :: rest => if k < k' then (k, v) :: (k', v') :: rest
    else if k = k' then (k', v) :: rest else (k', v') :: kwInsert k v rest

/-- `[[positional…], [[name, value]… sorted by name]]` -/
def kwResult (pos : List V) (kws : List (String × V)) : Except Err V :=
  let m := kws.foldl (fun acc p => kwInsert p.1 p.2 acc) []
  .ok (.list [.list pos, .list (m.map fun p => .list [.str p.1, p.2])])

def callKw (_m : Mode) (name : String) (pos : List V) (kws : List (String × V)) : Except Err V :=
  if name = "kw" then kwResult pos kws else .error (.named "UnknownFunction")

def isUndef : V → Bool
  | .undef | .silent => true
  | _ => false

/-! ### the general call form: `MergeKwargs`, `UnpackLists`, then the harness' callees

`ob` (the harness' object, `.other 1`) answers `ob.m(..)`; its item `f` is the function `kw`
(`.other 2`), reachable as `ob.f(..)` (method syntax falls back to the item), `ob["f"](..)`,
`[kw][0](..)`, `{"f": kw}.f(..)`. -/

/-- `UndefinedBehavior::try_iter` as `UnpackLists` uses it (since `fix:` e1cde55: `f(*missing)` fails
    under Strict and SemiStrict like `f(**missing)` and a `for` loop) -/
def iterForUnpack (m : Mode) : V → Except Err (List V)
  | .undef => (match m with
    | .strict | .semiStrict => .error .undefinedError
    | _ => .ok [])
  | .silent | .none => .ok []
  | .str s => .ok (s.toList.map fun c => .str (String.singleton c))
  | .list xs | .tuple xs => .ok xs
  | .map xs => .ok (xs.map (·.1))
  | _ => .error .invalidOperation

/-- `merge_kwargs` on one `**value`: `assert_iterable`, then it has to be a map -/
def kwSource (m : Mode) : V → Except Err (List (V × V))
  | .undef => match m with
    | .strict | .semiStrict => .error .undefinedError
    | _ => .error .invalidOperation
  | .map xs => .ok xs
  | _ => .error .invalidOperation

/-- keyword pieces in source order into one `ValueMap` (`BuildKwargs` batches and `**` sources merged
    in order); `none` when there is no keyword argument at all (no `Kwargs` value is passed then) -/
def mergeKw (m : Mode) : List ArgV → List (V × V) → Except Err (List (V × V))
  | [], acc => .ok acc
  | .kw n v :: rest, acc => mergeKw m rest (mapInsert (.str n) v acc)
  | .kwSplat v :: rest, acc =>
    (match kwSource m v with
     | .error e => .error e
     | .ok ps => mergeKw m rest (ps.foldl (fun a p => mapInsert p.1 p.2 a) acc))
  | _ :: rest, acc => mergeKw m rest acc

def unpackPos (m : Mode) : List ArgV → Except Err (List V)
  | [] => .ok []
  | .pos v :: rest => (match unpackPos m rest with | .error e => .error e | .ok vs => .ok (v :: vs))
  | .posSplat v :: rest =>
    (match iterForUnpack m v with
     | .error e => .error e
     | .ok xs => match unpackPos m rest with | .error e => .error e | .ok vs => .ok (xs ++ vs))
  | _ :: rest => unpackPos m rest

/-- `Kwargs::args()` only yields string keys -/
def strKeys (ps : List (V × V)) : List (String × V) :=
  ps.filterMap fun p => match p.1 with | .str k => some (k, p.2) | _ => none

def callX (m : Mode) (kind : CallKind) (name : String) (recv : List V) (pieces : List ArgV) : Except Err V :=
  -- `MergeKwargs` comes before `UnpackLists` in the emitted code
  match mergeKw m pieces [] with
  | .error e => .error e
  | .ok kws => match unpackPos m pieces with
    | .error e => .error e
    | .ok pos =>
      let ks := strKeys kws
      let known := name == "m" || name == "f" || name == "nosuch"
      match kind, recv with
      | .function, [] => if name = "kw" then kwResult pos ks else .error (.named "UnknownFunction")
      | .filter, [v] => if name = "kwf" then kwResult (v :: pos) ks else .error (.named "unmodelled")
      | .test, [_] => if name = "kwt" then .ok (.bool ((pos.length + ks.length) % 2 == 0)) else .error (.named "unmodelled")
      -- `Value::call_method`: the object's own methods, then an item of that name called as a value
      | .method, [.other 1] =>
        if name = "m" || name = "f" then kwResult pos ks
        else if known then .error (.named "UnknownMethod") else .error (.named "unmodelled")
      | .method, [.map xs] =>
        if !known then .error (.named "unmodelled") else
        (match mapGet (.str name) xs with
         | some (.other 2) => kwResult pos ks
         | some (.other _) => .error (.named "unmodelled")
         | some _ => bad
         | none => .error (.named "UnknownMethod"))
      | .method, [_] => if known then .error (.named "UnknownMethod") else .error (.named "unmodelled")
      -- `Value::call`: only the function `kw` is callable
      | .object, [.other 2] => kwResult pos ks
      | .object, [.other _] => .error (.named "unmodelled")
      | .object, [_] => bad
      | _, _ => .error (.named "unmodelled")

/-- `UndefinedBehavior::is_true` -/
def truthy (m : Mode) (v : V) : Except Err Bool :=
  match m, v with
  | .strict, .undef => .error .undefinedError
  | _, v => .ok (isTrue v)

/-- `UndefinedBehavior::try_iter` with its error mapped to `InvalidOperation` (as `min`, `max`, `list` do) -/
def iterUB (m : Mode) (v : V) : Except Err (List V) :=
  match m, v with
  | .strict, .undef | .semiStrict, .undef => .error .invalidOperation
  | _, .undef | _, .silent | _, .none => .ok []
  | _, .str s => .ok (s.toList.map fun c => .str (String.singleton c))
  | _, .list xs | _, .tuple xs => .ok xs
  | _, .map xs => .ok (xs.map (·.1))
  | _, _ => .error .invalidOperation

/-- `Iterator::min`: the first of several equally small elements -/
def minV (xs : List V) : V :=
  (xs.foldl (fun acc x => match acc with
    | none => some x
    | some a => if cmpV x a == .lt then some x else some a) none).getD .undef

/-- `Iterator::max`: the last of several equally big elements -/
def maxV (xs : List V) : V :=
  (xs.foldl (fun acc x => match acc with
    | none => some x
    | some a => if cmpV x a == .lt then some a else some x) none).getD .undef

/-- the `sum` filter: undefined items are skipped, anything that is not a number is an error -/
def sumV : List V → V → Except Err V
  | [], acc => .ok acc
  | x :: xs, acc =>
    if isUndefV x then sumV xs acc else
    match x with
    | .int _ | .float _ => (match add acc x with
      | .error e => .error e
      | .ok r => sumV xs r)
    | _ => bad
where isUndefV : V → Bool
  | .undef | .silent => true
  | _ => false

def filter (m : Mode) (name : String) (args : List V) (kws : List (String × V)) : Except Err V :=
  if name = "kwf" then kwResult args kws
  else match name, args, kws with
    | "default", [v], [] => .ok (if isUndef v then .str "" else v)
    | "default", [v, d], [] => .ok (if isUndef v then d else v)
    | "default", [v, d, lax], [] =>
      match truthy m lax with
      | .error e => .error e
      | .ok l => .ok (if isUndef v || (l && !isTrue v) then d else v)
    | "default", _ :: _ :: _ :: _ :: _, [] => .error (.named "TooManyArguments")
    | "length", [v], [] =>
      (match v with
       | .str s => .ok (.int s.length)
       | .list xs | .tuple xs => .ok (.int xs.length)
       | .map xs => .ok (.int xs.length)
       | _ => bad)
    | "abs", [v], [] =>
      (match v with
       | .int n => if n = i128Min then bad else .ok (.int n.natAbs)
       | .float b => .ok (.float (b % signBit))
       | _ => bad)
    | "first", [v], [] =>
      (match v with
       | .str s => .ok (match s.toList with | [] => .undef | c :: _ => .str (String.singleton c))
       | .list xs | .tuple xs => .ok (xs.headD .undef)
       | .map xs => .ok (match xs with | [] => .undef | (k, _) :: _ => k)
       | _ => bad)
    | "string", [v], [] =>
      -- `assert_value_not_undefined`, then `to_string` unless already a string
      (match m, v with
       | .strict, .undef | .semiStrict, .undef => .error .undefinedError
       | _, .str s => .ok (.str s)
       | _, v => .ok (.str (dispV v)))
    | "list", [v], [] =>
      -- `UndefinedBehavior::try_iter` (its error is wrapped into InvalidOperation), collected
      (match m, v with
       | .strict, .undef | .semiStrict, .undef => bad
       | _, .undef | _, .silent | _, .none => .ok (.list [])
       | _, .str s => .ok (.list (s.toList.map fun c => .str (String.singleton c)))
       | _, .list xs | _, .tuple xs => .ok (.list xs)
       | _, .map xs => .ok (.list (xs.map (·.1)))
       | _, _ => bad)
    | "last", [v], [] =>
      (match v with
       | .str s => .ok (match s.toList.getLast? with | none => .undef | some c => .str (String.singleton c))
       | .list xs | .tuple xs => .ok (xs.getLast?.getD .undef)
       | _ => bad)
    | "min", [v], [] => (match iterUB m v with | .error e => .error e | .ok xs => .ok (minV xs))
    | "max", [v], [] => (match iterUB m v with | .error e => .error e | .ok xs => .ok (maxV xs))
    | "sum", [v], [] =>
      (match m, v with
       | .strict, .undef | .semiStrict, .undef => .error .undefinedError
       | _, v => match iterUB .lenient v with | .error e => .error e | .ok xs => sumV xs (.int 0))
    -- a safe string is a string in the value dump
    | "safe", [.str s], [] => .ok (.str s)
    | "upper", [.str s], [] => if s.toList.all (·.val < 128) then .ok (.str s.toUpper) else .error (.named "unmodelled")
    | _, _, _ => .error (.named "unmodelled")

/-- `i128::try_from(Value)` including integral floats -/
def tryI128 : V → Option Int
  | .float b => floatAsInt b
  | v => asI128 v

def test (m : Mode) (name : String) (args : List V) (kws : List (String × V)) : Except Err Bool :=
  match name, args, kws with
  | "defined", [v], [] => .ok (!isUndef v)
  | "none", [v], [] => .ok (match v with | .none => true | _ => false)
  | "odd", [v], [] => .ok (match tryI128 v with | some x => x % 2 != 0 | none => false)
  | "even", [v], [] => .ok (match tryI128 v with | some x => x % 2 == 0 | none => false)
  | "number", [v], [] => .ok (match v with | .int _ | .float _ => true | _ => false)
  | "integer", [v], [] => .ok (match v with | .int _ => true | _ => false)
  | "float", [v], [] => .ok (match v with | .float _ => true | _ => false)
  | "string", [v], [] => .ok (isStr v)
  -- the harness' test with arguments: parity of the number of arguments and keyword names
  | "kwt", _ :: rest, ks => .ok ((rest.length + (ks.foldl (fun acc p => kwInsert p.1 p.2 acc) []).length) % 2 == 0)
  | "eq", [v, o], [] => .ok (eqV v o)
  | "lt", [v, o], [] => .ok (cmpV v o == .lt)
  -- `is_ne`, `is_le`, `is_gt`, `is_ge`: `!=`, `<=`, `>`, `>=` of `Value` (`PartialEq` / `Ord`)
  | "ne", [v, o], [] => .ok (!eqV v o)
  | "le", [v, o], [] => .ok (cmpV v o != .gt)
  | "gt", [v, o], [] => .ok (cmpV v o == .gt)
  | "ge", [v, o], [] => .ok (cmpV v o != .lt)
  -- `is_true` / `is_false`: exactly the booleans
  | "true", [v], [] => .ok (match v with | .bool true => true | _ => false)
  | "false", [v], [] => .ok (match v with | .bool false => true | _ => false)
  | "in", [v, o], [] =>
    -- `assert_iterable(other)`, then `contains(other, value)`; an error counts as "not contained"
    (match m, o with
     | .strict, .undef | .semiStrict, .undef => .error .undefinedError
     | _, o => .ok (match contains o v with | .ok r => isTrue r | .error _ => false))
  | "divisibleby", [v, o], [] =>
    -- `coerce(v, other, lossy = false)`
    (match v, o with
     | .float _, _ | _, .float _ =>
       (match flOf v, flOf o with
        | some x, some y =>
          -- the integer side must convert exactly; then `(a % b) == 0.0`
          let exact (w : V) : Bool := match w with
            | .int n => cmpFl (decodeF (fOfInt n)) (.fin (decide (n < 0)) n.natAbs 0) == some .eq
            | _ => true
          if exact v && exact o then
            .ok (match fmodFl x y with | .fin _ 0 _ => true | _ => false)
          else .ok false
        | _, _ => .ok false)
     | v, o => match asI128 v, asI128 o with
       | some a, some b => .ok (b != 0 && a.tmod b == 0)
       | _, _ => .ok false)
  | _, _, _ => .error (.named "unmodelled")

def prims : Prims where
  add := add
  sub := sub
  mul := mul
  div := div
  fdiv := fdiv
  rem := rem
  pow := pow
  neg := neg
  concat := concat
  eq := eqV
  cmp := cmpV
  contains := contains
  isTrue := isTrue
  mkMap := mkMap
  getAttr := getAttr
  getItem := getItem
  slice := slice
  callKw := callKw
  filter := filter
  test := test
  callX := callX
  -- the traversal tables regenerated from compiler/ast.rs and compiler/codegen.rs
  foldsVariant := fun v => MJ.Gen.asConstArms.contains v
  codegenSpecial := fun s => MJ.Gen.codegenSpecials.contains s

/-! ### which primitive applications are transcribed faithfully -/

def isFloat : V → Bool
  | .float _ => true
  | _ => false

def isNaN : V → Bool
  | .float b => (decodeF b).isNan
  | _ => false

mutual
  /-- a NaN anywhere: `cmp_f64` falls back to the total order of the raw bits, which the canonical
      NaN of the value dump does not determine -/
  def hasOdd : V → Bool
    | .float b => (decodeF b).isNan
    | .list xs | .tuple xs => hasOddL xs
    | .map xs => hasOddP xs
    | .other _ => true
    | _ => false
  def hasOddL : List V → Bool
    | [] => false
    | x :: xs => hasOdd x || hasOddL xs
  def hasOddP : List (V × V) → Bool
    | [] => false
    | (k, v) :: xs => hasOdd k || hasOdd v || hasOddP xs
end

def suppArith (op : BinOp) (a b : V) : Bool :=
  match op with
  | .mul => !((bigIntegralFloat a && (isStr b || isSeq b)) || (bigIntegralFloat b && (isStr a || isSeq a)))
  | .pow =>
    (match coerce a b with
     | some (.f x y) => (fPow x y).isSome
     | _ => true)
  | _ => true

def suppBin (op : BinOp) (a b : V) : Bool :=
  match op with
  | .add | .sub | .mul | .div | .fdiv | .rem | .pow => suppArith op a b
  | .cat => true
  | .eq | .ne | .lt | .le | .gt | .ge => !hasOdd a && !hasOdd b
  | .in_ => !hasOdd a && !hasOdd b
  | .and | .or => true

def suppCmp (op : CmpOp) (a b : V) : Bool :=
  match op with
  | .in_ | .notIn => suppBin .in_ a b
  | _ => !hasOdd a && !hasOdd b

def suppNeg (_a : V) : Bool := true

/-- integral floats from 2^53 on as indexes / bounds are not transcribed -/
def suppGetItem (c key : V) : Bool :=
  !hasOdd key && !bigIntegralFloat key &&
  (match c with
   | .map xs => !hasOddP xs   -- a NaN among the keys: the map's order is not determined by the dump
   | _ => true)

def suppSlice (_v a b c : V) : Bool := !bigIntegralFloat a && !bigIntegralFloat b && !bigIntegralFloat c

def suppFilter (name : String) (args : List V) (kws : List (String × V)) : Bool :=
  (match filter .lenient name args kws with
   | .error (.named "unmodelled") => false
   | _ => true) &&
  -- comparisons with a NaN around are not transcribed
  !((name == "min" || name == "max" || name == "sum") && args.any hasOdd)

def suppCallX (kind : CallKind) (name : String) (recv : List V) (pieces : List ArgV) : Bool :=
  (match callX .lenient kind name recv pieces with
   | .error (.named "unmodelled") => false
   | _ => true) &&
  -- keyword sources with keys that are not strings, or with NaNs, are left to the hoisting oracle
  pieces.all fun p => match p with
    | .kwSplat (.map xs) => !hasOddP xs
    | _ => true

def suppTest (name : String) (args : List V) (kws : List (String × V)) : Bool :=
  match test .lenient name args kws with
  | .error (.named "unmodelled") => false
  | _ => !(args.any hasOdd) && !((name == "odd" || name == "even") && args.any bigIntegralFloat)

end MJ.Fold.Conc
