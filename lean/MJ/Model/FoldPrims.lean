import MJ.Model.Fold
/-!
# A concrete instance of the shared value operations (for the C04 driver)

The C04 theorems hold for every `Prims`.  To *run* the model against the real engine the driver
needs one concrete instance: a transcription of the parts of `value/ops.rs` and `value/mod.rs`
(`coerce`, `add … pow`, `neg`, `string_concat`, `contains`, `PartialEq`, `Ord`, `is_true`, `Display`,
`ValueMap` insertion) that the literal fragment reaches.  Regions that are not transcribed (integers
at or above 2^127 in arithmetic/comparison, NaN, float `//` `%` `**`, float text) are recognised by
`supp*` predicates; the driver reports such cases as `unmodelled` instead of comparing them.
-/
namespace MJ.Fold.Conc
open MJ.Fold

def i128Max : Int := 170141183460469231731687303715884105727
def i128Min : Int := -170141183460469231731687303715884105728

/-- `int_as_value` of a checked `i128` result -/
def chk (n : Int) : Except Err V :=
  if i128Min ≤ n ∧ n ≤ i128Max then .ok (.int n) else .error .invalidOperation

def bad : Except Err V := .error .invalidOperation

def toF (bits : Nat) : Float := Float.ofBits bits.toUInt64
def ofF (x : Float) : V := .float x.toBits.toNat

/-- `i128::try_from(Value)` on the kinds `coerce` passes to it -/
def asI128 : V → Option Int
  | .bool b => some (if b then 1 else 0)
  | .int n => if n ≤ i128Max then some n else none
  | _ => none

/-- `as_f64(value, lossy = true)` -/
def asF64 : V → Option Float
  | .bool b => some (if b then 1.0 else 0.0)
  | .int n => some (Float.ofInt n)
  | .float b => some (toF b)
  | _ => none

inductive Co where
  | i (a b : Int)
  | f (a b : Float)
  | s (a b : String)

/-- `coerce(a, b, lossy = true)` -/
def coerce (a b : V) : Option Co :=
  match a, b with
  | .str x, .str y => some (.s x y)
  | .float x, b => (asF64 b).map fun y => .f (toF x) y
  | a, .float y => (asF64 a).map fun x => .f x (toF y)
  | a, b => match asI128 a, asI128 b with
    | some x, some y => some (.i x y)
    | _, _ => none

def isStr : V → Bool
  | .str _ => true
  | _ => false

def isSeq : V → Bool
  | .list _ | .tuple _ => true
  | _ => false

def add (a b : V) : Except Err V :=
  match a, b with
  | .tuple xs, .tuple ys => .ok (.tuple (xs ++ ys))
  | .tuple _, _ | _, .tuple _ => bad
  | .list xs, .list ys => .ok (.list (xs ++ ys))
  | a, b => match coerce a b with
    | some (.i x y) => chk (x + y)
    | some (.f x y) => .ok (ofF (x + y))
    | some (.s x y) => .ok (.str (x ++ y))
    | none => bad

def sub (a b : V) : Except Err V :=
  match coerce a b with
  | some (.i x y) => chk (x - y)
  | some (.f x y) => .ok (ofF (x - y))
  | _ => bad

/-- `Value::as_usize` on the supported kinds -/
def asUsize : V → Option Nat
  | .bool b => some (if b then 1 else 0)
  | .int n => if 0 ≤ n ∧ n < 18446744073709551616 then some n.toNat else none
  | _ => none

def repeatList (xs : List V) : Nat → List V
  | 0 => []
  | n + 1 => xs ++ repeatList xs n

def mul (a b : V) : Except Err V :=
  match a, b with
  | .str s, n | n, .str s =>
    match asUsize n with
    | none => bad
    | some n => if s.utf8ByteSize * n ≤ 100000000 then .ok (.str (String.join (List.replicate n s))) else bad
  | .list xs, n | n, .list xs =>
    match asUsize n with
    | none => bad
    | some n => .ok (.list (repeatList xs n))
  | .tuple xs, n | n, .tuple xs =>
    match asUsize n with
    | none => bad
    | some n => .ok (.tuple (repeatList xs n))
  | a, b => match coerce a b with
    | some (.i x y) => chk (x * y)
    | some (.f x y) => .ok (ofF (x * y))
    | _ => bad

def div (a b : V) : Except Err V :=
  match asF64 a, asF64 b with
  | some x, some y => .ok (ofF (x / y))
  | _, _ => bad

/-- `i128::checked_div_euclid` -/
def fdiv (a b : V) : Except Err V :=
  match coerce a b with
  | some (.i x y) => if y = 0 then bad else chk (x / y)
  | some (.f _ _) => bad  -- not transcribed (see `suppBin`)
  | _ => bad

/-- `i128::checked_rem_euclid` (`None` for a zero divisor and for `MIN % -1`) -/
def rem (a b : V) : Except Err V :=
  match coerce a b with
  | some (.i x y) => if y = 0 ∨ (x = i128Min ∧ y = -1) then bad else chk (x % y)
  | some (.f _ _) => bad  -- not transcribed
  | _ => bad

/-- `u32::try_from(b)` then `i128::checked_pow` -/
def pow (a b : V) : Except Err V :=
  match coerce a b with
  | some (.i x y) =>
    if y < 0 ∨ 4294967295 < y then bad
    else if x = 0 ∨ x = 1 ∨ x = -1 then
      .ok (.int (if y = 0 then 1 else if x = 0 then 0 else if x = 1 then 1 else if y % 2 = 0 then 1 else -1))
    else if 127 < y then bad
    else chk (x ^ y.toNat)
  | some (.f _ _) => bad  -- not transcribed
  | _ => bad

def neg : V → Except Err V
  | .float b => .ok (.float (if b < 9223372036854775808 then b + 9223372036854775808 else b - 9223372036854775808))
  | .int n => if n ≤ i128Max then chk (-n) else bad
  | _ => bad

/-! ### exact numeric comparison (`coerce(.., lossy = false)` + `cmp_uncoercible_numbers`) -/

inductive Ex where
  | fin (m e : Int)   -- m * 2^e
  | pinf | ninf | nan

def decodeF (bits : Nat) : Ex :=
  let sign := bits / 9223372036854775808
  let ex := (bits / 4503599627370496) % 2048
  let fr := bits % 4503599627370496
  if ex = 2047 then (if fr ≠ 0 then .nan else if sign = 1 then .ninf else .pinf)
  else
    let m : Int := if ex = 0 then fr else fr + 4503599627370496
    let e : Int := (if ex = 0 then 1 else (ex : Int)) - 1075
    .fin (if sign = 1 then -m else m) e

def Ex.isNan : Ex → Bool
  | .nan => true
  | _ => false

def exOf : V → Option Ex
  | .bool b => some (.fin (if b then 1 else 0) 0)
  | .int n => some (.fin n 0)
  | .float b => some (decodeF b)
  | _ => none

def cmpEx : Ex → Ex → Option Ordering
  | .nan, _ | _, .nan => none
  | .pinf, .pinf | .ninf, .ninf => some .eq
  | .pinf, _ | _, .ninf => some .gt
  | _, .pinf | .ninf, _ => some .lt
  | .fin m1 e1, .fin m2 e2 =>
    let e := min e1 e2
    some (compare (m1 * 2 ^ (e1 - e).toNat) (m2 * 2 ^ (e2 - e).toNat))

def kindRank : V → Nat
  | .undef => 0 | .none => 1 | .bool _ => 2 | .int _ | .float _ => 3 | .str _ => 4
  | .list _ | .tuple _ => 6 | .map _ => 7 | .other _ => 9

def cmpStr (a b : String) : Ordering := if a < b then .lt else if a = b then .eq else .gt

mutual
  /-- `Ord for Value` -/
  def cmpV : V → V → Ordering
    | .list xs, .list ys => cmpL xs ys
    | .tuple xs, .tuple ys => cmpL xs ys
    | .list _, .tuple _ => .lt
    | .tuple _, .list _ => .gt
    | .map xs, .map ys => cmpP xs ys
    | a, b =>
      if kindRank a ≠ kindRank b then compare (kindRank a) (kindRank b)
      else match a, b with
        | .str x, .str y => cmpStr x y
        | a, b => match exOf a, exOf b with
          | some x, some y => (cmpEx x y).getD .eq
          | _, _ => .eq
  def cmpL : List V → List V → Ordering
    | [], [] => .eq
    | [], _ :: _ => .lt
    | _ :: _, [] => .gt
    | x :: xs, y :: ys => match cmpV x y with
      | .eq => cmpL xs ys
      | o => o
  def cmpP : List (V × V) → List (V × V) → Ordering
    | [], [] => .eq
    | [], _ :: _ => .lt
    | _ :: _, [] => .gt
    | (k, v) :: xs, (k', v') :: ys => match cmpV k k' with
      | .eq => match cmpV v v' with
        | .eq => cmpP xs ys
        | o => o
      | o => o
end

/-- `BTreeMap::get` -/
def mapGet (k : V) : List (V × V) → Option V
  | [] => none
  | (k', v) :: rest => if cmpV k k' == .eq then some v else mapGet k rest

mutual
  /-- `PartialEq for Value` -/
  def eqV : V → V → Bool
    | .none, .none => true
    | .undef, .undef => true
    | .str x, .str y => x == y
    | .list xs, .list ys => eqL xs ys
    | .tuple xs, .tuple ys => eqL xs ys
    | .map xs, .map ys => xs.length == ys.length && eqM xs ys
    | a, b => match exOf a, exOf b with
      | some x, some y => cmpEx x y == some .eq
      | _, _ => false
  def eqL : List V → List V → Bool
    | [], [] => true
    | x :: xs, y :: ys => eqV x y && eqL xs ys
    | _, _ => false
  def eqM : List (V × V) → List (V × V) → Bool
    | [], _ => true
    | (k, v) :: xs, ys => (match mapGet k ys with
      | some v' => eqV v v'
      | none => false) && eqM xs ys
end

def isTrue : V → Bool
  | .bool b => b
  | .int n => n != 0
  | .float b => b % 9223372036854775808 != 0 -- x != 0.0 (NaN is true)
  | .str s => !s.isEmpty
  | .list xs | .tuple xs => !xs.isEmpty
  | .map xs => !xs.isEmpty
  | _ => false

/-- `ValueMap::insert` on a `BTreeMap`: an equal key keeps the old key and takes the new value -/
def mapInsert (k v : V) : List (V × V) → List (V × V)
  | [] => [(k, v)]
  | (k', v') :: rest => match cmpV k k' with
    | .lt => (k, v) :: (k', v') :: rest
    | .eq => (k', v) :: rest
    | .gt => (k', v') :: mapInsert k v rest

def mkMap (ps : List (V × V)) : V := .map (ps.foldl (fun acc p => mapInsert p.1 p.2 acc) [])

mutual
  /-- `Debug for Value` (strings python style; only quote-free strings are supported) -/
  def reprV : V → String
    | .undef => "undefined"
    | .none => "None"
    | .bool b => if b then "True" else "False"
    | .int n => toString n
    | .float _ => "?"
    | .str s => "'" ++ s ++ "'"
    | .list xs => "[" ++ reprL xs ++ "]"
    | .tuple xs => "(" ++ reprL xs ++ (if xs.length == 1 then "," else "") ++ ")"
    | .map xs => "{" ++ reprP xs ++ "}"
    | .other _ => "?"
  def reprL : List V → String
    | [] => ""
    | [x] => reprV x
    | x :: xs => reprV x ++ ", " ++ reprL xs
  def reprP : List (V × V) → String
    | [] => ""
    | [(k, v)] => reprV k ++ ": " ++ reprV v
    | (k, v) :: xs => reprV k ++ ": " ++ reprV v ++ ", " ++ reprP xs
end

/-- `Display for Value` -/
def dispV : V → String
  | .undef => ""
  | .str s => s
  | v => reprV v

def concat (a b : V) : V := .str (dispV a ++ dispV b)

def isInfix (p : List Char) : List Char → Bool
  | [] => p.isEmpty
  | c :: cs => p.isPrefixOf (c :: cs) || isInfix p cs

def contains (container item : V) : Except Err V :=
  match container with
  | .undef => .ok (.bool false)
  | .str s => .ok (.bool (isInfix (dispV item).toList s.toList))
  | .list xs | .tuple xs => .ok (.bool (xs.any fun x => eqV x item))
  | .map xs => .ok (.bool (mapGet item xs).isSome)
  | _ => bad

def kwInsert (k : String) (v : V) : List (String × V) → List (String × V)
  | [] => [(k, v)]
  | (k', v') :: rest => if k < k' then (k, v) :: (k', v') :: rest
    else if k = k' then (k', v) :: rest else (k', v') :: kwInsert k v rest

/-- the harness' `kw`/`kwf` callable: `[[positional…], [[name, value]… sorted by name]]` -/
def callKw (pos : List V) (kws : List (String × V)) : Except Err V :=
  let m := kws.foldl (fun acc p => kwInsert p.1 p.2 acc) []
  .ok (.list [.list pos, .list (m.map fun p => .list [.str p.1, p.2])])

def prims : Prims where
  add := add
  sub := sub
  mul := mul
  div := div
  fdiv := fdiv
  rem := rem
  pow := pow
  neg := neg
  concat := concat
  eq := eqV
  cmp := cmpV
  contains := contains
  isTrue := isTrue
  mkMap := mkMap
  callKw := callKw

/-! ### which primitive applications are transcribed faithfully -/

def bigInt : V → Bool
  | .int n => decide (n > i128Max)
  | _ => false

def isFloat : V → Bool
  | .float _ => true
  | _ => false

def isNaN : V → Bool
  | .float b => (decodeF b).isNan
  | _ => false

mutual
  /-- contains a float / an integer ≥ 2^127 / a string with a quote, backslash or control character
      anywhere (text of floats and escaped strings is not transcribed; big integers compare oddly) -/
  def hasHard : V → Bool
    | .float _ => true
    | .int n => decide (n > i128Max)
    | .str s => s.toList.any fun c => c == '\'' || c == '"' || c == '\\' || c.val < 32 || c.val == 127
    | .list xs | .tuple xs => hasHardL xs
    | .map xs => hasHardP xs
    | .other _ => true
    | _ => false
  def hasHardL : List V → Bool
    | [] => false
    | x :: xs => hasHard x || hasHardL xs
  def hasHardP : List (V × V) → Bool
    | [] => false
    | (k, v) :: xs => hasHard k || hasHard v || hasHardP xs
end

mutual
  /-- NaN or an integer ≥ 2^127 anywhere: equality/ordering not transcribed -/
  def hasOdd : V → Bool
    | .float b => (decodeF b).isNan
    | .int n => decide (n > i128Max)
    | .list xs | .tuple xs => hasOddL xs
    | .map xs => hasOddP xs
    | .other _ => true
    | _ => false
  def hasOddL : List V → Bool
    | [] => false
    | x :: xs => hasOdd x || hasOddL xs
  def hasOddP : List (V × V) → Bool
    | [] => false
    | (k, v) :: xs => hasOdd k || hasOdd v || hasOddP xs
end

/-- an integer operand that converts to `f64` exactly as the driver's `Float.ofInt` does -/
def smallForFloat : V → Bool
  | .int n => decide (-18446744073709551616 < n ∧ n < 18446744073709551616)
  | _ => true

def suppArith (op : BinOp) (a b : V) : Bool :=
  if bigInt a || bigInt b then false
  else if isNaN a || isNaN b then false
  else match op with
    | .add | .sub => !((isFloat a || isFloat b) && !(smallForFloat a && smallForFloat b))
    | .mul =>
      if (isFloat a || isFloat b) then
        -- `as_usize` accepts integral floats as repeat counts: not transcribed
        !isStr a && !isStr b && !isSeq a && !isSeq b && smallForFloat a && smallForFloat b
      else true
    | .div => smallForFloat a && smallForFloat b
    | .fdiv | .rem | .pow => !(isFloat a || isFloat b)
    | _ => true

def suppBin (op : BinOp) (a b : V) : Bool :=
  match op with
  | .add | .sub | .mul | .div | .fdiv | .rem | .pow => suppArith op a b
  | .cat => !hasHard a && !hasHard b
  | .eq | .ne | .lt | .le | .gt | .ge => !hasOdd a && !hasOdd b
  | .in_ => !hasOdd a && !hasOdd b && !(isStr b && hasHard a)
  | .and | .or => true

def suppCmp (op : CmpOp) (a b : V) : Bool :=
  match op with
  | .in_ | .notIn => suppBin .in_ a b
  | _ => !hasOdd a && !hasOdd b

def suppNeg (a : V) : Bool := !bigInt a && !isNaN a

end MJ.Fold.Conc
