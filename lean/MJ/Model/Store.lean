/-!
# Model of the template store and the registries of an `Environment`  (C15)

Mirrors `minijinja/src/loader.rs` (`LoaderStore::{insert_cow, remove, clear, get, set_loader, iter}`,
`template_config`), the setters, the registry part and `#[derive(Clone)]` of
`minijinja/src/environment.rs` (`Arc<BTreeMap>` + `Arc::make_mut`), and the state identity of
`vm/state.rs`.

* names and sources are opaque identifiers (`Nat`); names are compared as they are (no
  normalisation: `"./a"`, `"A"`, `" a"` are other names than `"a"`);
* compiling a source is a *parameter* `compiles : LtCfg → Source → Bool` (`CompiledTemplate::new`
  succeeds or returns a syntax error — which may depend on the configured syntax; nothing else of
  the compiler matters for the store); a compiled template is identified with the pair (source,
  load-time configuration it was compiled under), under the name it is stored at;
* a loader is a function `Name → LoadRes` (`Ok(None)`, `Ok(Some(source))`, `Err(_)`); a closure
  whose answers change with the outside world is modelled as the replacement of that function;
* `BTreeMap`/`MemoMap` are association lists with `find`/`ins` (insert-or-replace)/`del`; only
  these operations are used by the Rust code (`MemoMap::get_or_try_insert` = `find`, else create
  and `ins`, nothing is inserted when the creator fails);
* entries of the owned tier carry a *ghost* origin tag (registered by `add_template_owned` or
  memoised from the loader).  The Rust code has no such tag; no operation of the model reads it
  (`MJ.C15.results_depend_on_contents_only` proves it), it only serves to state the abstraction
  `explicit`/`cached`.

No Mathlib import: this file is linked into `drive_c15`.
-/
namespace MJ.Store

abbrev Name := Nat
abbrev Source := Nat

/-! ## association lists -/

def find {β : Type} : List (Name × β) → Name → Option β
  | [], _ => none
  | (k, v) :: t, n => if k = n then some v else find t n

def del {β : Type} (l : List (Name × β)) (n : Name) : List (Name × β) :=
  l.filter (fun p => p.1 != n)

/-- insert or replace -/
def ins {β : Type} (l : List (Name × β)) (n : Name) (v : β) : List (Name × β) :=
  (n, v) :: del l n

/-! ## load-time configuration

`TemplateConfig` (`template.rs`): `syntax_config`, `ws_config` (`keep_trailing_newline`,
`trim_blocks`, `lstrip_blocks`) and `default_auto_escape`.  `CompiledTemplate::new(name, source,
&config)` bakes all of them into the compiled template (the auto-escape callback is *called* with
the name at that moment).  The documented rule: "Changing it at a later point only affects future
templates loaded."  `syn`/`autoEscape` identify the installed syntax / callback. -/

structure LtCfg where
  trim : Bool
  lstrip : Bool
  ktn : Bool
  syn : Nat
  autoEscape : Nat
  deriving Repr, DecidableEq

def LtCfg.default : LtCfg := { trim := false, lstrip := false, ktn := false, syn := 0, autoEscape := 0 }

/-- a compiled template is determined by its name (the key it is stored under), its source and the
    load-time configuration it was compiled under -/
abbrev Tmpl := Source × LtCfg

/-! ## the two-tier store -/

inductive LoadRes where
  | missing            -- `Ok(None)`
  | src (s : Source)   -- `Ok(Some(source))`
  | err                -- `Err(_)`
  | panics             -- the loader closure panics (the caller catches the unwind)
  deriving Repr, DecidableEq

/-- ghost: how an entry got into `owned_templates` -/
inductive Origin where
  | explicit | loaded
  deriving Repr, DecidableEq

structure Store where
  /-- `loader: Option<Arc<LoadFunc>>` -/
  loader : Option (Name → LoadRes)
  /-- `template_config: TemplateConfig` — the configuration the NEXT load compiles under -/
  cfg : LtCfg
  /-- `borrowed_templates: BTreeMap<&str, Arc<CompiledTemplate>>` -/
  borrowed : List (Name × Tmpl)
  /-- `owned_templates: MemoMap<Arc<str>, Arc<LoadedTemplate>>` -/
  owned : List (Name × (Tmpl × Origin))

def Store.empty : Store := { loader := none, cfg := LtCfg.default, borrowed := [], owned := [] }

inductive Op where
  | addBorrowed (n : Name) (src : Source)   -- `add_template`  → `insert_cow(Borrowed, Borrowed)`
  | addOwned (n : Name) (src : Source)      -- `add_template_owned` → `insert_cow(_, _)`
  | remove (n : Name)                       -- `remove_template`
  | clear                                   -- `clear_templates`
  | setLoader (l : Name → LoadRes)          -- `set_loader`
  | setCfg (c : LtCfg)                      -- `set_trim_blocks`, `set_lstrip_blocks`, `set_keep_trailing_newline`,
                                            -- `set_syntax`, `set_auto_escape_callback` (any of them: new `template_config`)
  | get (n : Name)                          -- `get_template` (also every include/extends/import lookup)

inductive Res where
  | done
  | compileError          -- `Err(SyntaxError)` from `CompiledTemplate::new`
  | found (t : Tmpl)
  | notFound              -- `Error::new_not_found`
  | loaderError           -- the loader's own `Err`
  | panicked              -- the operation unwound (a user callback panicked) and was caught
  deriving Repr, DecidableEq

/-- `LoaderStore::get` -/
def Store.get (compiles : LtCfg → Source → Bool) (s : Store) (n : Name) : Store × Res :=
  match find s.borrowed n with
  | some t => (s, .found t)
  | none =>
    match find s.owned n with
    | some (t, _) => (s, .found t)
    | none =>
      match s.loader with
      | none => (s, .notFound)
      | some l =>
        match l n with
        | .err => (s, .loaderError)
        | .panics => (s, .panicked)  -- `MemoMap` recovers its poisoned mutex; nothing was inserted
        | .missing => (s, .notFound)
        | .src src =>
          if compiles s.cfg src then
            ({ s with owned := ins s.owned n ((src, s.cfg), .loaded) }, .found (src, s.cfg))
          else (s, .compileError)

/-- One operation of the store, as in the repaired code (`fix:` commit of C15): the new source is
    compiled first, the other tier is evicted only when that succeeded. -/
def Store.step (compiles : LtCfg → Source → Bool) (s : Store) : Op → Store × Res
  | .addBorrowed n src =>
    if compiles s.cfg src then
      ({ s with owned := del s.owned n, borrowed := ins s.borrowed n (src, s.cfg) }, .done)
    else (s, .compileError)
  | .addOwned n src =>
    if compiles s.cfg src then
      ({ s with borrowed := del s.borrowed n, owned := ins s.owned n ((src, s.cfg), .explicit) }, .done)
    else (s, .compileError)
  | .remove n => ({ s with borrowed := del s.borrowed n, owned := del s.owned n }, .done)
  | .clear => ({ s with borrowed := [], owned := [] }, .done)
  | .setLoader l => ({ s with loader := some l }, .done)
  | .setCfg c => ({ s with cfg := c }, .done)
  | .get n => s.get compiles n

/-- `insert_cow` as it was in the pinned tree (before the fix): the other tier was evicted *before*
    the new source was compiled.  Kept only to state what the defect was
    (`MJ.C15.pinned_insert_was_not_a_noop`). -/
def Store.stepPinned (compiles : LtCfg → Source → Bool) (s : Store) : Op → Store × Res
  | .addBorrowed n src =>
    let s' := { s with owned := del s.owned n }
    if compiles s.cfg src then ({ s' with borrowed := ins s.borrowed n (src, s.cfg) }, .done)
    else (s', .compileError)
  | .addOwned n src =>
    let s' := { s with borrowed := del s.borrowed n }
    if compiles s.cfg src then ({ s' with owned := ins s.owned n ((src, s.cfg), .explicit) }, .done)
    else (s', .compileError)
  | op => s.step compiles op

/-- run a history, keeping the states -/
def Store.run (compiles : LtCfg → Source → Bool) (s : Store) : List Op → Store
  | [] => s
  | op :: ops => Store.run compiles (s.step compiles op).1 ops

/-- the results of all operations of a history -/
def Store.results (compiles : LtCfg → Source → Bool) (s : Store) : List Op → List Res
  | [] => []
  | op :: ops => (s.step compiles op).2 :: Store.results compiles (s.step compiles op).1 ops

/-- `LoaderStore::iter`: borrowed entries, then owned entries -/
def Store.iter (s : Store) : List (Name × Tmpl) :=
  s.borrowed ++ s.owned.map (fun p => (p.1, p.2.1))

/-! ## the specification: a plain map of explicit templates plus a memo cache -/

def upd {β : Type} (f : Name → Option β) (n : Name) (v : Option β) : Name → Option β :=
  fun m => if m = n then v else f m

structure Spec where
  loader : Option (Name → LoadRes)
  cfg : LtCfg
  explicit : Name → Option Tmpl
  cached : Name → Option Tmpl

/-- lookup in the specification: explicit templates, then the memo cache, then the loader (whose
    answer is memoised when it compiles) -/
def Spec.get (compiles : LtCfg → Source → Bool) (sp : Spec) (n : Name) : Spec × Res :=
  match sp.explicit n with
  | some t => (sp, .found t)
  | none =>
    match sp.cached n with
    | some t => (sp, .found t)
    | none =>
      match sp.loader with
      | none => (sp, .notFound)
      | some l =>
        match l n with
        | .err => (sp, .loaderError)
        | .panics => (sp, .panicked)
        | .missing => (sp, .notFound)
        | .src src =>
          if compiles sp.cfg src then
            ({ sp with cached := upd sp.cached n (some (src, sp.cfg)) }, .found (src, sp.cfg))
          else (sp, .compileError)

def Spec.step (compiles : LtCfg → Source → Bool) (sp : Spec) : Op → Spec × Res
  | .addBorrowed n src | .addOwned n src =>
    if compiles sp.cfg src then
      ({ sp with explicit := upd sp.explicit n (some (src, sp.cfg)), cached := upd sp.cached n none }, .done)
    else (sp, .compileError)
  | .remove n => ({ sp with explicit := upd sp.explicit n none, cached := upd sp.cached n none }, .done)
  | .clear => ({ sp with explicit := fun _ => none, cached := fun _ => none }, .done)
  | .setLoader l => ({ sp with loader := some l }, .done)
  | .setCfg c => ({ sp with cfg := c }, .done)
  | .get n => sp.get compiles n

/-- the abstraction function -/
def Store.abs (s : Store) : Spec where
  loader := s.loader
  cfg := s.cfg
  explicit := fun m =>
    match find s.borrowed m with
    | some src => some src
    | none =>
      match find s.owned m with
      | some (src, .explicit) => some src
      | _ => none
  cached := fun m =>
    match find s.borrowed m with
    | some _ => none
    | none =>
      match find s.owned m with
      | some (src, .loaded) => some src
      | _ => none

/-- The contents of an environment's template store as one map (what `get` answers from without
    consulting the loader); this forgets the ghost tag. -/
structure Flat where
  loader : Option (Name → LoadRes)
  cfg : LtCfg
  contents : Name → Option Tmpl

def Spec.flat (sp : Spec) : Flat where
  loader := sp.loader
  cfg := sp.cfg
  contents := fun m => match sp.explicit m with | some s => some s | none => sp.cached m

def Flat.get (compiles : LtCfg → Source → Bool) (f : Flat) (n : Name) : Flat × Res :=
  match f.contents n with
  | some t => (f, .found t)
  | none =>
    match f.loader with
    | none => (f, .notFound)
    | some l =>
      match l n with
      | .err => (f, .loaderError)
      | .panics => (f, .panicked)
      | .missing => (f, .notFound)
      | .src src =>
        if compiles f.cfg src then
          ({ f with contents := upd f.contents n (some (src, f.cfg)) }, .found (src, f.cfg))
        else (f, .compileError)

def Flat.step (compiles : LtCfg → Source → Bool) (f : Flat) : Op → Flat × Res
  | .addBorrowed n src | .addOwned n src =>
    if compiles f.cfg src then ({ f with contents := upd f.contents n (some (src, f.cfg)) }, .done)
    else (f, .compileError)
  | .remove n => ({ f with contents := upd f.contents n none }, .done)
  | .clear => ({ f with contents := fun _ => none }, .done)
  | .setLoader l => ({ f with loader := some l }, .done)
  | .setCfg c => ({ f with cfg := c }, .done)
  | .get n => f.get compiles n

def Flat.results (compiles : LtCfg → Source → Bool) (f : Flat) : List Op → List Res
  | [] => []
  | op :: ops => (f.step compiles op).2 :: Flat.results compiles (f.step compiles op).1 ops

def Flat.run (compiles : LtCfg → Source → Bool) (f : Flat) : List Op → Flat
  | [] => f
  | op :: ops => Flat.run compiles (f.step compiles op).1 ops

/-- does the operation remove or replace the template `n`? (`remove_template(n)`,
    `clear_templates`, or an addition under the name `n`) -/
def Op.evicts (n : Name) : Op → Bool
  | .addBorrowed m _ | .addOwned m _ | .remove m => m == n
  | .clear => true
  | .setLoader _ | .setCfg _ | .get _ => false

/-! ## registries: `Arc<BTreeMap<..>>` handles with copy-on-write (`Arc::make_mut`)

A `Cow β` is a little heap: `cells` are the allocations, `ptr[i]` is the allocation environment `i`
holds an `Arc` to.  `Environment::clone` copies the pointer; `Arc::make_mut` mutates in place when
the handle is the only one (`Arc`'s strong count — the number of handles, a guarantee of `std`
that is an assumption here — is 1) and otherwise clones the map into a new allocation and
repoints the handle.  Handles are never dropped in the model (the count only over-approximates
then, which `make_mut` tolerates by copying). -/

structure Cow (β : Type) where
  cells : List β
  ptr : List Nat

def Cow.view {β : Type} (w : Cow β) (i : Nat) : Option β :=
  match w.ptr[i]? with
  | none => none
  | some a => w.cells[a]?

/-- `#[derive(Clone)]` on the field `Arc<…>` -/
def Cow.clone {β : Type} (w : Cow β) (i : Nat) : Cow β :=
  match w.ptr[i]? with
  | none => w
  | some a => { w with ptr := w.ptr ++ [a] }

/-- `f(Arc::make_mut(&mut handle_i))` -/
def Cow.makeMut {β : Type} (w : Cow β) (i : Nat) (f : β → β) : Cow β :=
  match w.ptr[i]? with
  | none => w
  | some a =>
    match w.cells[a]? with
    | none => w
    | some v =>
      if w.ptr.count a = 1 then { w with cells := w.cells.set a (f v) }
      else { cells := w.cells ++ [f v], ptr := w.ptr.set i w.cells.length }

def Cow.WF {β : Type} (w : Cow β) : Prop := ∀ a ∈ w.ptr, a < w.cells.length

abbrev Registry := List (Name × Nat)

inductive RegKind where
  | filter | test | global
  deriving Repr, DecidableEq

/-- Run-time configuration: plain fields of `Environment` that are read while rendering
    (`undefined_behavior`, `formatter`, `debug`, `recursion_limit`, `fuel`, `path_join_callback`,
    `unknown_method_callback`); each number identifies the installed value/callback.  They are not
    baked into compiled templates: a change applies to every later render. -/
structure RtCfg where
  undefined : Nat
  formatter : Nat
  debug : Nat
  recursionLimit : Nat
  fuel : Nat
  pathJoin : Nat
  unknownMethod : Nat
  deriving Repr, DecidableEq

def RtCfg.default : RtCfg :=
  { undefined := 0, formatter := 0, debug := 1, recursionLimit := 0, fuel := 0, pathJoin := 0, unknownMethod := 0 }

/-- several live environments (an environment and its clones) -/
structure World where
  stores : List Store
  rts : List RtCfg
  filters : Cow Registry
  tests : Cow Registry
  globals : Cow Registry

inductive WOp where
  | store (e : Nat) (op : Op)
  | regAdd (k : RegKind) (e : Nat) (name : Name) (v : Nat)   -- `add_filter/add_test/add_global`
  | regRemove (k : RegKind) (e : Nat) (name : Name)          -- `remove_filter/…`
  | clone (e : Nat)                                          -- `Environment::clone`
  | setRt (e : Nat) (r : RtCfg)                              -- `set_undefined_behavior`, `set_formatter`, `set_debug`, …

def World.init (f t g : Registry) : World :=
  { stores := [Store.empty], rts := [RtCfg.default], filters := ⟨[f], [0]⟩, tests := ⟨[t], [0]⟩, globals := ⟨[g], [0]⟩ }

/-- the auto-escape callback of `Environment::empty()` (`no_auto_escape`: never escapes) -/
def noAutoEscape : Nat := 2

/-- `Environment::empty()`: no filters, tests, globals; the auto-escape callback never escapes; all
    other fields as in `Environment::new()` -/
def World.initEmpty : World :=
  { stores := [{ Store.empty with cfg := { LtCfg.default with autoEscape := noAutoEscape } }], rts := [RtCfg.default],
    filters := ⟨[[]], [0]⟩, tests := ⟨[[]], [0]⟩, globals := ⟨[[]], [0]⟩ }

/-- which arm of `insert_cow` an addition takes: the borrowed arm needs BOTH the name and the source
    borrowed (`add_template`, or `add_template_owned` with two `&str`); any owned part sends it to
    the owned arm -/
def insertArmOf (nameBorrowed sourceBorrowed : Bool) : Bool := nameBorrowed && sourceBorrowed

def World.modReg (w : World) (k : RegKind) (e : Nat) (f : Registry → Registry) : World :=
  match k with
  | .filter => { w with filters := w.filters.makeMut e f }
  | .test => { w with tests := w.tests.makeMut e f }
  | .global => { w with globals := w.globals.makeMut e f }

def World.step (compiles : LtCfg → Source → Bool) (w : World) : WOp → World × Res
  | .store e op =>
    match w.stores[e]? with
    | none => (w, .done)
    | some s => ({ w with stores := w.stores.set e (s.step compiles op).1 }, (s.step compiles op).2)
  | .regAdd k e name v => (w.modReg k e (fun r => ins r name v), .done)
  | .regRemove k e name => (w.modReg k e (fun r => del r name), .done)
  | .clone e =>
    match w.stores[e]? with
    | none => (w, .done)
    | some s =>
      ({ stores := w.stores ++ [s], rts := w.rts ++ [(w.rts[e]?).getD RtCfg.default],
         filters := w.filters.clone e, tests := w.tests.clone e, globals := w.globals.clone e }, .done)
  | .setRt e r => ({ w with rts := w.rts.set e r }, .done)

def World.run (compiles : LtCfg → Source → Bool) (w : World) : List WOp → World
  | [] => w
  | op :: ops => World.run compiles (w.step compiles op).1 ops

def WOp.target : WOp → Nat
  | .store e _ | .regAdd _ e _ _ | .regRemove _ e _ | .clone e | .setRt e _ => e

/-- what environment `i` is, as seen from outside: the abstraction of its store and its three
    registries as maps -/
structure EnvView where
  store : Spec
  rt : RtCfg
  filters : Name → Option Nat
  tests : Name → Option Nat
  globals : Name → Option Nat

def regView (c : Cow Registry) (i : Nat) : Name → Option Nat :=
  match c.view i with
  | none => fun _ => none
  | some r => find r

def World.view (w : World) (i : Nat) : Option EnvView :=
  match w.stores[i]? with
  | none => none
  | some s => some { store := s.abs, rt := (w.rts[i]?).getD RtCfg.default, filters := regView w.filters i, tests := regView w.tests i,
                     globals := regView w.globals i }

def World.WF (w : World) : Prop :=
  w.filters.WF ∧ w.tests.WF ∧ w.globals.WF ∧
  w.filters.ptr.length = w.stores.length ∧ w.tests.ptr.length = w.stores.length ∧
  w.globals.ptr.length = w.stores.length ∧ w.rts.length = w.stores.length

/-! ## one environment as a value: what its behaviour is a function of

`EnvSpec` is the whole observable state of one environment: the run-time configuration, the
load-time configuration for future loads, the loader, per template name the pair (source,
load-time configuration at its last load), and the three registries.  `EOp` are the operations on
one environment (everything except `clone`, which creates another one). -/

structure EnvSpec where
  flat : Flat
  rt : RtCfg
  filters : Name → Option Nat
  tests : Name → Option Nat
  globals : Name → Option Nat

inductive EOp where
  | store (op : Op)
  | regAdd (k : RegKind) (name : Name) (v : Nat)
  | regRemove (k : RegKind) (name : Name)
  | setRt (r : RtCfg)

def EOp.at (e : Nat) : EOp → WOp
  | .store op => .store e op
  | .regAdd k name v => .regAdd k e name v
  | .regRemove k name => .regRemove k e name
  | .setRt r => .setRt e r

def EnvSpec.modReg (v : EnvSpec) (k : RegKind) (name : Name) (x : Option Nat) : EnvSpec :=
  match k with
  | .filter => { v with filters := upd v.filters name x }
  | .test => { v with tests := upd v.tests name x }
  | .global => { v with globals := upd v.globals name x }

def EnvSpec.step (compiles : LtCfg → Source → Bool) (v : EnvSpec) : EOp → EnvSpec × Res
  | .store op => ({ v with flat := (v.flat.step compiles op).1 }, (v.flat.step compiles op).2)
  | .regAdd k name x => (v.modReg k name (some x), .done)
  | .regRemove k name => (v.modReg k name none, .done)
  | .setRt r => ({ v with rt := r }, .done)

def EnvSpec.run (compiles : LtCfg → Source → Bool) (v : EnvSpec) : List EOp → EnvSpec
  | [] => v
  | op :: ops => EnvSpec.run compiles (v.step compiles op).1 ops

def EnvSpec.results (compiles : LtCfg → Source → Bool) (v : EnvSpec) : List EOp → List Res
  | [] => []
  | op :: ops => (v.step compiles op).2 :: EnvSpec.results compiles (v.step compiles op).1 ops

def World.flatView (w : World) (i : Nat) : Option EnvSpec :=
  match w.view i with
  | none => none
  | some v => some { flat := v.store.flat, rt := v.rt, filters := v.filters, tests := v.tests, globals := v.globals }

/-- results of a sequence of operations all applied to environment `e` -/
def World.resultsAt (compiles : LtCfg → Source → Bool) (w : World) (e : Nat) : List EOp → List Res
  | [] => []
  | op :: ops => (w.step compiles (op.at e)).2 :: World.resultsAt compiles (w.step compiles (op.at e)).1 e ops

def World.runAt (compiles : LtCfg → Source → Bool) (w : World) (e : Nat) : List EOp → World
  | [] => w
  | op :: ops => World.runAt compiles (w.step compiles (op.at e)).1 e ops

/-- taking everything out of an `Environment::new()` that `Environment::empty()` does not have:
    `remove_filter`/`remove_test`/`remove_global` for every builtin and `set_auto_escape_callback`
    with the callback that never escapes -/
def stripOps (f t g : Registry) : List EOp :=
  f.map (fun p => EOp.regRemove .filter p.1) ++ t.map (fun p => EOp.regRemove .test p.1) ++
  g.map (fun p => EOp.regRemove .global p.1) ++ [.store (.setCfg { LtCfg.default with autoEscape := noAutoEscape })]

/-! ## state identity: which render a macro value belongs to

`vm/state.rs`: every `State` (one per render, also per `empty_state()`/`render_str`) takes its `id`
from ONE process-wide counter `STATE_ID` (`fetch_add(1)`, an atomic: the increments of all threads
are totally ordered — an assumption about `std`).  `vm/mod.rs` stamps `state_id: state.id` into
every macro value it builds; `Macro::call` refuses to run when `state.id != self.state_id`
("cannot call this macro. template state went away.").  Counter wrap-around (2^64 states) is not
modelled. -/

/-- the counter and, in creation order, the states created so far as `(thread, id)` -/
structure IdSys where
  next : Nat
  created : List (Nat × Nat)

def IdSys.init : IdSys := { next := 0, created := [] }

/-- `State::new` on thread `t` -/
def IdSys.newState (s : IdSys) (t : Nat) : IdSys :=
  { next := s.next + 1, created := s.created ++ [(t, s.next)] }

/-- any interleaving of renders started by any threads: the list of the threads in the order in
    which their `fetch_add` took effect -/
def IdSys.run (s : IdSys) : List Nat → IdSys
  | [] => s
  | t :: ts => IdSys.run (s.newState t) ts

/-- `Macro::call`: may a macro stamped with `macroStateId` run in the state `stateId`? -/
def macroAccepted (stateId macroStateId : Nat) : Bool := stateId == macroStateId

/-- The design the seeded mutant C15-2 introduced, for contrast: one counter per thread. -/
def perThreadId (created : List (Nat × Nat)) (t : Nat) : Nat :=
  (created.filter (fun p => p.1 == t)).length

def perThreadRun (created : List (Nat × Nat)) : List Nat → List (Nat × Nat)
  | [] => created
  | t :: ts => perThreadRun (created ++ [(t, perThreadId created t)]) ts

/-! ## thread-local state and unwinding

`value/mod.rs`: `INTERNAL_SERIALIZATION` (a per-thread flag, `true` while a `Value::from(Serde(x))`
conversion runs; `impl Serialize for Value` then emits a *value handle* instead of the value's data),
`LAST_VALUE_HANDLE` (a counter), `VALUE_HANDLES` (handle ↦ parked value).  The conversion does
`old = flag.replace(true)` and creates `InternalSerializationGuard { reset_on_drop: !old }` whose
`Drop` resets the flag iff `reset_on_drop` — on EVERY way out: normal return, an `Err` (which does
not unwind) and a panic of a user `Serialize` impl that the host catches.  The other thread-locals
of the crate hold no state that a later operation reads: the code generator's buffer pools are
cleared when a buffer is taken, `macros::ENV` is an immutable environment. -/

structure ThreadState where
  /-- `INTERNAL_SERIALIZATION` -/
  serializing : Bool
  /-- `LAST_VALUE_HANDLE` -/
  lastHandle : Nat
  /-- `VALUE_HANDLES` -/
  handles : List (Nat × Nat)
  /-- the live `InternalSerializationGuard`s (their `reset_on_drop`), innermost first -/
  guards : List Bool

def ThreadState.clean : ThreadState := { serializing := false, lastHandle := 0, handles := [], guards := [] }

/-- what happens inside conversions -/
inductive ConvEv where
  | enter            -- a (nested) `Value::from(Serde(..))` begins
  | leave            -- it returns (with a value or with an invalid value for an `Err`)
  | park (v : Nat)   -- an engine `Value` is serialised while the flag is set: parked under a fresh handle
  | take             -- … and taken back by `ValueSerializer` (`SerializeTupleStruct::end`)

/-- `Drop for InternalSerializationGuard`; `resetWhileUnwinding = true` is the code as it is,
    `false` is the seeded variant C15-4 (`&& !std::thread::panicking()`) -/
def dropGuard (resetWhileUnwinding unwinding : Bool) (t : ThreadState) : ThreadState :=
  match t.guards with
  | [] => t
  | g :: gs =>
    { t with guards := gs,
             serializing := if g && (resetWhileUnwinding || !unwinding) then false else t.serializing }

def ThreadState.step (t : ThreadState) : ConvEv → ThreadState
  | .enter => { t with guards := (!t.serializing) :: t.guards, serializing := true }
  | .leave => dropGuard true false t
  | .park v =>
    if t.serializing then { t with lastHandle := t.lastHandle + 1, handles := (t.lastHandle + 1, v) :: t.handles }
    else t
  | .take => { t with handles := t.handles.drop 1 }

def ThreadState.run (t : ThreadState) : List ConvEv → ThreadState
  | [] => t
  | e :: es => ThreadState.run (t.step e) es

/-- a panic: every live guard is dropped while unwinding, innermost first -/
def unwind (resetWhileUnwinding : Bool) (t : ThreadState) : Nat → ThreadState
  | 0 => t
  | n + 1 => unwind resetWhileUnwinding (dropGuard resetWhileUnwinding true t) n

/-- an outermost conversion whose body does `body` and is then left by a panic that the host catches -/
def panickingConversion (resetWhileUnwinding : Bool) (t : ThreadState) (body : List ConvEv) : ThreadState :=
  let t' := (t.step .enter).run body
  unwind resetWhileUnwinding t' t'.guards.length

/-- what `impl Serialize for Value` emits for a foreign serializer (`tojson`, JSON auto-escape):
    the data, or a handle when the thread is (believed to be) inside a conversion -/
def emitsData (t : ThreadState) : Bool := !t.serializing

/-! ## the source facts this model transcribes

Compared with the tables `lib/tables/c15.py` regenerates from `/repo` on every run
(`MJ.C15.source_tables_match_model`). -/

/-- which `Environment::set_*` is which kind of operation of the model: `load` = `Op.setCfg` (a field
    of `TemplateConfig`), `loader` = `Op.setLoader`, `run` = `WOp.setRt` (a field of `RtCfg`) -/
def modelSetters : List (String × String) :=
  [("set_loader", "loader"), ("set_keep_trailing_newline", "load"), ("set_trim_blocks", "load"),
   ("set_lstrip_blocks", "load"), ("set_path_join_callback", "run"),
   ("set_unknown_method_callback", "run"), ("set_auto_escape_callback", "load"),
   ("set_undefined_behavior", "run"), ("set_formatter", "run"), ("set_debug", "run"),
   ("set_fuel", "run"), ("set_syntax", "load"), ("set_recursion_limit", "run")]

/-- `LtCfg` has one field per load-time setting: `syn`, (`ktn`, `lstrip`, `trim`), `autoEscape` -/
def modelTemplateConfig : List String := ["syntax_config", "ws_config", "default_auto_escape"]
def modelWhitespaceConfig : List String := ["keep_trailing_newline", "lstrip_blocks", "trim_blocks"]

/-- `Store.step (.addBorrowed ..)` / `(.addOwned ..)`: compile, then evict the other tier, then
    insert; no early return, no look at what is stored already -/
def modelInsertArms : List (List String) := [["compile", "evict", "insert"], ["compile", "evict", "insert"]]

/-- `Store.get` -/
def modelGetOrder : List String := ["borrowed", "memo", "loader", "not-found", "compile"]

def modelRemoveTiers : List String := ["borrowed_templates", "owned_templates", "unconditional"]
def modelClearTiers : List String := ["borrowed_templates", "owned_templates", "unconditional"]

/-- `IdSys`: one process-wide atomic counter -/
def modelStateId : String := "static:atomic:fetch_add"

/-- `World.step (.clone e)` copies every field -/
def modelCloneDerives : List String := ["Environment:derive", "LoaderStore:derive"]

/-- every `thread_local!` of the crate (the feature-gated `verif_hooks.rs` aside) and what the model
    says about it: `guarded` = restored by a drop guard on every way out (`ThreadState.serializing`),
    `counter` = only ever incremented, read for freshness only (`lastHandle`), `registry` = entries
    are keyed by fresh handles, a leaked entry is never read (`handles`), `immutable`, `pool` =
    buffers are cleared when taken -/
def modelThreadLocals : List (String × String) :=
  [("compiler/codegen.rs:PENDING_BLOCK_POOL", "pool"), ("compiler/codegen.rs:SPAN_STACK_POOL", "pool"),
   ("macros.rs:ENV", "immutable"),
   ("value/mod.rs:INTERNAL_SERIALIZATION", "guarded"), ("value/mod.rs:LAST_VALUE_HANDLE", "counter"),
   ("value/mod.rs:VALUE_HANDLES", "registry")]

/-- every `impl Drop` of the crate that restores thread-local state: (type, condition, action) —
    `dropGuard true`: the condition is the guard's own `reset_on_drop` and nothing else -/
def modelDropGuards : List (String × String × String) :=
  [("InternalSerializationGuard", "self.reset_on_drop", "self.flag.set(false);")]

end MJ.Store
