/-!
# Model of the template store and the registries of an `Environment`  (C15)

Mirrors `minijinja/src/loader.rs` (`LoaderStore::{insert_cow, remove, clear, get, set_loader, iter}`)
and the registry part of `minijinja/src/environment.rs` (`Arc<BTreeMap>` + `Arc::make_mut`,
`#[derive(Clone)]`).

* names and sources are opaque identifiers (`Nat`);
* compiling a source is a *parameter* `compiles : Source → Bool` (`CompiledTemplate::new`
  succeeds or returns a syntax error; nothing else of the compiler matters for the store);
* a loader is a function `Name → LoadRes` (`Ok(None)`, `Ok(Some(source))`, `Err(_)`); it is a
  pure function: the closure the harness installs has no state of its own;
* `BTreeMap`/`MemoMap` are association lists with `find`/`ins` (insert-or-replace)/`del`; only
  these operations are used by the Rust code (`MemoMap::get_or_try_insert` = `find`, else create
  and `ins`, nothing is inserted when the creator fails);
* entries of the owned tier carry a *ghost* origin tag (registered by `add_template_owned` or
  memoised from the loader).  The Rust code has no such tag; no operation of the model reads it
  (`MJ.C15.results_depend_on_contents_only` proves it), it only serves to state the abstraction
  `explicit`/`cached`.

No Mathlib import: this file is linked into `drive_c15`.
-/
namespace MJ.Store

abbrev Name := Nat
abbrev Source := Nat

/-! ## association lists -/

def find {β : Type} : List (Name × β) → Name → Option β
  | [], _ => none
  | (k, v) :: t, n => if k = n then some v else find t n

def del {β : Type} (l : List (Name × β)) (n : Name) : List (Name × β) :=
  l.filter (fun p => p.1 != n)

/-- insert or replace -/
def ins {β : Type} (l : List (Name × β)) (n : Name) (v : β) : List (Name × β) :=
  (n, v) :: del l n

/-! ## the two-tier store -/

inductive LoadRes where
  | missing            -- `Ok(None)`
  | src (s : Source)   -- `Ok(Some(source))`
  | err                -- `Err(_)`
  deriving Repr, DecidableEq

/-- ghost: how an entry got into `owned_templates` -/
inductive Origin where
  | explicit | loaded
  deriving Repr, DecidableEq

structure Store where
  /-- `loader: Option<Arc<LoadFunc>>` -/
  loader : Option (Name → LoadRes)
  /-- `borrowed_templates: BTreeMap<&str, Arc<CompiledTemplate>>` (the compiled template is
      determined by its source) -/
  borrowed : List (Name × Source)
  /-- `owned_templates: MemoMap<Arc<str>, Arc<LoadedTemplate>>` -/
  owned : List (Name × (Source × Origin))

def Store.empty : Store := { loader := none, borrowed := [], owned := [] }

inductive Op where
  | addBorrowed (n : Name) (src : Source)   -- `add_template`  → `insert_cow(Borrowed, Borrowed)`
  | addOwned (n : Name) (src : Source)      -- `add_template_owned` → `insert_cow(_, _)`
  | remove (n : Name)                       -- `remove_template`
  | clear                                   -- `clear_templates`
  | setLoader (l : Name → LoadRes)          -- `set_loader`
  | get (n : Name)                          -- `get_template` (also every include/extends/import lookup)

inductive Res where
  | done
  | compileError          -- `Err(SyntaxError)` from `CompiledTemplate::new`
  | found (s : Source)
  | notFound              -- `Error::new_not_found`
  | loaderError           -- the loader's own `Err`
  deriving Repr, DecidableEq

/-- `LoaderStore::get` -/
def Store.get (compiles : Source → Bool) (s : Store) (n : Name) : Store × Res :=
  match find s.borrowed n with
  | some src => (s, .found src)
  | none =>
    match find s.owned n with
    | some (src, _) => (s, .found src)
    | none =>
      match s.loader with
      | none => (s, .notFound)
      | some l =>
        match l n with
        | .err => (s, .loaderError)
        | .missing => (s, .notFound)
        | .src src =>
          if compiles src then ({ s with owned := ins s.owned n (src, .loaded) }, .found src)
          else (s, .compileError)

/-- One operation of the store, as in the repaired code (`fix:` commit of C15): the new source is
    compiled first, the other tier is evicted only when that succeeded. -/
def Store.step (compiles : Source → Bool) (s : Store) : Op → Store × Res
  | .addBorrowed n src =>
    if compiles src then
      ({ s with owned := del s.owned n, borrowed := ins s.borrowed n src }, .done)
    else (s, .compileError)
  | .addOwned n src =>
    if compiles src then
      ({ s with borrowed := del s.borrowed n, owned := ins s.owned n (src, .explicit) }, .done)
    else (s, .compileError)
  | .remove n => ({ s with borrowed := del s.borrowed n, owned := del s.owned n }, .done)
  | .clear => ({ s with borrowed := [], owned := [] }, .done)
  | .setLoader l => ({ s with loader := some l }, .done)
  | .get n => s.get compiles n

/-- `insert_cow` as it was in the pinned tree (before the fix): the other tier was evicted *before*
    the new source was compiled.  Kept only to state what the defect was
    (`MJ.C15.pinned_insert_was_not_a_noop`). -/
def Store.stepPinned (compiles : Source → Bool) (s : Store) : Op → Store × Res
  | .addBorrowed n src =>
    let s' := { s with owned := del s.owned n }
    if compiles src then ({ s' with borrowed := ins s.borrowed n src }, .done)
    else (s', .compileError)
  | .addOwned n src =>
    let s' := { s with borrowed := del s.borrowed n }
    if compiles src then ({ s' with owned := ins s.owned n (src, .explicit) }, .done)
    else (s', .compileError)
  | op => s.step compiles op

/-- run a history, keeping the states -/
def Store.run (compiles : Source → Bool) (s : Store) : List Op → Store
  | [] => s
  | op :: ops => Store.run compiles (s.step compiles op).1 ops

/-- the results of all operations of a history -/
def Store.results (compiles : Source → Bool) (s : Store) : List Op → List Res
  | [] => []
  | op :: ops => (s.step compiles op).2 :: Store.results compiles (s.step compiles op).1 ops

/-- `LoaderStore::iter`: borrowed entries, then owned entries -/
def Store.iter (s : Store) : List (Name × Source) :=
  s.borrowed ++ s.owned.map (fun p => (p.1, p.2.1))

/-! ## the specification: a plain map of explicit templates plus a memo cache -/

def upd {β : Type} (f : Name → Option β) (n : Name) (v : Option β) : Name → Option β :=
  fun m => if m = n then v else f m

structure Spec where
  loader : Option (Name → LoadRes)
  explicit : Name → Option Source
  cached : Name → Option Source

/-- lookup in the specification: explicit templates, then the memo cache, then the loader (whose
    answer is memoised when it compiles) -/
def Spec.get (compiles : Source → Bool) (sp : Spec) (n : Name) : Spec × Res :=
  match sp.explicit n with
  | some src => (sp, .found src)
  | none =>
    match sp.cached n with
    | some src => (sp, .found src)
    | none =>
      match sp.loader with
      | none => (sp, .notFound)
      | some l =>
        match l n with
        | .err => (sp, .loaderError)
        | .missing => (sp, .notFound)
        | .src src =>
          if compiles src then ({ sp with cached := upd sp.cached n (some src) }, .found src)
          else (sp, .compileError)

def Spec.step (compiles : Source → Bool) (sp : Spec) : Op → Spec × Res
  | .addBorrowed n src | .addOwned n src =>
    if compiles src then
      ({ sp with explicit := upd sp.explicit n (some src), cached := upd sp.cached n none }, .done)
    else (sp, .compileError)
  | .remove n => ({ sp with explicit := upd sp.explicit n none, cached := upd sp.cached n none }, .done)
  | .clear => ({ sp with explicit := fun _ => none, cached := fun _ => none }, .done)
  | .setLoader l => ({ sp with loader := some l }, .done)
  | .get n => sp.get compiles n

/-- the abstraction function -/
def Store.abs (s : Store) : Spec where
  loader := s.loader
  explicit := fun m =>
    match find s.borrowed m with
    | some src => some src
    | none =>
      match find s.owned m with
      | some (src, .explicit) => some src
      | _ => none
  cached := fun m =>
    match find s.borrowed m with
    | some _ => none
    | none =>
      match find s.owned m with
      | some (src, .loaded) => some src
      | _ => none

/-- The contents of an environment's template store as one map (what `get` answers from without
    consulting the loader); this forgets the ghost tag. -/
structure Flat where
  loader : Option (Name → LoadRes)
  contents : Name → Option Source

def Spec.flat (sp : Spec) : Flat where
  loader := sp.loader
  contents := fun m => match sp.explicit m with | some s => some s | none => sp.cached m

def Flat.get (compiles : Source → Bool) (f : Flat) (n : Name) : Flat × Res :=
  match f.contents n with
  | some src => (f, .found src)
  | none =>
    match f.loader with
    | none => (f, .notFound)
    | some l =>
      match l n with
      | .err => (f, .loaderError)
      | .missing => (f, .notFound)
      | .src src =>
        if compiles src then ({ f with contents := upd f.contents n (some src) }, .found src)
        else (f, .compileError)

def Flat.step (compiles : Source → Bool) (f : Flat) : Op → Flat × Res
  | .addBorrowed n src | .addOwned n src =>
    if compiles src then ({ f with contents := upd f.contents n (some src) }, .done)
    else (f, .compileError)
  | .remove n => ({ f with contents := upd f.contents n none }, .done)
  | .clear => ({ f with contents := fun _ => none }, .done)
  | .setLoader l => ({ f with loader := some l }, .done)
  | .get n => f.get compiles n

def Flat.results (compiles : Source → Bool) (f : Flat) : List Op → List Res
  | [] => []
  | op :: ops => (f.step compiles op).2 :: Flat.results compiles (f.step compiles op).1 ops

def Flat.run (compiles : Source → Bool) (f : Flat) : List Op → Flat
  | [] => f
  | op :: ops => Flat.run compiles (f.step compiles op).1 ops

/-- does the operation remove or replace the template `n`? (`remove_template(n)`,
    `clear_templates`, or an addition under the name `n`) -/
def Op.evicts (n : Name) : Op → Bool
  | .addBorrowed m _ | .addOwned m _ | .remove m => m == n
  | .clear => true
  | .setLoader _ | .get _ => false

/-! ## registries: `Arc<BTreeMap<..>>` handles with copy-on-write (`Arc::make_mut`)

A `Cow β` is a little heap: `cells` are the allocations, `ptr[i]` is the allocation environment `i`
holds an `Arc` to.  `Environment::clone` copies the pointer; `Arc::make_mut` mutates in place when
the handle is the only one (`Arc`'s strong count — the number of handles, a guarantee of `std`
that is an assumption here — is 1) and otherwise clones the map into a new allocation and
repoints the handle.  Handles are never dropped in the model (the count only over-approximates
then, which `make_mut` tolerates by copying). -/

structure Cow (β : Type) where
  cells : List β
  ptr : List Nat

def Cow.view {β : Type} (w : Cow β) (i : Nat) : Option β :=
  match w.ptr[i]? with
  | none => none
  | some a => w.cells[a]?

/-- `#[derive(Clone)]` on the field `Arc<…>` -/
def Cow.clone {β : Type} (w : Cow β) (i : Nat) : Cow β :=
  match w.ptr[i]? with
  | none => w
  | some a => { w with ptr := w.ptr ++ [a] }

/-- `f(Arc::make_mut(&mut handle_i))` -/
def Cow.makeMut {β : Type} (w : Cow β) (i : Nat) (f : β → β) : Cow β :=
  match w.ptr[i]? with
  | none => w
  | some a =>
    match w.cells[a]? with
    | none => w
    | some v =>
      if w.ptr.count a = 1 then { w with cells := w.cells.set a (f v) }
      else { cells := w.cells ++ [f v], ptr := w.ptr.set i w.cells.length }

def Cow.WF {β : Type} (w : Cow β) : Prop := ∀ a ∈ w.ptr, a < w.cells.length

abbrev Registry := List (Name × Nat)

inductive RegKind where
  | filter | test | global
  deriving Repr, DecidableEq

/-- several live environments (an environment and its clones) -/
structure World where
  stores : List Store
  filters : Cow Registry
  tests : Cow Registry
  globals : Cow Registry

inductive WOp where
  | store (e : Nat) (op : Op)
  | regAdd (k : RegKind) (e : Nat) (name : Name) (v : Nat)   -- `add_filter/add_test/add_global`
  | regRemove (k : RegKind) (e : Nat) (name : Name)          -- `remove_filter/…`
  | clone (e : Nat)                                          -- `Environment::clone`

def World.init (f t g : Registry) : World :=
  { stores := [Store.empty], filters := ⟨[f], [0]⟩, tests := ⟨[t], [0]⟩, globals := ⟨[g], [0]⟩ }

def World.modReg (w : World) (k : RegKind) (e : Nat) (f : Registry → Registry) : World :=
  match k with
  | .filter => { w with filters := w.filters.makeMut e f }
  | .test => { w with tests := w.tests.makeMut e f }
  | .global => { w with globals := w.globals.makeMut e f }

def World.step (compiles : Source → Bool) (w : World) : WOp → World × Res
  | .store e op =>
    match w.stores[e]? with
    | none => (w, .done)
    | some s => ({ w with stores := w.stores.set e (s.step compiles op).1 }, (s.step compiles op).2)
  | .regAdd k e name v => (w.modReg k e (fun r => ins r name v), .done)
  | .regRemove k e name => (w.modReg k e (fun r => del r name), .done)
  | .clone e =>
    match w.stores[e]? with
    | none => (w, .done)
    | some s =>
      ({ stores := w.stores ++ [s], filters := w.filters.clone e, tests := w.tests.clone e,
         globals := w.globals.clone e }, .done)

def World.run (compiles : Source → Bool) (w : World) : List WOp → World
  | [] => w
  | op :: ops => World.run compiles (w.step compiles op).1 ops

def WOp.target : WOp → Nat
  | .store e _ | .regAdd _ e _ _ | .regRemove _ e _ | .clone e => e

/-- what environment `i` is, as seen from outside: the abstraction of its store and its three
    registries as maps -/
structure EnvView where
  store : Spec
  filters : Name → Option Nat
  tests : Name → Option Nat
  globals : Name → Option Nat

def regView (c : Cow Registry) (i : Nat) : Name → Option Nat :=
  match c.view i with
  | none => fun _ => none
  | some r => find r

def World.view (w : World) (i : Nat) : Option EnvView :=
  match w.stores[i]? with
  | none => none
  | some s => some { store := s.abs, filters := regView w.filters i, tests := regView w.tests i,
                     globals := regView w.globals i }

def World.WF (w : World) : Prop :=
  w.filters.WF ∧ w.tests.WF ∧ w.globals.WF ∧
  w.filters.ptr.length = w.stores.length ∧ w.tests.ptr.length = w.stores.length ∧
  w.globals.ptr.length = w.stores.length

/-! ## state identity: which render a macro value belongs to

`vm/state.rs`: every `State` (one per render, also per `empty_state()`/`render_str`) takes its `id`
from ONE process-wide counter `STATE_ID` (`fetch_add(1)`, an atomic: the increments of all threads
are totally ordered — an assumption about `std`).  `vm/mod.rs` stamps `state_id: state.id` into
every macro value it builds; `Macro::call` refuses to run when `state.id != self.state_id`
("cannot call this macro. template state went away.").  Counter wrap-around (2^64 states) is not
modelled. -/

/-- the counter and, in creation order, the states created so far as `(thread, id)` -/
structure IdSys where
  next : Nat
  created : List (Nat × Nat)

def IdSys.init : IdSys := { next := 0, created := [] }

/-- `State::new` on thread `t` -/
def IdSys.newState (s : IdSys) (t : Nat) : IdSys :=
  { next := s.next + 1, created := s.created ++ [(t, s.next)] }

/-- any interleaving of renders started by any threads: the list of the threads in the order in
    which their `fetch_add` took effect -/
def IdSys.run (s : IdSys) : List Nat → IdSys
  | [] => s
  | t :: ts => IdSys.run (s.newState t) ts

/-- `Macro::call`: may a macro stamped with `macroStateId` run in the state `stateId`? -/
def macroAccepted (stateId macroStateId : Nat) : Bool := stateId == macroStateId

/-- The design the seeded mutant C15-2 introduced, for contrast: one counter per thread. -/
def perThreadId (created : List (Nat × Nat)) (t : Nat) : Nat :=
  (created.filter (fun p => p.1 == t)).length

def perThreadRun (created : List (Nat × Nat)) : List Nat → List (Nat × Nat)
  | [] => created
  | t :: ts => perThreadRun (created ++ [(t, perThreadId created t)]) ts

end MJ.Store
