import MJ.Model.Lexer
/-!
# Templates as segment lists and the declarative whitespace rules (specification side of C10)

A template is a head text followed by (tag, text) pairs.  `unparse d` writes it with the
delimiters `d`; `specRender` says what it prints by applying the five rules of the property
locally to every text:

1. one trailing line break of the template is dropped unless `keep_trailing_newline`;
2. all whitespace after a tag whose right marker is `-` is dropped;
3. all whitespace before a tag whose left marker is `-` is dropped;
4. under `trim_blocks` one line break directly after a block/comment/raw tag is dropped unless that
   side carries `+` (or `-`, rule 2);
5. under `lstrip_blocks` the horizontal whitespace between the start of a line and a
   block/comment/raw tag is dropped unless that side carries `+` (or `-`, rule 3).

Nothing else is removed; raw content is a text between two block tags that is not scanned.
-/
namespace MJ.Lexer

inductive Mark where
  | none | minus | plus
  deriving Repr, DecidableEq

def Mark.src : Mark → List Char
  | .none => []
  | .minus => ['-']
  | .plus => ['+']

def Mark.ws : Mark → Ws
  | .none => .dflt
  | .minus => .remove
  | .plus => .preserve

/-! ## tag interiors as token lists -/

/-- tokens of a tag interior -/
inductive Tok where
  /-- ASCII whitespace -/
  | ws (s : List Char)
  | ident (s : List Char)
  /-- decimal integer -/
  | int (ds : List Char)
  /-- string literal: quote and what stands between the quotes (with backslash escapes) -/
  | str (q : Char) (body : List Char)
  /-- single character operator or bracket -/
  | op (c : Char)
  /-- two character operator -/
  | op2 (a b : Char)
  deriving Repr, DecidableEq

def Tok.src : Tok → List Char
  | .ws s => s
  | .ident s => s
  | .int ds => ds
  | .str q body => q :: (body ++ [q])
  | .op c => [c]
  | .op2 a b => [a, b]

def srcs : List Tok → List Char
  | [] => []
  | t :: ts => t.src ++ srcs ts

/-- effect on the bracket depth (`paren_balance`) -/
def Tok.delta : Tok → Int
  | .op c => (singleOp c).getD 0
  | _ => 0

def Tok.isWs : Tok → Bool
  | .ws _ => true
  | _ => false

/-- four characters that `u16::from_str_radix(_, 16)` accepts (hex digits, the first may be `+`)
    and their value -/
def hex4 (a b c d : Char) : Option Nat :=
  if (isHexDigit a || a = '+') && isHexDigit b && isHexDigit c && isHexDigit d then
    some ((((if a = '+' then 0 else hexVal a) * 16 + hexVal b) * 16 + hexVal c) * 16 + hexVal d)
  else none

def octVal (c : Char) : Nat := c.toNat - '0'.toNat

/-- The body of a string literal, escape by escape (`sur` = a `\uD8xx` surrogate waits for its
    partner): no unescaped quote; `\uXXXX` with four hex digits, surrogates only as a high one
    directly followed by a low one; `\xXX`; an octal escape takes as many of up to three octal
    digits as follow and must fit a byte; any other character behind a backslash is fine
    (`\n`, `\"`, `\q`).  This is what `utils::unescape` accepts. -/
def strBodyOkF (q : Char) : Nat → Nat → List Char → Bool
  | 0, _, _ => false
  | _ + 1, sur, [] => sur == 0
  | fuel + 1, sur, c :: r =>
    if c = '\\' then
      match r with
      | [] => false
      | d :: r1 =>
        if d = 'u' then
          match r1 with
          | a :: b :: c2 :: e :: r2 =>
            match hex4 a b c2 e with
            | some v =>
              match pushU16 sur v with
              | some s => strBodyOkF q fuel s r2
              | none => false
            | none => false
          | _ => false
        else if sur != 0 then false
        else if d = 'x' then
          match r1 with
          | a :: b :: r2 => (isHexDigit a || a = '+') && isHexDigit b && strBodyOkF q fuel 0 r2
          | _ => false
        else if isOct d then
          match r1 with
          | a :: r2 =>
            if isOct a then
              match r2 with
              | b :: r3 =>
                if isOct b then decide ((octVal d * 8 + octVal a) * 8 + octVal b ≤ 255) && strBodyOkF q fuel 0 r3
                else strBodyOkF q fuel 0 (b :: r3)
              | [] => true
            else strBodyOkF q fuel 0 (a :: r2)
          | [] => true
        else strBodyOkF q fuel 0 r1
    else c != q && sur == 0 && strBodyOkF q fuel 0 r

/-- (the recursion is on a counter that starts above the length of the body; every step consumes at
    least one character) -/
def strBodyOk (q : Char) (sur : Nat) (body : List Char) : Bool := strBodyOkF q (body.length + 1) sur body

/-- value of a decimal digit string -/
def decVal (ds : List Char) : Nat := ds.foldl (fun v c => v * 10 + (c.toNat - '0'.toNat)) 0

/-- the token is well formed -/
def Tok.wf : Tok → Bool
  | .ws s => !s.isEmpty && s.all isAsciiWs
  | .ident s =>
    match s with
    | c :: cs => isIdentStart c && cs.all isIdentCont
    | [] => false
  | .int ds => !ds.isEmpty && ds.all isDigit && decide (decVal ds < 340282366920938463463374607431768211456)
  | .str q body => (q = '\'' || q = '"') && strBodyOk q 0 body
  | .op c => (singleOp c).isSome
  | .op2 a b => twoCharOp a b

/-- the token ends where it is written: the next character does not extend it -/
def Tok.follow (t : Tok) (next : Option Char) : Bool :=
  match t, next with
  | .ident _, some c => !isIdentCont c && decide (c.toNat < 128)
  | .int _, some c => !(isIdentCont c || c = '.')
  | .op a, some c => !twoCharOp a c
  | _, _ => true

/-- at `s` the tag would end: the end delimiter, possibly behind a marker -/
def endHere (e : List Char) (s : List Char) : Bool :=
  startsWith e s || match s with
    | c :: r => (c = '-' || c = '+') && startsWith e r
    | [] => false

/-- the interior `ts` (followed by `fol`) is read token by token as written and the tag does not
    end inside it: tokens are well formed and separated, and no token at bracket depth 0 starts
    with the end delimiter or with a marker directly in front of the end delimiter; the brackets
    are closed at the end -/
def interiorOk (e : List Char) : Int → List Tok → List Char → Bool
  | bal, [], _ => bal == 0
  | bal, t :: ts, fol =>
    t.wf && t.follow (srcs ts ++ fol).head? && (t.isWs || bal != 0 || !endHere e (srcs (t :: ts) ++ fol)) &&
      interiorOk e (bal + t.delta) ts fol

/-! ### the fixed vocabulary of the segment stream -/

/-- `" v "` or, tight, `"v"` -/
def vocabV (tight : Bool) : List Tok :=
  if tight then [.ident ['v']] else [.ws [' '], .ident ['v'], .ws [' ']]

/-- `" if t "` or, tight, `"if t"` -/
def vocabIf (tight : Bool) : List Tok :=
  if tight then [.ident ['i', 'f'], .ws [' '], .ident ['t']]
  else [.ws [' '], .ident ['i', 'f'], .ws [' '], .ident ['t'], .ws [' ']]

/-- `" endif "` or, tight, `"endif"` -/
def vocabEndif (tight : Bool) : List Tok :=
  if tight then [.ident ['e', 'n', 'd', 'i', 'f']] else [.ws [' '], .ident ['e', 'n', 'd', 'i', 'f'], .ws [' ']]

/-- blank around `raw` / `endraw`: `{% raw %}` or, tight, `{%raw%}` -/
def pad (tight : Bool) : List Char := if tight then [] else [' ']

inductive Kind where
  /-- variable tag with its interior -/
  | var (ts : List Tok)
  /-- block tag with its interior -/
  | block (ts : List Tok)
  /-- comment with an arbitrary body (possibly empty, blank, or made of `-`/`+` characters) -/
  | comment (body : List Char)
  /-- raw block: content, right marker of `{% raw %}`, left marker of `{% endraw %}` -/
  | raw (content : List Char) (ri l2 : Mark) (tight : Bool)
  /-- line statement: prefix and interior; the blanks up to the end of the line and the line break
      are the beginning of the text that follows -/
  | lineStmt (ts : List Tok)
  /-- line comment: prefix and everything up to the end of the line; the line break is the
      beginning of the text that follows -/
  | lineComment (body : List Char)
  deriving Repr, DecidableEq

/-- a tag with its outer markers (`l` on the opening side, `r` on the closing side) -/
structure Tag where
  kind : Kind
  l : Mark
  r : Mark
  deriving Repr, DecidableEq

structure Tmpl where
  head : List Char
  tail : List (Tag × List Char)
  deriving Repr, DecidableEq

def rawBody (tight : Bool) : List Char := pad tight ++ (rawName ++ pad tight)
def endrawBody (tight : Bool) : List Char := pad tight ++ (endrawName ++ pad tight)

/-- start delimiter of a tag -/
def Tag.start (d : Delims) (g : Tag) : List Char :=
  match g.kind with
  | .var _ => d.vs
  | .block _ => d.bs
  | .comment _ => d.cs
  | .raw _ _ _ _ => d.bs
  | .lineStmt _ => d.ls
  | .lineComment _ => d.lc

/-- source after the start delimiter -/
def Tag.after (d : Delims) (g : Tag) : List Char :=
  match g.kind with
  | .var ts => g.l.src ++ srcs ts ++ g.r.src ++ d.ve
  | .block ts => g.l.src ++ srcs ts ++ g.r.src ++ d.be
  | .comment body => g.l.src ++ body ++ g.r.src ++ d.ce
  | .raw c ri l2 tight =>
    g.l.src ++ rawBody tight ++ ri.src ++ d.be ++ c ++ d.bs ++ l2.src ++ endrawBody tight ++ g.r.src ++ d.be
  | .lineStmt ts => srcs ts
  | .lineComment body => body

def Tag.src (d : Delims) (g : Tag) : List Char := g.start d ++ g.after d

def unparseTail (d : Delims) : List (Tag × List Char) → List Char
  | [] => []
  | (g, t) :: r => g.src d ++ t ++ unparseTail d r

def unparse (d : Delims) (tm : Tmpl) : List Char := tm.head ++ unparseTail d tm.tail

/-- block, comment and raw tags take part in `trim_blocks` / `lstrip_blocks`; variable tags do not -/
def Tag.blockish (g : Tag) : Bool :=
  match g.kind with
  | .var _ => false
  | _ => true

/-- line statements and line comments -/
def Tag.isLine (g : Tag) : Bool :=
  match g.kind with
  | .lineStmt _ => true
  | .lineComment _ => true
  | _ => false

/-! ## the rules -/

def wsPre (t : List Char) : Nat := (t.takeWhile isWs).length

/-- characters removed at the start of a text that follows a tag with right marker `m` -/
def leftCut (cfg : Cfg) (blockish : Bool) (m : Mark) (t : List Char) : Nat :=
  match m with
  | .minus => wsPre t
  | .none => if blockish && cfg.trim then nlLen t else 0
  | .plus => 0

/-- the horizontal whitespace at the end of `t` starts a line (`first`: `t` starts the template) -/
def atLineStart (first : Bool) (t : List Char) : Bool :=
  match t.reverse.dropWhile isHws with
  | [] => first
  | c :: _ => isNl c

/-- characters removed at the end of a text that precedes a tag with left marker `m` -/
def rightCut (cfg : Cfg) (first blockish : Bool) (m : Mark) (t : List Char) : Nat :=
  match m with
  | .minus => sufCount isWs t
  | .none => if blockish && cfg.lstrip && atLineStart first t then sufCount isHws t else 0
  | .plus => 0

/-- `t` without its first `l` and last `r` characters (nothing is left when they overlap) -/
def cut (l r : Nat) (t : List Char) : List Char := (t.drop l).take (t.length - l - r)

/-- what a line statement takes from the text behind it: the blanks up to the end of the line and
    the line break -/
def lineCut (t : List Char) : Nat := (t.takeWhile isHws).length + nlLen (t.dropWhile isHws)

/-- the settings that apply to a tag: a line statement / line comment is the block / comment tag
    occupying its line, i.e. with `trim_blocks` and `lstrip_blocks` on for this tag -/
def cfgFor (cfg : Cfg) (g : Tag) : Cfg := if g.isLine then { cfg with trim := true, lstrip := true } else cfg

/-- characters removed at the end of the text in front of the tag `g` -/
def rightCutG (cfg : Cfg) (first : Bool) (g : Tag) (t : List Char) : Nat :=
  rightCut (cfgFor cfg g) first g.blockish g.l t

/-- characters removed at the start of the text behind the tag `g` -/
def leftCutG (cfg : Cfg) (g : Tag) (t' : List Char) : Nat :=
  match g.kind with
  | .lineStmt _ => lineCut t'
  | _ => leftCut (cfgFor cfg g) g.blockish g.r t'

/-- what a tag prints: `vm` for a variable, `bm` for a block tag or line statement, nothing for a
    comment, the content for a raw block (a text between two block tags) -/
def tagOut (cfg : Cfg) (vm bm : List Char) (g : Tag) : List Char :=
  match g.kind with
  | .var _ => vm
  | .block _ => bm
  | .comment _ => []
  | .raw c ri l2 _ => cut (leftCut cfg true ri c) (rightCut cfg false true l2 c) c
  | .lineStmt _ => bm
  | .lineComment _ => []

/-- text `t` (whose first `l` characters are removed by the tag on its left), then the rest -/
def specTail (cfg : Cfg) (vm bm : List Char) : Bool → Nat → List Char → List (Tag × List Char) → List Char
  | _, l, t, [] => t.drop l
  | first, l, t, (g, t') :: rest =>
    cut l (rightCutG cfg first g t) t ++ tagOut cfg vm bm g ++
      specTail cfg vm bm false (leftCutG cfg g t') t' rest

def mapLastText (f : List Char → List Char) : List (Tag × List Char) → List (Tag × List Char)
  | [] => []
  | [(g, t)] => [(g, f t)]
  | x :: y :: r => x :: mapLastText f (y :: r)

/-- rule 1 on the last text of the template -/
def stripFinal (tm : Tmpl) : Tmpl :=
  match tm.tail with
  | [] => { tm with head := stripTrailingNl tm.head }
  | tl => { tm with tail := mapLastText stripTrailingNl tl }

def specRender (cfg : Cfg) (vm bm : List Char) (tm : Tmpl) : List Char :=
  let tm' := if cfg.keep then tm else stripFinal tm
  specTail cfg vm bm true 0 tm'.head tm'.tail

/-! ## delimiter-free texts -/

/-- the start delimiters with their markers, in registration order (line prefixes when set) -/
def startPats (d : Delims) : List (Marker × List Char) :=
  [(.var, d.vs), (.block, d.bs), (.comment, d.cs)] ++
    (if d.ls.isEmpty then [] else [(.lineStmt, d.ls)]) ++ (if d.lc.isEmpty then [] else [(.lineComment, d.lc)])

/-- some start delimiter (line prefixes count anywhere) is a prefix of `s` -/
def anyStart (d : Delims) (s : List Char) : Bool := (startPats d).any (fun mp => startsWith mp.2 s)

/-- no start delimiter begins inside `t` when `t` is followed by `following` -/
def noStartIn (d : Delims) : List Char → List Char → Bool
  | [], _ => true
  | c :: r, following => !anyStart d (c :: r ++ following) && noStartIn d r following

/-- at a tag start every other start delimiter that matches is shorter than the tag's own -/
def ownLongest (d : Delims) (own s : List Char) : Bool :=
  (startPats d).all (fun mp => !startsWith mp.2 s || mp.2 == own || decide (mp.2.length < own.length))

/-- no block start begins inside raw content `c` that is followed by `following` -/
def noBsIn (d : Delims) : List Char → List Char → Bool
  | [], _ => true
  | c :: r, following => !startsWith d.bs (c :: r ++ following) && noBsIn d r following

/-- what follows the content of a raw block inside its tag -/
def Tag.rawClose (d : Delims) (g : Tag) : List Char :=
  match g.kind with
  | .raw _ _ l2 tight => d.bs ++ l2.src ++ endrawBody tight ++ g.r.src ++ d.be
  | _ => []

/-- raw content: the block start does not occur before the closing tag -/
def rawFree (d : Delims) (g : Tag) (following : List Char) : Bool :=
  match g.kind with
  | .raw c _ _ _ => noBsIn d c (g.rawClose d ++ following)
  | _ => true

def isMarkChar (c : Char) : Bool := c = '-' || c = '+'

/-- no occurrence of `pat` begins inside `t` when `t` is followed by `following` -/
def noPatIn (pat : List Char) : List Char → List Char → Bool
  | [], _ => true
  | c :: r, following => !startsWith pat (c :: r ++ following) && noPatIn pat r following

/-- an unmarked opening side is not followed by a `-`/`+` (of the body, of the closing marker of an
    empty body, or of an end delimiter such as `-->` behind an empty body): it would be taken for the
    left marker -/
def bodyStartOk (body : List Char) (l r : Mark) (e : List Char) : Bool :=
  l != .none || match body ++ (r.src ++ e) with
    | c :: _ => !isMarkChar c
    | [] => true

/-- an unmarked closing side of a variable / block / raw tag: the end delimiter with what follows is
    not read as "marker, end delimiter" (`--` followed by the text `-x` would be: the lexer, like
    Jinja2, prefers the marked reading) -/
def closeOk (e : List Char) (r : Mark) (fol : List Char) : Bool :=
  r != .none || match e ++ fol with
    | c :: rest => !(isMarkChar c && startsWith e rest)
    | [] => true

/-- an unmarked closing side is not preceded by a `-`/`+` of the body -/
def bodyEndOk (body : List Char) (r : Mark) : Bool :=
  r != .none || match body.reverse with
    | c :: _ => !isMarkChar c
    | [] => true

/-- interior of a line statement: well-formed separated tokens, brackets closed at the end; at
    bracket depth 0 blanks contain no line break and are followed by another token (the statement
    ends at the end of its line) -/
def lineInteriorOk : Int → List Tok → List Char → Bool
  | bal, [], _ => bal == 0
  | bal, t :: ts, fol =>
    t.wf && t.follow (srcs ts ++ fol).head? &&
      (!t.isWs || bal != 0 || (t.src.all isHws && !ts.isEmpty && !(ts.head?.map Tok.isWs).getD false)) &&
      lineInteriorOk (bal + t.delta) ts fol

/-- behind a line statement: blanks, then a line break or the end of the template -/
def lineFollow (s : List Char) : Bool :=
  match s.dropWhile isHws with
  | [] => true
  | c :: _ => isNl c

/-- behind a line comment: a line break or the end of the template -/
def commentFollow (s : List Char) : Bool :=
  match s with
  | [] => true
  | c :: _ => isNl c

/-- the marker `find_start_marker` reports for the tag -/
def Tag.marker (g : Tag) : Marker :=
  match g.kind with
  | .var _ => .var
  | .block _ => .block
  | .comment _ => .comment
  | .raw _ _ _ _ => .block
  | .lineStmt _ => .lineStmt
  | .lineComment _ => .lineComment

/-- the tag reads back as written.
    * variable / block tag: the interior is a well-formed token list in which the tag does not
      end early (`interiorOk`), an unmarked opening side is not followed by `-`/`+`, an unmarked
      closing side is not read as a marked one (`closeOk`; only matters for end delimiters that
      begin with `-`/`+`), and a block tag is not `raw`;
    * comment: the body does not contain the comment end, a character next to an unmarked side is
      not itself `-`/`+` (it would be taken for the marker), and an empty body has no marker on the
      closing side only (`{#-#}` is a comment with a *left* marker);
    * raw block: the unmarked closing sides of `{% raw %}` and `{% endraw %}` are not read as marked
      ones. -/
def tagOk (d : Delims) (g : Tag) (following : List Char) : Bool :=
  match g.kind with
  | .var ts =>
    interiorOk d.ve 0 ts (g.r.src ++ (d.ve ++ following)) && bodyStartOk (srcs ts) g.l g.r d.ve &&
      closeOk d.ve g.r following
  | .block ts =>
    interiorOk d.be 0 ts (g.r.src ++ (d.be ++ following)) && bodyStartOk (srcs ts) g.l g.r d.be &&
      closeOk d.be g.r following &&
      !startsWith rawName ((srcs ts ++ (g.r.src ++ (d.be ++ following))).dropWhile isAsciiWs)
  | .comment body =>
    noPatIn d.ce (body ++ g.r.src) (d.ce ++ following) && bodyStartOk body g.l g.r d.ce && bodyEndOk body g.r
  | .raw c ri _ _ => closeOk d.be ri (c ++ (g.rawClose d ++ following)) && closeOk d.be g.r following
  | .lineStmt ts =>
    !d.ls.isEmpty && g.l == .none && g.r == .none && lineInteriorOk 0 ts following && lineFollow following
  | .lineComment body =>
    !d.lc.isEmpty && g.l == .none && g.r == .none && body.all (fun c => !isNl c) && commentFollow following &&
      match body ++ following with
      | c :: _ => !isMarkChar c
      | [] => true

/-- in front of a line statement there are only spaces and tabs on its line (`first`: the text
    starts the template) -/
def lineStartText (first : Bool) (t : List Char) : Bool :=
  match t.reverse.dropWhile (fun c => c = ' ' || c = '\t') with
  | [] => first
  | c :: _ => isNl c

/-- every text is free of start delimiters: the only start markers of the source are its tags
    (`noStartIn` looks at the whole rest of the source, so delimiters that straddle a text and the
    following tag count); every tag reads back as written; a line statement starts its line -/
def tailFree (d : Delims) : Bool → List Char → List (Tag × List Char) → Bool
  | _, t, [] => noStartIn d t []
  | first, t, (g, t') :: rest =>
    noStartIn d t (unparseTail d ((g, t') :: rest)) &&
      ownLongest d (g.start d) (unparseTail d ((g, t') :: rest)) &&
      rawFree d g (t' ++ unparseTail d rest) && tagOk d g (t' ++ unparseTail d rest) &&
      (g.marker != .lineStmt || lineStartText first t) && tailFree d false t' rest

def delimFree (d : Delims) (tm : Tmpl) : Bool := tailFree d true tm.head tm.tail

/-! ## well-formed delimiter sets (hypothesis of the general theorems) -/

/-- first character of a variable / block end delimiter is not ASCII whitespace: blanks inside a tag
    are skipped before the end delimiter is looked for, an end delimiter that begins with one is
    never found (every tag is then a syntax error) -/
def headOk : List Char → Bool
  | [] => false
  | c :: _ => !isAsciiWs c

/-- an end delimiter ends in a character that is not whitespace, possibly followed by horizontal
    whitespace (`%} `); it does not end in a line break -/
def lastOk (e : List Char) : Bool :=
  match e.reverse.dropWhile isHws with
  | [] => false
  | c :: _ => !isWs c

/-- first character of a start delimiter is not whitespace -/
def startOk : List Char → Bool
  | [] => false
  | c :: _ => !isWs c

/-- the last character of a line statement / line comment prefix is not a line break -/
def endNotNl (p : List Char) : Bool :=
  match p.reverse with
  | [] => false
  | c :: _ => !isNl c

def nodupB : List (List Char) → Bool
  | [] => true
  | p :: r => !r.contains p && nodupB r

/-- a line statement / line comment prefix -/
def Marker.isLine (m : Marker) : Bool := m == .lineStmt || m == .lineComment

/-- delimiter sets covered by the general theorems: pairwise distinct non-empty start delimiters
    (line prefixes included when set) that do not begin with whitespace; line prefixes that do not
    end in a line break; non-empty end delimiters whose last character that is not horizontal
    whitespace is not a line break (`%}`, `%} `; not `%}\n`); variable and block end delimiters that
    do not begin with ASCII whitespace.  End delimiters may begin with `-`, `+`,
    a digit, a letter, a quote, an operator … (`-->`, `+}`, `1>`, `end`), the comment end also with
    whitespace. -/
def goodDelims (d : Delims) : Bool :=
  (startPats d).all (fun mp => startOk mp.2 && (!mp.1.isLine || endNotNl mp.2)) && nodupB ((startPats d).map (·.2)) &&
    headOk d.ve && headOk d.be && !d.ce.isEmpty && lastOk d.ve && lastOk d.be && lastOk d.ce

end MJ.Lexer
