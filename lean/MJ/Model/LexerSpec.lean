import MJ.Model.Lexer
/-!
# Templates as segment lists and the declarative whitespace rules (specification side of C10)

A template is a head text followed by (tag, text) pairs.  `unparse d` writes it with the
delimiters `d`; `specRender` says what it prints by applying the five rules of the property
locally to every text:

1. one trailing line break of the template is dropped unless `keep_trailing_newline`;
2. all whitespace after a tag whose right marker is `-` is dropped;
3. all whitespace before a tag whose left marker is `-` is dropped;
4. under `trim_blocks` one line break directly after a block/comment/raw tag is dropped unless that
   side carries `+` (or `-`, rule 2);
5. under `lstrip_blocks` the horizontal whitespace between the start of a line and a
   block/comment/raw tag is dropped unless that side carries `+` (or `-`, rule 3).

Nothing else is removed; raw content is a text between two block tags that is not scanned.
-/
namespace MJ.Lexer

inductive Mark where
  | none | minus | plus
  deriving Repr, DecidableEq

def Mark.src : Mark → List Char
  | .none => []
  | .minus => ['-']
  | .plus => ['+']

def Mark.ws : Mark → Ws
  | .none => .dflt
  | .minus => .remove
  | .plus => .preserve

inductive Word where
  | ifT | endif
  deriving Repr, DecidableEq

/-- blank around a tag interior: `{{ v }}` or, tight, `{{v}}` -/
def pad (tight : Bool) : List Char := if tight then [] else [' ']

def Word.core : Word → List Char
  | .ifT => ['i', 'f', ' ', 't']
  | .endif => ['e', 'n', 'd', 'i', 'f']

def Word.src (w : Word) (tight : Bool) : List Char := pad tight ++ (w.core ++ pad tight)

inductive Kind where
  | var (tight : Bool)
  | block (w : Word) (tight : Bool)
  /-- comment with an arbitrary body (possibly empty, blank, or made of `-`/`+` characters) -/
  | comment (body : List Char)
  /-- raw block: content, right marker of `{% raw %}`, left marker of `{% endraw %}` -/
  | raw (content : List Char) (ri l2 : Mark) (tight : Bool)
  deriving Repr, DecidableEq

/-- a tag with its outer markers (`l` on the opening side, `r` on the closing side) -/
structure Tag where
  kind : Kind
  l : Mark
  r : Mark
  deriving Repr, DecidableEq

structure Tmpl where
  head : List Char
  tail : List (Tag × List Char)
  deriving Repr, DecidableEq

def varBody (tight : Bool) : List Char := pad tight ++ ('v' :: pad tight)
def rawBody (tight : Bool) : List Char := pad tight ++ (rawName ++ pad tight)
def endrawBody (tight : Bool) : List Char := pad tight ++ (endrawName ++ pad tight)

/-- start delimiter of a tag -/
def Tag.start (d : Delims) (g : Tag) : List Char :=
  match g.kind with
  | .var _ => d.vs
  | .block _ _ => d.bs
  | .comment _ => d.cs
  | .raw _ _ _ _ => d.bs

/-- source after the start delimiter -/
def Tag.after (d : Delims) (g : Tag) : List Char :=
  match g.kind with
  | .var tight => g.l.src ++ varBody tight ++ g.r.src ++ d.ve
  | .block w tight => g.l.src ++ w.src tight ++ g.r.src ++ d.be
  | .comment body => g.l.src ++ body ++ g.r.src ++ d.ce
  | .raw c ri l2 tight =>
    g.l.src ++ rawBody tight ++ ri.src ++ d.be ++ c ++ d.bs ++ l2.src ++ endrawBody tight ++ g.r.src ++ d.be

def Tag.src (d : Delims) (g : Tag) : List Char := g.start d ++ g.after d

def unparseTail (d : Delims) : List (Tag × List Char) → List Char
  | [] => []
  | (g, t) :: r => g.src d ++ t ++ unparseTail d r

def unparse (d : Delims) (tm : Tmpl) : List Char := tm.head ++ unparseTail d tm.tail

/-- block, comment and raw tags take part in `trim_blocks` / `lstrip_blocks`; variable tags do not -/
def Tag.blockish (g : Tag) : Bool :=
  match g.kind with
  | .var _ => false
  | _ => true

/-! ## the rules -/

def wsPre (t : List Char) : Nat := (t.takeWhile isWs).length

/-- characters removed at the start of a text that follows a tag with right marker `m` -/
def leftCut (cfg : Cfg) (blockish : Bool) (m : Mark) (t : List Char) : Nat :=
  match m with
  | .minus => wsPre t
  | .none => if blockish && cfg.trim then nlLen t else 0
  | .plus => 0

/-- the horizontal whitespace at the end of `t` starts a line (`first`: `t` starts the template) -/
def atLineStart (first : Bool) (t : List Char) : Bool :=
  match t.reverse.dropWhile isHws with
  | [] => first
  | c :: _ => isNl c

/-- characters removed at the end of a text that precedes a tag with left marker `m` -/
def rightCut (cfg : Cfg) (first blockish : Bool) (m : Mark) (t : List Char) : Nat :=
  match m with
  | .minus => sufCount isWs t
  | .none => if blockish && cfg.lstrip && atLineStart first t then sufCount isHws t else 0
  | .plus => 0

/-- `t` without its first `l` and last `r` characters (nothing is left when they overlap) -/
def cut (l r : Nat) (t : List Char) : List Char := (t.drop l).take (t.length - l - r)

/-- what a tag prints: `vm` for a variable, `bm` for a block tag, nothing for a comment, the
    content for a raw block (a text between two block tags) -/
def tagOut (cfg : Cfg) (vm bm : List Char) (g : Tag) : List Char :=
  match g.kind with
  | .var _ => vm
  | .block _ _ => bm
  | .comment _ => []
  | .raw c ri l2 _ => cut (leftCut cfg true ri c) (rightCut cfg false true l2 c) c

/-- text `t` (whose first `l` characters are removed by the tag on its left), then the rest -/
def specTail (cfg : Cfg) (vm bm : List Char) : Bool → Nat → List Char → List (Tag × List Char) → List Char
  | _, l, t, [] => t.drop l
  | first, l, t, (g, t') :: rest =>
    cut l (rightCut cfg first g.blockish g.l t) t ++ tagOut cfg vm bm g ++
      specTail cfg vm bm false (leftCut cfg g.blockish g.r t') t' rest

def mapLastText (f : List Char → List Char) : List (Tag × List Char) → List (Tag × List Char)
  | [] => []
  | [(g, t)] => [(g, f t)]
  | x :: y :: r => x :: mapLastText f (y :: r)

/-- rule 1 on the last text of the template -/
def stripFinal (tm : Tmpl) : Tmpl :=
  match tm.tail with
  | [] => { tm with head := stripTrailingNl tm.head }
  | tl => { tm with tail := mapLastText stripTrailingNl tl }

def specRender (cfg : Cfg) (vm bm : List Char) (tm : Tmpl) : List Char :=
  let tm' := if cfg.keep then tm else stripFinal tm
  specTail cfg vm bm true 0 tm'.head tm'.tail

/-! ## delimiter-free texts -/

/-- some start delimiter (line prefixes count anywhere) is a prefix of `s` -/
def anyStart (d : Delims) (s : List Char) : Bool :=
  startsWith d.vs s || startsWith d.bs s || startsWith d.cs s ||
    (!d.ls.isEmpty && startsWith d.ls s) || (!d.lc.isEmpty && startsWith d.lc s)

/-- no start delimiter begins inside `t` when `t` is followed by `following` -/
def noStartIn (d : Delims) : List Char → List Char → Bool
  | [], _ => true
  | c :: r, following => !anyStart d (c :: r ++ following) && noStartIn d r following

/-- at a tag start no other start delimiter is longer than the tag's own -/
def ownLongest (d : Delims) (own s : List Char) : Bool :=
  (!startsWith d.vs s || d.vs.length ≤ own.length) && (!startsWith d.bs s || d.bs.length ≤ own.length) &&
    (!startsWith d.cs s || d.cs.length ≤ own.length) &&
    (d.ls.isEmpty || !startsWith d.ls s) && (d.lc.isEmpty || !startsWith d.lc s)

/-- no block start begins inside raw content `c` that is followed by `following` -/
def noBsIn (d : Delims) : List Char → List Char → Bool
  | [], _ => true
  | c :: r, following => !startsWith d.bs (c :: r ++ following) && noBsIn d r following

/-- what follows the content of a raw block inside its tag -/
def Tag.rawClose (d : Delims) (g : Tag) : List Char :=
  match g.kind with
  | .raw _ _ l2 tight => d.bs ++ l2.src ++ endrawBody tight ++ g.r.src ++ d.be
  | _ => []

/-- raw content: the block start does not occur before the closing tag -/
def rawFree (d : Delims) (g : Tag) (following : List Char) : Bool :=
  match g.kind with
  | .raw c _ _ _ => noBsIn d c (g.rawClose d ++ following)
  | _ => true

def isMarkChar (c : Char) : Bool := c = '-' || c = '+'

/-- no occurrence of `pat` begins inside `t` when `t` is followed by `following` -/
def noPatIn (pat : List Char) : List Char → List Char → Bool
  | [], _ => true
  | c :: r, following => !startsWith pat (c :: r ++ following) && noPatIn pat r following

/-- an unmarked opening side is not followed by a `-`/`+` (of the body, or the closing marker of an
    empty body): it would be taken for the left marker -/
def bodyStartOk (body : List Char) (l r : Mark) : Bool :=
  l != .none || match body ++ r.src with
    | c :: _ => !isMarkChar c
    | [] => true

/-- an unmarked closing side is not preceded by a `-`/`+` of the body -/
def bodyEndOk (body : List Char) (r : Mark) : Bool :=
  r != .none || match body.reverse with
    | c :: _ => !isMarkChar c
    | [] => true

/-- a comment reads back as written: its body does not contain the comment end, a body character
    next to an unmarked side is not itself `-`/`+` (it would be taken for the marker), and an empty
    body has no marker on the closing side only (`{#-#}` is a comment with a *left* marker) -/
def commentOk (d : Delims) (g : Tag) (following : List Char) : Bool :=
  match g.kind with
  | .comment body =>
    noPatIn d.ce (body ++ g.r.src) (d.ce ++ following) && bodyStartOk body g.l g.r && bodyEndOk body g.r
  | _ => true

/-- every text is free of start delimiters: the only start markers of the source are its tags
    (`noStartIn` looks at the whole rest of the source, so delimiters that straddle a text and the
    following tag count) -/
def tailFree (d : Delims) : List Char → List (Tag × List Char) → Bool
  | t, [] => noStartIn d t []
  | t, (g, t') :: rest =>
    noStartIn d t (unparseTail d ((g, t') :: rest)) &&
      ownLongest d (g.start d) (unparseTail d ((g, t') :: rest)) &&
      rawFree d g (t' ++ unparseTail d rest) && commentOk d g (t' ++ unparseTail d rest) && tailFree d t' rest

def delimFree (d : Delims) (tm : Tmpl) : Bool := tailFree d tm.head tm.tail

/-! ## well-formed delimiter sets (hypothesis of the general theorems) -/

/-- first character of an end delimiter: cannot be taken for part of the tag interior or a marker -/
def headOk : List Char → Bool
  | [] => false
  | c :: _ => !isAsciiWs c && !isIdentCont c && c != '-' && c != '+'

/-- last character of an end delimiter is not whitespace -/
def lastOk (e : List Char) : Bool :=
  match e.reverse with
  | [] => false
  | c :: _ => !isWs c

/-- first character of a start delimiter is not whitespace -/
def startOk : List Char → Bool
  | [] => false
  | c :: _ => !isWs c

/-- delimiter sets covered by the general theorems: no line prefixes, distinct non-empty start
    delimiters that do not begin with whitespace, end delimiters that begin with a character that
    is neither whitespace, an identifier character nor a marker and do not end in whitespace -/
def goodDelims (d : Delims) : Bool :=
  d.ls.isEmpty && d.lc.isEmpty && startOk d.vs && startOk d.bs && startOk d.cs &&
    d.vs != d.bs && d.vs != d.cs && d.bs != d.cs &&
    headOk d.ve && headOk d.be && headOk d.ce && lastOk d.ve && lastOk d.be && lastOk d.ce

end MJ.Lexer
