import MJ.Gen.Tables
/-!
# C02 — every program point through which text reaches an `Output`

`Gen.c02OutputWriteSites` is regenerated from crate `minijinja` (all `*.rs` outside tests and the
verification hooks): per file and enclosing function the number of direct writes to an `Output`
(`raw`), of calls of `write_escaped` (`escaped`), of calls of the environment's formatter
(`formatter`) and of `Output::new` (`sink`).  The list below says, for each, which part of the model
(`MJ/Model/Safe.lean`, `MJ/Model/SafeProg.lean`) accounts for it.  A fast path added to the vm that
writes a value without going through `write_escaped`, a second caller of `write_escaped` with a mode
of its own, or a new sink has no row here and breaks `MJ.C02.all_output_write_sites_modelled`.
-/
namespace MJ.Safe

def modelledWriteSites : List (String × String) := [
  ("minijinja/src/defaults.rs::escape_formatter::escapedx1", "the default formatter = writeEscaped in the mode of the state (emitG, fmt = default)"),
  ("minijinja/src/environment.rs::format::escapedx1", "Environment::format's fast path when no formatter is set: the same call as escape_formatter"),
  ("minijinja/src/filters.rs::escape::escapedx1", "escapeF: writeEscaped in the mode computed by the filter, into a fresh string"),
  ("minijinja/src/filters.rs::escape::formatterx1", "escapeF under AutoEscape::Custom (outside the fragment: the default formatter refuses to write)"),
  ("minijinja/src/filters.rs::escape::sinkx1", "escapeF's result buffer (becomes the Safe result)"),
  ("minijinja/src/lib.rs::make_string_output::sinkx1", "test / machinery helper: a plain string sink"),
  ("minijinja/src/template.rs::_capture_state::sinkx1", "render_captured: the output of execProg / execBlock"),
  ("minijinja/src/template.rs::_capture_state_with_output::sinkx1", "render_captured_to: the same output into an io::Write"),
  ("minijinja/src/template.rs::_render::sinkx1", "Template::render: the output of execProg"),
  ("minijinja/src/utils.rs::json_escape_write::rawx1", "mode Json (outside the fragment; json_capture_counterexample)"),
  ("minijinja/src/utils.rs::write_escaped::rawx2", "writeEscaped: the Safe bypass and mode None (Display)"),
  ("minijinja/src/utils.rs::write_with_html_escaping::rawx11", "writeHtml: the integer / boolean fast paths, the inline-integer-string fast path, the string path (pre-filter or HtmlEscape), primitives by Display, everything else HtmlEscape(to_string) — the dispatch is tied by write_escaped_dispatch_matches"),
  ("minijinja/src/vm/macro_object.rs::call::sinkx1", "Step.beginCapture … Step.macroReturn: the macro's result buffer"),
  ("minijinja/src/vm/mod.rs::eval_impl::escapedx1", "Instruction::Emit with the default formatter: Step.emit = writeEscaped in the mode of the state"),
  ("minijinja/src/vm/mod.rs::eval_impl::formatterx1", "Instruction::Emit with a custom formatter: emitG, fmt = noneAsUndef (the documented wrapper)"),
  ("minijinja/src/vm/mod.rs::eval_impl::rawx1", "Instruction::EmitRaw: Step.raw / Stmt.text (template text only, never a value)"),
  ("minijinja/src/vm/state.rs::format::formatterx1", "State::format (join, StringInput::format): fmtValue = the formatter into a fresh string"),
  ("minijinja/src/vm/state.rs::format::sinkx1", "State::format's result buffer"),
  ("minijinja/src/vm/state.rs::render_block::sinkx1", "State::render_block: the output of execBlock's second phase"),
  ("minijinja/src/vm/state.rs::render_block_to_write::sinkx1", "State::render_block_to_write: the same into an io::Write")]

/-- where the auto-escape mode of an execution comes from (`Gen.c02ModeSources`: every call of
    `State::new`, `vm::eval`, `State::with_execution_state`, the flag of a compiled template and the
    accessors in between, with the expression supplied — regenerated from crate `minijinja`) and how the
    interpreter accounts for it: a template starts in the mode ITS OWN name selects (`modeOf p name`:
    the callback applied to the name the template was compiled under, never to the name a reference was
    written as), everything that runs inside a template (blocks, `super()`, macros) keeps the mode of the
    point of the call -/
def modelledModeSources : List (String × String) := [
  ("minijinja/src/environment.rs::initial_auto_escape::returns::(self.templates.template_config.default_auto_escape)(name) x1", "modeOf p name (the escape filter's fallback in mode None asks for the running template's name)"),
  ("minijinja/src/expression.rs::_eval::vm::eval::crate::AutoEscape::None x1", "execExpr: exprEnv has mode none"),
  ("minijinja/src/lib.rs::eval::vm::eval::param:auto_escape x1", "machinery helper (unstable API): hands its parameter on"),
  ("minijinja/src/template.rs::_eval::vm::eval::self.compiled.initial_auto_escape x1", "renderMainM: the main template starts in modeOf p p.main (render, render_captured, render_captured_to, render_named_str)"),
  ("minijinja/src/template.rs::_new_impl::field::(config.default_auto_escape)(name) x1", "modeOf p name: the callback applied to the name the template is compiled under"),
  ("minijinja/src/template.rs::initial_auto_escape::returns::self.compiled.initial_auto_escape x1", "accessor of the compiled flag (used by include)"),
  ("minijinja/src/template.rs::new_state::State::new::self.compiled.initial_auto_escape x1", "Template::new_state: the same flag as render"),
  ("minijinja/src/vm/mod.rs::call_block::with_execution_state::state.auto_escape x1", "Stmt.block: the block body runs in env.mode"),
  ("minijinja/src/vm/mod.rs::eval::State::new::param:auto_escape x1", "Executor::eval: hands the mode of vm::eval on"),
  ("minijinja/src/vm/mod.rs::eval_macro::with_execution_state::state.auto_escape x1", "Env.forMacro: a macro body runs in the mode of the call site"),
  ("minijinja/src/vm/mod.rs::perform_include::with_execution_state::tmpl.initial_auto_escape() x1", "Stmt.include: the included template runs in modeOf p (its resolved name), restored afterwards"),
  ("minijinja/src/vm/mod.rs::perform_super::with_execution_state::state.auto_escape x1", "Expr.super: the parent block runs in env.mode"),
  ("minijinja/src/vm/state.rs::new_for_env::State::new::AutoEscape::None x1", "State::new_for_env (filters applied outside a render, e.g. by the host): mode none, nothing is written"),
  ("minijinja/src/vm/mod.rs::eval_impl::end_capture::AutoEscape::None x1", "the discarded output of a child template's top level (extends): never marked, never read"),
  ("minijinja/src/vm/mod.rs::eval_impl::end_capture::state.auto_escape x2", "Step.endCapture env.mode: set / filter blocks (Instruction::EndCapture) and the recursive loop call end in the current mode"),
  ("minijinja/src/vm/mod.rs::perform_super::end_capture::state.auto_escape x1", "Expr.super: the captured parent block is marked by the current mode")]

end MJ.Safe
