/-!
# Root tokenizer of `minijinja/src/compiler/lexer.rs` over `List Char`

What becomes template data and where tags start and end: `Tokenizer::new` (trailing newline),
`tokenize_root` (with `trim_leading_whitespace` and the pending start marker), the start-marker
search (`find_start_marker_memchr` for the default delimiters, a leftmost-longest search as the
specification of the Aho-Corasick path), `lstrip_block`, `should_lstrip_block`, `-`/`+` markers,
`handle_tail_ws`, `skip_newline_if_trim_blocks`, comments, raw blocks (`handle_raw_tag`,
`skip_basic_tag`), line statements and line comments (`skip_nl`).

Tag interiors are scanned like `tokenize_block_or_var` does for interiors that consist of ASCII
identifiers and ASCII whitespace only (that is all the fixed vocabulary of C10 needs); any other
interior makes the model answer `unsupported`.

Core Lean only.  Byte offsets of the Rust code are character positions here; all delimiters and
marker bytes are compared as whole characters (UTF-8 is self-synchronising, so substring search
on bytes and on characters agree for valid strings).
-/
namespace MJ.Lexer

structure Cfg where
  trim : Bool
  lstrip : Bool
  keep : Bool
  deriving Repr, DecidableEq

/-- `SyntaxConfig` delimiters; an empty `ls`/`lc` = no line statement / line comment prefix -/
structure Delims where
  bs : List Char
  be : List Char
  vs : List Char
  ve : List Char
  cs : List Char
  ce : List Char
  ls : List Char
  lc : List Char
  deriving Repr, DecidableEq

def defaultDelims : Delims :=
  { bs := ['{', '%'], be := ['%', '}'], vs := ['{', '{'], ve := ['}', '}'],
    cs := ['{', '#'], ce := ['#', '}'], ls := [], lc := [] }

inductive Marker where
  | var | block | comment | lineStmt | lineComment
  deriving Repr, DecidableEq

/-- `enum Whitespace` -/
inductive Ws where
  | dflt | preserve | remove
  deriving Repr, DecidableEq

def Ws.len : Ws → Nat
  | .dflt => 0
  | _ => 1

/-- `Whitespace::from_byte` -/
def wsOfChar : Option Char → Ws
  | some c => if c = '-' then .remove else if c = '+' then .preserve else .dflt
  | none => .dflt

def isNl (c : Char) : Bool := c = '\r' || c = '\n'

/-- Rust `char::is_whitespace` (Unicode `White_Space`) -/
def isWs (c : Char) : Bool :=
  let n := c.toNat
  (9 ≤ n && n ≤ 13) || n = 32 || n = 133 || n = 160 || n = 5760 || (8192 ≤ n && n ≤ 8202) ||
    n = 8232 || n = 8233 || n = 8239 || n = 8287 || n = 12288

/-- whitespace that is not a line break -/
def isHws (c : Char) : Bool := isWs c && !isNl c

/-- Rust `char::is_ascii_whitespace` (no vertical tab) -/
def isAsciiWs (c : Char) : Bool :=
  c = ' ' || c = '\t' || c = '\n' || c = '\x0c' || c = '\r'

def isIdentStart (c : Char) : Bool :=
  c = '_' || ('a'.toNat ≤ c.toNat && c.toNat ≤ 'z'.toNat) || ('A'.toNat ≤ c.toNat && c.toNat ≤ 'Z'.toNat)

def isIdentCont (c : Char) : Bool :=
  isIdentStart c || ('0'.toNat ≤ c.toNat && c.toNat ≤ '9'.toNat)

/-- `str::starts_with` -/
def startsWith : List Char → List Char → Bool
  | [], _ => true
  | _ :: _, [] => false
  | p :: ps, c :: cs => p = c && startsWith ps cs

/-- number of trailing characters satisfying `p` -/
def sufCount (p : Char → Bool) (s : List Char) : Nat := (s.reverse.takeWhile p).length

/-- `str::trim_end` -/
def trimEnd (s : List Char) : List Char := (s.reverse.dropWhile isWs).reverse

/-- `lstrip_block` -/
def lstripBlock (s : List Char) : List Char :=
  match s.reverse.dropWhile isHws with
  | [] => []
  | c :: r => if isNl c then (c :: r).reverse else s

/-- the loop of `should_lstrip_block` over the reversed source prefix -/
def scanLineStart : List Char → Bool
  | [] => true
  | c :: r => if isNl c then true else if isWs c then scanLineStart r else false

/-- `should_lstrip_block(flag, marker, prefix)`; `preRev` is the prefix reversed -/
def shouldLstrip (flag : Bool) (marker : Marker) (preRev : List Char) : Bool :=
  if (flag && marker != .var) || marker == .lineStmt || marker == .lineComment then scanLineStart preRev
  else false

/-- `skip_newline_if_trim_blocks`: number of characters skipped -/
def nlLen : List Char → Nat
  | [] => 0
  | c :: r =>
    if c = '\r' then (if r.head? = some '\n' then 2 else 1)
    else if c = '\n' then 1 else 0

/-- `skip_nl`: (was_nl || rest.is_empty(), skip) -/
def skipNl (s : List Char) : Bool × Nat :=
  let n := nlLen s
  (n > 0 || s.length = 0, n)

/-- `memstr`: position of the first occurrence of `pat` -/
def findSub (pat : List Char) : List Char → Option Nat
  | [] => if pat.isEmpty then some 0 else none
  | c :: cs =>
    if startsWith pat (c :: cs) then some 0
    else (findSub pat cs).map (· + 1)

/-- result of the start marker search: offset, marker, pattern length -/
abbrev Found := Option (Nat × Marker × Nat)

def shift : Found → Found
  | some (i, m, n) => some (i + 1, m, n)
  | none => none

/-- `find_start_marker_memchr` -/
def findStartDefault : List Char → Found
  | [] => none
  | c :: r =>
    if c = '{' then
      match r with
      | [] => none
      | c2 :: _ =>
        if c2 = '{' then some (0, .var, 2)
        else if c2 = '%' then some (0, .block, 2)
        else if c2 = '#' then some (0, .comment, 2)
        else shift (findStartDefault r)
    else shift (findStartDefault r)

/-- the start-marker search as a parameter: reversed source prefix, rest ↦ match -/
abbrev FindStart := List Char → List Char → Found

/-- the line statement prefix counts only when nothing but spaces and tabs precede it on its line -/
def lineStartP (preRev : List Char) : Bool :=
  match preRev.dropWhile (fun c => c = ' ' || c = '\t') with
  | [] => true
  | c :: _ => isNl c

/-- candidates at one position: every start delimiter that is a prefix there -/
def candidates (d : Delims) (preRev rest : List Char) : List (Marker × Nat) :=
  (if startsWith d.vs rest then [(Marker.var, d.vs.length)] else []) ++
  (if startsWith d.bs rest then [(Marker.block, d.bs.length)] else []) ++
  (if startsWith d.cs rest then [(Marker.comment, d.cs.length)] else []) ++
  (if !d.ls.isEmpty && startsWith d.ls rest && lineStartP preRev then [(Marker.lineStmt, d.ls.length)] else []) ++
  (if !d.lc.isEmpty && startsWith d.lc rest then [(Marker.lineComment, d.lc.length)] else [])

def longest : List (Marker × Nat) → Option (Marker × Nat)
  | [] => none
  | x :: xs =>
    match longest xs with
    | none => some x
    | some y => if y.2 > x.2 then some y else some x

/-- the longest start delimiter at exactly this position -/
def matchAt (d : Delims) (preRev rest : List Char) : Option (Marker × Nat) :=
  longest (candidates d preRev rest)

/-- reference leftmost-longest search (specification of the Aho-Corasick path of
    `find_start_marker`) -/
def findLL (d : Delims) : FindStart
  | _, [] => none
  | pre, c :: r =>
    match matchAt d pre (c :: r) with
    | some (m, n) => some (0, m, n)
    | none => shift (findLL d (c :: pre) r)

/-- the search `Tokenizer` uses: memchr for the default delimiters, leftmost-longest otherwise -/
def findStart (d : Delims) : FindStart :=
  if d = defaultDelims then fun _ rest => findStartDefault rest else findLL d

/-! ## tag interiors -/

def bump (k : Nat) : Option (Nat × Ws) → Option (Nat × Ws)
  | some (n, w) => some (n + k, w)
  | none => none

/-- `tokenize_block_or_var` for interiors of identifiers and ASCII whitespace: number of characters
    up to and including the end delimiter `e`, and the marker in front of it.  `inId` = inside an
    identifier (the end delimiter is only looked for at token boundaries). -/
def scanTag (e : List Char) : Bool → List Char → Option (Nat × Ws)
  | _, [] => none
  | inId, c :: r =>
    if inId && isIdentCont c then bump 1 (scanTag e true r)
    else if isAsciiWs c then bump 1 (scanTag e false r)
    else if (c = '-' || c = '+') && startsWith e r then
      some (1 + e.length, if c = '-' then .remove else .preserve)
    else if startsWith e (c :: r) then some (e.length, .dflt)
    else if isIdentStart c then bump 1 (scanTag e true r)
    else none

/-- line statement interior: characters consumed up to and including the line break -/
def scanLine : Bool → List Char → Option Nat
  | _, [] => some 0
  | inId, c :: r =>
    if inId && isIdentCont c then (scanLine true r).map (· + 1)
    else
      let h := (c :: r).takeWhile isHws
      let after := (c :: r).dropWhile isHws
      let (wasNl, n) := skipNl after
      if wasNl then some (h.length + n)
      else if isAsciiWs c then (scanLine false r).map (· + 1)
      else if isIdentStart c then (scanLine true r).map (· + 1)
      else none

/-- the optional `-`/`+` in front of `endraw` (`skip_ws_control`) -/
def stripMarkerIf (b : Bool) (s : List Char) : List Char :=
  match b, s with
  | true, c :: r => if c = '-' || c = '+' then r else s
  | _, _ => s

/-- the optional `-`/`+` in front of the block end -/
def takeMarker (p : List Char) : Ws × List Char :=
  match p with
  | c :: r => if c = '-' then (Ws.remove, r) else if c = '+' then (Ws.preserve, r) else (Ws.dflt, p)
  | [] => (Ws.dflt, p)

/-- `skip_basic_tag(block_str, name, block_end, skip_ws_control)` -/
def skipBasicTag (s name be : List Char) (skipWsControl : Bool) : Option (Nat × Ws) :=
  let p2 := (stripMarkerIf skipWsControl s).dropWhile isAsciiWs
  if startsWith name p2 then
    let p3 := (p2.drop name.length).dropWhile isAsciiWs
    let wp := takeMarker p3
    if startsWith be wp.2 then some (s.length - (wp.2.length - be.length), wp.1) else none
  else none

def rawName : List Char := ['r', 'a', 'w']
def endrawName : List Char := ['e', 'n', 'd', 'r', 'a', 'w']

/-- the `memstr`/`skip_basic_tag` loop of `handle_raw_tag`: (offset of the closing block start,
    characters of the whole `{% endraw %}` tag, left marker, right marker).  `skip` = characters
    still covered by the last block start that was tried. -/
def findEndraw (d : Delims) : Nat → List Char → Option (Nat × Nat × Ws × Ws)
  | _, [] => none
  | skip + 1, _ :: r => (findEndraw d skip r).map (fun (a, b) => (a + 1, b))
  | 0, c :: r =>
    if startsWith d.bs (c :: r) then
      let inner := (c :: r).drop d.bs.length
      match skipBasicTag inner endrawName d.be true with
      | some (n, wsNext) => some (0, d.bs.length + n, wsOfChar inner.head?, wsNext)
      | none => (findEndraw d (d.bs.length - 1) r).map (fun (a, b) => (a + 1, b))
    else (findEndraw d 0 r).map (fun (a, b) => (a + 1, b))

/-! ## the root loop -/

inductive Out where
  | data (s : List Char)
  | var
  | blk
  deriving Repr, DecidableEq

inductive Res where
  | ok (o : List Out)
  /-- the lexer reports a syntax error (unclosed comment / raw block) after these tokens -/
  | err (o : List Out)
  /-- outside the modelled fragment -/
  | unsupported
  deriving Repr, DecidableEq

def Res.prepend (o : List Out) : Res → Res
  | .ok r => .ok (o ++ r)
  | .err r => .err (o ++ r)
  | .unsupported => .unsupported

def dataOut (s : List Char) : List Out := if s.isEmpty then [] else [.data s]

/-- `skip_newline_if_trim_blocks` -/
def trimNl (cfg : Cfg) (s : List Char) : Nat := if cfg.trim then nlLen s else 0

/-- `handle_tail_ws`: (characters skipped now, trim_leading_whitespace) -/
def tailWs (cfg : Cfg) (ws : Ws) (s : List Char) : Nat × Bool :=
  match ws with
  | .preserve => (0, false)
  | .dflt => (trimNl cfg s, false)
  | .remove => (0, true)

/-- what `tokenize_root` emits as lead for the text `peeked` in front of a start marker -/
def leadOf (cfg : Cfg) (ws : Ws) (marker : Marker) (preTagRev peeked : List Char) : List Char :=
  match ws with
  | .dflt => if shouldLstrip cfg.lstrip marker preTagRev then lstripBlock peeked else peeked
  | .preserve => peeked
  | .remove => trimEnd peeked

/-- the raw block's data after the whitespace handling of `handle_raw_tag`;
    `preRev` = reversed source prefix up to the end of the `{% raw %}` tag -/
def rawData (cfg : Cfg) (wsStart ws : Ws) (preRev content : List Char) : List Char :=
  let r1 := match wsStart with
    | .dflt => content.drop (trimNl cfg content)
    | .remove => content.dropWhile isWs
    | .preserve => content
  match ws with
  | .dflt => if cfg.lstrip && scanLineStart (content.reverse ++ preRev) then lstripBlock r1 else r1
  | .remove => trimEnd r1
  | .preserve => r1

/-- outcome of one round of the root loop -/
inductive StepRes where
  /-- the tokenizer stops with this result -/
  | stop (r : Res)
  /-- tokens of this round, then continue at (reversed prefix, rest, trim_leading_whitespace) -/
  | next (o : List Out) (pre rest : List Char) (tf : Bool)
  deriving Repr, DecidableEq

/-- continue after `n` characters of `after` (which starts at the start marker) were consumed -/
def contAfter (lead o : List Out) (preTag after : List Char) (n : Nat) (tf : Bool) : StepRes :=
  if n = 0 then .stop .unsupported
  else .next (lead ++ o) ((after.take n).reverse ++ preTag) (after.drop n) tf

/-- `handle_start_marker` and everything up to the end of the tag -/
def handleTag (cfg : Cfg) (d : Delims) (lead : List Out) (marker : Marker) (skip : Nat)
    (preTag after : List Char) : StepRes :=
  let inner := after.drop skip
  match marker with
  | .comment =>
    match findSub d.ce inner with
    | none => .stop (.err lead)
    | some e =>
      let wsEnd := wsOfChar (after.drop ((e - 1) + skip)).head?
      let n := skip + e + d.ce.length
      let kt := tailWs cfg wsEnd (after.drop n)
      contAfter lead [] preTag after (n + kt.1) kt.2
  | .var =>
    match scanTag d.ve false inner with
    | none => .stop .unsupported
    | some (n, wsEnd) => contAfter lead [.var] preTag after (skip + n) (wsEnd = .remove)
  | .block =>
    match skipBasicTag inner rawName d.be false with
    | some (n, wsStart) =>
      let body := after.drop (skip + n)
      match findEndraw d 0 body with
      | none => .stop (.err lead)
      | some (e, tagLen, wsL, wsNext) =>
        let preRaw := (after.take (skip + n)).reverse ++ preTag
        let content := body.take e
        let total := skip + n + e + tagLen
        let kt := tailWs cfg wsNext (after.drop total)
        contAfter lead [.data (rawData cfg wsStart wsL preRaw content)] preTag after (total + kt.1) kt.2
    | none =>
      match scanTag d.be false inner with
      | none => .stop .unsupported
      | some (n, wsEnd) =>
        let total := skip + n
        let kt := tailWs cfg wsEnd (after.drop total)
        contAfter lead [.blk] preTag after (total + kt.1) kt.2
  | .lineStmt =>
    match scanLine false inner with
    | none => .stop .unsupported
    | some n => contAfter lead [.blk] preTag after (skip + n) false
  | .lineComment =>
    let c := inner.takeWhile (fun c => !isNl c)
    let n := skip + c.length + (skipNl (inner.drop c.length)).2
    contAfter lead [] preTag after n false

/-- One round = `tokenize_root` (text up to the next start marker) + the whole tag.
    `pre0` = reversed source prefix, `rest0` = unread source, `tf` = `trim_leading_whitespace`. -/
def step (cfg : Cfg) (d : Delims) (find : FindStart) (pre0 rest0 : List Char) (tf : Bool) : StepRes :=
  let skipped := if tf then rest0.takeWhile isWs else []
  let rest := if tf then rest0.dropWhile isWs else rest0
  let pre := skipped.reverse ++ pre0
  match find pre rest with
  | none => .stop (.ok (dataOut rest))
  | some (start, marker, plen) =>
    let peeked := rest.take start
    let after := rest.drop start
    let ws := if marker = .lineStmt then Ws.dflt else wsOfChar (after.drop plen).head?
    let preTag := peeked.reverse ++ pre
    let lead := dataOut (leadOf cfg ws marker preTag peeked)
    handleTag cfg d lead marker (plen + ws.len) preTag after

/-- the token loop (`fuel` bounds the number of rounds; every round consumes a character) -/
def lexGo (cfg : Cfg) (d : Delims) (find : FindStart) : Nat → List Char → List Char → Bool → Res
  | 0, _, _, _ => .unsupported
  | fuel + 1, pre, rest, tf =>
    match step cfg d find pre rest tf with
    | .stop r => r
    | .next o pre' rest' tf' => (lexGo cfg d find fuel pre' rest' tf').prepend o

/-- `if s.ends_with(c) { s = &s[..s.len() - 1] }` -/
def dropLastIf (c : Char) (s : List Char) : List Char :=
  if s.getLast? = some c then s.dropLast else s

/-- `Tokenizer::new`: one trailing line break is cut off unless `keep_trailing_newline` -/
def stripTrailingNl (s : List Char) : List Char := dropLastIf '\r' (dropLastIf '\n' s)

def prepare (cfg : Cfg) (src : List Char) : List Char :=
  if cfg.keep then src else stripTrailingNl src

/-- the tokenizer on a whole template -/
def lex (cfg : Cfg) (d : Delims) (find : FindStart) (src : List Char) : Res :=
  let s := prepare cfg src
  lexGo cfg d find (s.length + 1) [] s false

/-! ## observation -/

/-- text a render produces when a variable tag prints `vm` and a block tag `bm` -/
def renderOuts (vm bm : List Char) : List Out → List Char
  | [] => []
  | .data s :: r => s ++ renderOuts vm bm r
  | .var :: r => vm ++ renderOuts vm bm r
  | .blk :: r => bm ++ renderOuts vm bm r

def renderRes (vm bm : List Char) : Res → Option (List Char)
  | .ok o => some (renderOuts vm bm o)
  | _ => none

/-- canonical token list: empty data dropped, adjacent data merged -/
def normOuts : List Out → List Out
  | [] => []
  | .data s :: r =>
    match normOuts r with
    | .data s' :: r' => .data (s ++ s') :: r'
    | r' => if s.isEmpty then r' else .data s :: r'
  | x :: r => x :: normOuts r

end MJ.Lexer
