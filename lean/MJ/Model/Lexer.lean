/-!
# Root tokenizer of `minijinja/src/compiler/lexer.rs` over `List Char`

What becomes template data and where tags start and end: `Tokenizer::new` (trailing newline),
`tokenize_root` (with `trim_leading_whitespace` and the pending start marker), the start-marker
search (`find_start_marker_memchr` for the default delimiters, a leftmost-longest search as the
specification of the Aho-Corasick path), `lstrip_block`, `should_lstrip_block`, `-`/`+` markers,
`handle_tail_ws`, `skip_newline_if_trim_blocks`, comments, raw blocks (`handle_raw_tag`,
`skip_basic_tag`), line statements and line comments (`skip_nl`).

Tag interiors are scanned like `tokenize_block_or_var` does for interiors that consist of ASCII
identifiers and ASCII whitespace only (that is all the fixed vocabulary of C10 needs); any other
interior makes the model answer `unsupported`.

Core Lean only.  Byte offsets of the Rust code are character positions here; all delimiters and
marker bytes are compared as whole characters (UTF-8 is self-synchronising, so substring search
on bytes and on characters agree for valid strings).
-/
namespace MJ.Lexer

structure Cfg where
  trim : Bool
  lstrip : Bool
  keep : Bool
  deriving Repr, DecidableEq

/-- `SyntaxConfig` delimiters; an empty `ls`/`lc` = no line statement / line comment prefix -/
structure Delims where
  bs : List Char
  be : List Char
  vs : List Char
  ve : List Char
  cs : List Char
  ce : List Char
  ls : List Char
  lc : List Char
  deriving Repr, DecidableEq

def defaultDelims : Delims :=
  { bs := ['{', '%'], be := ['%', '}'], vs := ['{', '{'], ve := ['}', '}'],
    cs := ['{', '#'], ce := ['#', '}'], ls := [], lc := [] }

inductive Marker where
  | var | block | comment | lineStmt | lineComment
  deriving Repr, DecidableEq

/-- `enum Whitespace` -/
inductive Ws where
  | dflt | preserve | remove
  deriving Repr, DecidableEq

def Ws.len : Ws → Nat
  | .dflt => 0
  | _ => 1

/-- `Whitespace::from_byte` -/
def wsOfChar : Option Char → Ws
  | some c => if c = '-' then .remove else if c = '+' then .preserve else .dflt
  | none => .dflt

def isNl (c : Char) : Bool := c = '\r' || c = '\n'

/-- Rust `char::is_whitespace` (Unicode `White_Space`) -/
def isWs (c : Char) : Bool :=
  let n := c.toNat
  (9 ≤ n && n ≤ 13) || n = 32 || n = 133 || n = 160 || n = 5760 || (8192 ≤ n && n ≤ 8202) ||
    n = 8232 || n = 8233 || n = 8239 || n = 8287 || n = 12288

/-- whitespace that is not a line break -/
def isHws (c : Char) : Bool := isWs c && !isNl c

/-- Rust `char::is_ascii_whitespace` (no vertical tab) -/
def isAsciiWs (c : Char) : Bool :=
  c = ' ' || c = '\t' || c = '\n' || c = '\x0c' || c = '\r'

def isIdentStart (c : Char) : Bool :=
  c = '_' || ('a'.toNat ≤ c.toNat && c.toNat ≤ 'z'.toNat) || ('A'.toNat ≤ c.toNat && c.toNat ≤ 'Z'.toNat)

def isIdentCont (c : Char) : Bool :=
  isIdentStart c || ('0'.toNat ≤ c.toNat && c.toNat ≤ '9'.toNat)

/-- `str::starts_with` -/
def startsWith : List Char → List Char → Bool
  | [], _ => true
  | _ :: _, [] => false
  | p :: ps, c :: cs => p = c && startsWith ps cs

/-- number of trailing characters satisfying `p` -/
def sufCount (p : Char → Bool) (s : List Char) : Nat := (s.reverse.takeWhile p).length

/-- `str::trim_end` -/
def trimEnd (s : List Char) : List Char := (s.reverse.dropWhile isWs).reverse

/-- `lstrip_block` -/
def lstripBlock (s : List Char) : List Char :=
  match s.reverse.dropWhile isHws with
  | [] => []
  | c :: r => if isNl c then (c :: r).reverse else s

/-- the loop of `should_lstrip_block` over the reversed source prefix -/
def scanLineStart : List Char → Bool
  | [] => true
  | c :: r => if isNl c then true else if isWs c then scanLineStart r else false

/-- `should_lstrip_block(flag, marker, prefix)`; `preRev` is the prefix reversed -/
def shouldLstrip (flag : Bool) (marker : Marker) (preRev : List Char) : Bool :=
  if (flag && marker != .var) || marker == .lineStmt || marker == .lineComment then scanLineStart preRev
  else false

/-- `skip_newline_if_trim_blocks`: number of characters skipped -/
def nlLen : List Char → Nat
  | [] => 0
  | c :: r =>
    if c = '\r' then (if r.head? = some '\n' then 2 else 1)
    else if c = '\n' then 1 else 0

/-- `skip_nl`: (was_nl || rest.is_empty(), skip) -/
def skipNl (s : List Char) : Bool × Nat :=
  let n := nlLen s
  (n > 0 || s.length = 0, n)

/-- `memstr`: position of the first occurrence of `pat` -/
def findSub (pat : List Char) : List Char → Option Nat
  | [] => if pat.isEmpty then some 0 else none
  | c :: cs =>
    if startsWith pat (c :: cs) then some 0
    else (findSub pat cs).map (· + 1)

/-- `memchr`: position of the first occurrence of `c` -/
def findChar (c : Char) : List Char → Option Nat
  | [] => none
  | x :: xs => if x = c then some 0 else (findChar c xs).map (· + 1)

/-- result of the start marker search: offset, marker, pattern length -/
abbrev Found := Option (Nat × Marker × Nat)

def shift : Found → Found
  | some (i, m, n) => some (i + 1, m, n)
  | none => none

/-- `find_start_marker_memchr` -/
def findStartDefault : List Char → Found
  | [] => none
  | c :: r =>
    if c = '{' then
      match r with
      | [] => none
      | c2 :: _ =>
        if c2 = '{' then some (0, .var, 2)
        else if c2 = '%' then some (0, .block, 2)
        else if c2 = '#' then some (0, .comment, 2)
        else shift (findStartDefault r)
    else shift (findStartDefault r)

/-- the start-marker search as a parameter: reversed source prefix, rest ↦ match -/
abbrev FindStart := List Char → List Char → Found

/-- the line statement prefix counts only when nothing but spaces and tabs precede it on its line -/
def lineStartP (preRev : List Char) : Bool :=
  match preRev.dropWhile (fun c => c = ' ' || c = '\t') with
  | [] => true
  | c :: _ => isNl c

/-- candidates at one position: every start delimiter that is a prefix there -/
def candidates (d : Delims) (preRev rest : List Char) : List (Marker × Nat) :=
  (if startsWith d.vs rest then [(Marker.var, d.vs.length)] else []) ++
  (if startsWith d.bs rest then [(Marker.block, d.bs.length)] else []) ++
  (if startsWith d.cs rest then [(Marker.comment, d.cs.length)] else []) ++
  (if !d.ls.isEmpty && startsWith d.ls rest && lineStartP preRev then [(Marker.lineStmt, d.ls.length)] else []) ++
  (if !d.lc.isEmpty && startsWith d.lc rest then [(Marker.lineComment, d.lc.length)] else [])

def longest : List (Marker × Nat) → Option (Marker × Nat)
  | [] => none
  | x :: xs =>
    match longest xs with
    | none => some x
    | some y => if y.2 > x.2 then some y else some x

/-- the longest start delimiter at exactly this position -/
def matchAt (d : Delims) (preRev rest : List Char) : Option (Marker × Nat) :=
  longest (candidates d preRev rest)

/-- reference leftmost-longest search (specification of the Aho-Corasick path of
    `find_start_marker`) -/
def findLL (d : Delims) : FindStart
  | _, [] => none
  | pre, c :: r =>
    match matchAt d pre (c :: r) with
    | some (m, n) => some (0, m, n)
    | none => shift (findLL d (c :: pre) r)

/-! ### the Aho-Corasick path of `find_start_marker` as it is built in `syntax.rs` -/

/-- the loop of `Delims::validated_start_delims` -/
def validatedGo : List (List Char × Bool) → List (List Char) → Option (List (List Char))
  | [], acc => some acc
  | (p, required) :: r, acc =>
    if p.isEmpty then (if required then none else validatedGo r acc)
    else if acc.contains p then none
    else validatedGo r (acc ++ [p])

/-- `Delims::validated_start_delims`: the start patterns in the order in which they are handed to
    the automaton; `none` = `InvalidDelimiter` -/
def validatedStartDelims (d : Delims) : Option (List (List Char)) :=
  validatedGo [(d.vs, true), (d.bs, true), (d.cs, true), (d.ls, false), (d.lc, false)] []

/-- `SyntaxConfig::pattern_to_marker` -/
def patternToMarker (d : Delims) (idx : Nat) : Marker :=
  match idx with
  | 0 => .var
  | 1 => .block
  | 2 => .comment
  | 3 => if d.ls.isEmpty then .lineComment else .lineStmt
  | _ => .lineComment

/-- one overlapping match: start offset, pattern index, pattern length -/
structure AcMatch where
  start : Nat
  idx : Nat
  len : Nat
  deriving Repr, DecidableEq

def AcMatch.stop (m : AcMatch) : Nat := m.start + m.len

/-- the patterns (with their index) that end exactly at offset `e` of `rest` -/
def matchesEndingAt (pats : List (List Char)) (rest : List Char) (e : Nat) : List AcMatch :=
  (pats.zipIdx).filterMap fun (p, i) =>
    if p.length ≤ e && startsWith p (rest.drop (e - p.length)) then some ⟨e - p.length, i, p.length⟩ else none

/-- what `find_overlapping` reports: every occurrence of every pattern, ordered by the offset at
    which it ends -/
def acMatches (pats : List (List Char)) (rest : List Char) : List AcMatch :=
  (List.range (rest.length + 1)).flatMap (matchesEndingAt pats rest)

/-- `AhoCorasick::max_pattern_len` -/
def maxPatternLen (pats : List (List Char)) : Nat := pats.foldl (fun a p => max a p.length) 0

/-- the body of the loop behind its `break` / `continue` tests: a line statement prefix that is
    not at the start of its line is skipped, any other match becomes `longest_match` -/
def acPick (d : Delims) (pre rest : List Char) (best : Found) (m : AcMatch) : Found :=
  let marker := patternToMarker d m.idx
  if marker = .lineStmt && !lineStartP ((rest.take m.start).reverse ++ pre) then best
  else some (m.start, marker, m.len)

/-- the loop of `find_start_marker` over the overlapping matches (`best` = `longest_match`) -/
def acLoop (d : Delims) (maxLen : Nat) (pre rest : List Char) : Found → List AcMatch → Found
  | best, [] => best
  | best, m :: ms =>
    match best with
    | some (s, _, _) =>
      if m.stop > s + maxLen then best
      else if m.start > s then acLoop d maxLen pre rest best ms
      else acLoop d maxLen pre rest (acPick d pre rest best m) ms
    | none => acLoop d maxLen pre rest (acPick d pre rest best m) ms

/-- the custom-delimiter search: automaton over the validated start delimiters + the loop -/
def acFind (d : Delims) : FindStart := fun pre rest =>
  match validatedStartDelims d with
  | none => none
  | some pats => acLoop d (maxPatternLen pats) pre rest none (acMatches pats rest)

/-- matches come in the order of their end offsets -/
def byEndB : List AcMatch → Bool
  | [] => true
  | a :: r => r.all (fun b => a.stop ≤ b.stop) && byEndB r

/-- decision procedure for the specification `AcSpec` of the automaton's report (`Proofs/LexerAC`):
    `ms` holds exactly the occurrences of the patterns in `rest`, ordered by end offset.  The driver
    evaluates it on what the real automaton reported (hook `start_marker_matches`). -/
def acSpecB (pats : List (List Char)) (rest : List Char) (ms : List AcMatch) : Bool :=
  let occ := acMatches pats rest
  ms.all (fun m => occ.contains m) && occ.all (fun m => ms.contains m) && byEndB ms

/-- the search `Tokenizer` uses (`SyntaxConfigBuilder::build`): memchr for the default delimiters,
    the automaton otherwise -/
def findStart (d : Delims) : FindStart :=
  if d = defaultDelims then fun _ rest => findStartDefault rest else acFind d

/-! ## tag interiors -/

/-- result of scanning a tag interior -/
inductive ScanRes where
  /-- the tag ends; `rest` is what follows the end delimiter (the line break for a line statement),
      `ws` the marker in front of the end delimiter -/
  | found (rest : List Char) (ws : Ws)
  /-- the input ends inside the tag -/
  | eof
  /-- the lexer reports a syntax error inside the tag -/
  | error
  /-- outside the modelled fragment (non-ASCII identifiers) -/
  | unsupported
  deriving Repr, DecidableEq

/-- `enum State` of `eat_number` -/
inductive NSt where
  | radixInt | int | frac | exp | expSign
  deriving Repr, DecidableEq

/-- what `eat_number` knows about the number so far -/
structure Num where
  radix : Nat
  st : NSt
  /-- the text so far ends in `_` -/
  lastUs : Bool
  /-- digits of the integer (after a radix prefix) -/
  nDigits : Nat
  val : Nat
  /-- a digit that does not exist in this radix was seen -/
  bad : Bool
  expDigits : Nat
  deriving Repr, DecidableEq

/-- where `utils::unescape` is inside the body of a string literal -/
inductive Esc where
  /-- not inside an escape -/
  | txt
  /-- directly behind a backslash -/
  | bs
  /-- inside `\uXXXX`: `i` of the four characters read, value so far -/
  | u (i acc : Nat)
  /-- inside `\xXX`: `i` of the two characters read -/
  | x (i : Nat)
  /-- behind an octal escape that may take `k` more digits, value so far -/
  | oct (k acc : Nat)
  deriving Repr, DecidableEq

inductive Mode where
  | top
  | ident
  /-- inside a string literal: quote, escape state, `pending_surrogate` (0 = none) -/
  | str (q : Char) (e : Esc) (sur : Nat)
  | num (n : Num)
  deriving Repr, DecidableEq

def isDigit (c : Char) : Bool := '0'.toNat ≤ c.toNat && c.toNat ≤ '9'.toNat

def isHexLetter (c : Char) : Bool :=
  ('a'.toNat ≤ c.toNat && c.toNat ≤ 'f'.toNat) || ('A'.toNat ≤ c.toNat && c.toNat ≤ 'F'.toNat)

def hexLetterVal (c : Char) : Nat :=
  if 'a'.toNat ≤ c.toNat then c.toNat - 'a'.toNat + 10 else c.toNat - 'A'.toNat + 10

/-! ### string literals: `eat_string` and `utils::unescape`

`eat_string` looks for the closing quote (a backslash protects the next byte) and then hands the
body to `unescape` when it contains a backslash; an escape that `unescape` rejects (`BadEscape`)
makes the string token a lexer error, like a missing closing quote does.  The model reads the body
once and keeps `unescape`'s state; it reports the error at the first character that makes the
escape invalid (all lexer errors are the same observation). -/

def isOct (c : Char) : Bool := '0'.toNat ≤ c.toNat && c.toNat ≤ '7'.toNat

def isHexDigit (c : Char) : Bool := isDigit c || isHexLetter c

def hexVal (c : Char) : Nat := if isDigit c then c.toNat - '0'.toNat else hexLetterVal c

/-- UTF-16 surrogates `0xD800..=0xDFFF`, high `..=0xDBFF`, low `0xDC00..` -/
def isSurr (v : Nat) : Bool := 55296 ≤ v && v ≤ 57343
def isHighSurr (v : Nat) : Bool := 55296 ≤ v && v ≤ 56319
def isLowSurr (v : Nat) : Bool := 56320 ≤ v && v ≤ 57343

/-- `Unescaper::push_u16`: the new pending surrogate, `none` = `BadEscape`.  A surrogate is kept
    pending (whichever half it is); the next `\u` must complete a high one with a low one. -/
def pushU16 (sur v : Nat) : Option Nat :=
  if isSurr v then
    (if sur = 0 then some v else if isHighSurr sur && isLowSurr v then some 0 else none)
  else if sur = 0 then some 0 else none

inductive StrNext where
  | cont (e : Esc) (sur : Nat)
  /-- the closing quote -/
  | close
  /-- `BadEscape` -/
  | bad

/-- a character that is not part of an escape: backslash, closing quote, text (`push_char` fails
    while a surrogate is pending) -/
def strPlain (q : Char) (sur : Nat) (c : Char) : StrNext :=
  if c = '\\' then .cont .bs sur
  else if sur ≠ 0 then .bad
  else if c = q then .close
  else .cont .txt 0

/-- one character of a string body.  `\uXXXX` and `\xXX` take exactly four / two characters which
    `from_str_radix(_, 16)` must accept (hex digits, the first one may be `+`); an octal escape takes
    up to two more octal digits and must fit a byte; every other character behind a backslash is
    taken as it is. -/
def strStep (q : Char) (e : Esc) (sur : Nat) (c : Char) : StrNext :=
  match e with
  | .txt => strPlain q sur c
  | .bs =>
    if c = 'u' then .cont (.u 0 0) sur
    else if sur ≠ 0 then .bad
    else if c = 'x' then .cont (.x 0) 0
    else if isOct c then .cont (.oct 2 (c.toNat - '0'.toNat)) 0
    else .cont .txt 0
  | .u i acc =>
    if isHexDigit c || (i = 0 && c = '+') then
      let acc' := if c = '+' then 0 else acc * 16 + hexVal c
      if i = 3 then
        match pushU16 sur acc' with
        | some s => .cont .txt s
        | none => .bad
      else .cont (.u (i + 1) acc') sur
    else .bad
  | .x i =>
    if i = 0 then (if isHexDigit c || c = '+' then .cont (.x 1) 0 else .bad)
    else if isHexDigit c then .cont .txt 0 else .bad
  | .oct k acc =>
    if 0 < k && isOct c then
      let acc' := acc * 8 + (c.toNat - '0'.toNat)
      if 255 < acc' then .bad else .cont (.oct (k - 1) acc') 0
    else strPlain q 0 c

inductive NumNext where
  | cont (n : Num)
  | stop
  | unsup

/-- one iteration of the loop in `eat_number` (`r` = what follows `c`) -/
def numStep (n : Num) (c : Char) (r : List Char) : NumNext :=
  if c = '.' && n.st = .int then
    let isExp := match r with
      | a :: b :: _ => (a = 'e' || a = 'E') && (b = '+' || b = '-' || isDigit b)
      | _ => false
    match r with
    | a :: _ =>
      if isExp then .cont { n with st := .frac, lastUs := false }
      else if a.toNat ≥ 128 then .unsup
      else if isIdentStart a then .stop
      else .cont { n with st := .frac, lastUs := false }
    | [] => .cont { n with st := .frac, lastUs := false }
  else if (c = 'E' || c = 'e') && (n.st = .int || n.st = .frac) then .cont { n with st := .exp, lastUs := false }
  else if (c = '+' || c = '-') && n.st = .exp then .cont { n with st := .expSign, lastUs := false }
  else if isDigit c && n.st = .exp then
    .cont { n with st := .expSign, lastUs := false, expDigits := n.expDigits + 1 }
  else if isDigit c then
    let dv := c.toNat - '0'.toNat
    match n.st with
    | .int | .radixInt =>
      .cont { n with lastUs := false, nDigits := n.nDigits + 1, val := n.val * n.radix + dv, bad := n.bad || decide (n.radix ≤ dv) }
    | .expSign => .cont { n with lastUs := false, expDigits := n.expDigits + 1 }
    | _ => .cont { n with lastUs := false }
  else if isHexLetter c && n.st = .radixInt && n.radix = 16 then
    .cont { n with lastUs := false, nDigits := n.nDigits + 1, val := n.val * 16 + hexLetterVal c }
  else if c = '_' then .cont { n with lastUs := true }
  else .stop

/-- the number token is accepted (no trailing `_`, `str::parse::<f64>` / `from_str_radix` succeed) -/
def numValid (n : Num) : Bool :=
  !n.lastUs && match n.st with
    | .int | .radixInt => decide (0 < n.nDigits) && !n.bad && decide (n.val < 340282366920938463463374607431768211456)
    | .frac => true
    | .exp => false
    | .expSign => decide (0 < n.expDigits)

/-- radix prefix `0b` / `0o` / `0x` -/
def radixPrefix (c : Char) (r : List Char) : Option Nat :=
  if c = '0' then
    match r with
    | a :: _ =>
      if a = 'b' || a = 'B' then some 2 else if a = 'o' || a = 'O' then some 8
      else if a = 'x' || a = 'X' then some 16 else none
    | [] => none
  else none

def numInit (radix : Nat) (st : NSt) : Num :=
  { radix := radix, st := st, lastUs := false, nDigits := 0, val := 0, bad := false, expDigits := 0 }

/-- state after the first digit of a decimal number -/
def numFirst (c : Char) : Num :=
  { radix := 10, st := .int, lastUs := false, nDigits := 1, val := c.toNat - '0'.toNat, bad := false, expDigits := 0 }

def twoCharOp (a b : Char) : Bool :=
  (a = '/' && b = '/') || (a = '*' && b = '*') || (a = '=' && b = '=') || (a = '!' && b = '=') ||
    (a = '>' && b = '=') || (a = '<' && b = '=')

/-- single character operators with their effect on `paren_balance` -/
def singleOp (c : Char) : Option Int :=
  if c = '+' || c = '-' || c = '*' || c = '/' || c = '%' || c = '.' || c = ',' || c = ':' || c = '~' ||
      c = '|' || c = '=' || c = '>' || c = '<' then some 0
  else if c = '(' || c = '[' || c = '{' then some 1
  else if c = ')' || c = ']' || c = '}' then some (-1)
  else none

/-- line statements end at the end of their line: blanks, then a line break or the end of input -/
def lineEnd (s : List Char) : Option (List Char) :=
  let after := s.dropWhile isHws
  if after.isEmpty then some []
  else if 0 < nlLen after then some (after.drop (nlLen after))
  else none

inductive Cont where
  | go (m : Mode)
  | boundary
  | fail (r : ScanRes)

/-- does the token that is being read continue with `c`? -/
def tokCont (m : Mode) (c : Char) (r : List Char) : Cont :=
  match m with
  | .top => .boundary
  | .ident =>
    if isIdentCont c then .go .ident else if c.toNat ≥ 128 then .fail .unsupported else .boundary
  | .str q e sur =>
    match strStep q e sur c with
    | .cont e' sur' => .go (.str q e' sur')
    | .close => .go .top
    | .bad => .fail .error
  | .num n =>
    match numStep n c r with
    | .cont n' => .go (.num n')
    | .unsup => .fail .unsupported
    | .stop => if numValid n then .boundary else .fail .error

/-- what to do after looking at one character -/
inductive Next where
  | done (r : ScanRes)
  /-- continue in mode `m` with bracket depth `bal` behind this character (`two`: behind the next
      one as well) -/
  | goto (m : Mode) (bal : Int) (two : Bool)

/-- `c` and the character behind it form a two character operator -/
def isTwo (c : Char) (r : List Char) : Bool :=
  match r with
  | c2 :: _ => twoCharOp c c2
  | [] => false

/-- operators, literals and identifiers: the token that starts with `c` -/
def dispatch (bal : Int) (c : Char) (r : List Char) : Next :=
  if isTwo c r then .goto .top bal true
  else
    match singleOp c with
    | some dl => .goto .top (bal + dl) false
    | none =>
      if c = '\'' || c = '"' then .goto (.str c .txt 0) bal false
      else if isDigit c then
        match radixPrefix c r with
        | some rad => .goto (.num (numInit rad .radixInt)) bal true
        | none => .goto (.num (numFirst c)) bal false
      else if isIdentStart c then .goto .ident bal false
      else if c.toNat ≥ 128 then .done .unsupported
      else .done .error

/-- at a token boundary (`tokenize_block_or_var` is entered with `c :: r` unread): line end, blanks,
    end of the tag, then the next token -/
def topStep (e : List Char) (line : Bool) (bal : Int) (c : Char) (r : List Char) : Next :=
  match (if line && bal == 0 then lineEnd (c :: r) else none) with
  | some rest => .done (.found rest .dflt)
  | none =>
    if isAsciiWs c then .goto .top bal false
    else if !line && bal == 0 && (c = '-' || c = '+') && startsWith e r then
      .done (.found (r.drop e.length) (if c = '-' then .remove else .preserve))
    else if !line && bal == 0 && startsWith e (c :: r) then .done (.found ((c :: r).drop e.length) .dflt)
    else dispatch bal c r

/-- one character in mode `m` -/
def scanStep (e : List Char) (line : Bool) (m : Mode) (bal : Int) (c : Char) (r : List Char) : Next :=
  match tokCont m c r with
  | .go m' => .goto m' bal false
  | .fail res => .done res
  | .boundary => topStep e line bal c r

/-- the input ends inside the tag -/
def scanEof (line : Bool) (m : Mode) : ScanRes :=
  match m with
  | .str _ _ _ => .error
  | .num n => if numValid n then (if line then .found [] .dflt else .eof) else .error
  | _ => if line then .found [] .dflt else .eof

/-- `tokenize_block_or_var` up to the end of the tag.  `e` = end delimiter, `line` = the tag is a
    line statement (ends at the end of its line instead), the `Int` is `paren_balance`. -/
def scanTag (e : List Char) (line : Bool) : Mode → Int → List Char → ScanRes
  | m, _, [] => scanEof line m
  | m, bal, c :: r =>
    match scanStep e line m bal c r with
    | .done res => res
    | .goto m' bal' false => scanTag e line m' bal' r
    | .goto m' bal' true =>
      match r with
      | _ :: r2 => scanTag e line m' bal' r2
      | [] => .error

/-! ### the tokens of a tag interior

`scanTag` only says where the tag ends.  `scanPieces` runs the same steps and also records what
`tokenize_block_or_var` makes of every character on the way: the text of each token it emits
(identifier, number, string literal, one or two character operator, bracket) and the ASCII
whitespace it skips between them. -/

inductive Piece where
  /-- skipped whitespace (one piece per character) -/
  | blank (s : List Char)
  /-- a token: its source text -/
  | tok (s : List Char)
  deriving Repr, DecidableEq

def Piece.src : Piece → List Char
  | .blank s => s
  | .tok s => s

def piecesSrc (ps : List Piece) : List Char := ps.flatMap Piece.src

/-- the token that is being read (its text reversed) ends here -/
def closeCur (cur : List Char) : List Piece := if cur.isEmpty then [] else [.tok cur.reverse]

/-- bookkeeping for one step of `scanTag` from mode `m` to mode `m'` that consumes `c` (and, if
    `two`, the character behind it): the pieces that are complete now and the text of the token
    that is being read afterwards -/
def pieceUpd (m : Mode) (c : Char) (r : List Char) (m' : Mode) (two : Bool) (cur : List Char) :
    List Piece × List Char :=
  let cs := if two then c :: r.take 1 else [c]
  match tokCont m c r with
  | .go _ => if m' = .top then ([.tok (cur.reverse ++ cs)], []) else ([], cs.reverse ++ cur)
  | _ =>
    if m' = .top then (closeCur cur ++ [if isAsciiWs c then .blank cs else .tok cs], [])
    else (closeCur cur, cs.reverse)

/-- `scanTag` with the pieces it passes -/
def scanPieces (e : List Char) (line : Bool) : Mode → Int → List Char → List Char → List Piece × ScanRes
  | m, _, [], cur => (closeCur cur, scanEof line m)
  | m, bal, c :: r, cur =>
    match scanStep e line m bal c r with
    | .done res => (closeCur cur, res)
    | .goto m' bal' false =>
      let u := pieceUpd m c r m' false cur
      let t := scanPieces e line m' bal' r u.2
      (u.1 ++ t.1, t.2)
    | .goto m' bal' true =>
      match r with
      | _ :: r2 =>
        let u := pieceUpd m c r m' true cur
        let t := scanPieces e line m' bal' r2 u.2
        (u.1 ++ t.1, t.2)
      | [] => (closeCur cur, .error)

/-- source text of a whitespace marker -/
def Ws.src : Ws → List Char
  | .remove => ['-']
  | .preserve => ['+']
  | .dflt => []

/-- the optional `-`/`+` in front of `endraw` (`skip_ws_control`) -/
def stripMarkerIf (b : Bool) (s : List Char) : List Char :=
  match b, s with
  | true, c :: r => if c = '-' || c = '+' then r else s
  | _, _ => s

/-- the optional `-`/`+` in front of the block end: like in `tokenize_block_or_var` it is a marker
    only if the block end follows it (a block end such as `-%>` is otherwise found as such) -/
def takeMarker (be p : List Char) : Ws × List Char :=
  match p with
  | c :: r =>
    if c = '-' && startsWith be r then (Ws.remove, r)
    else if c = '+' && startsWith be r then (Ws.preserve, r) else (Ws.dflt, p)
  | [] => (Ws.dflt, p)

/-- `skip_basic_tag(block_str, name, block_end, skip_ws_control)` -/
def skipBasicTag (s name be : List Char) (skipWsControl : Bool) : Option (Nat × Ws) :=
  let p2 := (stripMarkerIf skipWsControl s).dropWhile isAsciiWs
  if startsWith name p2 then
    let p3 := (p2.drop name.length).dropWhile isAsciiWs
    let wp := takeMarker be p3
    if startsWith be wp.2 then some (s.length - (wp.2.length - be.length), wp.1) else none
  else none

def rawName : List Char := ['r', 'a', 'w']
def endrawName : List Char := ['e', 'n', 'd', 'r', 'a', 'w']

/-- the `memstr`/`skip_basic_tag` loop of `handle_raw_tag`: (offset of the closing block start,
    characters of the whole `{% endraw %}` tag, left marker, right marker).  `skip` = characters
    still covered by the last block start that was tried. -/
def findEndraw (d : Delims) : Nat → List Char → Option (Nat × Nat × Ws × Ws)
  | _, [] => none
  | skip + 1, _ :: r => (findEndraw d skip r).map (fun (a, b) => (a + 1, b))
  | 0, c :: r =>
    if startsWith d.bs (c :: r) then
      let inner := (c :: r).drop d.bs.length
      match skipBasicTag inner endrawName d.be true with
      | some (n, wsNext) => some (0, d.bs.length + n, wsOfChar inner.head?, wsNext)
      | none => (findEndraw d (d.bs.length - 1) r).map (fun (a, b) => (a + 1, b))
    else (findEndraw d 0 r).map (fun (a, b) => (a + 1, b))

/-! ## the root loop -/

inductive Out where
  | data (s : List Char)
  | var
  | blk
  deriving Repr, DecidableEq

inductive Res where
  | ok (o : List Out)
  /-- the lexer reports a syntax error (unclosed comment / raw block) after these tokens -/
  | err (o : List Out)
  /-- outside the modelled fragment -/
  | unsupported
  deriving Repr, DecidableEq

def Res.prepend (o : List Out) : Res → Res
  | .ok r => .ok (o ++ r)
  | .err r => .err (o ++ r)
  | .unsupported => .unsupported

def dataOut (s : List Char) : List Out := if s.isEmpty then [] else [.data s]

/-- `skip_newline_if_trim_blocks` -/
def trimNl (cfg : Cfg) (s : List Char) : Nat := if cfg.trim then nlLen s else 0

/-- `handle_tail_ws`: (characters skipped now, trim_leading_whitespace) -/
def tailWs (cfg : Cfg) (ws : Ws) (s : List Char) : Nat × Bool :=
  match ws with
  | .preserve => (0, false)
  | .dflt => (trimNl cfg s, false)
  | .remove => (0, true)

/-- what `tokenize_root` emits as lead for the text `peeked` in front of a start marker -/
def leadOf (cfg : Cfg) (ws : Ws) (marker : Marker) (preTagRev peeked : List Char) : List Char :=
  match ws with
  | .dflt => if shouldLstrip cfg.lstrip marker preTagRev then lstripBlock peeked else peeked
  | .preserve => peeked
  | .remove => trimEnd peeked

/-- the raw block's data after the whitespace handling of `handle_raw_tag`;
    `preRev` = reversed source prefix up to the end of the `{% raw %}` tag -/
def rawData (cfg : Cfg) (wsStart ws : Ws) (preRev content : List Char) : List Char :=
  let r1 := match wsStart with
    | .dflt => content.drop (trimNl cfg content)
    | .remove => content.dropWhile isWs
    | .preserve => content
  match ws with
  | .dflt => if cfg.lstrip && scanLineStart (content.reverse ++ preRev) then lstripBlock r1 else r1
  | .remove => trimEnd r1
  | .preserve => r1

/-- outcome of one round of the root loop -/
inductive StepRes where
  /-- the tokenizer stops with this result -/
  | stop (r : Res)
  /-- tokens of this round, then continue at (reversed prefix, rest, trim_leading_whitespace) -/
  | next (o : List Out) (pre rest : List Char) (tf : Bool)
  deriving Repr, DecidableEq

/-- continue after `n` characters of `after` (which starts at the start marker) were consumed -/
def contAfter (lead o : List Out) (preTag after : List Char) (n : Nat) (tf : Bool) : StepRes :=
  if n = 0 then .stop .unsupported
  else .next (lead ++ o) ((after.take n).reverse ++ preTag) (after.drop n) tf

/-- `handle_start_marker` and everything up to the end of the tag -/
def handleTag (cfg : Cfg) (d : Delims) (lead : List Out) (marker : Marker) (skip : Nat)
    (preTag after : List Char) : StepRes :=
  let inner := after.drop skip
  match marker with
  | .comment =>
    match findSub d.ce inner with
    | none => .stop (.err lead)
    | some e =>
      -- the byte in front of the end delimiter; an empty body has none (the left marker is part of `skip`)
      let wsEnd := if e = 0 then Ws.dflt else wsOfChar (after.drop ((e - 1) + skip)).head?
      let n := skip + e + d.ce.length
      let kt := tailWs cfg wsEnd (after.drop n)
      contAfter lead [] preTag after (n + kt.1) kt.2
  | .var =>
    match scanTag d.ve false .top 0 inner with
    | .found rest wsEnd => contAfter lead [.var] preTag after (skip + (inner.length - rest.length)) (wsEnd = .remove)
    | .eof => .stop (.ok (lead ++ [.var]))
    | .error => .stop (.err (lead ++ [.var]))
    | .unsupported => .stop .unsupported
  | .block =>
    match skipBasicTag inner rawName d.be false with
    | some (n, wsStart) =>
      let body := after.drop (skip + n)
      match findEndraw d 0 body with
      | none => .stop (.err lead)
      | some (e, tagLen, wsL, wsNext) =>
        let preRaw := (after.take (skip + n)).reverse ++ preTag
        let content := body.take e
        let total := skip + n + e + tagLen
        let kt := tailWs cfg wsNext (after.drop total)
        contAfter lead [.data (rawData cfg wsStart wsL preRaw content)] preTag after (total + kt.1) kt.2
    | none =>
      match scanTag d.be false .top 0 inner with
      | .found rest wsEnd =>
        let total := skip + (inner.length - rest.length)
        let kt := tailWs cfg wsEnd (after.drop total)
        contAfter lead [.blk] preTag after (total + kt.1) kt.2
      | .eof => .stop (.ok (lead ++ [.blk]))
      | .error => .stop (.err (lead ++ [.blk]))
      | .unsupported => .stop .unsupported
  | .lineStmt =>
    match scanTag [] true .top 0 inner with
    | .found rest _ => contAfter lead [.blk] preTag after (skip + (inner.length - rest.length)) false
    | .eof => .stop (.ok (lead ++ [.blk]))
    | .error => .stop (.err (lead ++ [.blk]))
    | .unsupported => .stop .unsupported
  | .lineComment =>
    let c := inner.takeWhile (fun c => !isNl c)
    let n := skip + c.length + (skipNl (inner.drop c.length)).2
    contAfter lead [] preTag after n false

/-- One round = `tokenize_root` (text up to the next start marker) + the whole tag.
    `pre0` = reversed source prefix, `rest0` = unread source, `tf` = `trim_leading_whitespace`. -/
def step (cfg : Cfg) (d : Delims) (find : FindStart) (pre0 rest0 : List Char) (tf : Bool) : StepRes :=
  let skipped := if tf then rest0.takeWhile isWs else []
  let rest := if tf then rest0.dropWhile isWs else rest0
  let pre := skipped.reverse ++ pre0
  match find pre rest with
  | none => .stop (.ok (dataOut rest))
  | some (start, marker, plen) =>
    let peeked := rest.take start
    let after := rest.drop start
    let ws := if marker = .lineStmt then Ws.dflt else wsOfChar (after.drop plen).head?
    let preTag := peeked.reverse ++ pre
    let lead := dataOut (leadOf cfg ws marker preTag peeked)
    handleTag cfg d lead marker (plen + ws.len) preTag after

/-- the token loop (`fuel` bounds the number of rounds; every round consumes a character) -/
def lexGo (cfg : Cfg) (d : Delims) (find : FindStart) : Nat → List Char → List Char → Bool → Res
  | 0, _, _, _ => .unsupported
  | fuel + 1, pre, rest, tf =>
    match step cfg d find pre rest tf with
    | .stop r => r
    | .next o pre' rest' tf' => (lexGo cfg d find fuel pre' rest' tf').prepend o

/-- `if s.ends_with(c) { s = &s[..s.len() - 1] }` -/
def dropLastIf (c : Char) (s : List Char) : List Char :=
  if s.getLast? = some c then s.dropLast else s

/-- `Tokenizer::new`: one trailing line break is cut off unless `keep_trailing_newline` -/
def stripTrailingNl (s : List Char) : List Char := dropLastIf '\r' (dropLastIf '\n' s)

def prepare (cfg : Cfg) (src : List Char) : List Char :=
  if cfg.keep then src else stripTrailingNl src

/-- the tokenizer on a whole template -/
def lex (cfg : Cfg) (d : Delims) (find : FindStart) (src : List Char) : Res :=
  let s := prepare cfg src
  lexGo cfg d find (s.length + 1) [] s false

/-! ## observation -/

/-- text a render produces when a variable tag prints `vm` and a block tag `bm` -/
def renderOuts (vm bm : List Char) : List Out → List Char
  | [] => []
  | .data s :: r => s ++ renderOuts vm bm r
  | .var :: r => vm ++ renderOuts vm bm r
  | .blk :: r => bm ++ renderOuts vm bm r

def renderRes (vm bm : List Char) : Res → Option (List Char)
  | .ok o => some (renderOuts vm bm o)
  | _ => none

/-- canonical token list: empty data dropped, adjacent data merged -/
def normOuts : List Out → List Out
  | [] => []
  | .data s :: r =>
    match normOuts r with
    | .data s' :: r' => .data (s ++ s') :: r'
    | r' => if s.isEmpty then r' else .data s :: r'
  | x :: r => x :: normOuts r

end MJ.Lexer
