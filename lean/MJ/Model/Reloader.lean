/-!
# Transition system of `minijinja_autoreload::{AutoReloader, Notifier}` at lock granularity

Mirrors `minijinja-autoreload/src/lib.rs`:

```
acquire_env:   lock cached_env                                   (lock)
               is_none() || notifier.should_reload()             (check: one critical section of the
                                                                  notifier mutex; polls the freshness
                                                                  callback only when the flag is false)
               prepare_and_mark_reload(): should_reload = false   (reset)
               is_none() || !fast_reload (value returned by prepare)   (decide; no shared access)
               creator(weak_notifier)  |  clear_templates()       (creator start … creator end | clear)
               on creator failure: should_reload = true, return Err   (remark, release)
               Ok(EnvironmentGuard)                               (handout)   … drop(guard) (release)
request_reload: should_reload = true                              (set)  … return (ret)
set_fast_reload(b): fast_reload = b
```

Every step is exactly one critical section of one mutex (or touches only data protected by the
`cached_env` mutex that the stepping thread holds).  Any number of threads; the creator callback
may issue requests and switch fast reload through the notifier it is handed (`AcqCfg.script`), may
fail (`AcqCfg.fails`), and the freshness callback may answer `true` (`AcqCfg.cb`).

Ghost state (not in the Rust code): a logical clock `now` (one tick per step), the times of all
flag sets, a log of returned requests and of handed-out guards, and counters of observations.
-/
namespace MJ.Reloader

/-- what the creator callback does with the notifier it is handed -/
inductive COp where
  | req                 -- `notifier.request_reload()`
  | setFast (b : Bool)  -- `notifier.set_fast_reload(b)`
  | watch               -- `notifier.watch_path(..)`   (feature watch-fs: registers with the fs watcher)
  | persist (b : Bool)  -- `notifier.persistent_watch(b)`
  deriving DecidableEq, Repr

/-- the served environment (ghost: when it was built / last cleared) -/
structure Env where
  gen : Nat       -- number of the creator call that built it (1-based)
  builtAt : Nat   -- clock at which that creator call started
  freshAt : Nat   -- clock of the creator start or of the last `clear_templates`
  clears : Nat    -- `clear_templates` calls applied to it
  deriving DecidableEq, Repr

/-- per-acquire inputs (nondeterministic environment of the protocol) -/
structure AcqCfg where
  cb : Bool := false          -- the freshness callback answers `true` when polled in this acquire
  fails : Bool := false       -- the creator returns Err when called by this acquire
  panics : Bool := false      -- the creator panics when called by this acquire (takes precedence)
  script : List COp := []     -- what the creator does when called by this acquire
  deriving DecidableEq, Repr

/-- program counter of the thread inside `acquire_env` (it holds the `cached_env` mutex) -/
inductive Pc where
  | locked                              -- mutex taken, reload check not yet done [hook BeforeCheck if an env is cached]
  | checked (reload : Bool)             -- after the reload check            [hook AfterCheck]
  | reset                               -- flag reset                        [hook AfterReset]
  | toCreate                            -- decided to call the creator       [hook BeforeCreate]
  | toClear                             -- decided to clear the templates
  | creating (rest : List COp)          -- inside the creator                [hook BeforeSet if next is req]
  | innerSet (s : Nat) (rest : List COp) -- inside the creator, inside request_reload after the set [hook AfterSet]
  | created                             -- creator returned Ok, env stored   [hook AfterCreate]
  | cleared                             -- templates cleared                 [hook AfterClear]
  | failed                              -- creator returned Err              [hook BeforeRemark]
  | remarked                            -- flag set again after the failure
  | holding                             -- `Ok(guard)` returned, guard alive
  deriving DecidableEq, Repr

structure Active where
  tid : Nat
  cfg : AcqCfg
  pc : Pc
  lockedAt : Nat
  checkedAt : Nat := 0
  sawFlag : Bool := false     -- the check read `should_reload == true`
  buildStart : Nat := 0
  built : Bool := false       -- this acquire ran the creator successfully
  fastSeen : Bool := false    -- `fast_reload` as read ONCE by prepare_and_mark_reload: decides both
                              -- the watcher drop and create-vs-clear
  droppedW : Bool := false    -- ghost: this acquire's prepare threw the fs watcher away
  deriving DecidableEq, Repr

inductive Thread where
  | acqIdle (cfg : AcqCfg)    -- about to call `acquire_env`             [hook BeforeLock]
  | acqActive                 -- inside; its state is `State.cur`
  | acqDone
  | reqIdle                   -- about to set the flag                   [hook BeforeSet]
  | reqSet (s : Nat)          -- flag set at `s`, not yet returned       [hook AfterSet]
  | reqDone
  | fastIdle (b : Bool)       -- about to call `set_fast_reload(b)`
  | fastDone
  | cbIdle (b : Bool)         -- about to call `set_callback(|| b)` (replaces the freshness callback)
  | cbDone
  | watchIdle                 -- about to call `notifier().watch_path(..)` from outside the creator
  | watchDone
  | persistIdle (b : Bool)    -- about to call `persistent_watch(b)`
  | persistDone
  deriving DecidableEq, Repr

def Thread.initial : Thread → Bool
  | .acqIdle _ => true
  | .reqIdle => true
  | .fastIdle _ => true
  | .cbIdle _ => true
  | .watchIdle => true
  | .persistIdle _ => true
  | _ => false

/-- a request that has returned -/
structure ReqRec where
  setAt : Nat
  retAt : Nat
  by_ : Nat          -- thread that issued it (an acquirer's id for requests from inside the creator)
  deriving DecidableEq, Repr

/-- a guard that was handed out -/
structure AcqRec where
  tid : Nat
  lockedAt : Nat
  checkedAt : Nat
  env : Env
  built : Option Nat     -- `some b`: this acquire itself ran the creator, started at `b`
  deriving DecidableEq, Repr

structure State where
  now : Nat := 0
  flag : Bool := false            -- NotifierImpl.should_reload
  fast : Bool := false            -- NotifierImpl.fast_reload
  env : Option Env := none        -- AutoReloader.cached_env
  cur : Option Active := none     -- holder of the cached_env mutex
  -- the fs watcher's lifetime (feature watch-fs)
  persistent : Bool := false      -- NotifierImpl.persistent_fs_watcher
  watching : Bool := false        -- NotifierImpl.fs_watcher.is_some() (with the registered paths)
  registered : Bool := false      -- ghost: watch_path was called at least once
  clearsAfterDrop : Nat := 0      -- ghost: fast-reload clears done by an acquire that had dropped the watcher
  lastDrop : Option (Bool × Bool) := none  -- ghost: (persistent, fast) when the live watcher was last
                                  -- thrown away by a reload and not re-registered since
  poisoned : Bool := false        -- the cached_env mutex is poisoned (a creator panicked under it)
  recoverPoison : Bool := false   -- model VARIANT (never set by `init`): `lock()` recovers from the poison
                                  -- instead of `unwrap()`ing it; used only to show what the poison protects
  cbConst : Option Bool := none   -- NotifierImpl.should_reload_callback after a `set_callback(|| b)`;
                                  -- `none`: the initial callback, which answers `AcqCfg.cb` of the poller
  threads : List Thread := []
  -- counters
  creates : Nat := 0              -- creator calls started
  clears : Nat := 0               -- clear_templates calls
  failed : Nat := 0               -- creator calls that returned Err
  noneObs : Nat := 0              -- reload checks that found no cached env
  flagObs : Nat := 0              -- reload checks that read the flag as true
  cbObs : Nat := 0                -- reload checks in which the freshness callback answered true
  errs : Nat := 0                 -- acquire_env calls that returned Err
  panicked : Nat := 0             -- creator calls that panicked
  lockPanics : Nat := 0           -- acquire_env calls that panicked on the poisoned mutex
  panicAt : Option Nat := none    -- ghost: clock of the first creator panic
  panicTids : List Nat := []      -- ghost: threads whose acquire_env panicked
  onCalls : Nat := 0              -- invocations of the on_should_reload callback
  -- ghost logs
  sets : List Nat := []           -- clock of every `should_reload = true` done by request_reload
  risings : Nat := 0              -- ghost: how many of those found the flag down (false → true); a burst of
                                  -- requests between two reload checks raises the flag once
  reqLog : List ReqRec := []
  acqLog : List AcqRec := []
  deriving Repr

def init (ths : List Thread) : State := { threads := ths }

/-- `prepare_and_mark_reload`: is the fs watcher thrown away before this reload?  Only when neither
    `persistent_watch` nor fast reload is on (with fast reload the creator, which registered the
    paths, does not run again; with persistent_watch the paths were registered once from outside).
    Tied to the source by `MJ.C20.drop_cond_as_modelled`. -/
def dropWatcher (persistent fast : Bool) : Bool := !persistent && !fast

/-- one step of the mutex holder -/
def stepActive (σ : State) (c : Active) : Option State :=
  let t := σ.now
  match c.pc with
  | .locked =>
    match σ.env with
    | none => some { σ with now := t + 1, noneObs := σ.noneObs + 1,
                            cur := some { c with pc := .checked true, checkedAt := t, sawFlag := false } }
    | some _ =>
      if σ.flag then
        some { σ with now := t + 1, flagObs := σ.flagObs + 1,
                      cur := some { c with pc := .checked true, checkedAt := t, sawFlag := true } }
      else if σ.cbConst.getD c.cfg.cb then
        some { σ with now := t + 1, cbObs := σ.cbObs + 1, onCalls := σ.onCalls + 1,
                      cur := some { c with pc := .checked true, checkedAt := t, sawFlag := false } }
      else
        some { σ with now := t + 1, cur := some { c with pc := .checked false, checkedAt := t, sawFlag := false } }
  | .checked true =>
    -- prepare_and_mark_reload: [read fast_reload once, maybe drop the fs watcher] then [flag := false];
    -- two critical sections, merged (a step of another thread between them commutes with the second)
    let drop := dropWatcher σ.persistent σ.fast
    some { σ with now := t + 1, flag := false,
                  watching := if drop then false else σ.watching,
                  lastDrop := if drop && σ.watching then some (σ.persistent, σ.fast) else σ.lastDrop,
                  cur := some { c with pc := .reset, fastSeen := σ.fast, droppedW := drop } }
  | .reset =>
    -- no shared access: the decision uses the value prepare_and_mark_reload returned
    if σ.env.isNone || !c.fastSeen then
      some { σ with now := t + 1, cur := some { c with pc := .toCreate } }
    else
      some { σ with now := t + 1, cur := some { c with pc := .toClear } }
  | .toCreate =>
    some { σ with now := t + 1, creates := σ.creates + 1,
                  cur := some { c with pc := .creating c.cfg.script, buildStart := t } }
  | .creating (.req :: rest) =>
    some { σ with now := t + 1, flag := true, sets := t :: σ.sets,
                  risings := if σ.flag then σ.risings else σ.risings + 1,
                  cur := some { c with pc := .innerSet t rest } }
  | .innerSet s rest =>
    some { σ with now := t + 1, reqLog := ⟨s, t, c.tid⟩ :: σ.reqLog, onCalls := σ.onCalls + 1,
                  cur := some { c with pc := .creating rest } }
  | .creating (.setFast b :: rest) =>
    some { σ with now := t + 1, fast := b, cur := some { c with pc := .creating rest } }
  | .creating (.watch :: rest) =>
    some { σ with now := t + 1, watching := true, registered := true, lastDrop := none,
                  cur := some { c with pc := .creating rest } }
  | .creating (.persist b :: rest) =>
    some { σ with now := t + 1, persistent := b, cur := some { c with pc := .creating rest } }
  | .creating [] =>
    if c.cfg.panics then
      -- the creator panics: the stack unwinds out of acquire_env, nothing re-arms the flag, the
      -- MutexGuard is dropped during the unwinding and thereby poisons the mutex
      some { σ with now := t + 1, panicked := σ.panicked + 1, poisoned := true,
                    panicAt := some (σ.panicAt.getD t), panicTids := c.tid :: σ.panicTids,
                    cur := none, threads := σ.threads.set c.tid .acqDone }
    else if c.cfg.fails then
      some { σ with now := t + 1, failed := σ.failed + 1, cur := some { c with pc := .failed } }
    else
      some { σ with now := t + 1, env := some ⟨σ.creates, c.buildStart, c.buildStart, 0⟩,
                    cur := some { c with pc := .created, built := true } }
  | .toClear =>
    match σ.env with
    | some e =>
      some { σ with now := t + 1, clears := σ.clears + 1,
                    clearsAfterDrop := if c.droppedW then σ.clearsAfterDrop + 1 else σ.clearsAfterDrop,
                    env := some { e with freshAt := t, clears := e.clears + 1 },
                    cur := some { c with pc := .cleared } }
    | none => none      -- `mutex_guard.as_mut().unwrap()` would panic; unreachable (see C20)
  | .failed =>
    some { σ with now := t + 1, flag := true, cur := some { c with pc := .remarked } }
  | .remarked =>
    some { σ with now := t + 1, errs := σ.errs + 1, cur := none,
                  threads := σ.threads.set c.tid .acqDone }
  | .checked false | .created | .cleared =>
    match σ.env with
    | some e =>
      some { σ with now := t + 1,
                    acqLog := ⟨c.tid, c.lockedAt, c.checkedAt, e,
                               if c.built then some c.buildStart else none⟩ :: σ.acqLog,
                    cur := some { c with pc := .holding } }
    | none => none      -- `EnvironmentGuard::deref` would panic; unreachable (see C20)
  | .holding =>
    some { σ with now := t + 1, cur := none, threads := σ.threads.set c.tid .acqDone }

/-- one step of thread `i`; `none` = not enabled (blocked on the mutex, finished, or no such thread) -/
def step (σ : State) (i : Nat) : Option State :=
  let t := σ.now
  match σ.threads[i]? with
  | some (.acqIdle cfg) =>
    match σ.cur with
    | none =>
      if σ.poisoned && !σ.recoverPoison then
        -- `self.cached_env.lock().unwrap()` on the poisoned mutex panics
        some { σ with now := t + 1, lockPanics := σ.lockPanics + 1, panicTids := i :: σ.panicTids,
                      threads := σ.threads.set i .acqDone }
      else
        some { σ with now := t + 1, cur := some { tid := i, cfg := cfg, pc := .locked, lockedAt := t },
                      threads := σ.threads.set i .acqActive }
    | some _ => none
  | some .acqActive =>
    match σ.cur with
    | some c => if c.tid = i then stepActive σ c else none
    | none => none
  | some .reqIdle =>
    some { σ with now := t + 1, flag := true, sets := t :: σ.sets,
                  risings := if σ.flag then σ.risings else σ.risings + 1,
                  threads := σ.threads.set i (.reqSet t) }
  | some (.reqSet s) =>
    some { σ with now := t + 1, reqLog := ⟨s, t, i⟩ :: σ.reqLog, onCalls := σ.onCalls + 1,
                  threads := σ.threads.set i .reqDone }
  | some (.fastIdle b) =>
    some { σ with now := t + 1, fast := b, threads := σ.threads.set i .fastDone }
  | some (.cbIdle b) =>
    some { σ with now := t + 1, cbConst := some b, threads := σ.threads.set i .cbDone }
  | some .watchIdle =>
    some { σ with now := t + 1, watching := true, registered := true, lastDrop := none,
                  threads := σ.threads.set i .watchDone }
  | some (.persistIdle b) =>
    some { σ with now := t + 1, persistent := b, threads := σ.threads.set i .persistDone }
  | _ => none

/-! ## file-system notifications as request sources

The fs-watcher closure (feature `watch-fs`) receives `notify` events; for the kinds it accepts it
performs exactly `request_reload`'s two critical sections (see `MJ.C20.fs_callback_is_request`), i.e.
it is a `reqIdle` thread; for the others it does nothing.  An event kind is written as its path of
variant names, e.g. `["Modify", "Name", "From"]`. -/

/-- does an event of this kind denote a change of the content of a file or of the set of files
    under the watched path?  (metadata-only and access events do not) -/
def fsChangesFiles : List String → Bool
  | ["Create", _] => true
  | ["Remove", _] => true
  | ["Modify", "Data", _] => true
  | ["Modify", "Name", _] => true      -- every RenameMode: To, From (moved away / root moved), Both, Any, Other
  | ["Modify", "Any"] => true
  | _ => false

/-- the thread a delivered fs notification is, given whether the closure's filter accepts it -/
def fsThread (accepted : Bool) : Thread := if accepted then .reqIdle else .reqDone

/-- all states reachable from an initial state with any number of threads, by any schedule -/
inductive Reachable : State → Prop where
  | init (ths : List Thread) (h : ∀ t ∈ ths, t.initial = true) : Reachable (init ths)
  | step {σ σ' : State} (i : Nat) (h : Reachable σ) (hs : step σ i = some σ') : Reachable σ'

/-- run a schedule (list of thread ids); disabled entries are skipped -/
def run (σ : State) : List Nat → State
  | [] => σ
  | i :: is => run ((step σ i).getD σ) is

theorem reachable_run {σ : State} (h : Reachable σ) (sched : List Nat) : Reachable (run σ sched) := by
  induction sched generalizing σ with
  | nil => exact h
  | cons i is ih =>
    simp only [run]
    cases hs : step σ i with
    | none => simpa using ih h
    | some σ' => exact ih (Reachable.step i h hs)

/-! ## what the schedule driver needs -/

/-- is thread `i` waiting at a hook (yield) point, or finished?  (`false` = in the middle of a
    hook-to-hook segment) -/
def atYield (σ : State) (i : Nat) : Bool :=
  match σ.threads[i]? with
  | some .acqActive =>
    match σ.cur with
    | some c =>
      if c.tid = i then
        match c.pc with
        | .checked _ | .reset | .toCreate | .created | .holding => true
        | .cleared => true             -- [hook AfterClear]
        | .failed => true              -- [hook BeforeRemark: keep_reload_pending is about to look the notifier up]
        | .locked => σ.env.isSome      -- `should_reload()` is only called when an env is cached
        | .creating (.req :: _) => true
        | .innerSet _ _ => true
        | _ => false
      else true
    | none => true
  | _ => true

/-- name of the point thread `i` is waiting at -/
def pointName (σ : State) (i : Nat) : String :=
  match σ.threads[i]? with
  | some (.acqIdle _) => "BeforeLock"
  | some .acqActive =>
    match σ.cur with
    | some c =>
      match c.pc with
      | .locked => "BeforeCheck"
      | .checked _ => "AfterCheck" | .reset => "AfterReset" | .toCreate => "BeforeCreate"
      | .created => "AfterCreate" | .holding => "Holding"
      | .cleared => "AfterClear" | .failed => "BeforeRemark"
      | .creating (.req :: _) => "BeforeSet" | .innerSet _ _ => "AfterSet"
      | _ => "?"
    | none => "?"
  | some .acqDone => "Done"
  | some .reqIdle => "BeforeSet"
  | some (.reqSet _) => "AfterSet"
  | some .reqDone => "Done"
  | some (.fastIdle _) => "BeforeFast"
  | some .fastDone => "Done"
  | some (.cbIdle _) => "BeforeCallbackSet"
  | some .cbDone => "Done"
  | some .watchIdle => "BeforeWatch" | some .watchDone => "Done"
  | some (.persistIdle _) => "BeforePersist" | some .persistDone => "Done"
  | none => "?"

/-- hook-to-hook step of thread `i` (what one scheduling decision of the harness executes);
    at most `fuel` micro steps -/
def macroStep (σ : State) (i : Nat) : Option State :=
  match step σ i with
  | none => none
  | some σ1 =>
    let rec go (fuel : Nat) (σ : State) : State :=
      match fuel with
      | 0 => σ
      | fuel + 1 =>
        if atYield σ i then σ else
        match step σ i with
        | some σ' => go fuel σ'
        | none => σ
    some (go 64 σ1)

def enabled (σ : State) (i : Nat) : Bool := (step σ i).isSome

end MJ.Reloader
