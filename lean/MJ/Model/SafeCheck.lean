import MJ.Model.SafeProg
/-! A decision procedure for the syntactic fragment of C02 (`ProgOk`, `MJ/Proofs/SafeFrag.lean`; soundness
in `MJ/Proofs/SafeCheck.lean`).  The driver reports for every generated program whether it is in the
syntactic class of the theorem, so that the evidence says how much of the generated corpus the
*syntactic* theorem covers (the guarded interpreter decides the same question dynamically). -/
namespace MJ.Safe

def filterOkB (name : String) (ps : List Nat) : Bool :=
  [Mode.html, Mode.none, Mode.json].all fun m => match lookupF name m ps with | some (_, ok) => ok | Option.none => true

def allowsB (m : Mode) (k : Bool) : Bool := m == .html || (m == .none && k)

def autoModeB : AutoArg → Option Mode
  | .tru => some .html
  | .fals => some .none
  | .str s => if s = "html" then some .html else if s = "none" then some .none else Option.none

mutual
def okE (m : Mode) : Expr → Bool
  | .var _ => true
  | .lit _ => true
  | .int _ => true
  | .bool _ => true
  | .none => true
  | .cat a b => okE m a && okE m b
  | .add a b => okE m a && okE m b
  | .mul a _ => okE m a
  | .filt name ps args => filterOkB name ps && okEs m args
  | .meth name ps args => ["str", "dict", "list"].all (fun k => filterOkB (k ++ "." ++ name) ps) && okEs m args
  | .index a _ => okE m a
  | .slice a _ _ => okE m a
  | .attr a _ => okE m a
  | .list xs => okEs m xs
  | .dict kvs => okKs m kvs
  | .call _ args => okEs m args
  | .modCall _ _ args => okEs m args
  | .modVar _ _ => true
  | .caller => true
  | .super => m == .html
  | .loopRec e => okE m e
  | .loopIndex => true
  | .loopFirst => true
  | .not e => okE m e
  | .cond c a b => okE m c && okE m a && okE m b
def okEs (m : Mode) : List Expr → Bool
  | [] => true
  | e :: es => okE m e && okEs m es
def okKs (m : Mode) : List (String × Expr) → Bool
  | [] => true
  | (_, e) :: kvs => okE m e && okKs m kvs
end

mutual
def okS (p : Prog) (m : Mode) (k : Bool) : Stmt → Bool
  | .text _ => true
  | .emit e => allowsB m k && okE m e
  | .set _ e => okE m e
  | .setBlock _ Option.none body => okSs p m (m != .html) body
  | .setBlock _ (some (name, ps)) body => filterOkB name ps && okSs p m (m != .html) body
  | .filterBlock name ps body => allowsB m k && filterOkB name ps && okSs p m (m != .html) body
  | .forIn _ it false body els => okE m it && okSs p m k body && okSs p m k els
  | .forIn _ it true body els => okE m it && okSs p m k body && okSs p m k els && okSs p .html false body && okSs p .none true body
  | .ifE c a b => okE m c && okSs p m k a && okSs p m k b
  | .withE _ e body => okE m e && okSs p m k body
  | .callBlock _ args body => allowsB m k && okEs m args && okSs p .html false body && okSs p .none true body
  | .incl name => allowsB (modeOf p name) k
  | .block _ body => m == .html && okSs p .html false body
  | .auto a body =>
    match autoModeB a with
    | some m' => okSs p m' k body
    | Option.none => false
def okSs (p : Prog) (m : Mode) (k : Bool) : List Stmt → Bool
  | [] => true
  | s :: ss => okS p m k s && okSs p m k ss
end

def polyB (p : Prog) (ss : List Stmt) : Bool := okSs p .html false ss && okSs p .none true ss

def tmplOkB (p : Prog) (t : Tmpl) : Bool :=
  modeOf p t.name != .json && okSs p (modeOf p t.name) (modeOf p t.name != .html) t.pre &&
    okSs p (modeOf p t.name) (modeOf p t.name != .html) t.body && t.macros.all fun md => polyB p md.body

/-- decides `ProgOk` -/
def progOkB (p : Prog) : Bool :=
  p.templates.all (tmplOkB p) && modeOf p p.main == .html &&
    (inheritChain p (p.templates.length + 1) p.main).all fun t => okSs p .html false t.pre && okSs p .html false t.body

end MJ.Safe
