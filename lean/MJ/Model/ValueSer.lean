import MJ.Model.Json
/-!
# `impl Serialize for Value` towards an *external* serializer (C16)

Outside `Value::from(Serde(..))` a value serialises itself through the generic serde interface
(`value/mod.rs: impl Serialize for Value`, second half): scalars by their own method, sequence-like
objects as `serialize_seq(o.enumerator_len())` followed by one `serialize_element` per item of
`o.try_iter()`, map-like objects as `serialize_map(None)` followed by their entries.  serde's
contract: an announced `Some(n)` is *exactly* the number of elements that follow (serde_json relies
on it: `Some(0)` closes the array at once).

`LV` = a value with what its objects answer to `enumerate()`; `serCalls` = the calls the external
serializer receives.
-/
namespace MJ.ValueSer
open MJ.Serde MJ.Json

/-- the answer of `Object::enumerate()` of a sequence-like object, as far as lengths go -/
inductive En where
  | nonEnumerable
  | empty
  /-- `Values(vec)` / `Str(names)`: as many as it holds -/
  | exact
  /-- `Seq(n)`: items `0..n` by `get_value` -/
  | sized (n : Nat)
  /-- `Iter` / `RevIter` with `size_hint() = (lo, hi)` -/
  | hinted (lo : Nat) (hi : Option Nat)
  deriving Repr, DecidableEq, Inhabited

inductive LV where
  /-- anything that is not a sequence-like or map-like object -/
  | leaf (v : V)
  /-- `Vec<Value>` / `Tuple`: `enumerator_len` is overridden to `Some(len)` -/
  | list (tuple : Bool) (xs : List LV)
  /-- any other `Seq` / `Iterable` object: its enumerator and the items its iterator yields -/
  | lazy (en : En) (xs : List LV)
  /-- the value map (`BTreeMap` / `IndexMap`) -/
  | vmap (kvs : List (LV × LV))
  /-- any other map object: entries in enumeration order -/
  | omap (enumerable : Bool) (kvs : List (LV × LV))
  deriving Inhabited

/-- `Enumerator::query_len` -/
def enLen (en : En) (count : Nat) : Option Nat :=
  match en with
  | .nonEnumerable => none
  | .empty => some 0
  | .exact => some count
  | .sized n => some n
  | .hinted lo hi => if hi = some lo then some lo else none

/-- the iterator contract (`size_hint` is honest) and the `Seq(n)` / `Empty` answers, for one object -/
def enHonest (en : En) (count : Nat) : Prop :=
  match en with
  | .nonEnumerable => True
  | .empty => count = 0
  | .exact => True
  | .sized n => count = n
  | .hinted lo hi => lo ≤ count ∧ ∀ h, hi = some h → count ≤ h

/-- calls received by the serializer -/
inductive Call where
  | unit | bool (b : Bool) | int (i : Int) | f64 (bits : Nat) | str (s : Str) | bytes (b : List Nat)
  | seq (announced : Option Nat) (elems : List Call)
  | map (announced : Option Nat) (entries : List (Call × Call))
  deriving Inhabited

def scalarCall : V → Call
  | .undefined => .unit
  | .none => .unit
  | .invalid => .unit
  | .bool b => .bool b
  | .int _ i => .int i
  | .f64 b => .f64 b
  | .str s _ => .str s
  | .bytes b => .bytes b
  | _ => .unit

mutual
def serCalls : LV → Call
  | .leaf v => scalarCall v
  | .list _ xs => .seq (some xs.length) (serCallsList xs)
  | .lazy en xs =>
    -- `try_iter()` of a non-enumerable object is `None`: no elements
    match en with
    | .nonEnumerable => .seq none []
    | en => .seq (enLen en xs.length) (serCallsList xs)
  | .vmap kvs => .map none (serCallsPairs kvs)
  | .omap enumerable kvs => .map none (if enumerable then serCallsPairs kvs else [])
def serCallsList : List LV → List Call
  | [] => []
  | x :: xs => serCalls x :: serCallsList xs
def serCallsPairs : List (LV × LV) → List (Call × Call)
  | [] => []
  | (k, v) :: rest => (serCalls k, serCalls v) :: serCallsPairs rest
end

/-- not a sequence-like / map-like / dynamic object -/
def isScalarV : V → Bool
  | .seq _ _ => false
  | .map _ => false
  | .obj _ => false
  | _ => true

mutual
/-- every object in the value answers honestly (and leaves are scalars) -/
def Honest : LV → Prop
  | .leaf v => isScalarV v = true
  | .list _ xs => HonestList xs
  | .lazy en xs => enHonest en xs.length ∧ HonestList xs
  | .vmap kvs => HonestPairs kvs
  | .omap _ kvs => HonestPairs kvs
def HonestList : List LV → Prop
  | [] => True
  | x :: xs => Honest x ∧ HonestList xs
def HonestPairs : List (LV × LV) → Prop
  | [] => True
  | (k, v) :: rest => Honest k ∧ Honest v ∧ HonestPairs rest
end

mutual
/-- the serde length contract, everywhere in a call tree -/
def ContractOK : Call → Prop
  | .seq announced elems => (∀ n, announced = some n → elems.length = n) ∧ ContractOKList elems
  | .map announced entries => (∀ n, announced = some n → entries.length = n) ∧ ContractOKPairs entries
  | _ => True
def ContractOKList : List Call → Prop
  | [] => True
  | c :: cs => ContractOK c ∧ ContractOKList cs
def ContractOKPairs : List (Call × Call) → Prop
  | [] => True
  | (k, v) :: rest => ContractOK k ∧ ContractOK v ∧ ContractOKPairs rest
end

mutual
/-- the value as `jsonOf` sees it (maps of the value map in `Value::cmp` order for the BTreeMap build) -/
def toV (btree : Bool) : LV → V
  | .leaf v => v
  | .list t xs => .seq t (toVList btree xs)
  | .lazy en xs =>
    match en with
    | .nonEnumerable => .seq false []
    | _ => .seq false (toVList btree xs)
  | .vmap kvs => .map (if btree then sortEntries (toVPairs btree kvs) else toVPairs btree kvs)
  | .omap enumerable kvs => .map (if enumerable then toVPairs btree kvs else [])
def toVList (btree : Bool) : List LV → List V
  | [] => []
  | x :: xs => toV btree x :: toVList btree xs
def toVPairs (btree : Bool) : List (LV × LV) → List (V × V)
  | [] => []
  | (k, v) :: rest => (toV btree k, toV btree v) :: toVPairs btree rest
end

end MJ.ValueSer

/-! ## the `INTERNAL_SERIALIZATION` flag (`impl From<Serde<T>> for Value`, `InternalSerializationGuard`)

A conversion saves the flag, sets it, serialises (which may run nested conversions and may panic
or fail), and the guard's `drop` — which also runs while unwinding — clears the flag only if this
conversion was the one that set it. -/
namespace MJ.ValueSer

/-- one `Value::from(Serde(x))`: the conversions nested inside `x.serialize(..)`, and whether the
serialisation then panics -/
inductive Conv where
  | conv (inner : List Conv) (panics : Bool)

mutual
/-- `(flag afterwards, still unwinding)` -/
def runConv : Conv → Bool → Bool × Bool
  | .conv inner panics, flag =>
    let resetOnDrop := !flag            -- `let old = flag.replace(true); reset_on_drop: !old`
    let r := runConvs inner true
    let unwinding := r.2 || panics
    -- Drop for InternalSerializationGuard (runs on the normal and on the unwinding path)
    (if resetOnDrop then false else r.1, unwinding)
/-- consecutive conversions; a panic skips the rest -/
def runConvs : List Conv → Bool → Bool × Bool
  | [], flag => (flag, false)
  | c :: cs, flag =>
    let r := runConv c flag
    if r.2 then r else runConvs cs r.1
end

end MJ.ValueSer
