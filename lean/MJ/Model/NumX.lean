import MJ.Model.Num
import MJ.Model.NumLex
import MJ.Model.NumF
/-!
# More of the numeric surface of minijinja (C08, round 5)

* `Bool` operands of the arithmetic operators (`ops::coerce` falls through to
  `i128::try_from(Value)`, whose `Bool` arm is `val as usize`), of unary minus (an error:
  `kind() != Number`) and of the numeric filters;
* the tests `odd`, `even`, `divisibleby` (`minijinja/src/tests.rs`) on every numeric
  representation, floats included;
* the filters `int` / `float` on **strings**: `str::parse::<i128>()` (Rust's `from_str_radix(_, 10)`
  for a signed type: optional `+`/`-`, ASCII digits only, overflow is an error) with the
  `str::parse::<f64>()` fallback (Rust's `dec2flt` grammar; the value correctly rounded);
* float `+ - * /` as *exactly rounded* operations on bit patterns, `round(precision)`, and the
  IEEE-754 special cases of `powf`.
-/
namespace MJ.NumX
open MJ.Num MJ.F64 MJ.Val MJ.NumF

/-! ## every integer operator as a function of what `coerce` returns -/

/-- the body of `ops::add` … `ops::pow` after `match coerce(lhs, rhs, true)` -/
def opOn : Op → Option (Int × Int) → Res
  | .add, some (x, y) => finish (checkedAdd x y)
  | .sub, some (x, y) => finish (checkedSub x y)
  | .mul, some (x, y) => finish (checkedMul x y)
  | .floordiv, some (x, y) => if y ≠ 0 then finish (checkedDivEuclid x y) else .err
  | .rem, some (x, y) => finish (if y = -1 then some 0 else checkedRemEuclid x y)
  | .pow, some (x, y) =>
    match powChecked x y with
    | some v => .ok (intAsValue v)
    | none =>
      if 0 < y ∧ -1 ≤ x ∧ x ≤ 1 then .ok (intAsValue (if y % 2 = 0 then x * x else x)) else .err
  | _, none => .err

/-! ## `Bool` operands -/

/-- an operand of an integer operator: one of the four integer representations or a `Bool` -/
inductive IOpnd where
  | int (r : NumRepr)
  | bool (b : Bool)
  deriving Repr, DecidableEq

/-- the number a `Bool` stands for in arithmetic -/
def boolVal (b : Bool) : Int := if b then 1 else 0

def IOpnd.val : IOpnd → Int
  | .int r => r.val
  | .bool b => boolVal b

def IOpnd.WF : IOpnd → Prop
  | .int r => r.WF
  | .bool _ => True

/-- `i128::try_from(value)` (`primitive_int_try_from!`): `ValueRepr::Bool(val) => val as usize` -/
def toI128X : IOpnd → Option Int
  | .int r => toI128 r
  | .bool b => some (boolVal b)

/-- `ops::coerce` when a `Bool` may take part: a `Bool` matches none of the equal-representation
    arms and no float arm, so the pair goes through the last arm (`i128::try_from` of both) -/
def coerceX : IOpnd → IOpnd → Option (Int × Int)
  | .int x, .int y => coerce x y
  | a, b =>
    match toI128X a with
    | none => none
    | some x =>
      match toI128X b with
      | none => none
      | some y => some (x, y)

/-- the six binary operators on integer-or-bool operands -/
def binopX (op : Op) (a b : IOpnd) : Res := opOn op (coerceX a b)

/-- `ops::neg`: `if val.kind() == ValueKind::Number { … } else { Err(InvalidOperation) }` — a
    `Bool` is not a number -/
def negX : IOpnd → Res
  | .int r => neg r
  | .bool _ => .err

/-- the representation a `Bool` behaves like in every binary operator -/
def embed : IOpnd → NumRepr
  | .int r => r
  | .bool b => .u64 (if b then 1 else 0)

/-! ## the tests `odd`, `even`, `divisibleby` -/

/-- any numeric operand of a test or filter -/
inductive XOpnd where
  | int (r : NumRepr)
  | bool (b : Bool)
  | float (bits : Nat)
  deriving Repr, DecidableEq

def XOpnd.toN : XOpnd → N
  | .int r => ofRepr r
  | .bool b => boolN b
  | .float bits => .f64 bits

/-- `i128::try_from(value)` with the float arm:
    `ValueRepr::F64(val) if (val as i64 as f64 == val && val < i64::MAX as f64) => val as i64` -/
def tryI128 (x : XOpnd) : Option Int := x.toN.toI128

/-- `tests::is_odd`: `i128::try_from(v).ok().is_some_and(|x| x % 2 != 0)` (Rust's `%` truncates) -/
def isOdd (x : XOpnd) : Bool :=
  match tryI128 x with
  | some v => decide (Int.tmod v 2 ≠ 0)
  | none => false

/-- `tests::is_even` -/
def isEven (x : XOpnd) : Bool :=
  match tryI128 x with
  | some v => decide (Int.tmod v 2 = 0)
  | none => false

/-- `i128::wrapping_rem`: `MIN.wrapping_rem(-1) = 0`, otherwise the truncated remainder -/
def wrappingRem (a b : Int) : Int := if b = -1 then 0 else Int.tmod a b

/-- Rust's float `%` compared with `0.0` (`(a % b) == 0.0`): `fmod` is NaN for an infinite
    dividend, a zero divisor or a NaN operand; `a` itself for an infinite divisor -/
def fmodIsZero (a b : Nat) : Bool :=
  if isNaN a || isNaN b then false
  else if !isFinite a then false
  else if scaled b = 0 then false
  else if !isFinite b then decide (scaled a = 0)
  else decide (scaled a % scaled b = 0)

/-- `tests::is_divisibleby`: `match coerce(v, other, false)` —
    `I128(a, b) => b != 0 && a.wrapping_rem(b) == 0`, `F64(a, b) => (a % b) == 0.0`, `_ => false` -/
def isDivisibleBy (x y : XOpnd) : Bool :=
  match coerceN x.toN y.toN with
  | some (.i a b) => decide (b ≠ 0) && decide (wrappingRem a b = 0)
  | some (.f a b) => fmodIsZero a b
  | none => false

/-! ## filters on `Bool` and on integers with arguments -/

/-- `filters::int` on a `Bool`: `Value::from(*x as u64)` -/
def intOfBool (b : Bool) : NumRepr := .u64 (if b then 1 else 0)

/-- `filters::float` on a `Bool`: `*x as u64 as f64` -/
def floatOfBool (b : Bool) : Nat := if b then 1023 * P52 else 0

/-- `filters::round(value, precision)` on an integer: `Ok(value)` whatever the precision -/
def roundInt (a : NumRepr) (_precision : Option Int) : Res := .ok a

/-! ## float `+ - * /` as exactly rounded operations -/

/-- `a * b` of finite floats: the exact product `scaled a · scaled b / 2^1074` rounded -/
def fmul (a b : Nat) : Nat :=
  signedBits (sign a != sign b) (encodeRat (scaled a * scaled b) scale)

inductive FOp where
  | add | sub | mul | div
  deriving DecidableEq, Repr

/-- `ops::add`, `sub`, `mul` when `coerce(lhs, rhs, true)` is `F64(a, b)`, and `ops::div`
    (`as_f64(lhs, true) / as_f64(rhs, true)`, also for two integers); finite operands, and a
    non-zero divisor for `/` -/
def arithF (op : FOp) (x y : N) : Option Nat :=
  let a := asF64Lossy x
  let b := asF64Lossy y
  if isFinite a && isFinite b then
    match op with
    | .add => some (fadd a b)
    | .sub => some (fsub a b)
    | .mul => some (fmul a b)
    | .div => if scaled b ≠ 0 then some (fdiv a b) else none
  else none

/-! ## `round(precision)` on floats

`let x = 10f64.powi(precision); (x * val).round() / x`.  `powi` with a non-negative exponent up
to 22 is exact (`10^22 < 2^53 · 2^22`, every partial product of the repeated squaring is exact);
with a negative exponent compiler-rt's `__powidf2` returns `1 / 10^|p|`, one correctly rounded
division. -/

def ten (p : Nat) : Nat := ofNat (10 ^ p)

def powi10 (p : Int) : Option Nat :=
  if 0 ≤ p ∧ p ≤ 22 then some (ten p.toNat)
  else if -22 ≤ p ∧ p < 0 then some (fdiv (1023 * P52) (ten p.natAbs))
  else none

/-- `filters::round` on a finite float with `|precision| ≤ 22`; `none` outside that domain or
    when an intermediate result overflows -/
def roundF (b : Nat) (precision : Int) : Option Nat :=
  match powi10 precision with
  | none => none
  | some x =>
    if !isFinite b then none
    else
      let m := fmul x b
      if !isFinite m then none
      else some (fdiv (fround m) x)

/-! ## the IEEE-754 special cases of `powf` -/

inductive PowRes where
  | bits (b : Nat)
  | nan
  | general
  deriving DecidableEq, Repr

def one : Nat := 1023 * P52
def posInf : Nat := infMag
def negInf : Nat := P63 + infMag

/-- a finite float with an integral value -/
def isIntegral (b : Nat) : Bool := isFinite b && decide (scaled b % scale = 0)
/-- a finite float whose value is an odd integer -/
def isOddInt (b : Nat) : Bool := isIntegral b && decide (scaled b / scale % 2 = 1)

/-- `pow(x, y)` where IEEE 754-2008 §9.2.1 / C11 F.10.4.4 fixes the result; `general` for a
    finite non-zero base other than 1 with a finite non-zero exponent (NaN when the base is
    negative and the exponent is not an integer) -/
def powSpecial (x y : Nat) : PowRes :=
  if mag y = 0 then .bits one                       -- pow(x, ±0) = 1, even for a NaN
  else if x % P64 = one then .bits one              -- pow(+1, y) = 1, even for a NaN
  else if isNaN x || isNaN y then .nan
  else if mag x = 0 then                            -- pow(±0, y)
    if sign y then (if isOddInt y then .bits (signedBits (sign x) infMag) else .bits posInf)
    else (if isOddInt y then .bits (signedBits (sign x) 0) else .bits 0)
  else if mag y = infMag then                       -- pow(x, ±inf)
    if mag x = one then .bits one                   -- pow(-1, ±inf) = 1
    else if decide (mag x < one) = sign y then .bits posInf else .bits 0
  else if mag x = infMag then                       -- pow(±inf, y)
    if sign x then
      (if sign y then (if isOddInt y then .bits P63 else .bits 0)
       else (if isOddInt y then .bits negInf else .bits posInf))
    else (if sign y then .bits 0 else .bits posInf)
  else if sign x && !isIntegral y then .nan
  else .general

/-- a finite base to a small integral power: the exact value `x^n` (or `1 / x^n`) when it is a
    double; `none` when it is not (then the libm result is only checked against the oracle) -/
def powExact (x y : Nat) : Option Nat :=
  if isIntegral y && decide (scaled y / scale ≤ 64) && decide (scaled x ≠ 0) && isFinite x then
    let n := scaled y / scale
    let neg := sign x && decide (n % 2 = 1)
    let p := if sign y then scale ^ (n + 1) else scaled x ^ n
    let q := if sign y then scaled x ^ n else scale ^ (n - 1)
    let m := encodeRat p q
    if m < infMag ∧ scaledOfMag m * q = p then some (signedBits neg m) else none
  else none

/-- `ops::pow` when `coerce` is `F64(a, b)`: what the model can say about `a.powf(b)` -/
inductive PowOut where
  | bits (b : Nat)
  | nan
  | unknown
  deriving DecidableEq, Repr

def powF (x y : N) : PowOut :=
  let a := asF64Lossy x
  let b := asF64Lossy y
  match powSpecial a b with
  | .bits r => .bits r
  | .nan => .nan
  | .general =>
    match powExact a b with
    | some r => .bits r
    | none => .unknown

/-! ## strings parsed by the `int` and `float` filters -/

open MJ.NumLex (isDigit parseDigits)

/-- `<i128 as FromStr>::from_str` (`from_str_radix(src, 10)` for a signed type): empty input, a
    lone sign, any character that is not an ASCII digit, and a value outside `i128` are errors -/
def parseI128 (s : List Char) : Option Int :=
  match s with
  | [] => none
  | c :: rest =>
    let neg := decide (c = '-')
    let digits := if c = '-' ∨ c = '+' then rest else c :: rest
    if digits = [] then none      -- a lone sign
    else
      match parseDigits 10 0 digits with
      | none => none
      | some n =>
        if neg then (if (n : Int) ≤ 170141183460469231731687303715884105728 then some (-(n : Int)) else none)
        else (if (n : Int) < 170141183460469231731687303715884105728 then some (n : Int) else none)

/-- ASCII lower-casing of a letter (`eq_ignore_case` in `dec2flt::parse_inf_nan`) -/
def lowerAscii (c : Char) : Char := if 'A' ≤ c ∧ c ≤ 'Z' then Char.ofNat (c.toNat + 32) else c

def takeDigits : List Char → List Char × List Char
  | [] => ([], [])
  | c :: cs => if isDigit c then let r := takeDigits cs; (c :: r.1, r.2) else ([], c :: cs)

def digitsVal (ds : List Char) : Nat := (parseDigits 10 0 ds).getD 0

/-- the parts of a decimal float literal -/
structure Dec where
  neg : Bool
  mant : Nat          -- all digits of the integer and fraction part
  exp10 : Int         -- decimal exponent applying to `mant`
  deriving Repr, DecidableEq

inductive FParse where
  | dec (d : Dec)
  | inf (neg : Bool)
  | nan (neg : Bool)
  | invalid
  deriving Repr, DecidableEq

/-- Rust's `dec2flt` grammar: `[+-]? (inf | infinity | nan | digits [. digits?] | . digits) ([eE] [+-]? digits)?`
    with at least one digit in the mantissa, letters case-insensitive, nothing before or after -/
def parseFloatText (s : List Char) : FParse :=
  let (neg, body) := match s with
    | '-' :: r => (true, r)
    | '+' :: r => (false, r)
    | r => (false, r)
  let low := body.map lowerAscii
  if low = "inf".toList ∨ low = "infinity".toList then .inf neg
  else if low = "nan".toList then .nan neg
  else
    let (ip, r1) := takeDigits body
    let (fp, r2) := match r1 with
      | '.' :: r => takeDigits r
      | r => ([], r)
    if ip = [] ∧ fp = [] then .invalid
    else
      let mant := digitsVal (ip ++ fp)
      match r2 with
      | [] => .dec ⟨neg, mant, -(fp.length : Int)⟩
      | e :: r3 =>
        if e = 'e' ∨ e = 'E' then
          let (eneg, r4) := match r3 with
            | '-' :: r => (true, r)
            | '+' :: r => (false, r)
            | r => (false, r)
          let (ed, r5) := takeDigits r4
          if ed = [] ∨ r5 ≠ [] then .invalid
          else
            let ev : Int := digitsVal ed
            .dec ⟨neg, mant, (if eneg then -ev else ev) - (fp.length : Int)⟩
        else .invalid

/-- number of decimal digits of `n` (1 for 0) -/
def decLen (n : Nat) : Nat := (Nat.toDigits 10 n).length

/-- the correctly rounded double of `mant · 10^exp10` (bits); decimal exponents far outside the
    range of a double are decided without computing the power -/
def decToBits (d : Dec) : Nat :=
  let m :=
    if d.mant = 0 then 0
    else if d.exp10 > 400 then infMag
    else if d.exp10 + (decLen d.mant : Int) < -400 then 0
    else if 0 ≤ d.exp10 then encodeRat (d.mant * 10 ^ d.exp10.toNat * scale) 1
    else encodeRat (d.mant * scale) (10 ^ d.exp10.natAbs)
  signedBits d.neg m

/-- `str::parse::<f64>()`: `some bits`, with every NaN reported as the canonical quiet NaN -/
def parseF64 (s : List Char) : Option Nat :=
  match parseFloatText s with
  | .dec d => some (decToBits d)
  | .inf neg => some (signedBits neg infMag)
  | .nan neg => some (signedBits neg (infMag + P52 / 2))
  | .invalid => none

/-- the error kind of a failed `str::parse::<i128>()` is `PosOverflow` / `NegOverflow`: the text is
    an optional sign followed by at least one character, all of them ASCII digits -/
def isIntText (s : List Char) : Bool :=
  match s with
  | [] => false
  | [c] => isDigit c
  | c :: rest => (c = '+' || c = '-' || isDigit c) && rest.all isDigit

/-- `filters::int` on a string: `match s.parse::<i128>() { Ok(i) => Value::from(i), Err(e) if
    e.kind() is PosOverflow | NegOverflow => Err(out of range), Err(_) => match s.parse::<f64>() {
    Ok(f) => f64_to_int(f), Err(_) => Err(..) } }` -/
def intOfStr (s : List Char) : Res :=
  match parseI128 s with
  | some i => .ok (.i128 i)
  | none =>
    if isIntText s then .err
    else
      match parseF64 s with
      | some b => intOfFloat b
      | none => .err

/-- `filters::float` on a string -/
def floatOfStr (s : List Char) : Option Nat := parseF64 s

end MJ.NumX
