import MJ.Model.UndefVal
/-!
# Calling a builtin filter / test / function: argument conversion, then the body

`value/argtypes.rs`: a builtin `fn f(a: A, b: B, ..)` is called through `FunctionArgs::from_values`,
which converts the arguments left to right with `A::from_state_and_value(state, ..)`.  Which
`ArgType`s consult the undefined behaviour there is **extracted** (`MJ.Gen.undefArgTypes`: 1 = calls
`assert_value_not_undefined` first, 2 = wrapper forwarding the state to its element type, 0 = never),
as are the signatures of all registered builtins and how their bodies can reach the mode
(`MJ.Gen.undefBuiltinSigs`).

`callBuiltin` = the conversion layer (interpreting those tables) followed by the body:
* for a builtin whose source never reaches the mode: a mode-independent function (`Ops.pureBody`,
  abstract, or a hand model where the driver needs the value);
* for one that does (directly through helpers, or through `.format(state)` / `.call(state, ..)`):
  a `Comp` — it can consult the mode, but only by asking (`Ops.compBody`, or a hand model).
-/
namespace MJ.Undef

inductive ArgTy where
  | base (n : String)
  | opt (t : ArgTy)
  | rest (t : ArgTy)
  | vec (t : ArgTy)
  deriving Repr, Inhabited, DecidableEq

/-- the mode-independent operations that the model does not spell out (parameters of the theorems;
    the driver instantiates them with "outside the modelled fragment") -/
structure Ops where
  /-- converting one argument to the Rust type, apart from the undefined check -/
  convert : ArgTy → V → Except Err Unit
  /-- body of a builtin whose source never reaches the mode -/
  pureBody : String → String → List V → Except Err V
  /-- `/ // % **` on operands the model has no value for -/
  binop : String → V → V → Except Err V
  /-- `Value::call_method` on something that is not the loop object -/
  method : String → V → List V → Except Err V
  /-- `Value::call` on something that is neither a macro nor the loop object -/
  callValue : V → List V → Except Err V

/-- `(["Option"], "Cow<str>")` (the extractor splits `Option<Cow<str>>` like this) → `opt (base "Cow<str>")` -/
def ArgTy.ofParts : List String → String → ArgTy
  | [], b => .base b
  | w :: ws, b =>
    let t := ArgTy.ofParts ws b
    if w == "Option" then .opt t else if w == "Rest" then .rest t else if w == "Vec" then .vec t else .base (w ++ "<" ++ b ++ ">")

/-- the Rust spelling, for messages and for the name handed to `Ops.convert` -/
def ArgTy.name : ArgTy → String
  | .base n => n
  | .opt t => "Option<" ++ t.name ++ ">"
  | .rest t => "Rest<" ++ t.name ++ ">"
  | .vec t => "Vec<" ++ t.name ++ ">"

/-- (conversion with a state, owned conversion) of an `ArgType` impl, from the extracted table -/
def argTypeCode (n : String) : Option (Nat × Nat) :=
  (MJ.Gen.undefArgTypes.find? (fun r => r.1 == n)).map (fun r => r.2)

def ArgTy.known : ArgTy → Bool
  | .base n => (argTypeCode n).isSome
  | .opt t | .rest t | .vec t => t.known

/-- owned conversion of an element of a `Vec<T>` -/
def ArgTy.asksOwned (t : ArgTy) (v : V) : List HQ :=
  match t with
  | .base n => if ((argTypeCode n).getD (0, 0)).2 = 1 then [.assertNotUndef v.kind] else []
  | _ => []

def wrapperForwards (w : String) : Bool := ((argTypeCode w).getD (0, 0)).1 = 2

/-- what converting the single value `v` to `t` asks the undefined behaviour -/
def ArgTy.asks (t : ArgTy) (v : V) : List HQ :=
  match t with
  | .base n => if ((argTypeCode n).getD (0, 0)).1 = 1 then [.assertNotUndef v.kind] else []
  | .opt t =>
      -- `Option<T>` has no conversion with a state of its own: the state is dropped
      if wrapperForwards "Option<T>" then
        (match v with | .undef | .silent | .none => [] | v => t.asks v)
      else []
  | .rest t => if wrapperForwards "Rest<T>" then t.asks v else []
  | .vec t =>
      if wrapperForwards "Vec<T>" then
        (match v with | .seq xs | .iter xs => xs.flatMap t.asksOwned | _ => [])
      else []

def isKwargsTy : ArgTy → Bool
  | .base n => n == "Kwargs"
  | _ => false

def isKwargsVal : V → Bool
  | .kwargs _ => true
  | _ => false

/-- the conversion proper, after the undefined check: `Value` and `&Value` take anything but
    keyword arguments; everything else is a parameter -/
def convertOne (ops : Ops) (t : ArgTy) (name : String) (v : V) : Except Err Unit :=
  match t with
  | .base "Value" | .base "&Value" | .rest (.base "Value") | .opt (.base "Value") =>
      if isKwargsVal v then .error .invalidOperation else .ok ()
  | t => let _ := name; ops.convert t v

/-- `Rest<T>`: every remaining argument -/
def convRest (ops : Ops) (name : String) (t : ArgTy) : List V → Comp Unit
  | [] => .pure ()
  | v :: r => Comp.bind (Comp.chks ((ArgTy.rest t).asks v)) (fun _ =>
              Comp.bind (Comp.ofExcept (convertOne ops (.rest t) name v)) (fun _ => convRest ops name t r))

/-- `convert_function_args!`: the positional parameters left to right -/
def convArgs (ops : Ops) : List (String × ArgTy) → List V → Comp Unit
  | [], [] => .pure ()
  | [], _ :: _ => .fail (.other "TooManyArguments")
  | (name, .rest t) :: _, args => convRest ops name t args
  | (_, .opt _) :: ts, [] => convArgs ops ts []
  | (_, _) :: _, [] => .fail (.other "MissingArgument")
  | (name, t) :: ts, v :: r =>
      Comp.bind (Comp.chks (t.asks v)) (fun _ =>
      Comp.bind (Comp.ofExcept (convertOne ops t name v)) (fun _ => convArgs ops ts r))

/-- a trailing `Kwargs` parameter is read first and takes the trailing kwargs value, if any -/
def splitKwargs (sig : List (String × ArgTy)) (args : List V) : List (String × ArgTy) × List V :=
  match sig.getLast? with
  | some (_, t) =>
    if isKwargsTy t then
      (sig.dropLast, match args.getLast? with
                     | some v => if isKwargsVal v then args.dropLast else args
                     | none => args)
    else (sig, args)
  | none => (sig, args)

def namedSig (sig : List ArgTy) : List (String × ArgTy) := sig.map (fun t => (t.name, t))

/-- the conversion layer of a call -/
def convCall (ops : Ops) (sig : List ArgTy) (args : List V) : Comp Unit :=
  let (s, a) := splitKwargs (namedSig sig) args
  convArgs ops s a

/-- (argument types, how the body can reach the mode) of a registered builtin -/
def sigOf (kind name : String) : Option (List ArgTy × List String) :=
  (MJ.Gen.undefBuiltinSigs.find? (fun r => r.1 == kind && r.2.1 == name)).map
    (fun r => (r.2.2.1.map (fun p => ArgTy.ofParts p.1 p.2), r.2.2.2.1))

/-- the same for what minijinja-contrib registers (`add_to_environment`) -/
def contribSigOf (kind name : String) : Option (List ArgTy × List String) :=
  (MJ.Gen.undefContribSigs.find? (fun r => r.1 == kind && r.2.1 == name)).map
    (fun r => (r.2.2.1.map (fun p => ArgTy.ofParts p.1 p.2), r.2.2.2.1))

/-- can the owned conversion of an element of a `Vec<T>` consult the undefined behaviour? -/
def ArgTy.consultsOwned : ArgTy → Bool
  | .base n => ((argTypeCode n).getD (0, 0)).2 = 1
  | _ => false

/-- can converting an argument to `t` consult the undefined behaviour at all?  (`MJ.Undef.asks_nil_of_not_consults`:
    if not, the conversion asks nothing whatever the value; `consults_witness`: if so, there is a value for
    which it asks) -/
def ArgTy.consults : ArgTy → Bool
  | .base n => ((argTypeCode n).getD (0, 0)).1 = 1
  | .opt t => wrapperForwards "Option<T>" && t.consults
  | .rest t => wrapperForwards "Rest<T>" && t.consults
  | .vec t => wrapperForwards "Vec<T>" && t.consultsOwned

/-- positions of the parameters of a signature whose conversion consults the mode -/
def consultingParams (sig : List ArgTy) : List Nat := (sig.zipIdx.filter (fun p => p.1.consults)).map (fun p => p.2)

/-- per row of an extracted signature table with at least one such parameter: (kind, name, positions) -/
def consultingTable (rows : List (String × String × List (List String × String) × List String × List String)) :
    List (String × String × List Nat) :=
  rows.filterMap (fun r =>
    let ps := consultingParams (r.2.2.1.map (fun p => ArgTy.ofParts p.1 p.2))
    if ps.isEmpty then Option.none else some (r.1, r.2.1, ps))

/-! ## hand models of bodies (after the conversion layer) -/

def minBy (xs : List V) (gt : Bool) : V :=
  match xs with
  | [] => .undef
  | x :: r => r.foldl (fun a y => if (V.cmp y a == (if gt then .gt else .lt)) then y else a) x

def sumInts : List V → Int → Except Err V
  | [], acc => .ok (.int acc)
  | .undef :: r, acc | .silent :: r, acc => sumInts r acc
  | .int i :: r, acc => sumInts r (acc + i)
  | .bool _ :: _, _ => .error (.unsupported "sum of bool")
  | _ :: _, _ => .error .invalidOperation

def joinWith (sep : String) : List V → String
  | [] => ""
  | [x] => V.display x
  | x :: y :: r => V.display x ++ sep ++ joinWith sep (y :: r)

def asciiUpper (s : String) : String := String.ofList (s.toList.map Char.toUpper)
def asciiLower (s : String) : String := String.ofList (s.toList.map Char.toLower)

/-- `value_to_string_cow` -/
def toStringCow (v : V) : String := V.display v

/-- `try_iter(value).map_err(|err| InvalidOperation(..).with_source(err))` then the items -/
def tryIterItems (v : V) (wrapErr : Bool) : Comp (List V) :=
  let c : Comp (List V) := Comp.bind (Comp.chk (.tryIter v.kind)) (fun _ => Comp.ofExcept (V.iterItems v))
  if wrapErr then c.mapErr (fun e => match e with | .unsupported w => .unsupported w | _ => .invalidOperation) else c

/-- `Value::get_path` (`a.b.0`): an undefined on the way is an `UndefinedError` in every mode -/
def getPath (v : V) (path : String) : Except Err V :=
  (path.splitOn ".").foldlM (fun cur part =>
    if V.isUndefined cur then .error .undefinedError else
    match part.toNat? with
    | some i => match V.getItem cur (.int i) with
      | .ok x => .ok (x.getD .undef)
      | .error e => .error e
    | Option.none => .ok ((V.getAttr cur part).getD .undef)) v

/-- a nested call of another builtin (`test.call(state, ..)` / `filter.call(state, ..)`) -/
abbrev Nested := String → String → List V → Option (Comp V)

def optName : V → Option String
  | .undef | .silent | .none => Option.none
  | .str s | .safe s => some s
  | v => some (V.display v)

/-- `select_or_reject`: look the test up, `try_iter(value)`, then per item the attribute path and
    the test (a nested builtin call) or the truth value -/
def selectItems (nested : Nested) (invert : Bool) (attr : Option String) (tname : Option String) (targs : List V) :
    List V → Comp (List V)
  | [] => .pure []
  | x :: r =>
    Comp.bind (match attr with
      | some a => Comp.ofExcept (getPath x a)
      | Option.none => .pure x) (fun tv =>
    Comp.bind (match tname with
      | some n => (match nested "test" n (tv :: targs) with
        | some c => Comp.bind c (fun v => .pure v.isTrue)
        | Option.none => .fail (.other "UnknownTest"))
      | Option.none => .pure tv.isTrue) (fun passed =>
    Comp.bind (selectItems nested invert attr tname targs r) (fun ys =>
      .pure (if passed != invert then x :: ys else ys))))

def selectC (nested : Nested) (invert : Bool) (attr : Option String) (v : V) (tname : Option String) (targs : List V) : Comp V :=
  if (match tname with | some n => (sigOf "test" n).isNone | Option.none => false) then .fail (.other "UnknownTest") else
  Comp.bind (Comp.bind (Comp.chk (.tryIter v.kind)) (fun _ => Comp.ofExcept (V.iterItems v))) (fun xs =>
  Comp.bind (selectItems nested invert attr tname targs xs) (fun ys => .pure (.seq ys)))

def mapItems (nested : Nested) (fname : String) (fargs : List V) : List V → Comp (List V)
  | [] => .pure []
  | x :: r =>
    Comp.bind (match nested "filter" fname (x :: fargs) with
      | some c => c
      | Option.none => .fail (.other "UnknownFilter")) (fun y =>
    Comp.bind (mapItems nested fname fargs r) (fun ys => .pure (y :: ys)))

def mapAttr (attr dflt : V) (x : V) : Except Err V :=
  let sub := match attr.plain with
    | .str p => getPath x p
    | a => if x.isUndefined then .error .undefinedError else
           match V.getItem x a with
           | .ok y => .ok (y.getD .undef)
           | .error e => .error e
  match sub with
  | .ok a => .ok (if a.isUndefined then dflt else a)
  | .error e => if dflt.isUndefined then .error e else .ok dflt

/-- filters.rs `map`: attribute mapping (`attribute=`, `default=`) or filter mapping; `try_iter(value)`
    in both branches, after the filter was looked up -/
def mapC (nested : Nested) (v : V) (rest : List V) : Comp V :=
  let (pos, kw) : List V × List (String × V) :=
    match rest.getLast? with
    | some (.kwargs kvs) => (rest.dropLast, kvs)
    | _ => (rest, [])
  let iter : Comp (List V) := Comp.bind (Comp.chk (.tryIter v.kind)) (fun _ => Comp.ofExcept (V.iterItems v))
  match (V.mapGet kw "attribute").bind (fun a => match a with | .undef | .silent | .none => Option.none | a => some a) with
  | some attr =>
    if !pos.isEmpty then .fail (.other "TooManyArguments") else
    Comp.bind iter (fun xs => Comp.bind (Comp.ofExcept (xs.mapM (mapAttr attr ((V.mapGet kw "default").getD .undef)))) (fun ys =>
      if kw.any (fun p => p.1 != "attribute" && p.1 != "default") then .fail (.other "TooManyArguments") else .pure (.seq ys)))
  | Option.none =>
    match pos with
    | [] => .fail .invalidOperation
    | .str fname :: fargs =>
      if (sigOf "filter" fname).isNone then .fail (.other "UnknownFilter") else
      Comp.bind iter (fun xs => Comp.bind (mapItems nested fname fargs xs) (fun ys => .pure (.seq ys)))
    | _ :: _ => .fail .invalidOperation

/-- filters.rs `default`: `is_true(lax)` on the third argument, nothing else -/
def defaultBody : List V → Comp V
  | [v] => .pure (if v.isUndefined then .str "" else v)
  | [v, o] => .pure (if v.isUndefined then o else v)
  | [v, o, lax] =>
      Comp.bind (Comp.chk (.isTrue lax.kind)) (fun _ =>
        .pure (if v.isUndefined || (lax.isTrue && !v.isTrue) then o else v))
  | _ => .fail (.other "TooManyArguments")

/-- bodies of the filters: concrete where the driver computes the value; for the remaining filters
    whose source reaches the mode, the helper questions in source order followed by the abstract
    mode-independent rest (`Ops.pureBody`); `none` = a filter whose source never reaches the mode
    and that is not modelled by hand -/
def filterBodyRest (ops : Ops) (nested : Nested) (name : String) (args : List V) : Option (Comp V) :=
  match name, args with
  -- `int`: assert_value_not_undefined only on undefined / none
  | "int", [v] =>
      some (match v with
      | .undef | .silent | .none => Comp.bind (Comp.chk (.assertNotUndef v.kind)) (fun _ => .pure (.int 0))
      | .bool b => .pure (.int (if b then 1 else 0))
      | .int i => .pure (.int i)
      | .str s | .safe s => match s.toInt? with
        | some i => .pure (.int i)
        | Option.none => .fail (.unsupported "int of non-integer string")
      | _ => .fail .invalidOperation)
  | "string", [v] =>
      some (Comp.bind (Comp.chk (.assertNotUndef v.kind)) (fun _ =>
        .pure (match v with | .str s => .str s | .safe s => .safe s | v => .str (V.display v))))
  | "bool", [v] => some (Comp.bind (Comp.chk (.isTrue v.kind)) (fun _ => .pure (.bool v.isTrue)))
  | "list", [v] => some (Comp.bind (tryIterItems v true) (fun xs => .pure (.seq xs)))
  | "min", [v] => some (Comp.bind (tryIterItems v true) (fun xs => .pure (minBy xs false)))
  | "max", [v] => some (Comp.bind (tryIterItems v true) (fun xs => .pure (minBy xs true)))
  -- `sum`: try_iter, then `handle_undefined(false)` for every undefined item
  | "sum", [v] =>
      some (Comp.bind (tryIterItems v false) (fun xs =>
        Comp.bind (Comp.chks ((xs.filter V.isUndefined).map (fun _ => HQ.handleUndefined false))) (fun _ =>
          Comp.ofExcept (sumInts xs 0))))
  -- `attr` (after the `fix:` commit): `get_item_opt`, else `handle_undefined(value.is_undefined())`
  | "attr", [v, k] =>
      some (match V.getItem v k with
      | .error e => .fail e
      | .ok (some x) => .pure x
      | .ok Option.none => Comp.bind (Comp.chk (.handleUndefined v.isUndefined)) (fun _ => .pure .undef))
  -- bodies that never reach the mode
  | "upper", [v] => some (.pure (V.preserve v (asciiUpper (toStringCow v))))
  | "lower", [v] => some (.pure (V.preserve v (asciiLower (toStringCow v))))
  | "trim", [v] => some (.pure (V.preserve v (toStringCow v).trimAscii.toString))
  -- `safe` (its `String` parameter has passed the conversion) and `escape` / `e` (HTML; the JSON and custom
  -- formats of a template name are outside the model)
  | "safe", [v] => some (.pure (.safe (toStringCow v)))
  | "escape", [v] | "e", [v] => some (.pure (match v with | .safe s => .safe s | v => .safe (V.writeText true v)))
  | "length", [v] | "count", [v] =>
      some (match v.plain with
      | .str s => .pure (.int s.length)
      | .seq xs | .iter xs => .pure (.int xs.length)
      | .map kvs => .pure (.int kvs.length)
      | _ => .fail .invalidOperation)
  | "first", [v] =>
      some (match v.plain with
      | .str s => .pure ((V.chars s).head?.getD .undef)
      | .seq xs | .iter xs => .pure (xs.head?.getD .undef)
      | .map kvs => .pure ((kvs.head?.map (fun p => V.str p.1)).getD .undef)
      | _ => .fail .invalidOperation)
  | "last", [v] =>
      some (match v.plain with
      -- the last character of a safe string is safe (the first one, above, is not)
      | .str s => .pure (((V.chars s).getLast?.map (fun c => if v.isSafe then .safe (V.display c) else c)).getD .undef)
      | .seq xs | .iter xs => .pure (xs.getLast?.getD .undef)
      | _ => .fail .invalidOperation)
  -- `join` without auto-escaping (`join_plain`; `.format(state)` is only reached when escaping)
  | "join", [v] =>
      some (match V.iterItems v with
      | .ok xs => .pure (.str (joinWith "" xs))
      | .error _ => .fail .invalidOperation)
  | "join", [v, sep] =>
      some (match V.iterItems v with
      | .ok xs => .pure (.str (joinWith (match sep with | .undef | .silent | .none => "" | x => toStringCow x) xs))
      | .error _ => .fail .invalidOperation)
  -- the remaining filters whose source reaches the mode: their questions, then the abstract rest
  | "float", v :: _ =>
      some (match v with
      | .undef | .silent | .none =>
          Comp.bind (Comp.chk (.assertNotUndef v.kind)) (fun _ => Comp.ofExcept (ops.pureBody "filter" "float" args))
      | _ => Comp.ofExcept (ops.pureBody "filter" "float" args))
  | "sort", v :: rest =>
      some (Comp.bind (tryIterItems v true) (fun xs => Comp.ofExcept (ops.pureBody "filter" "sort" (.seq xs :: rest))))
  | "unique", v :: rest =>
      some (Comp.bind (tryIterItems v false) (fun xs => Comp.ofExcept (ops.pureBody "filter" "unique" (.seq xs :: rest))))
  | "batch", v :: rest =>
      some (Comp.bind (tryIterItems v false) (fun xs => Comp.ofExcept (ops.pureBody "filter" "batch" (.seq xs :: rest))))
  | "slice", v :: rest =>
      some (Comp.bind (tryIterItems v false) (fun xs => Comp.ofExcept (ops.pureBody "filter" "slice" (.seq xs :: rest))))
  | "select", v :: rest => some (selectC nested false Option.none v ((rest.head?).bind optName) (rest.drop 1))
  | "reject", v :: rest => some (selectC nested true Option.none v ((rest.head?).bind optName) (rest.drop 1))
  | "selectattr", v :: a :: rest => some (selectC nested false (some (toStringCow a)) v ((rest.head?).bind optName) (rest.drop 1))
  | "rejectattr", v :: a :: rest => some (selectC nested true (some (toStringCow a)) v ((rest.head?).bind optName) (rest.drop 1))
  | "map", v :: rest => some (mapC nested v rest)
  -- `.format(state)` only ever formats strings here (never an undefined), and `escape` goes through
  -- `Environment::format` only for custom auto-escape formats: no question without auto-escaping
  | "escape", _ | "e", _ | "replace", _ | "format", _ => some (Comp.ofExcept (ops.pureBody "filter" name args))
  | _, _ => Option.none

def filterBody (ops : Ops) (nested : Nested) (name : String) (args : List V) : Option (Comp V) :=
  if args.any V.isObject then some (.fail (.unsupported "opaque argument"))
  else if name == "default" || name == "d" then some (defaultBody args)
  else filterBodyRest ops nested name args

def testBodyRest (name : String) (args : List V) : Option (Comp V) :=
  match name, args with
  | "none", [v] => some (.pure (.bool (match v with | .none => true | _ => false)))
  | "true", [v] => some (.pure (.bool (match v with | .bool true => true | _ => false)))
  | "false", [v] => some (.pure (.bool (match v with | .bool false => true | _ => false)))
  | "eq", [a, b] | "equalto", [a, b] | "==", [a, b] => some (.pure (.bool (V.beq a b)))
  | "ne", [a, b] | "!=", [a, b] => some (.pure (.bool (!V.beq a b)))
  | "lt", [a, b] | "lessthan", [a, b] | "<", [a, b] => some (.pure (.bool (V.cmp a b == .lt)))
  | "le", [a, b] | "<=", [a, b] => some (.pure (.bool (V.cmp a b != .gt)))
  | "gt", [a, b] | "greaterthan", [a, b] | ">", [a, b] => some (.pure (.bool (V.cmp a b == .gt)))
  | "ge", [a, b] | ">=", [a, b] => some (.pure (.bool (V.cmp a b != .lt)))
  -- tests.rs `is_in`: `assert_iterable(other)`, then containment (errors count as false)
  | "in", [v, o] =>
      some (Comp.bind (Comp.chk (.assertIterable o.kind)) (fun _ =>
        .pure (.bool (match V.contains o v with | .ok b => b | .error _ => false))))
  | "string", [v] => some (.pure (.bool (match v with | .str _ | .safe _ => true | _ => false)))
  | "safe", [v] | "escaped", [v] => some (.pure (.bool v.isSafe))
  | "number", [v] | "integer", [v] | "int", [v] => some (.pure (.bool (match v with | .int _ => true | _ => false)))
  | "boolean", [v] => some (.pure (.bool (match v with | .bool _ => true | _ => false)))
  | "sequence", [v] => some (.pure (.bool (match v with | .seq _ => true | _ => false)))
  | "mapping", [v] => some (.pure (.bool (match v with | .map _ => true | _ => false)))
  | _, _ => Option.none

def intTypes : List String := ["isize", "i64", "i32", "i128", "usize", "u64", "u32", "u16", "u8", "u128"]

def convExec : ArgTy → V → Except Err Unit
  | .base n, v =>
    if ["StringInput", "Cow<str>", "String"].contains n then
      (if v.isOpaque then .error (.unsupported "opaque argument") else .ok ())
    else if intTypes.contains n then
      match V.asNum? v with
      | some i => if i < 0 && n.startsWith "u" then .error .invalidOperation else .ok ()
      | Option.none => if v.isOpaque then .error (.unsupported "opaque argument") else .error .invalidOperation
    else if n == "&str" || n == "Arc<str>" then
      match v with
      | .str _ | .safe _ => .ok ()
      | v => if v.isOpaque then .error (.unsupported "opaque argument") else .error .invalidOperation
    else if n == "ValueOrKwargs" then .ok ()
    else .error (.unsupported ("argument conversion " ++ n))
  | .opt t, v => match v with
    | .undef | .silent | .none => .ok ()
    | v => convExec t v
  | .rest t, v => convExec t v
  | .vec t, _ => .error (.unsupported ("argument conversion Vec<" ++ t.name ++ ">"))

def rangeList (lo step : Int) : Nat → Int → List Int
  | 0, _ => []
  | n + 1, hi =>
    if (step > 0 && lo < hi) || (step < 0 && lo > hi) then lo :: rangeList (lo + step) step n hi else []

def optInt : V → Option (Option Int)
  | .undef | .silent | .none => some Option.none
  | v => (V.asNum? v).map some

/-- bodies of the global functions the driver computes -/
def functionBody (name : String) (args : List V) : Option (Comp V) :=
  match name, args with
  | "range", a :: rest =>
    match V.asNum? a, rest.map optInt with
    | some a, [] => some (.pure (.iter ((rangeList 0 1 a.toNat a).map V.int)))
    | some a, [some b] =>
      let (lo, hi) := match b with | some b => (a, b) | Option.none => (0, a)
      if hi - lo > 100000 then some (.fail .invalidOperation)
      else some (.pure (.iter ((rangeList lo 1 (hi - lo).toNat hi).map V.int)))
    | some a, [some b, some c] =>
      let (lo, hi) := match b with | some b => (a, b) | Option.none => (0, a)
      match c with
      | Option.none => if hi - lo > 100000 then some (.fail .invalidOperation)
                       else some (.pure (.iter ((rangeList lo 1 (hi - lo).toNat hi).map V.int)))
      | some 0 => some (.fail .invalidOperation)
      | some st => if (hi - lo).natAbs > 100000 then some (.fail .invalidOperation)
                   else some (.pure (.iter ((rangeList lo st ((hi - lo).natAbs + 1) hi).map V.int)))
    | _, _ => Option.none
  | "dict", [] => some (.pure (.map []))
  | "dict", [.kwargs kvs] => some (.pure (.map kvs))
  | "dict", [v] => (match v with
      | .undef | .silent => some (.pure (.map []))
      | .map kvs => some (.pure (.map kvs))
      | .mac .. | .loopRef _ | .module .. => Option.none
      | _ => some (.fail .invalidOperation))
  | "dict", [v, .kwargs kw] => (match v with
      | .undef | .silent => some (.pure (.map kw))
      | .map kvs => some (.pure (.map (kw.foldl (fun a p => V.mapInsert a p.1 p.2) kvs)))
      | .mac .. | .loopRef _ | .module .. => Option.none
      | _ => some (.fail .invalidOperation))
  | _, _ => Option.none

/-- `// % **` on integers (booleans count as 0 / 1): Euclidean division and remainder, `checked_pow` -/
def binopExec (op : String) (a b : V) : Except Err V :=
  if a.isOpaque || b.isOpaque then .error (.unsupported "opaque operand") else
  match V.asNum? a, V.asNum? b with
  | some x, some y =>
    if op == "IntDiv" then (if y = 0 then .error .invalidOperation else .ok (.int (Int.ediv x y)))
    else if op == "Rem" then (if y = 0 then .error .invalidOperation else .ok (.int (Int.emod x y)))
    else if op == "Pow" then
      (if y < 0 || y > 200 then .error (if y < 0 then .invalidOperation else .unsupported "large exponent") else
        let r := x ^ y.toNat
        if r < -170141183460469231731687303715884105728 || r > 170141183460469231731687303715884105727
        then .error .invalidOperation else .ok (.int r))
    else .error (.unsupported ("operator " ++ op ++ " (float result)"))
  | _, _ => .error .invalidOperation

def testBody (name : String) (args : List V) : Option (Comp V) :=
  if args.any V.isObject then some (.fail (.unsupported "opaque argument"))
  else if name == "defined" then (match args with | [v] => some (.pure (.bool (!v.isUndefined))) | _ => Option.none)
  else if name == "undefined" then (match args with | [v] => some (.pure (.bool v.isUndefined)) | _ => Option.none)
  else testBodyRest name args

def handBody (ops : Ops) (nested : Nested) (kind name : String) (args : List V) : Option (Comp V) :=
  if kind == "filter" then filterBody ops nested name args
  else if kind == "test" then testBody name args
  else functionBody name args

/-- **a call of a registered builtin** (nested calls at most `fuel` deep): the conversion layer
    from the extracted signature, then the body — the hand model (concrete, or the questions of a
    mode-reaching builtin followed by its abstract rest), else, for a builtin whose source never
    reaches the mode, the abstract pure function -/
def callBuiltinN (ops : Ops) : Nat → String → String → List V → Option (Comp V)
  | 0, _, _, _ => some (.fail (.unsupported "nested builtin calls too deep"))
  | fuel + 1, kind, name, args =>
    match sigOf kind name with
    | Option.none => Option.none
    | some (sig, reach) =>
      some (Comp.bind (convCall ops sig args) (fun _ =>
        match handBody ops (callBuiltinN ops fuel) kind name args with
        | some c => c
        | Option.none =>
          if reach.isEmpty then Comp.ofExcept (ops.pureBody kind name args)
          else .fail (.unsupported ("call shape of the mode-reaching " ++ kind ++ " " ++ name))))

def callBuiltin (ops : Ops) (kind name : String) (args : List V) : Option (Comp V) := callBuiltinN ops 6 kind name args

/-- does the extracted signature consist of known argument types? -/
def sigKnown (kind name : String) : Bool :=
  match sigOf kind name with
  | some (sig, _) => sig.all ArgTy.known
  | Option.none => false

/-- the driver's instance: whatever is not modelled by hand is outside the executable fragment -/
def Ops.exec : Ops where
  convert := convExec
  pureBody := fun kind name _ => .error (.unsupported (kind ++ " " ++ name))
  binop := binopExec
  method := fun name recv _ => if recv.isOpaque then .error (.unsupported ("method " ++ name)) else .error (.other "UnknownMethod")
  callValue := fun f _ => if f.isOpaque then .error (.unsupported "call of a value") else .error .invalidOperation

/-- for the signature stream of the check: conversions never fail apart from the undefined check -/
def Ops.convOnly : Ops where
  convert := fun _ _ => .ok ()
  pureBody := fun _ _ _ => .ok .none
  binop := fun _ _ _ => .ok .none
  method := fun _ _ _ => .ok .none
  callValue := fun _ _ => .ok .none

end MJ.Undef
