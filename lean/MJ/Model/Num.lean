/-!
# Integer arithmetic of `minijinja::value::ops`

Model of the numeric part of `minijinja/src/value/ops.rs` (`coerce`, `int_as_value`, `add`, `sub`,
`mul`, `int_div`, `rem`, `pow`, `neg`) and of `i128::try_from(Value)` (`value/argtypes.rs`) over the
four integer representations of `ValueRepr`.

Conventions
* payloads are mathematical numbers (`Nat`/`Int`); a representation is *well formed* (`NumRepr.WF`)
  when the payload is in the range of its Rust type;
* Rust `as` casts between integer types are modelled by the wrapping functions `wrapI128`/`wrapI64`
  (identity only on the target range — that they are never applied outside it is a theorem);
* Rust's `i128::checked_*` are modelled by their documented contract: the exact result when it fits
  the type, `None` otherwise (`checked_div_euclid`/`checked_rem_euclid`: `None` for a zero divisor
  and for `MIN, -1`); Lean's `/` and `%` on `Int` are the Euclidean quotient and remainder, the same
  convention as Rust's `div_euclid`/`rem_euclid`;
* every failure of an operator is an `Error` of kind `InvalidOperation`: `Res.err`.
-/
namespace MJ.Num

/-- integer payloads of `ValueRepr` (`U64`, `I64`, `U128`, `I128`) -/
inductive NumRepr where
  | u64 (n : Nat)
  | i64 (i : Int)
  | u128 (n : Nat)
  | i128 (i : Int)
  deriving Repr, DecidableEq, Inhabited

/-- the mathematical value -/
def NumRepr.val : NumRepr → Int
  | .u64 n => n
  | .i64 i => i
  | .u128 n => n
  | .i128 i => i

/-- the payload is in the range of its Rust type -/
def NumRepr.WF : NumRepr → Prop
  | .u64 n => n < 18446744073709551616
  | .i64 i => -9223372036854775808 ≤ i ∧ i < 9223372036854775808
  | .u128 n => n < 340282366920938463463374607431768211456
  | .i128 i => -170141183460469231731687303715884105728 ≤ i ∧ i < 170141183460469231731687303715884105728

instance (r : NumRepr) : Decidable r.WF := by
  cases r <;> unfold NumRepr.WF <;> infer_instance

/-- the range of `i128` -/
def InI128 (x : Int) : Prop :=
  -170141183460469231731687303715884105728 ≤ x ∧ x < 170141183460469231731687303715884105728

instance (x : Int) : Decidable (InI128 x) := by unfold InI128; infer_instance

/-- `i128::MIN` -/
def minI128 : Int := -170141183460469231731687303715884105728

/-- the cast `x as i128` (two's complement wrap-around) -/
def wrapI128 (x : Int) : Int :=
  let y := x % 340282366920938463463374607431768211456
  if y < 170141183460469231731687303715884105728 then y else y - 340282366920938463463374607431768211456

/-- the cast `x as i64` -/
def wrapI64 (x : Int) : Int :=
  let y := x % 18446744073709551616
  if y < 9223372036854775808 then y else y - 18446744073709551616

/-- `i128::try_from(x: u128)` -/
def i128OfU128 (n : Nat) : Option Int :=
  if n < 170141183460469231731687303715884105728 then some (n : Int) else none

/-- `i128::try_from(value)` for an integer value (`primitive_int_try_from!(i128)`):
    `i128::try_from` of an `i64`/`u64`/`i128` payload always succeeds, of a `u128` payload only
    below `2^127` -/
def toI128 : NumRepr → Option Int
  | .u64 n => some n
  | .i64 i => some i
  | .u128 n => i128OfU128 n
  | .i128 i => some i

/-- the last arm of `ops::coerce`: "everything else goes up to i128" via `i128::try_from` -/
def coerceViaTryFrom (a b : NumRepr) : Option (Int × Int) :=
  match toI128 a with
  | none => none
  | some x =>
    match toI128 b with
    | none => none
    | some y => some (x, y)

/-- the `(U128, U128)` arm of `ops::coerce`:
    `I128(some!(i128::try_from(a.0).ok()), some!(i128::try_from(b.0).ok()))` -/
def coerceU128 (x y : Nat) : Option (Int × Int) :=
  match i128OfU128 x with
  | none => none
  | some x' =>
    match i128OfU128 y with
    | none => none
    | some y' => some (x', y')

/-- `ops::coerce` on two integers: `Some(CoerceResult::I128(a, b))` or `None`.  The arms for equal
    representations come first, as in the Rust `match`. -/
def coerce (a b : NumRepr) : Option (Int × Int) :=
  match a with
  | .u64 x =>
    match b with
    | .u64 y => some (wrapI128 x, wrapI128 y)          -- `*a as i128`
    | _ => coerceViaTryFrom a b
  | .u128 x =>
    match b with
    | .u128 y => coerceU128 x y
    | _ => coerceViaTryFrom a b
  | .i64 x =>
    match b with
    | .i64 y => some (wrapI128 x, wrapI128 y)          -- `*a as i128`
    | _ => coerceViaTryFrom a b
  | .i128 x =>
    match b with
    | .i128 y => some (x, y)
    | _ => coerceViaTryFrom a b

/-- result of an operator: a value or an `InvalidOperation` error -/
inductive Res where
  | ok (v : NumRepr)
  | err
  deriving Repr, DecidableEq

/-- `int_as_value`: `if val as i64 as i128 == val { (val as i64).into() } else { val.into() }` -/
def intAsValue (v : Int) : NumRepr :=
  if wrapI128 (wrapI64 v) = v then .i64 (wrapI64 v) else .i128 v

/-- contract of the `i128::checked_*` family: the exact result if it is an `i128` -/
def chk (x : Int) : Option Int := if InI128 x then some x else none

def checkedAdd (a b : Int) : Option Int := chk (a + b)
def checkedSub (a b : Int) : Option Int := chk (a - b)
def checkedMul (a b : Int) : Option Int := chk (a * b)

/-- `i128::checked_div_euclid` -/
def checkedDivEuclid (a b : Int) : Option Int :=
  if b = 0 ∨ (a = minI128 ∧ b = -1) then none else some (a / b)

/-- `i128::checked_rem_euclid` -/
def checkedRemEuclid (a b : Int) : Option Int :=
  if b = 0 ∨ (a = minI128 ∧ b = -1) then none else some (a % b)

/-- `i128::checked_pow(exp: u32)`: the exact power if it fits.  (A base of magnitude ≥ 2 with an
    exponent ≥ 128 cannot fit; saying so keeps the model executable for exponents up to 2^32 —
    `checkedPow_eq_chk` in `Proofs/Num.lean` shows this is the same function as `chk (a ^ e)`.) -/
def checkedPow (a : Int) (e : Nat) : Option Int :=
  if 2 ≤ a.natAbs ∧ 128 ≤ e then none else chk (a ^ e)

/-- `Option<i128>` → `Result<Value, Error>` via `int_as_value` -/
def finish : Option Int → Res
  | some v => .ok (intAsValue v)
  | none => .err

/-- `ops::add` on integers -/
def add (a b : NumRepr) : Res :=
  match coerce a b with
  | some (x, y) => finish (checkedAdd x y)
  | none => .err

/-- `ops::sub` (`math_binop!(sub, checked_sub, -)`) -/
def sub (a b : NumRepr) : Res :=
  match coerce a b with
  | some (x, y) => finish (checkedSub x y)
  | none => .err

/-- `ops::mul` on integers -/
def mul (a b : NumRepr) : Res :=
  match coerce a b with
  | some (x, y) => finish (checkedMul x y)
  | none => .err

/-- `ops::int_div` on integers -/
def intDiv (a b : NumRepr) : Res :=
  match coerce a b with
  | some (x, y) => if y ≠ 0 then finish (checkedDivEuclid x y) else .err
  | none => .err

/-- `ops::rem` on integers: `if b == -1 { Some(0) } else { a.checked_rem_euclid(b) }` -/
def rem (a b : NumRepr) : Res :=
  match coerce a b with
  | some (x, y) => finish (if y = -1 then some 0 else checkedRemEuclid x y)
  | none => .err

/-- `match u32::try_from(b).ok().and_then(|b| a.checked_pow(b))` of `ops::pow`: `None` when the
    exponent is no `u32` or the power overflows -/
def powChecked (x y : Int) : Option Int :=
  if 0 ≤ y ∧ y < 4294967296 then checkedPow x y.toNat else none

/-- `ops::pow` on integers: `match … { Some(val) => Ok(int_as_value(val)), None if b > 0 &&
    (-1..=1).contains(&a) => Ok(int_as_value(if b % 2 == 0 { a * a } else { a })), None => Err(..) }`
    — 0, 1 and -1 can be raised to any positive power, also to one beyond `u32` (fix 3a8d5c6) -/
def pow (a b : NumRepr) : Res :=
  match coerce a b with
  | some (x, y) =>
    match powChecked x y with
    | some v => .ok (intAsValue v)
    | none =>
      if 0 < y ∧ -1 ≤ x ∧ x ≤ 1 then .ok (intAsValue (if y % 2 = 0 then x * x else x)) else .err
  | none => .err

/-- `ops::neg` on an integer.  The "special case for the largest i128 that can still be
    represented" returns `Value::from(MIN_I128_AS_POS_U128)`, i.e. the *positive* `u128` `2^127`
    again (pinned by the existing `vm@literals` snapshot; C08's recorded known finding);
    everything else goes through `i128::try_from` and `checked_mul(-1)` -/
def neg (a : NumRepr) : Res :=
  let general : Res :=
    match toI128 a with
    | some x => finish (checkedMul x (-1))
    | none => .err
  match a with
  | .u128 n =>
    if n = 170141183460469231731687303715884105728 then .ok (.u128 170141183460469231731687303715884105728)
    else general
  | _ => general

/-! ## Filters that do integer arithmetic (`minijinja/src/filters.rs`) -/

/-- `filters::abs` on an integer: unsigned values are returned as they are; `i64` uses
    `checked_abs` and widens `i64::MIN` (`Value::from((x as i128).abs())`); `i128` uses
    `checked_abs` and fails on `i128::MIN` ("overflow on abs") -/
def absFilter : NumRepr → Res
  | .u64 n => .ok (.u64 n)
  | .u128 n => .ok (.u128 n)
  | .i64 x =>
    if x = -9223372036854775808 then .ok (.i128 9223372036854775808)
    else .ok (.i64 (if x < 0 then -x else x))
  | .i128 x => if x = minI128 then .err else .ok (.i128 (if x < 0 then -x else x))

/-- `filters::int` and `filters::round` on an integer: `Ok(value.clone())` -/
def intFilter (a : NumRepr) : Res := .ok a

/-- the loop of `filters::sum`: `rv = ops::add(&rv, &value)?` -/
def sumFrom (acc : NumRepr) : List NumRepr → Res
  | [] => .ok acc
  | x :: xs =>
    match add acc x with
    | .ok r => sumFrom r xs
    | .err => .err

/-- `filters::sum` over integers, starting from `Value::from(0)` (an `I64`) -/
def sumFilter (xs : List NumRepr) : Res := sumFrom (.i64 0) xs

/-- the six binary integer operators -/
inductive Op where
  | add | sub | mul | floordiv | rem | pow
  deriving Repr, DecidableEq

def binop : Op → NumRepr → NumRepr → Res
  | .add => add
  | .sub => sub
  | .mul => mul
  | .floordiv => intDiv
  | .rem => rem
  | .pow => pow

/-- the mathematical meaning of the operators (`/`, `%` Euclidean) -/
def Op.denote : Op → Int → Int → Int
  | .add, a, b => a + b
  | .sub, a, b => a - b
  | .mul, a, b => a * b
  | .floordiv, a, b => a / b
  | .rem, a, b => a % b
  | .pow, a, b => a ^ b.toNat

/-- where the operator has an integer meaning: non-zero divisor, non-negative exponent -/
def Op.Defined : Op → Int → Int → Prop
  | .floordiv, _, b => b ≠ 0
  | .rem, _, b => b ≠ 0
  | .pow, _, b => 0 ≤ b
  | _, _, _ => True

instance (op : Op) (a b : Int) : Decidable (op.Defined a b) := by
  cases op <;> unfold Op.Defined <;> infer_instance

/-! ## Float `%` and `//` on exact values

Two finite floats are integer multiples of `2^-1074`; scaled by `2^1074` they are integers `a`, `b`
and `fmod` (Rust's float `%`, exact in IEEE arithmetic) is `Int.tmod` on them.  These are
`f64::rem_euclid` and the quotient `ops::f64_div_euclid` derives from it, before the final rounding
of the addition / division. -/

/-- `f64::rem_euclid`: `let r = self % rhs; if r < 0.0 { r + rhs.abs() } else { r }` -/
def fRemEuclid (a b : Int) : Int :=
  let r := Int.tmod a b
  if r < 0 then r + b.natAbs else r

/-- `ops::f64_div_euclid`: `((a - a.rem_euclid(b)) / b).round()`, the division being exact -/
def fDivEuclid (a b : Int) : Int := (a - fRemEuclid a b) / b

end MJ.Num
