import MJ.Model.Depth
/-!
# Rust callbacks between native re-entries (C11, mixed cycles)

A recursion cycle can pass through Rust: template code calls a filter / test / function / object
implemented in Rust (`filter.call(state, args)`, `Value::call`, `Value::call_method`,
`State::apply_filter`, `State::perform_test`), and the callback re-enters the interpreter through
the `State` API — `State::render_block` (→ `call_block`), `State::call_macro` / `Value::call` on a
macro object (→ `Macro::call` → `eval_macro`).  A callback frame ("hop") sits on the native stack
but is invisible to `Context::depth()`: it neither charges nor refunds, and — this is what the
model states and the differential run checks — it cannot reset the depth either: the nested
re-entry is charged on top of the depth the callback found.

`StH` = the accounting state of `MJ.Depth` plus the callback frames that are on the native stack:
`cur` in the current activation, `saved` below each pending activation (innermost first).
-/
namespace MJ.Depth
open MJ.Gen

inductive EvH where
  /-- a depth event of the interpreter -/
  | ev (e : Ev)
  /-- a Rust callback is entered (filter, test, function, object call, `apply_filter`, …) -/
  | hop
  /-- the callback returns -/
  | unhop
  deriving Repr, DecidableEq

structure StH where
  st : St
  /-- callback frames entered in the current activation and not yet left -/
  cur : Nat
  /-- callback frames pending in the outer activations, one entry per element of `st.acts` -/
  saved : List Nat
  deriving Repr, DecidableEq

def initH (limit : Nat) : StH := ⟨init limit, 0, []⟩

inductive OutH where
  | ok (s : StH)
  | recursionError
  | panic
  | stuck
  deriving Repr, DecidableEq

/-- the depth outcome of a mixed outcome -/
def OutH.toOut : OutH → Out
  | .ok s => .ok s.st
  | .recursionError => .recursionError
  | .panic => .panic
  | .stuck => .stuck

def stepH (s : StH) : EvH → OutH
  | .hop => .ok { s with cur := s.cur + 1 }
  | .unhop => if s.cur = 0 then .stuck else .ok { s with cur := s.cur - 1 }
  | .ev (.enter k) =>
    match step s.st (.enter k) with
    | .ok st' => .ok ⟨st', 0, s.cur :: s.saved⟩
    | .recursionError => .recursionError
    | .panic => .panic
    | .stuck => .stuck
  | .ev .leave =>
    -- return or error propagation: the callbacks of the activation are unwound with it
    match s.saved with
    | [] => .stuck
    | h :: rest =>
      match step s.st .leave with
      | .ok st' => .ok ⟨st', h, rest⟩
      | .recursionError => .recursionError
      | .panic => .panic
      | .stuck => .stuck
  | .ev e =>
    match step s.st e with
    | .ok st' => .ok { s with st := st' }
    | .recursionError => .recursionError
    | .panic => .panic
    | .stuck => .stuck

def runH (s : StH) : List EvH → OutH
  | [] => .ok s
  | e :: es =>
    match stepH s e with
    | .ok s' => runH s' es
    | o => o

/-- the depth events of a mixed trace -/
def erase : List EvH → List Ev
  | [] => []
  | .ev e :: es => e :: erase es
  | _ :: es => erase es

def sumNat : List Nat → Nat
  | [] => 0
  | x :: xs => x + sumNat xs

/-- callback frames on the native stack -/
def totalHops (s : StH) : Nat := s.cur + sumNat s.saved

/-- native stack of a mixed state: the activations plus `hopBytes` per callback frame -/
def stackBytesH (bytes : Kind → Nat) (hopBytes : Nat) (s : StH) : Nat :=
  stackBytes bytes s.st.acts + hopBytes * totalHops s

/-! ## the stack budget as a decidable check (evaluated by the driver on every run's measurements) -/

def allKinds : List Kind := [.macroCall, .callerCall, .includeTpl, .blockCall, .superCall]

/-- measured bytes of one re-entry per depth unit it is charged, rounded up -/
def perUnit (bytes : Kind → Nat) (k : Kind) : Nat := (bytes k + cost k - 1) / cost k

def maxOver (f : Kind → Nat) : List Kind → Nat
  | [] => 0
  | k :: ks => max (f k) (maxOver f ks)

/-- the largest bytes-per-depth-unit among the kinds `P` -/
def rho (bytes : Kind → Nat) (P : Kind → Bool) : Nat :=
  maxOver (perUnit bytes) (allKinds.filter P)

/-- a re-entry together with the `H` callback frames that can sit below it -/
def withHops (hopBytes H : Nat) (bytes : Kind → Nat) (k : Kind) : Nat := bytes k + hopBytes * H

/-- what the budget theorem projects for the default limit: entry overhead, the callback frames of
    the innermost activation, and `ρ` bytes for each of the `MAX_RECURSION` depth units, where `ρ`
    is the largest bytes-per-depth-unit of a re-entry *with* `H` callback frames of `hopBytes` -/
def projected (root hopBytes H : Nat) (bytes : Kind → Nat) (P : Kind → Bool) : Nat :=
  root + hopBytes * H + rho (withHops hopBytes H bytes) P * maxRecursionEnv

/-- limit × max bytes/cost (+ entry overhead and callback frames) is strictly below the stack -/
def budgetOK (stack root hopBytes H : Nat) (bytes : Kind → Nat) (P : Kind → Bool) : Bool :=
  decide (projected root hopBytes H bytes P < stack)

/-- the fixed-size arrays of `eval_impl` (regenerated lengths) are part of every re-entry's frame -/
def frameLowerOK (bytes : Kind → Nat) : Bool :=
  allKinds.all (fun k => decide (evalImplArrayBytes ≤ bytes k))

/-! ## prediction for the mixed family of the harness (`X:` shapes) -/

structure MarksH where
  m : Marks
  hopsHW : Nat
  deriving Repr, DecidableEq

def MarksH.note (mh : MarksH) (s : StH) : MarksH :=
  ⟨mh.m.note s.st, max mh.hopsHW (totalHops s)⟩

inductive PredH where
  | ok (m : MarksH)
  | recursion (m : MarksH)
  | other (what : String)
  deriving Repr

def runMarksH (s : StH) (mh : MarksH) : List EvH → Except PredH (StH × MarksH)
  | [] => .ok (s, mh)
  | e :: es =>
    match stepH s e with
    | .ok s' => runMarksH s' (mh.note s') es
    | .recursionError =>
      match e with
      | .ev e' => .error (.recursion ⟨mh.m.noteFailed s.st e', mh.hopsHW⟩)
      | _ => .error (.recursion mh)
    | .panic => .error (.other "panic")
    | .stuck => .error (.other "stuck")

/-- one step of a mixed cycle: how node `i` reaches node `i+1`.  Lower-case kinds end in a block
    call, upper-case kinds in a macro call; the hops are the Rust callbacks in between. -/
def edgeEventsX : Char → Option (List EvH)
  -- `{{ self.xb() }}`
  | 'b' => some [.ev (.enter .blockCall)]
  -- a Rust function calling `State::render_block`
  | 'r' => some [.hop, .ev (.enter .blockCall)]
  -- a Rust function calling `State::render_block_to_write`
  | 'w' => some [.hop, .ev (.enter .blockCall)]
  -- a Rust filter / test calling `State::render_block`
  | 'f' => some [.hop, .ev (.enter .blockCall)]
  | 't' => some [.hop, .ev (.enter .blockCall)]
  -- a Rust function calling `State::apply_filter` / `perform_test` with such a filter / test
  | 'g' => some [.hop, .hop, .ev (.enter .blockCall)]
  | 'u' => some [.hop, .hop, .ev (.enter .blockCall)]
  -- the builtin `map` / `select` filters applying such a filter / test (the builtin's own frame
  -- is an engine frame like any other; only callbacks of the embedder are counted)
  | 'p' => some [.hop, .ev (.enter .blockCall)]
  | 's' => some [.hop, .ev (.enter .blockCall)]
  -- a custom object whose `call` / `call_method` renders the block
  | 'o' => some [.hop, .ev (.enter .blockCall)]
  | 'h' => some [.hop, .ev (.enter .blockCall)]
  -- `{{ xm() }}`
  | 'M' => some [.ev (.enter .macroCall)]
  -- a Rust function calling `State::call_macro` / `Value::call` on the macro
  | 'Q' => some [.hop, .ev (.enter .macroCall)]
  | 'O' => some [.hop, .ev (.enter .macroCall)]
  -- a Rust filter / test calling `State::call_macro`
  | 'F' => some [.hop, .ev (.enter .macroCall)]
  | 'T' => some [.hop, .ev (.enter .macroCall)]
  -- through `State::apply_filter` / the builtin `map`
  | 'G' => some [.hop, .hop, .ev (.enter .macroCall)]
  | 'P' => some [.hop, .ev (.enter .macroCall)]
  -- a call block whose body goes on: `{% call cw() %}…{% endcall %}`
  | 'C' => some [.ev (.enter .macroCall), .ev (.enter .callerCall), .ev (.enter .macroCall)]
  | _ => none

/-- the noise statements that go through a Rust callback of the harness (`rb`, `cmf`, `tryb`):
    one callback frame while the statement runs -/
def noiseHops : Char → Nat
  | '9' | 'a' | 'b' | 'c' | 'g' | 'h' => 1
  | _ => 0

/-- the mixed cycle, unrolled like `cycle`: work frames of the node, the noise statement, then the edge -/
def cycleX (edges : Array Edge) (budget : Option Nat) :
    Nat → Nat → StH → MarksH → PredH × Nat
  | 0, t, _, _ => (.other "fuel", t)
  | fuel + 1, t, s, mh =>
    match edges[t % edges.size]? with
    | none => (.other "empty", t)
    | some e =>
      match runMarksH s mh (List.replicate (e.w + e.f) (.ev .push)) with
      | .error p => (p, t)
      | .ok (s1, m0) =>
        let hw := max m0.hopsHW (totalHops s1 + noiseHops e.noise)
        match (noiseOf e.noise).map (runNoise s1.st m0.m) with
        | none => (.other "bad-noise", t)
        | some (.error (.recursion m')) => (.recursion ⟨m', hw⟩, t)
        | some (.error (.ok m')) => (.ok ⟨m', hw⟩, t)
        | some (.error (.other w)) => (.other w, t)
        | some (.ok (_, m')) =>
          let m1 : MarksH := ⟨m', hw⟩
          if budget.any (t ≥ ·) then (.ok m1, t)
          else
            match edgeEventsX e.kind with
            | none => (.other "bad-edge", t)
            | some evs =>
              match runMarksH s1 m1 evs with
              | .error p => (p, t)
              | .ok (s2, m2) => cycleX edges budget fuel (t + 1) s2 m2

/-- the render enters node 0 as a block (`{{ self.xb0() }}` at top level) -/
def predictX (edges : Array Edge) (limit : Nat) (budget : Option Nat) : PredH × Nat :=
  let s0 := initH limit
  let m0 : MarksH := ⟨⟨s0.st.cur.depth, nativeDepth s0.st⟩, 0⟩
  match runMarksH s0 m0 [.ev (.enter .blockCall)] with
  | .error p => (p, 0)
  | .ok (s1, m1) => cycleX edges budget (min (limit + (budget.getD 0) + 3) 5000) 0 s1 m1

end MJ.Depth
