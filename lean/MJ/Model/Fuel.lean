import MJ.Gen.Tables
import MJ.Model.Chk
/-!
# Fuel tracker (`minijinja/src/vm/fuel.rs`) and fuel-limited runs

* `costOf` = `fuel_for_instruction`: the explicit arms are regenerated from the source into
  `MJ.Gen.fuelCosts` / `MJ.Gen.fuelCostDefault` (lib/tables/c13.py) on every run.
* `Tracker.{new,track,remainingFuel,consumed}` = `FuelTracker::{new,track,remaining,consumed}`
  (after the repair: `remaining : u64`, `saturating_sub`, out of fuel when nothing is left).
* A *run* is the list of instruction names that the VM dispatches (`eval_impl`, in execution order,
  through every nested `eval_impl` of macros, includes, blocks and `super()` — they all receive the
  same `&mut State`, and the tracker lives in the `State`).  Fuel is charged per instruction
  **before** it is dispatched and nothing in the VM reads the tracker, so a limited run dispatches
  a prefix of the instructions of the unlimited run (validated by the harness on real traces).
* `Legacy` = the tracker as it was before the repair (`remaining : isize`, `fuel as isize`,
  checked subtraction), kept to state what was wrong.
-/
namespace MJ.Fuel

/-- 2^64 -/
def u64Bound : Nat := 18446744073709551616

/-- `fuel_for_instruction` by instruction kind -/
def costOf (name : String) : Nat :=
  match MJ.Gen.fuelCosts.lookup name with
  | some c => c
  | none => MJ.Gen.fuelCostDefault

/-- `FuelTracker { initial: u64, remaining: u64 }` -/
structure Tracker where
  initial : Nat
  remaining : Nat
  deriving Repr, DecidableEq

/-- `u64::saturating_sub` -/
def satSub (a b : Nat) : Nat := a - b

namespace Tracker

/-- `FuelTracker::new(fuel)` -/
def new (fuel : Nat) : Tracker := { initial := fuel, remaining := fuel }

/-- result of `FuelTracker::track` (`&mut self` is updated in both cases) -/
inductive Step where
  | ok (t : Tracker)
  | outOfFuel (t : Tracker)
  deriving Repr, DecidableEq

/-- `FuelTracker::track` for an instruction whose cost is `c` -/
def track (t : Tracker) (c : Nat) : Step :=
  if c ≠ 0 then
    let r := satSub t.remaining c
    if r = 0 then .outOfFuel { t with remaining := r } else .ok { t with remaining := r }
  else .ok t

/-- `FuelTracker::remaining` -/
def remainingFuel (t : Tracker) : Nat := t.remaining

/-- `FuelTracker::consumed` -/
def consumed (t : Tracker) : Nat := satSub t.initial t.remainingFuel

end Tracker

inductive Status where
  | done
  | outOfFuel
  deriving Repr, DecidableEq

/-- outcome of a run: the instructions that were dispatched, how it ended, the tracker left in the
    state (what `State::fuel_levels` reads) -/
structure Result where
  executed : List String
  status : Status
  tracker : Tracker
  deriving Repr, DecidableEq

/-- the VM loop as far as fuel is concerned: charge, then dispatch, then go on -/
def runFrom (t : Tracker) : List String → Result
  | [] => { executed := [], status := .done, tracker := t }
  | i :: rest =>
    match t.track (costOf i) with
    | .outOfFuel t' => { executed := [], status := .outOfFuel, tracker := t' }
    | .ok t' =>
      let r := runFrom t' rest
      { r with executed := i :: r.executed }

/-- render with `set_fuel(Some(B))` -/
def runFuel (B : Nat) (trace : List String) : Result := runFrom (Tracker.new B) trace

/-- render with `set_fuel(None)`: everything is dispatched -/
def runNoFuel (trace : List String) : List String := trace

/-- total cost of a run -/
def total : List String → Nat
  | [] => 0
  | i :: rest => costOf i + total rest

/-- the success threshold of a run: a function of the trace only -/
def thr (trace : List String) : Nat := if total trace = 0 then 0 else total trace + 1

/-- `fuel_levels()` as seen by code that runs after `k` instructions were charged -/
def levelsAt (B : Nat) (trace : List String) (k : Nat) : Nat × Nat :=
  let t := (runFuel B (trace.take k)).tracker
  (t.consumed, t.remainingFuel)

/-! ## the tracker before the repair -/
namespace Legacy

/-- `FuelTracker { initial: u64, remaining: isize }` -/
structure Tracker where
  initial : Nat
  remaining : Int
  deriving Repr, DecidableEq

/-- `remaining: fuel as isize` -/
def new (fuel : Nat) : Tracker := { initial := fuel, remaining := Chk.asI64 fuel }

inductive Step where
  | ok (t : Tracker)
  | outOfFuel
  deriving Repr, DecidableEq

/-- `self.remaining -= cost` (checked in debug builds); `if self.remaining <= 0 { Err }` -/
def track (t : Tracker) (c : Nat) : Chk Step :=
  if c ≠ 0 then
    match Chk.isize (t.remaining - (c : Int)) with
    | .panic => .panic
    | .ok r => if r ≤ 0 then .ok .outOfFuel else .ok (.ok { t with remaining := r })
  else .ok (.ok t)

/-- `true` = all instructions ran -/
def runFrom (t : Tracker) : List String → Chk Bool
  | [] => .ok true
  | i :: rest =>
    match track t (costOf i) with
    | .panic => .panic
    | .ok .outOfFuel => .ok false
    | .ok (.ok t') => runFrom t' rest

def runFuel (B : Nat) (trace : List String) : Chk Bool := runFrom (new B) trace

end Legacy

end MJ.Fuel
