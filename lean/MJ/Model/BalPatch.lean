import MJ.Model.BalGen
/-!
# The code generator with `pending_block` back-patching (C05)

`minijinja/src/compiler/codegen.rs` as it is written: instructions are appended one at a time,
jumps are emitted with a placeholder target and remembered on the `pending_block` stack
(`PendingBlock::Branch { jump_instr }`, `PendingBlock::Loop { iter_instr, jump_instrs }`,
`PendingBlock::Scope(..)`); `end_condition` / `end_for_loop` / `compile_macro_expression` write the
real target into the remembered instructions once the end of the block is known; `break` pushes its
jump onto the `jump_instrs` of the innermost pending loop, `continue` reads that loop's `iter_instr`,
`leave_scopes_of_innermost_loop` walks the stack down to that loop.

`gen` is this generator on the statement AST of `MJ/Model/BalGen.lean`; `MJ/Proofs/BalPatch.lean`
proves that it produces exactly the instructions of `BalGen.comp`, the generator that computes jump
targets from block sizes.
-/
namespace MJ.BalPatch
open MJ.Bal MJ.BalGen

/-- `PendingBlock` (without `ScBool`: the jumps inside expressions are `flat` here) -/
inductive Pending where
  | branch (jumpInstr : Nat)
  | loop (iterInstr : Nat) (jumpInstrs : List Nat)
  | scope (s : Scope)
  deriving DecidableEq, Repr

/-- the part of `CodeGenerator` that matters: `instructions` and `pending_block` (top first) -/
structure Gen where
  instrs : List Instr
  pending : List Pending
  deriving DecidableEq, Repr

/-- `next_instruction()` -/
def Gen.next (g : Gen) : Nat := g.instrs.length

/-- `add(instr)` -/
def Gen.add (g : Gen) (i : Instr) : Gen := { g with instrs := g.instrs ++ [i] }

/-- a run of `add`s -/
def Gen.addAll (g : Gen) (is : List Instr) : Gen := { g with instrs := g.instrs ++ is }

/-- `*target = t` in `end_condition`: only `JumpIfFalse` and `Jump` are written -/
def setCond (t : Nat) : Instr → Instr
  | .jump _ => .jump t
  | .jumpIfFalse _ => .jumpIfFalse t
  | i => i

/-- `*target = macro_instr` in `compile_macro_expression`: a `Jump` -/
def setJump (t : Nat) : Instr → Instr
  | .jump _ => .jump t
  | i => i

/-- `*jump_target = loop_end` in `end_for_loop`: `Iterate` and `Jump` -/
def setLoop (t : Nat) : Instr → Instr
  | .jump _ => .jump t
  | .iterate _ => .iterate t
  | i => i

/-- `*self.instructions.get_mut(idx) = f(..)` -/
def modAt (f : Instr → Instr) : List Instr → Nat → List Instr
  | [], _ => []
  | x :: xs, 0 => f x :: xs
  | x :: xs, n + 1 => x :: modAt f xs n

def Gen.modify (g : Gen) (idx : Nat) (f : Instr → Instr) : Gen :=
  { g with instrs := modAt f g.instrs idx }

def Gen.push (g : Gen) (p : Pending) : Gen := { g with pending := p :: g.pending }

/-- `start_if` -/
def startIf (g : Gen) : Gen := (g.add (.jumpIfFalse 0)).push (.branch g.next)

/-- `end_condition(new_jump_instr)` -/
def endCondition (g : Gen) (t : Nat) : Gen :=
  match g.pending with
  | .branch j :: rest => { instrs := modAt (setCond t) g.instrs j, pending := rest }
  | _ => g  -- unreachable!()

/-- `start_else` -/
def startElse (g : Gen) : Gen :=
  let j := g.next
  (endCondition (g.add (.jump 0)) (j + 1)).push (.branch j)

/-- `end_if` -/
def endIf (g : Gen) : Gen := endCondition g g.next

/-- `start_for_loop` -/
def startForLoop (g : Gen) (v r : Bool) : Gen :=
  let g1 := g.add (.pushLoop v r)
  (g1.add (.iterate 0)).push (.loop g1.next [])

/-- `end_for_loop(push_did_not_iterate)` -/
def endForLoop (g : Gen) (pdni : Bool) : Gen :=
  match g.pending with
  | .loop it js :: rest =>
    let g1 : Gen := { instrs := g.instrs ++ [.jump it], pending := rest }
    let loopEnd := g1.next
    let g2 := if pdni then g1.add .pushDidNotIterate else g1
    let g3 := g2.add .popLoopFrame
    (js ++ [it]).foldl (fun g idx => g.modify idx (setLoop loopEnd)) g3
  | _ => g  -- unreachable!()

/-- `start_scope` / `end_scope` -/
def startScope (g : Gen) (s : Scope) : Gen := g.push (.scope s)

def endScope (g : Gen) : Gen :=
  match g.pending with
  | .scope _ :: rest => { g with pending := rest }
  | _ => g  -- unreachable!()

/-- the scopes above the innermost pending loop, innermost first
(`iter().rev().take_while(!Loop).filter_map(Scope)`) -/
def scopesOf : List Pending → List Scope
  | [] => []
  | .loop _ _ :: _ => []
  | .scope s :: r => s :: scopesOf r
  | .branch _ :: r => scopesOf r

/-- `iter_instr` of the innermost pending loop -/
def loopOf : List Pending → Option Nat
  | [] => none
  | .loop it _ :: _ => some it
  | _ :: r => loopOf r

/-- `jump_instrs.push(instr)` on the innermost pending loop -/
def addBreaks : List Pending → List Nat → List Pending
  | [], _ => []
  | .loop it js :: r, bs => .loop it (js ++ bs) :: r
  | p :: r, bs => p :: addBreaks r bs

def leaveCode : List Scope → List Instr
  | [] => []
  | .withS :: r => .popFrame :: leaveCode r
  | .capture :: r => .endCapture :: .other :: leaveCode r
  | .autoEscape :: r => .popAutoEscape :: leaveCode r

/-- `leave_scopes_of_innermost_loop` -/
def leaveScopes (g : Gen) : Gen := g.addAll (leaveCode (scopesOf g.pending))

def others (n : Nat) : List Instr := List.replicate n .other

/-- `compile_stmt` -/
def gen : Stmt → Gen → Gen
  | .skip, g => g
  | .seq a b, g => gen b (gen a g)
  | .simple is, g => g.addAll is
  | .flat is, g => g.addAll (is.map (shift g.next))
  | .ifS n t, g => endIf (gen t (startIf (g.addAll (others n))))
  | .ifElse n t e, g => endIf (gen e (startElse (gen t (startIf (g.addAll (others n))))))
  | .forS v r npre nt body, g =>
    endForLoop (gen body ((startForLoop (g.addAll (others npre)) v r).addAll (others nt))) false
  | .forElse v r npre nt body e, g =>
    let g1 := endForLoop (gen body ((startForLoop (g.addAll (others npre)) v r).addAll (others nt))) true
    endIf (gen e (startIf g1))
  | .withS n body, g =>
    (endScope (gen body ((startScope (g.add .pushWith) .withS).addAll (others n)))).add .popFrame
  | .capture body npost, g =>
    ((endScope (gen body (startScope (g.add .beginCapture) .capture))).add .endCapture).addAll (others npost)
  | .autoEscape npre body, g =>
    (endScope (gen body (startScope ((g.addAll (others npre)).add .pushAutoEscape) .autoEscape))).add .popAutoEscape
  | .macroS nargs body nenc nafter, g =>
    -- `compile_macro_expression`: `Jump(!0)`, arguments, body, `Return`, `Enclose…`, `BuildMacro(instr + 1)`,
    -- then the jump is pointed at the `Enclose…`
    let instr := g.next
    let g1 := gen body ((g.add (.jump 0)).addAll (others nargs))
    let g2 := g1.add .ret
    let macroInstr := g2.next
    let g3 := (g2.addAll (others nenc)).add (.buildMacro (instr + 1))
    (g3.modify instr (setJump macroInstr)).addAll (others nafter)
  | .importS n m, g =>
    g.addAll ([.beginCapture, .pushWith] ++ others n ++ [.other, .endCapture, .other, .popFrame] ++ others m)
  | .breakS, g =>
    let g1 := leaveScopes g
    { instrs := g1.instrs ++ [.jump 0], pending := addBreaks g1.pending [g1.next] }
  | .continueS, g =>
    let g1 := leaveScopes g
    match loopOf g1.pending with
    | some it => g1.add (.jump it)
    | none => g1

/-- a template, or a block body (compiled by a sub-generator) -/
def genTemplate (s : Stmt) : List Instr := (gen s ⟨[], []⟩).instrs

end MJ.BalPatch
