import MJ.Model.Meta
/-!
# C18 — the arms of `track_walk`, `tracker_visit_expr`, `track_assign` as a table

`lib/tables/c18.py` regenerates from `minijinja/src/compiler/meta.rs`, for every arm of the three
`match`es, the list of operations the arm performs, in source order:

* `push` / `pop`                 — `state.push()` / `state.pop()`
* `isolate_begin` / `isolate_end` — `mem::replace(&mut state.assigned, vec![{}])` … `state.assigned = outer`
* `visit R` / `visit_opt R`      — `tracker_visit_expr(R)` / `tracker_visit_expr_opt(R)`
* `assign_target R`              — `track_assign(R)`
* `assign_lit s` / `assign_name R` — `state.assign("s")` / `state.assign(R)`
* `walk R`                       — `track_walk(R)`
* `visit_call R` / `visit_callarg R` / `visit_macro R flag`
* `each SRC PAT [` … `]`         — `SRC.iter().for_each(|PAT| …)` or `for PAT in &SRC { … }`
* `each_zip A B PAT [` … `]`     — `A.iter().zip(B.iter()).for_each(|PAT| …)`

with `@` = the node the arm matched, `@.f` = one of its fields, `$k` = the k-th local binder in
scope (closure parameters and loop patterns are local to their closure / loop, so the numbering
does not depend on how the locals are called or whether a `for` or a `for_each` is used),
`$a?$b` = `$a.as_ref().unwrap_or($b)`.  An arm with real logic (`Expr::Var`,
`Expr::GetAttr`) and the helper functions are tabled as their control skeleton (first entry `~`).

This file holds the same table as *typed* operations, an interpreter for them, and the three
walkers of `MJ/Model/Meta.lean` are proved to BE the interpretation of their arm
(`MJ/Proofs/MetaArms.lean`); `MJ.C18.analysis_arms_as_modelled` states that the rendered typed
table equals the regenerated one.  So an edit of an arm of `meta.rs` — a scope pushed later, a
child no longer visited, a name assigned before instead of after — breaks that theorem.
-/
namespace MJ.Meta

/-! ## typed operations -/

inductive Ref where
  /-- `@` -/
  | self
  /-- `@.f` -/
  | field (f : String)
  /-- `$k` -/
  | var (k : Nat)
  /-- `$k.f` -/
  | varField (k : Nat) (f : String)
  /-- `$a?$b` = `$a.as_ref().unwrap_or($b)` -/
  | alt (a b : Nat)
  deriving DecidableEq, Repr

inductive Pat where
  /-- `$k` -/
  | one (k : Nat)
  /-- `($a,$b)` -/
  | two (a b : Nat)
  deriving DecidableEq, Repr

/-- operations without a body -/
inductive Act where
  | push | pop | isolateBegin | isolateEnd
  | visit (r : Ref) | visitOpt (r : Ref) | assignTarget (r : Ref)
  | assignLit (s : String) | assignName (r : Ref)
  | walk (r : Ref) | visitCall (r : Ref) | visitCallarg (r : Ref)
  | visitMacro (r : Ref) (declareCaller : Bool)
  deriving DecidableEq, Repr

inductive Op where
  | act (a : Act)
  | each (src : Ref) (pat : Pat) (body : List Act)
  | eachZip (a b : Ref) (pat : Pat) (body : List Act)
  deriving DecidableEq, Repr

/-- an arm: its operations, or (arms with real logic, helpers) its control skeleton -/
inductive Arm where
  | ops (os : List Op)
  | logic (skeleton : List String)
  deriving DecidableEq, Repr

/-! ## rendering (the format of `lib/tables/c18.py`) -/

def Ref.render : Ref → String
  | .self => "@"
  | .field f => "@." ++ f
  | .var k => "$" ++ toString k
  | .varField k f => "$" ++ toString k ++ "." ++ f
  | .alt a b => "$" ++ toString a ++ "?$" ++ toString b

def Pat.render : Pat → String
  | .one k => "$" ++ toString k
  | .two a b => "($" ++ toString a ++ ",$" ++ toString b ++ ")"

def Act.render : Act → String
  | .push => "push"
  | .pop => "pop"
  | .isolateBegin => "isolate_begin"
  | .isolateEnd => "isolate_end"
  | .visit r => "visit " ++ r.render
  | .visitOpt r => "visit_opt " ++ r.render
  | .assignTarget r => "assign_target " ++ r.render
  | .assignLit s => "assign_lit " ++ s
  | .assignName r => "assign_name " ++ r.render
  | .walk r => "walk " ++ r.render
  | .visitCall r => "visit_call " ++ r.render
  | .visitCallarg r => "visit_callarg " ++ r.render
  | .visitMacro r f => "visit_macro " ++ r.render ++ (if f then " true" else " false")

def Op.render : Op → List String
  | .act a => [a.render]
  | .each src pat body =>
      ("each " ++ src.render ++ " " ++ pat.render ++ " [") :: (body.map Act.render ++ ["]"])
  | .eachZip a b pat body =>
      ("each_zip " ++ a.render ++ " " ++ b.render ++ " " ++ pat.render ++ " [")
        :: (body.map Act.render ++ ["]"])

def Arm.render : Arm → List String
  | .ops os => os.flatMap Op.render
  | .logic sk => "~" :: sk

/-- a table row: variant name(s), `cfg` attribute, arm -/
abbrev Row := String × String × Arm

def renderRows (rows : List Row) : List (String × String × List String) :=
  rows.map (fun r => (r.1, r.2.1, r.2.2.render))

/-! ## values and views: what `@.f` and `$k` denote in the model's AST -/

inductive Val where
  | unit
  | expr (e : Expr)
  | optExpr (o : Option Expr)
  | stmt (s : Stmt)
  | stmts (ss : List Stmt)
  | exprs (es : List Expr)
  /-- `Vec<(Expr, Expr)>` (with-block assignments) -/
  | pairs (ps : List (Expr × Expr))
  /-- the `(name, alias)` pairs of a from-import; the model's AST keeps the resolved target
  (`alias.unwrap_or(name)`) only, which is `(target, None)` -/
  | aliasPairs (ts : List Expr)
  | name (s : String)
  | call (callee : Expr) (args : List CallArg)
  | args (as : List CallArg)
  | arg (a : CallArg)
  | macroDecl (args : List String) (defaults : List Expr) (body : List Stmt)
  | pair (a b : Val)

/-- a node as the arms see it: its fields by name -/
abbrev View := String → Val

def Val.elems : Val → List Val
  | .stmts ss => ss.map .stmt
  | .exprs es => es.map .expr
  | .pairs ps => ps.map (fun p => .pair (.expr p.1) (.expr p.2))
  | .aliasPairs ts => ts.map (fun t => .pair (.expr t) (.optExpr none))
  | .args as => as.map .arg
  | _ => []

def evens : List Expr → List Expr
  | [] => []
  | [k] => [k]
  | k :: _ :: rest => k :: evens rest

/-- the values of a map literal; a model list of odd length (the real parser never produces
one) is padded with a constant so that no key is dropped by the `zip` -/
def odds : List Expr → List Expr
  | [] => []
  | [_] => [.const]
  | _ :: v :: rest => v :: odds rest

def Stmt.variant : Stmt → String
  | .emit _ => "EmitExpr"
  | .raw => "EmitRaw"
  | .forLoop .. => "ForLoop"
  | .ifCond .. => "IfCond"
  | .withBlock .. => "WithBlock"
  | .set .. => "Set"
  | .setBlock .. => "SetBlock"
  | .autoEscape .. => "AutoEscape"
  | .filterBlock .. => "FilterBlock"
  | .macro .. => "Macro"
  | .callBlock .. => "CallBlock"
  | .doStmt .. => "Do"
  | .brk => "Continue|Break"
  | .cont => "Continue|Break"
  | .block .. => "Block"
  | .include _ => "Include"
  | .extends _ => "Extends"
  | .importAs .. => "Import"
  | .fromImport .. => "FromImport"

/-- field names as in `compiler/ast.rs` -/
def Stmt.view : Stmt → View
  | .emit e => fun f => if f = "expr" then .expr e else .unit
  | .raw => fun _ => .unit
  | .forLoop target iter filter _ body els => fun f =>
      if f = "target" then .expr target else if f = "iter" then .expr iter
      else if f = "filter_expr" then .optExpr filter else if f = "body" then .stmts body
      else if f = "else_body" then .stmts els else .unit
  | .ifCond c t e => fun f =>
      if f = "expr" then .expr c else if f = "true_body" then .stmts t
      else if f = "false_body" then .stmts e else .unit
  | .withBlock assigns body => fun f =>
      if f = "assignments" then .pairs assigns else if f = "body" then .stmts body else .unit
  | .set target e => fun f =>
      if f = "target" then .expr target else if f = "expr" then .expr e else .unit
  | .setBlock target filter body => fun f =>
      if f = "target" then .expr target else if f = "filter" then .optExpr filter
      else if f = "body" then .stmts body else .unit
  | .autoEscape e body => fun f =>
      if f = "enabled" then .expr e else if f = "body" then .stmts body else .unit
  | .filterBlock filter body => fun f =>
      if f = "filter" then .expr filter else if f = "body" then .stmts body else .unit
  | .macro name args defaults body => fun f =>
      if f = "" then .macroDecl args defaults body else if f = "name" then .name name else .unit
  | .callBlock callee cargs args defaults body => fun f =>
      if f = "call" then .call callee cargs
      else if f = "macro_decl" then .macroDecl args defaults body else .unit
  | .doStmt callee cargs => fun f => if f = "call" then .call callee cargs else .unit
  | .brk => fun _ => .unit
  | .cont => fun _ => .unit
  | .block name body => fun f =>
      if f = "name" then .name name else if f = "body" then .stmts body else .unit
  | .include name => fun f => if f = "name" then .expr name else .unit
  | .extends name => fun f => if f = "name" then .expr name else .unit
  | .importAs e target => fun f =>
      if f = "expr" then .expr e else if f = "name" then .expr target else .unit
  | .fromImport e targets => fun f =>
      if f = "expr" then .expr e else if f = "names" then .aliasPairs targets else .unit

def Expr.variant : Expr → String
  | .var _ => "Var"
  | .const => "Const"
  | .slice .. => "Slice"
  | .unary _ => "UnaryOp"
  | .binop .. => "BinOp"
  | .compare .. => "Compare"
  | .ifExpr .. => "IfExpr"
  | .filter .. => "Filter"
  | .test .. => "Test"
  | .getattr .. => "GetAttr"
  | .getitem .. => "GetItem"
  | .call .. => "Call"
  | .list _ => "List"
  | .tuple _ => "Tuple"
  | .map _ => "Map"

/-- field names as in `compiler/ast.rs`; `""` is the node itself where an arm hands it on
(`Expr::Call` → `tracker_visit_call`); the operands of a comparison are the `expr` fields of
its `CompareOp`s -/
def Expr.view : Expr → View
  | .var id => fun f => if f = "id" then .name id else .unit
  | .const => fun _ => .unit
  | .slice e a b c => fun f =>
      if f = "expr" then .expr e else if f = "start" then .optExpr a
      else if f = "stop" then .optExpr b else if f = "step" then .optExpr c else .unit
  | .unary e => fun f => if f = "expr" then .expr e else .unit
  | .binop l r => fun f => if f = "left" then .expr l else if f = "right" then .expr r else .unit
  | .compare e ops => fun f => if f = "expr" then .expr e else if f = "ops" then .exprs ops else .unit
  | .ifExpr c t e => fun f =>
      if f = "test_expr" then .expr c else if f = "true_expr" then .expr t
      else if f = "false_expr" then .optExpr e else .unit
  | .filter _ e args => fun f => if f = "expr" then .optExpr e else if f = "args" then .args args else .unit
  | .test _ e args => fun f => if f = "expr" then .expr e else if f = "args" then .args args else .unit
  | .getattr e name => fun f => if f = "expr" then .expr e else if f = "name" then .name name else .unit
  | .getitem e s => fun f =>
      if f = "expr" then .expr e else if f = "subscript_expr" then .expr s else .unit
  | .call e args => fun f => if f = "" then .call e args else .unit
  | .list items => fun f => if f = "items" then .exprs items else .unit
  | .tuple items => fun f => if f = "items" then .exprs items else .unit
  | .map kvs => fun f =>
      if f = "keys" then .exprs (evens kvs) else if f = "values" then .exprs (odds kvs) else .unit

/-- local binders of an arm -/
abbrev Binds := Nat → Val

def Binds.empty : Binds := fun _ => .unit

def Binds.set (ρ : Binds) (k : Nat) (v : Val) : Binds := fun j => if j = k then v else ρ j

def Binds.bind (ρ : Binds) : Pat → Val → Binds
  | .one k, v => ρ.set k v
  | .two a b, .pair x y => (ρ.set a x).set b y
  | .two _ _, _ => ρ

/-- `CompareOp.expr` is the operand itself in the model's AST -/
def Val.getField (v : Val) (f : String) : Val :=
  match v with
  | .expr e => if f = "expr" then .expr e else .unit
  | _ => .unit

def Ref.eval (view : View) (ρ : Binds) : Ref → Val
  | .self => view ""
  | .field f => view f
  | .var k => ρ k
  | .varField k f => (ρ k).getField f
  | .alt a b =>
      match ρ a with
      | .optExpr (some e) => .expr e
      | _ => ρ b

/-! ## interpreter 1: `track_walk` arms transform the tracker -/

/-- the tracker plus the `outer` local of the `Block` arm -/
structure IState where
  st : St
  saved : List (List String) := []

/-- `tracker_visit_macro(m, state, declare_caller)` (helper, tabled as a skeleton) -/
def visitMacro (st : St) (declareCaller : Bool) (args : List String) (defaults : List Expr)
    (body : List Stmt) (W : St → List Stmt → St) : St :=
  let st := if declareCaller then st.assign "caller" else st
  W (macroArgs st args.reverse defaults.reverse) body

def Act.run (W : St → List Stmt → St) (view : View) (ρ : Binds) (s : IState) : Act → IState
  | .push => { s with st := s.st.push }
  | .pop => { s with st := s.st.pop }
  | .isolateBegin => { st := { s.st with assigned := [[]] }, saved := s.st.assigned }
  | .isolateEnd => { s with st := { s.st with assigned := s.saved } }
  | .visit r =>
      match r.eval view ρ with
      | .expr e => { s with st := visitExpr s.st e }
      | _ => s
  | .visitOpt r =>
      match r.eval view ρ with
      | .optExpr o => { s with st := MJ.Meta.visitOpt s.st o }
      | _ => s
  | .assignTarget r =>
      match r.eval view ρ with
      | .expr e => { s with st := trackAssign s.st e }
      | _ => s
  | .assignLit x => { s with st := s.st.assign x }
  | .assignName r =>
      match r.eval view ρ with
      | .name x => { s with st := s.st.assign x }
      | _ => s
  | .walk r =>
      match r.eval view ρ with
      | .stmt x => { s with st := W s.st [x] }
      | _ => s
  | .visitCall r =>
      match r.eval view ρ with
      | .call c as => { s with st := visitLeaves s.st (nvarsCall c as) }
      | _ => s
  | .visitCallarg r =>
      match r.eval view ρ with
      | .arg a => { s with st := visitLeaves s.st (nvarsArg a) }
      | _ => s
  | .visitMacro r flag =>
      match r.eval view ρ with
      | .macroDecl args defaults body => { s with st := MJ.Meta.visitMacro s.st flag args defaults body W }
      | _ => s

def runActs (W : St → List Stmt → St) (view : View) (ρ : Binds) (s : IState) (as : List Act) :
    IState :=
  as.foldl (Act.run W view ρ) s

def zipVals : List Val → List Val → List Val
  | x :: xs, y :: ys => .pair x y :: zipVals xs ys
  | _, _ => []

def Op.run (W : St → List Stmt → St) (view : View) (s : IState) : Op → IState
  | .act a => a.run W view Binds.empty s
  | .each src pat body =>
      ((src.eval view Binds.empty).elems).foldl
        (fun s v => runActs W view (Binds.empty.bind pat v) s body) s
  | .eachZip a b pat body =>
      (zipVals (a.eval view Binds.empty).elems (b.eval view Binds.empty).elems).foldl
        (fun s v => runActs W view (Binds.empty.bind pat v) s body) s

def runOps (W : St → List Stmt → St) (view : View) (os : List Op) (st : St) : St :=
  (os.foldl (Op.run W view) { st := st }).st

/-! ## interpreter 2: `tracker_visit_expr` arms list the leaves visited, in order -/

def Act.leaves (view : View) (ρ : Binds) : Act → List Leaf
  | .visit r =>
      match r.eval view ρ with
      | .expr e => nvars e
      | _ => []
  | .visitOpt r =>
      match r.eval view ρ with
      | .optExpr o => nvarsOpt o
      | _ => []
  | .visitCall r =>
      match r.eval view ρ with
      | .call c as => nvarsCall c as
      | _ => []
  | .visitCallarg r =>
      match r.eval view ρ with
      | .arg a => nvarsArg a
      | _ => []
  | _ => []

def actsLeaves (view : View) (ρ : Binds) (as : List Act) : List Leaf :=
  as.flatMap (Act.leaves view ρ)

def Op.leaves (view : View) : Op → List Leaf
  | .act a => a.leaves view Binds.empty
  | .each src pat body =>
      ((src.eval view Binds.empty).elems).flatMap
        (fun v => actsLeaves view (Binds.empty.bind pat v) body)
  | .eachZip a b pat body =>
      (zipVals (a.eval view Binds.empty).elems (b.eval view Binds.empty).elems).flatMap
        (fun v => actsLeaves view (Binds.empty.bind pat v) body)

def opsLeaves (view : View) (os : List Op) : List Leaf := os.flatMap (Op.leaves view)

/-! ## interpreter 3: `track_assign` arms list the atoms of a target -/

def Act.atoms (view : View) (ρ : Binds) : Act → List TAtom
  | .assignName r =>
      match r.eval view ρ with
      | .name x => [.name x]
      | _ => []
  | .assignTarget r =>
      match r.eval view ρ with
      | .expr e => targetAtoms e
      | _ => []
  | .visit r =>
      match r.eval view ρ with
      | .expr e => [.look e]
      | _ => []
  | _ => []

def Op.atoms (view : View) : Op → List TAtom
  | .act a => a.atoms view Binds.empty
  | .each src pat body =>
      ((src.eval view Binds.empty).elems).flatMap
        (fun v => body.flatMap (Act.atoms view (Binds.empty.bind pat v)))
  | .eachZip .. => []

def opsAtoms (view : View) (os : List Op) : List TAtom := os.flatMap (Op.atoms view)

/-! ## the arms as modelled -/

def walkBody (f : String) : Op := .each (.field f) (.one 1) [.walk (.var 1)]

def armTemplate : List Op := [walkBody "children"]
def armEmitExpr : List Op := [.act (.visit (.field "expr"))]
def armForLoop : List Op :=
  [.act .push, .act (.visit (.field "iter")), .act (.assignTarget (.field "target")),
   .act (.visitOpt (.field "filter_expr")), .act (.assignLit "loop"), walkBody "body", .act .pop,
   .act .push, walkBody "else_body", .act .pop]
def armIfCond : List Op :=
  [.act (.visit (.field "expr")), .act .push, walkBody "true_body", .act .pop,
   .act .push, walkBody "false_body", .act .pop]
def armWithBlock : List Op :=
  [.act .push, .each (.field "assignments") (.two 1 2) [.visit (.var 2), .assignTarget (.var 1)],
   walkBody "body", .act .pop]
def armSet : List Op := [.act (.visit (.field "expr")), .act (.assignTarget (.field "target"))]
def armAutoEscape : List Op :=
  [.act (.visit (.field "enabled")), .act .push, walkBody "body", .act .pop]
def armFilterBlock : List Op :=
  [.act .push, walkBody "body", .act .pop, .act (.visit (.field "filter"))]
def armSetBlock : List Op :=
  [.act .push, walkBody "body", .act .pop, .act (.visitOpt (.field "filter")),
   .act (.assignTarget (.field "target"))]
def armBlock : List Op :=
  [.act .isolateBegin, .each (.field "body") (.one 2) [.walk (.var 2)], .act .isolateEnd]
def armName : List Op := [.act (.visit (.field "name"))]
def armImport : List Op := [.act (.visit (.field "expr")), .act (.assignTarget (.field "name"))]
def armFromImport : List Op :=
  [.act (.visit (.field "expr")), .each (.field "names") (.two 1 2) [.assignTarget (.alt 2 1)]]
def armMacro : List Op :=
  [.act .push, .act (.visitMacro .self true), .act .pop, .act (.assignName (.field "name"))]
def armCallBlock : List Op :=
  [.act (.visitCall (.field "call")), .act .push, .act (.visitMacro (.field "macro_decl") true),
   .act .pop]
def armDo : List Op := [.act (.visitCall (.field "call"))]

/-- `track_walk`: variant(s), cfg, operations — in the order of the source -/
def modelWalkArms : List Row := [
  ("Template", "", .ops armTemplate),
  ("EmitExpr", "", .ops armEmitExpr),
  ("EmitRaw", "", .ops []),
  ("ForLoop", "", .ops armForLoop),
  ("IfCond", "", .ops armIfCond),
  ("WithBlock", "", .ops armWithBlock),
  ("Set", "", .ops armSet),
  ("AutoEscape", "", .ops armAutoEscape),
  ("FilterBlock", "", .ops armFilterBlock),
  ("SetBlock", "", .ops armSetBlock),
  ("Block", "feature=\"multi_template\"", .ops armBlock),
  ("Extends", "feature=\"multi_template\"", .ops armName),
  ("Include", "feature=\"multi_template\"", .ops armName),
  ("Import", "feature=\"multi_template\"", .ops armImport),
  ("FromImport", "feature=\"multi_template\"", .ops armFromImport),
  ("Macro", "feature=\"macros\"", .ops armMacro),
  ("CallBlock", "feature=\"macros\"", .ops armCallBlock),
  ("Continue|Break", "feature=\"loop_controls\"", .ops []),
  ("Do", "", .ops armDo)]

/-- the operations of the arm a statement is walked by -/
def stmtOps : Stmt → List Op
  | .emit _ => armEmitExpr
  | .raw => []
  | .forLoop .. => armForLoop
  | .ifCond .. => armIfCond
  | .withBlock .. => armWithBlock
  | .set .. => armSet
  | .setBlock .. => armSetBlock
  | .autoEscape .. => armAutoEscape
  | .filterBlock .. => armFilterBlock
  | .macro .. => armMacro
  | .callBlock .. => armCallBlock
  | .doStmt .. => armDo
  | .brk => []
  | .cont => []
  | .block .. => armBlock
  | .include _ => armName
  | .extends _ => armName
  | .importAs .. => armImport
  | .fromImport .. => armFromImport

def visitEach (f : String) : Op := .each (.field f) (.one 1) [.visit (.var 1)]
def visitArgs : Op := .each (.field "args") (.one 1) [.visitCallarg (.var 1)]

/-- `Expr::Var`: report and assign an unassigned variable (`visitLeaf`) -/
def skelVar : List String :=
  ["if", "!tracker.is_assigned()", "{", "tracker.out.insert()", "if", "tracker.nested_out.is_none()",
   "{", "tracker.assign()", "}", "else", "{", "tracker.assign_nested()", "}", "}"]

/-- `Expr::GetAttr`: with nested tracking follow the attribute chain down to a variable and
record the dotted name, otherwise (or when the chain does not end in an unassigned variable)
visit the inner expression (`chainOf` + `visitLeaf`) -/
def skelGetAttr : List String :=
  ["if", "tracker.nested_out.is_some()", "{", "let", "let", "loop", "{", "match", "{", "Var", "=>",
   "{", "if", "!tracker.is_assigned()", "{", "let", "for", "in", "rev", "{", "\".{attr}\"", "}",
   "tracker.assign_nested()", "return", "}", "else", "{", "break", "}", "}", "GetAttr", "=>", "{",
   "push", "continue", "}", "=>", "break", "}", "}", "}", "visit @.expr"]

def eArmUnary : List Op := [.act (.visit (.field "expr"))]
def eArmBinOp : List Op := [.act (.visit (.field "left")), .act (.visit (.field "right"))]
def eArmCompare : List Op :=
  [.act (.visit (.field "expr")), .each (.field "ops") (.one 1) [.visit (.varField 1 "expr")]]
def eArmIfExpr : List Op :=
  [.act (.visit (.field "test_expr")), .act (.visit (.field "true_expr")),
   .act (.visitOpt (.field "false_expr"))]
def eArmFilter : List Op := [.act (.visitOpt (.field "expr")), visitArgs]
def eArmTest : List Op := [.act (.visit (.field "expr")), visitArgs]
def eArmGetItem : List Op :=
  [.act (.visit (.field "expr")), .act (.visit (.field "subscript_expr"))]
def eArmSlice : List Op :=
  [.act (.visit (.field "expr")), .act (.visitOpt (.field "start")),
   .act (.visitOpt (.field "stop")), .act (.visitOpt (.field "step"))]
def eArmCall : List Op := [.act (.visitCall .self)]
def eArmItems : List Op := [visitEach "items"]
def eArmMap : List Op :=
  [.eachZip (.field "keys") (.field "values") (.two 1 2) [.visit (.var 1), .visit (.var 2)]]

/-- `tracker_visit_expr` -/
def modelExprArms : List Row := [
  ("Var", "", .logic skelVar),
  ("Const", "", .ops []),
  ("UnaryOp", "", .ops eArmUnary),
  ("BinOp", "", .ops eArmBinOp),
  ("Compare", "", .ops eArmCompare),
  ("IfExpr", "", .ops eArmIfExpr),
  ("Filter", "", .ops eArmFilter),
  ("Test", "", .ops eArmTest),
  ("GetAttr", "", .logic skelGetAttr),
  ("GetItem", "", .ops eArmGetItem),
  ("Slice", "", .ops eArmSlice),
  ("Call", "", .ops eArmCall),
  ("List", "", .ops eArmItems),
  ("Tuple", "", .ops eArmItems),
  ("Map", "", .ops eArmMap)]

/-- the operations of the arm an expression is visited by (`none`: an arm with real logic) -/
def exprOps : Expr → Option (List Op)
  | .var _ => none
  | .const => some []
  | .slice .. => some eArmSlice
  | .unary _ => some eArmUnary
  | .binop .. => some eArmBinOp
  | .compare .. => some eArmCompare
  | .ifExpr .. => some eArmIfExpr
  | .filter .. => some eArmFilter
  | .test .. => some eArmTest
  | .getattr .. => none
  | .getitem .. => some eArmGetItem
  | .call .. => some eArmCall
  | .list _ => some eArmItems
  | .tuple _ => some eArmItems
  | .map _ => some eArmMap

def tArmVar : List Op := [.act (.assignName (.field "id"))]
def tArmItems : List Op := [.each (.field "items") (.one 1) [.assignTarget (.var 1)]]
def tArmGetAttr : List Op := [.act (.visit (.field "expr"))]

/-- `track_assign` -/
def modelAssignArms : List Row := [
  ("Var", "", .ops tArmVar),
  ("List", "", .ops tArmItems),
  ("Tuple", "", .ops tArmItems),
  ("GetAttr", "", .ops tArmGetAttr),
  ("_", "", .ops [])]

def targetOps : Expr → List Op
  | .var _ => tArmVar
  | .list _ => tArmItems
  | .tuple _ => tArmItems
  | .getattr .. => tArmGetAttr
  | _ => []

/-- the helper functions of `meta.rs` as control skeletons (the model's `visitMacro` /
`macroArgs`, `nvarsCall` / `skipsCallee`, `nvarsArg`, `visitOpt`, `findMacroClosure`,
`findUndeclared(Nested)`, `St.isAssigned`, `St.assign`, the nested branch of `visitLeaf`,
`St.push`, `St.pop` are their hand transcriptions) -/
def modelHelpers : List Row := [
  ("tracker_visit_macro", "", .logic
    ["if", "{", "tracker.assign()", "\"caller\"", "}", "let", "rev", "for", "in", "rev", "{", "if",
     "let", "Some", "next", "{", "visit _", "}", "assign_target _", "}", "walk _"]),
  ("tracker_visit_call", "", .logic
    ["match", "identify_call", "{", "\"multi_template\"", "Block", "Function", "\"super\"", "=>", "{",
     "}", "=>", "visit _.expr", "}", "visit_callarg _"]),
  ("tracker_visit_callarg", "", .logic
    ["match", "{", "Pos", "Kwarg", "PosSplat", "KwargSplat", "=>", "visit _", "}"]),
  ("tracker_visit_expr_opt", "", .logic ["if", "let", "Some", "{", "visit _", "}"]),
  ("find_macro_closure", "", .logic
    ["let", "{", "None", "}", "visit_macro _ false", "tracker.out"]),
  ("find_undeclared", "", .logic
    ["let", "{", "if", "{", "Some", "}", "else", "{", "None", "}", "}", "walk _", "if", "let", "Some",
     "tracker.nested_out", "{", "}", "else", "{", "tracker.out.into_iter()", "}"]),
  ("is_assigned", "", .logic ["tracker.assigned.iter()", "any", "contains"]),
  ("assign", "", .logic ["tracker.assigned.last_mut()", "insert"]),
  ("assign_nested", "", .logic
    ["if", "let", "Some", "tracker.nested_out", "{", "if", "contains", "{", "insert", "}", "}"]),
  ("push", "", .logic ["tracker.assigned.push()"]),
  ("pop", "", .logic ["tracker.assigned.pop()"])]

end MJ.Meta
