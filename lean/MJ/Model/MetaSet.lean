import MJ.Model.Meta
/-!
# C18 — macros called anywhere, the frames of `Context::load`, file sets

Three extensions of `MJ/Model/Meta.lean`.

## 1. macro and call-block bodies run where they are *called*

`Meta.exec` accounts for the executions of a macro body at the declaration.  Here the macros
of a template are values: every `{% macro %}` and every `{% call %}` block of the template is
an entry of the *macro table* (`macroDeclsL`, nested declarations included), and a call is a
request of the choice tree like a loop re-entry or `self.block()`: it can be made while ANY
statement runs — after the names the macro mentions were rebound, from inside a loop, from a
block, from another macro's body (`caller()`), from its own body (recursion), by a template
that imported it — any number of times, nested to any depth (`reenterM`).  The table is static
(a macro can even be requested before its declaration ran), which only adds behaviours.

What a call sees (`vm/mod.rs: eval_macro`, `vm/macro_object.rs`): a fresh context of two
frames — the base frame `Frame::new(clone_base())` that carries the render context and no
locals, and on top of it the closure frame: `closure_context` = the closure object of the
frame the macro was declared in, `locals` = `caller` (iff the closure analysis saw `caller`),
then the arguments (bound back to front, a default evaluated right before its argument).  The
closure object has an entry for every name `compile_macro_expression` emitted `Enclose` for,
that is `find_macro_closure(m) \ {caller}` (`Context::enclose` pins a name even when its value
is undefined); it is shared by the macros declared in the same frame and mirrors later stores
into that frame, so at call time it has *at least* the entries `closureNames` (`macroFrame`).
Neither the frames at the call site nor the loops running there are visible.

## 2. the frames of `Context::load`

`RFrame` / `load`: a frame is `locals`, the `loop` variable of a loop frame, the closure a
macro frame reads from, and (base frames only) the render context; `load` walks the frames
top-down and asks in that order, the environment's globals come last.  `Meta.bound` is the
abstraction "some frame's locals / loop / closure has the name" (`asks_iff_unbound` in
`MJ/Proofs/MetaSet.lean`).

## 3. file sets

A template that includes / imports / extends others shares one `State` (one context stack, one
render context) with them.  The code of a file runs in *units*: its top level (rendered,
included, imported, or run as the parent of a child template), each of its block bodies
(`CallBlock` from its own code, from a parent's or child's code through the block stack,
`super()`, `State::render_block`), each of its macros (called by any file that got hold of the
value).  Seen from one file, the rest of the set (a) enters its units with frames it did not
build — arbitrary ones —, and (b) leaves names behind in its top frame when it is included
(`Ch.leak`).  An execution of a file set is therefore a sequence of *activations* (`Activation`): a
unit of a file, the frames it is entered with, the choices it takes.  `setLog` tags every
look-up with the file whose code performed it.  The theorem (`MJ.C18.multi_file_sound`) is
about every sequence of activations whatsoever, which covers every interleaving a real file
set can produce.
-/
namespace MJ.Meta

/-! ## the frames of `vm/context.rs` -/

structure RFrame where
  /-- `locals` (keys only) -/
  locals : List String := []
  /-- `current_loop` with `with_loop_var` -/
  loopVar : Bool := false
  /-- `closure_context`: the names the closure object has an entry for -/
  closure : Option (List String) := none
  /-- `ctx` is the render context (root frame, base frame of a macro call); every other frame
  has `ctx = undefined` -/
  ctx : Bool := false

/-- where `Context::load` finds a name -/
inductive Hit where
  | locals | loopVar | closure | context | globals
  deriving DecidableEq, Repr

/-- `Context::load(key)`: `(number of times the render context was asked, where the look-up
ended)`; `has` = the keys the render context object answers (data) -/
def load (has : String → Bool) : List RFrame → String → Nat × Hit
  | [], _ => (0, .globals)
  | f :: fs, x =>
      if f.locals.contains x then (0, .locals)
      else if f.loopVar && x == "loop" then (0, .loopVar)
      else if (f.closure.getD []).contains x then (0, .closure)
      else if f.ctx then
        if has x then (1, .context) else ((load has fs x).1 + 1, (load has fs x).2)
      else load has fs x

/-- the order of the checks above, in the vocabulary of `lib/tables/c18.py: C18_LOAD_ORDER` -/
def loadOrder : List String := ["frames-top-down", "locals", "loop", "closure", "context", "globals"]

/-- what a frame resolves without the context: the abstraction `Meta.Frame` -/
def RFrame.names (f : RFrame) : Frame :=
  f.locals ++ ((if f.loopVar then ["loop"] else []) ++ f.closure.getD [])

/-- the frames the engine builds -/
def RFrame.root : RFrame := { ctx := true }
def RFrame.plain (locals : List String) : RFrame := { locals := locals }
def RFrame.loop (locals : List String) : RFrame := { locals := locals, loopVar := true }
def RFrame.macroCall (locals closure : List String) : RFrame :=
  { locals := locals, closure := some closure }

/-- how `eval_macro` builds the context of a call (`C18_MACRO_CALL_FRAMES`) -/
def macroCallFrames : List String :=
  ["base=clone_base", "reset_with_frame(base)", "closure_context=closure",
   "push_frame(closure_frame)", "store(caller)", "swap-context", "do_eval"]

/-- how a macro declaration is compiled and what `Enclose` does (`C18_MACRO_CODEGEN`): the body
with its back-to-front prologue, then the closure analysis, `caller` taken out as a flag, one
`Enclose` per remaining name, `BuildMacro`, and only then `StoreLocal(name)`; `enclose` stores
the loaded value or undefined unless the closure has the key already -/
def macroCodegen : List String :=
  ["defaults-back-to-front", "args-back-to-front", "default:compile_expr", "arg:compile_assignment",
   "body:compile_stmt", "Return", "find_macro_closure", "caller=remove(caller)", "Enclose(each)",
   "GetClosure", "MACRO_CALLER-if-caller", "BuildMacro", "compile_macro:compile_macro_expression",
   "compile_macro:StoreLocal(name)", "enclose:if-missing", "enclose:load", "enclose:or-undefined",
   "enclose:insert"]

/-! ## the macro table -/

structure MacroDecl where
  args : List String
  defaults : List Expr
  body : List Stmt

mutual
/-- every macro and call-block declaration of a statement, nested ones included -/
def macroDecls : Stmt → List MacroDecl
  | .emit _ => []
  | .raw => []
  | .forLoop _ _ _ _ body els => macroDeclsL body ++ macroDeclsL els
  | .ifCond _ t f => macroDeclsL t ++ macroDeclsL f
  | .withBlock _ body => macroDeclsL body
  | .set _ _ => []
  | .setBlock _ _ body => macroDeclsL body
  | .autoEscape _ body => macroDeclsL body
  | .filterBlock _ body => macroDeclsL body
  | .macro _ args defaults body => ⟨args, defaults, body⟩ :: macroDeclsL body
  | .callBlock _ _ args defaults body => ⟨args, defaults, body⟩ :: macroDeclsL body
  | .doStmt _ _ => []
  | .brk => []
  | .cont => []
  | .block _ body => macroDeclsL body
  | .include _ => []
  | .extends _ => []
  | .importAs _ _ => []
  | .fromImport _ _ => []
def macroDeclsL : List Stmt → List MacroDecl
  | [] => []
  | s :: ss => macroDecls s ++ macroDeclsL ss
end

/-- one call: prologue and body in `[closure frame, base frame]`; no loop of the caller is
running in that context; the blocks are the template's -/
def callMacro (K : Reenter) (bt : BT) (m : MacroDecl) (kid : List Ch) : List String :=
  (bindArgs (macroFrame m.args m.defaults m.body) [[]] m.args.reverse m.defaults.reverse).2 ++
    (execList K [] bt
      (bindArgs (macroFrame m.args m.defaults m.body) [[]] m.args.reverse m.defaults.reverse).1
      [[]] kid m.body).reads

/-- one request: targets `0 … rc.length-1` the running recursive loops, then the blocks of the
template, then the macro table -/
def serveM (mt : List MacroDecl) (K : Reenter) (rc : RC) (bt : BT) (top : Frame)
    (below : List Frame) (r : Ch) : List String :=
  if r.n < rc.length + bt.length then serve K rc bt top below r
  else
    match mt[r.n - (rc.length + bt.length)]? with
    | some m => callMacro K bt m r.sub0
    | none => []

/-- requests (loop re-entries, `self.block()`, macro calls) nested at most `d` deep -/
def reenterM (mt : List MacroDecl) : Nat → Reenter
  | 0 => fun _ _ _ _ _ => []
  | d + 1 => fun rc bt top below reqs =>
      reqs.flatMap (serveM mt (reenterM mt d) rc bt top below)

/-- context keys a render of template `t` asks for when its macros and call blocks run where
they are called -/
def readsM (t : List Stmt) (cs : List Ch) (d : Nat) : List String :=
  (execList (reenterM (macroDeclsL t) d) [] (blockBodiesL t) [] [] cs t).reads

/-! ## file sets -/

/-- a piece of a file's code that is entered as a whole -/
inductive UnitRef where
  /-- the top-level statements (render, include, import, parent of a child template) -/
  | top
  /-- block body number `k` of the file (in a fresh frame on top of the entry frames) -/
  | block (k : Nat)
  /-- entry `k` of the file's macro table (in its own two frames) -/
  | macro_ (k : Nat)

/-- one activation of a unit somewhere in an execution of a file set -/
structure Activation where
  file : Nat
  unit : UnitRef
  /-- the frames the unit is entered with — built by whichever file was running -/
  top : Frame := []
  below : List Frame := []
  cs : List Ch := []
  d : Nat := 0

/-- the look-ups the activation's own code performs (same-file re-entries included) -/
def Activation.reads (files : List (List Stmt)) (a : Activation) : List String :=
  match files[a.file]? with
  | none => []
  | some t =>
      match a.unit with
      | .top =>
          (execList (reenterM (macroDeclsL t) a.d) [] (blockBodiesL t) a.top a.below a.cs t).reads
      | .block k =>
          match (blockBodiesL t)[k]? with
          | some b =>
              (execList (reenterM (macroDeclsL t) a.d) [] (blockBodiesL t) [] (a.top :: a.below)
                a.cs b).reads
          | none => []
      | .macro_ k =>
          match (macroDeclsL t)[k]? with
          | some m => callMacro (reenterM (macroDeclsL t) a.d) (blockBodiesL t) m a.cs
          | none => []

/-- the log of the recording context, every key tagged with the file whose code asked for it -/
def setLog (files : List (List Stmt)) (acts : List Activation) : List (Nat × String) :=
  acts.flatMap (fun a => (a.reads files).map (fun x => (a.file, x)))

end MJ.Meta
