import MJ.Model.Fold
/-!
# Statements around the folded expressions (C04, statement level)

`compile_stmt` (`compiler/codegen.rs`) compiles every head expression of a statement through
`compile_expr` (the fold-first scheme of `MJ.Fold.evalC`) and every statement list of a statement
unconditionally, in field order; a `{% block %}` is registered in the block table when it is
*compiled* (`compile_block`: `self.blocks.insert(..)`), wherever it sits.  This file models exactly
that much: a statement is its Rust variant, the name it declares (block, macro), its head
expressions and its statement lists.

* `registeredBlocks` - the compile-time effect: the block table the code generator fills;
* `headVals` - the values the compiled head expressions take in an environment (what the run-time
  behaviour of the statement is a function of);
* `HoistS` - the statement-level hoisting relation (same shape, heads related by `Hoist` in every
  environment of a family `R`: the scopes of loops, `with`, macros … extend the context but keep
  the variables the literals were hoisted into).
-/
namespace MJ.Fold

mutual
  /-- `ast::Stmt` as far as constant folding can see it -/
  inductive Stmt where
    | mk (kind : String) (name : String) (heads : Exprs) (bodies : Bodies)
  /-- `Vec<Stmt>` -/
  inductive Stmts where
    | nil
    | cons (s : Stmt) (rest : Stmts)
  /-- the statement-list fields of one statement, in field order (`true_body`, `false_body`; `body`,
      `else_body`; …) -/
  inductive Bodies where
    | nil
    | cons (b : Stmts) (rest : Bodies)
end

mutual
  /-- the block table after `compile_stmt`: every `Block` node of the tree, wherever it is -/
  def registeredBlocks : Stmt → List String
    | .mk kind name _ bodies => (if kind = "Block" then [name] else []) ++ blocksOfBodies bodies
  def blocksOfStmts : Stmts → List String
    | .nil => []
    | .cons s rest => registeredBlocks s ++ blocksOfStmts rest
  def blocksOfBodies : Bodies → List String
    | .nil => []
    | .cons b rest => blocksOfStmts b ++ blocksOfBodies rest
end

mutual
  /-- the macros a template declares somewhere (`BuildMacro` sites in the emitted code) -/
  def declaredMacros : Stmt → List String
    | .mk kind name _ bodies => (if kind = "Macro" then [name] else []) ++ macrosOfBodies bodies
  def macrosOfStmts : Stmts → List String
    | .nil => []
    | .cons s rest => declaredMacros s ++ macrosOfStmts rest
  def macrosOfBodies : Bodies → List String
    | .nil => []
    | .cons b rest => macrosOfStmts b ++ macrosOfBodies rest
end

section
variable (P : Prims) (m : Mode) (ρ : Env)

mutual
  /-- what the compiled head expressions of all statements evaluate to in `ρ`, in pre-order -/
  def headVals : Stmt → List (Except Err (List V))
    | .mk _ _ heads bodies => evalCList P m ρ heads :: headValsBodies bodies
  def headValsStmts : Stmts → List (Except Err (List V))
    | .nil => []
    | .cons s rest => headVals s ++ headValsStmts rest
  def headValsBodies : Bodies → List (Except Err (List V))
    | .nil => []
    | .cons b rest => headValsStmts b ++ headValsBodies rest
end

mutual
  /-- THE SEEDED CHANGE C04-3, as a variant of the traversal: an `{% if %}` whose condition folds to
      a constant compiles only the branch that is taken -/
  def registeredBlocksElim : Stmt → List String
    | .mk kind name heads bodies =>
      (if kind = "Block" then [name] else []) ++
      (if kind = "IfCond" then
        (match heads, bodies with
         | .cons c .nil, .cons t (.cons f .nil) =>
           (match asConst P c with
            | some v => if P.isTrue v then blocksOfStmtsElim t else blocksOfStmtsElim f
            | none => blocksOfStmtsElim t ++ blocksOfStmtsElim f)
         | _, bs => blocksOfBodiesElim bs)
       else blocksOfBodiesElim bodies)
  def blocksOfStmtsElim : Stmts → List String
    | .nil => []
    | .cons s rest => registeredBlocksElim s ++ blocksOfStmtsElim rest
  def blocksOfBodiesElim : Bodies → List String
    | .nil => []
    | .cons b rest => blocksOfStmtsElim b ++ blocksOfBodiesElim rest
end

end

mutual
  def Stmt.WF : Stmt → Prop
    | .mk _ _ heads bodies => heads.WF ∧ bodies.WF
  def Stmts.WF : Stmts → Prop
    | .nil => True
    | .cons s rest => s.WF ∧ rest.WF
  def Bodies.WF : Bodies → Prop
    | .nil => True
    | .cons b rest => b.WF ∧ rest.WF
end

section
variable (P : Prims) (R : Env → Prop)

mutual
  /-- `s'` is `s` with any subset of the literal sub-expressions of its heads (anywhere in the tree)
      hoisted into variables that every environment of the family `R` binds to the same values -/
  def HoistS : Stmt → Stmt → Prop
    | .mk kind name heads bodies, s' => ∃ heads' bodies', s' = .mk kind name heads' bodies' ∧
        (∀ ρ, R ρ → HoistList P ρ heads heads') ∧ HoistBodies bodies bodies'
  def HoistStmts : Stmts → Stmts → Prop
    | .nil, t => t = .nil
    | .cons s rest, t => ∃ s' rest', t = .cons s' rest' ∧ HoistS s s' ∧ HoistStmts rest rest'
  def HoistBodies : Bodies → Bodies → Prop
    | .nil, t => t = .nil
    | .cons b rest, t => ∃ b' rest', t = .cons b' rest' ∧ HoistStmts b b' ∧ HoistBodies rest rest'
end

end
end MJ.Fold
