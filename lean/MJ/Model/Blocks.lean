import MJ.Gen.Tables
/-!
# Template composition: block stacks, `extends`, `super()`, `include`, `import`

Executable model of the parts of `minijinja/src/vm/mod.rs` and `vm/state.rs` that compose
templates (transcribed from the Rust; names of the Rust items are given at each definition):

* `BlockStack` (`instructions: Vec<&Instructions>`, `depth`) per block name, `push`/`pop`;
* `Instruction::LoadBlocks` + `load_blocks` (reject a second `extends`, reject a template already
  in `loaded_templates`, append the parent's blocks *behind* the existing ones, remember the
  parent's instructions, start discarding output);
* the end-of-instructions handling of `eval_impl` (switch to the remembered parent instructions,
  stop discarding);
* `Instruction::CallBlock` (skipped while a parent is pending or the output is discarding) +
  `call_block` (renders `instructions[depth]` in a new frame);
* `perform_super` (move the depth cursor one up, render, move it back, wrap errors in `EvalBlock`);
* template lookup with three outcomes: found, missing (`TemplateNotFound`), or a load error of
  its own kind (the template exists but does not compile / the loader returns an error);
* `perform_include`: the candidates are read off the *value* of the include expression
  (`choices`: a value that is not an object is one name; an object is iterated whatever its
  `ObjectRepr` is — list, tuple, lazily evaluated iterable, one-shot iterator, map (its keys);
  the shape of that expression and of the final `templates_tried` condition are regenerated
  tables); first existing name of the candidates; a candidate that is not a string is an error
  where it is reached; only *missing* names are skipped and forgiven by `ignore missing`, a load
  error is returned as it is; blocks replaced and restored = `BlockState::Replace`, errors
  wrapped in `BadInclude`;
* `Stmt::Import` / `Stmt::FromImport` as compiled by `compiler/codegen.rs` (include into a fresh
  `with` frame, `ExportLocals` of exactly that frame);
* the auto-escape mode (`state.auto_escape`): a template's initial mode is what the environment's
  default callback derives from its *name* (`modeOfName`, extension tables regenerated from
  `defaults.rs`); `perform_include` enters the included template with *that template's* initial
  mode, whereas `call_block`, `perform_super`, macro calls and the parent's instructions reached
  through `extends` keep the current one; `{% autoescape %}` blocks; `Emit` ⇒ `write_escaped`
  (safe strings bypass escaping; captured output is safe unless the mode is None);
* variable frames as far as they are observable through include/import (`Context::store`,
  `Context::load`, the frame pushed by `call_block`/`perform_super`/loops, the fresh context of a
  macro call).

Template names are indexes into the environment (`t<i>`; an index ≥ the number of templates is a
missing template), block names and variable names are numbers.  Output is a list of text pieces.
Nested evaluation (`eval_state` on other instructions) goes through the callback `rec`, which
`evalImpl` instantiates with itself at one unit of fuel less: fuel bounds the *nesting depth*, the
model's analogue of the engine's recursion limit (running out is the engine's
`InvalidOperation: recursion limit exceeded`).

The engine's recursion limit is modelled exactly: `Context::depth()` = `outer_stack_depth` +
number of frames, checked against `recursion_limit` (default `MAX_RECURSION`) by `push_frame`
and `incr_depth`; an include costs `INCLUDE_RECURSION_COST`, a macro call
`MACRO_RECURSION_COST` (constants regenerated from the sources into `MJ.Gen`).  `outer` is
threaded as a reader value (the Rust code increments and decrements it around the nested run).

Macro closures are modelled for parameterless macros with one free variable (`defMacroV`):
every frame has a closure slot (`Frame::closure`, opened by the first `Enclose`), an assignment
in a frame is written through to the frame's closure, a macro value carries the closure it
captured and its body looks the free variable up there; `perform_include` detaches the frame's
closure while the included file runs (`take_closure`) and attaches it again (`reset_closure`).

A macro call (`inMacro`) runs its body on a fresh context with `current_block = None` but with
the caller's block table and cursors (`BlockState::Isolate` only restores them afterwards): block
references in macro bodies resolve like in the enclosing block body, `super()` there is an error.
An included template gets a block table of its own (`BlockState::Replace`) but the includer's
`current_block` *name*: `super()` outside of blocks in an included chain is resolved against that
name in the included chain's own table.

Not modelled: closures opened inside the bodies of macro *calls* (`inMacro` bodies run on a
fresh context whose heap growth is dropped), `{% call %}` blocks, `extends` inside
loops/macros/blocks and `autoescape` blocks nested more than `AE_NEST_MAX` deep directly in one
another (the model answers `unsupported` there).
-/
namespace MJ.Blocks

/-- `Environment::recursion_limit()` of a default environment -/
def LIMIT : Nat := MJ.Gen.maxRecursionEnv
def INCLUDE_COST : Nat := MJ.Gen.includeRecursionCost
def MACRO_COST : Nat := MJ.Gen.macroRecursionCost

/-- `ErrorKind`s that can come out of the modelled code; `recursion` is reported by the engine as
    `InvalidOperation` as well (kept apart so that theorems can tell a detected cycle from a run
    that was merely cut off), `panic` is a Rust panic, `unsupported` marks inputs outside the
    modelled fragment. -/
inductive Kind
  | invalidOperation | templateNotFound | badInclude | evalBlock | unknownBlock
  | unknownFunction | undefinedError | recursion | panic | unsupported
  | syntaxError (t : Nat)          -- a template that exists but does not compile (`t` = its index)
  | badSerialization               -- stands for an arbitrary error kind a loader may return
  deriving DecidableEq, Repr, Inhabited

/-- an error with its `source()` chain, outermost first -/
abbrev Err := List Kind

inductive Val
  | str (s : String)
  | safe (s : String)                 -- a string marked safe (captured output under an escaping mode)
  | mac (name : Nat) (body : String)   -- the macro `name` whose body is the literal text `body`
  | macv (name : Nat) (free : Nat) (closure : Nat)
      -- `{% macro name() %}<mNAME:{{ free }}>{% endmacro %}`: a macro with the free variable
      -- `free`, bound to closure number `closure` of the render
  | undef                          -- `Value::UNDEFINED` stored in a variable
  | opaque                         -- a macro with a structured body (never printed)
  | module (exports : List (Nat × Val))

/-- `AutoEscape` (the modes the default callback can choose) -/
inductive AE
  | none | html | json
  deriving DecidableEq, Repr, Inhabited

/-- `UndefinedBehavior` -/
inductive UB
  | lenient | chainable | semiStrict | strict
  deriving DecidableEq, Repr, Inhabited

def UB.name : UB → String
  | .lenient => "Lenient"
  | .chainable => "Chainable"
  | .semiStrict => "SemiStrict"
  | .strict => "Strict"

/-- does printing (and iterating) an undefined value fail: `strict_undefined` in `eval_impl`,
    regenerated from the sources -/
def UB.isStrict (ub : UB) : Bool := MJ.Gen.c06StrictEmit.contains ub.name

/-- `handle_undefined(parent_was_undefined = true)`: does an attribute of an undefined value
    fail (table regenerated from `utils.rs`) -/
def UB.attrOfUndefFails (ub : UB) : Bool :=
  match MJ.Gen.c06HandleUndefined.find? (fun r => r.1 == ub.name && r.2.1) with
  | some r => r.2.2
  | none => true

/-- `default_auto_escape_callback`: strip the first matching ignored suffix, then decide by the
    text behind the last dot (tables regenerated from `defaults.rs`) -/
def modeOfName (name : String) : AE :=
  let stripped :=
    match MJ.Gen.c06AutoEscapeIgnoredExts.find? (fun ext => name.endsWith ext) with
    | some ext => (name.dropEnd ext.length).toString
    | none => name
  let last := (stripped.splitOn ".").getLast!
  if MJ.Gen.c06AutoEscapeHtmlExts.contains last then .html
  else if MJ.Gen.c06AutoEscapeJsonExts.contains last then .json
  else .none

/-- `HtmlEscape` (table regenerated from `utils.rs`) -/
def escapeHtml (s : String) : String :=
  String.join (s.toList.map (fun c =>
    match MJ.Gen.htmlEscapeTable.find? (fun p => p.1 == c) with
    | some p => p.2
    | none => c.toString))

/-- `serde_json::to_string` of a string without control characters -/
def escapeJson (s : String) : String :=
  "\"" ++ String.join (s.toList.map (fun c =>
    if c == '"' then "\\\"" else if c == '\\' then "\\\\" else c.toString)) ++ "\""

/-- `write_escaped` of a plain (not safe) string -/
def fmtStr (ae : AE) (s : String) : String :=
  match ae with
  | .none => s
  | .html => escapeHtml s
  | .json => escapeJson s

/-- one candidate of an include: `some t` = a string, the name of template `t`; `none` = a value
    that is not a string (`choice.as_str()` fails: template name was not a string) -/
abbrev Cand := Option Nat

/-- `ObjectRepr` -/
inductive ORepr
  | plain | map | seq | iterable
  deriving DecidableEq, Repr, Inhabited

def ORepr.name : ORepr → String
  | .plain => "Plain"
  | .map => "Map"
  | .seq => "Seq"
  | .iterable => "Iterable"

def ORepr.all : List ORepr := [.plain, .map, .seq, .iterable]

/-- the value of the expression behind `include` / `import` / `from … import` as
    `perform_include` sees it: either not an object (`name.as_object()` is `None`: a string or
    another primitive — number, bool, none, undefined) or an object of some `ObjectRepr` together
    with what `try_iter()` yields for it (the elements of a list / tuple / lazily evaluated
    iterable / one-shot iterator, the *keys* of a map; `none` when the object cannot be iterated:
    `Enumerator::NonEnumerable`, e.g. a function or a plain object) -/
inductive Arg
  | single (c : Cand)
  | object (r : ORepr) (items : Option (List Cand))
  deriving Repr, Inhabited

/-- a string literal naming template `t` -/
abbrev Arg.name (t : Nat) : Arg := .single (some t)
/-- a list (literal, tuple, `Vec` from the context) of template names -/
abbrev Arg.names (l : List Nat) : Arg := .object .seq (some (l.map some))

/-- the value itself as a candidate (`name.clone()`): an object is never a string -/
def Arg.self : Arg → Cand
  | .single c => c
  | .object _ _ => none

/-- the `choices` of `perform_include`, following the shape of the Rust expression as the table
    extractor read it off `vm/mod.rs` (`MJ.Gen.c06IncludeIteratedReprs`: the object kinds that
    reach `try_iter()` — every filter in front of it removes kinds; `MJ.Gen.c06IncludeFallback`:
    what happens when there is nothing to iterate).  An added or changed filter changes this
    function, and `MJ.C06.include_candidates_any_iterable` no longer holds. -/
def choices (a : Arg) : List Cand :=
  let iter : Option (List Cand) :=
    match a with
    | .single _ => none
    | .object r items => if MJ.Gen.c06IncludeIteratedReprs.contains r.name then items else none
  match iter with
  | some l => l
  | none =>
    if MJ.Gen.c06IncludeFallback == "single-name" then [a.self]
    else if MJ.Gen.c06IncludeFallback == "single-name-unless-object" then
      (match a with
       | .single c => [c]
       | .object _ _ => [])
    else []

/-- the atoms of the condition under which the tail of `perform_include` raises
    `TemplateNotFound` (`tried` = `!templates_tried.is_empty()`) -/
def notFoundAtom (tried ign : Bool) (atom : String) : Bool :=
  if atom == "!templates_tried.is_empty()" then tried
  else if atom == "templates_tried.is_empty()" then !tried
  else if atom == "!ignore_missing" then !ign
  else if atom == "ignore_missing" then ign
  else false

/-- `if !templates_tried.is_empty() && !ignore_missing { Err(TemplateNotFound) } else { Ok(()) }`
    as extracted from the sources (a conjunction of atoms) -/
def notFoundRaised (tried ign : Bool) : Bool :=
  MJ.Gen.c06IncludeNotFoundCond.all (notFoundAtom tried ign)

inductive Item
  | text (s : String)                                  -- `EmitRaw`
  | callBlock (n : Nat)                                -- `{% block n %}` ⇒ `CallBlock(n)`
  | super                                              -- `{{ super() }}` ⇒ `FastSuper`
  | extends (exec : Bool) (t : Nat)                    -- `LoadBlocks`, executed iff `exec` (`{% if %}` around it)
  | incl (arg : Arg) (ignoreMissing : Bool)            -- `Include(ignore_missing)` on the value `arg`
  | emitVar (v : Nat)                                  -- `{{ v }}`
  | setVar (v : Nat) (s : String)                      -- `{% set v = "s" %}`
  | defMacro (v : Nat) (s : String)                    -- `{% macro v() %}s{% endmacro %}`
  | defMacroV (m w : Nat)                              -- `{% macro m() %}<mM:{{ w }}>{% endmacro %}` (free variable `w`)
  | importAs (arg : Arg) (v : Nat)                     -- `{% import arg as v %}`
  | fromImport (arg : Arg) (name alias : Nat)          -- `{% from arg import name as alias %}`
  | emitAttr (v a : Nat)                               -- `{{ v.a }}`
  | emitKeys (v : Nat)                                 -- `{{ v|sort|join(",") }}`
  | callVar (v : Nat)                                  -- `{{ v() }}`
  | required                                           -- the (empty) body of `{% block n required %}`
  | setSuper (v : Nat)                                 -- `{% set v = super() %}` (captured super)
  | setSelf (v : Nat) (m : Nat)                        -- `{% set v = self.m() %}` (captured block call)
  | loop (v : Nat) (vals : List String) (body : List Item)          -- `{% for v in vals %}`
  | inMacro (m arg : Nat) (val : String) (body : List Item)         -- `{% macro m(arg) %}body{% endmacro %}{{ m(val) }}`
  | autoesc (m : AE) (body : List Item)                             -- `{% autoescape "m" %}body{% endautoescape %}`
  | badTarget                                          -- `extends` / `include` whose name is not a string

/-- why a lookup of an existing name fails -/
inductive LoadErr
  | syntax | refused | custom
  deriving DecidableEq, Repr, Inhabited

/-- a compiled template: top-level instructions, the block table (`blocks: BTreeMap`) and the
    initial auto-escape mode (`initial_auto_escape`, chosen by the environment from the name) -/
structure Template where
  layout : List Item
  blocks : List (Nat × List Item)
  ae : AE := .none
  /-- `Some`: looking the template up *fails* although the name exists — the source does not
      compile (loader-backed templates are compiled on first use) or the loader returns an
      error of this kind; such an entry has no layout and no blocks -/
  loadErr : Option LoadErr := none

abbrev Env := List Template

/-- `BTreeMap::get` on the block table -/
def lookupBlock (n : Nat) : List (Nat × List Item) → Option (List Item)
  | [] => none
  | (m, b) :: rest => if m = n then some b else lookupBlock n rest

/-- `Locals` of one frame (newest binding first; `insert` shadows) -/
abbrev Frame := List (Nat × Val)

def lookupVal (v : Nat) : List (Nat × Val) → Option Val
  | [] => none
  | (w, x) :: rest => if w = v then some x else lookupVal v rest

/-- the variable side of the state: `ctx.stack` (top = last), the closure each frame writes
    through to (`Frame::closure`, set by the first `Enclose` in that frame), and the closures of
    the render (`state.closures`: region allocated, never removed) -/
structure Vars where
  stack : List Frame
  cls : List (Option Nat)
  heap : List Frame

namespace Vars
def length (v : Vars) : Nat := v.stack.length
/-- `restore_stack_depth` / `pop_frame`: keep the lowest `n` frames -/
def take (v : Vars) (n : Nat) : Vars := { v with stack := v.stack.take n, cls := v.cls.take n }
/-- `push_frame` of frames that have no closure yet -/
def push (v : Vars) (fs : List Frame) : Vars :=
  { v with stack := v.stack ++ fs, cls := v.cls ++ fs.map (fun _ => none) }
/-- the context a render starts with: one frame, no closures -/
def init : Vars := { stack := [[]], cls := [none], heap := [] }
/-- `Context::new`: no frame at all (`Template::new_state`) -/
def empty : Vars := { stack := [], cls := [], heap := [] }
/-- the fresh context of a macro call: base frame + closure frame holding the argument; the
    closures of the render stay reachable -/
def macroCtx (v : Vars) (arg : Nat) (val : Val) : Vars :=
  { stack := [[], [(arg, val)]], cls := [none, none], heap := v.heap }
/-- `Frame::closure` of the top frame -/
def topClosure (v : Vars) : Option Nat := (v.cls.reverse.head?).getD none
def setTopClosure (v : Vars) (c : Option Nat) : Vars :=
  match v.cls.reverse with
  | [] => v
  | _ :: below => { v with cls := (c :: below).reverse }
end Vars

def modAt (l : List Frame) (i : Nat) (f : Frame → Frame) : List Frame :=
  match l, i with
  | [], _ => []
  | x :: rest, 0 => f x :: rest
  | x :: rest, i + 1 => x :: modAt rest i f

/-- `state.blocks`, `BlockStack::depth` per name, `loaded_templates`, `ctx.stack` (top = last) -/
structure St where
  blocks : Nat → List (List Item)
  depth : Nat → Nat
  loaded : List Nat
  frames : Vars

/-- what a render is configured with: the root context value and the environment's
    `undefined_behavior` -/
structure Cfg where
  rootCtx : Frame
  ub : UB := .lenient

/-- reader part of one `eval_impl` activation -/
structure Rd where
  env : Env
  cfg : Cfg
  cur : Option Nat          -- `state.current_block`
  disc0 : Bool              -- is the output discarding when the activation starts
  ext0 : Bool               -- loop bodies only: the enclosing activation has a parent pending
  outer : Nat               -- `ctx.outer_stack_depth`
  ae : AE                   -- `state.auto_escape`

abbrev Res := Except Err (List String × St)
/-- nested `eval_state`: current block, discarding?, parent pending?, outer depth, auto-escape mode,
    instructions, state -/
abbrev Rec := Option Nat → Bool → Bool → Nat → AE → List Item → St → Res

/-- `check_depth` after one more frame: `depth() > recursion_limit` -/
def pushFails (outer : Nat) (frames : Vars) : Bool := decide (outer + (frames.length + 1) > LIMIT)

/-- `is_required_block()` -/
def isRequired : List Item → Bool
  | [.required] => true
  | _ => false

def setAt {α : Type} (f : Nat → α) (n : Nat) (a : α) : Nat → α := fun m => if m = n then a else f m

/-- `prepare_blocks`: one-element stacks from a template's own block table -/
def prepare (bs : List (Nat × List Item)) : Nat → List (List Item) :=
  fun n => match lookupBlock n bs with
    | some b => [b]
    | none => []

/-- `for (name, instr) in new_blocks { blocks.entry(name).or_default().append_instructions(instr) }` -/
def appendBlocks (blocks : Nat → List (List Item)) (bs : List (Nat × List Item)) : Nat → List (List Item) :=
  fun n => match lookupBlock n bs with
    | some b => blocks n ++ [b]
    | none => blocks n

/-- the error `Environment::get_template` returns for an entry that cannot be loaded -/
def loadErrKind (t : Nat) : LoadErr → Kind
  | .syntax => .syntaxError t
  | .refused => .invalidOperation
  | .custom => .badSerialization

/-- `load_blocks` -/
def loadBlocks (env : Env) (t : Nat) (st : St) : Except Err (St × List Item) :=
  if t ∈ st.loaded then .error [.invalidOperation]          -- cycle in template inheritance
  else match env[t]? with
    | none => .error [.templateNotFound]
    | some T =>
      match T.loadErr with
      | some k => .error [loadErrKind t k]
      | none => .ok ({ st with loaded := t :: st.loaded, blocks := appendBlocks st.blocks T.blocks }, T.layout)

/-- `Context::store`: insert into the locals of the top frame and, when that frame has a
    closure, into the closure as well (so macros declared in the frame see later assignments) -/
def closureWrite (fs : Vars) (v : Nat) (x : Val) : List Frame :=
  match fs.topClosure with
  | some c => modAt fs.heap c (fun cl => (v, x) :: cl)
  | none => fs.heap

def store (fs : Vars) (v : Nat) (x : Val) : Vars :=
  match fs.stack.reverse with
  | [] => fs
  | top :: below =>
    { fs with stack := (((v, x) :: top) :: below).reverse, heap := closureWrite fs v x }

/-- `Context::load`: frames from the top down, then the root context -/
def load (rootCtx : Frame) (fs : Vars) (v : Nat) : Option Val :=
  match fs.stack.reverse.findSome? (lookupVal v) with
  | some x => some x
  | none => lookupVal v rootCtx

def topFrame (fs : Vars) : Frame := (fs.stack.reverse.head?).getD []

/-- `Instruction::Enclose(w)`: the first enclosed name opens the closure of the frame; a name the
    closure does not hold yet is copied into it with its current value (undefined if none) -/
def Vars.openClosure (fs : Vars) : Vars :=
  match fs.topClosure with
  | some _ => fs
  | none => { (fs.setTopClosure (some fs.heap.length)) with heap := fs.heap ++ [[]] }

def enclose (rootCtx : Frame) (fs : Vars) (w : Nat) : Vars :=
  let fs1 := fs.openClosure
  match fs1.topClosure with
  | none => fs1
  | some c =>
    match lookupVal w (fs1.heap[c]?.getD []) with
    | some _ => fs1
    | none => { fs1 with heap := modAt fs1.heap c (fun cl => (w, (load rootCtx fs1 w).getD .undef) :: cl) }

/-- distinct keys of a frame with their current values (`Locals` is a map) -/
def dedupKeys : List (Nat × Val) → List (Nat × Val)
  | [] => []
  | (k, x) :: rest => (k, x) :: (dedupKeys rest).filter (fun p => p.1 ≠ k)

def insertSorted (k : Nat) : List Nat → List Nat
  | [] => [k]
  | j :: rest => if k ≤ j then k :: j :: rest else j :: insertSorted k rest

def sortNat (l : List Nat) : List Nat := l.foldr insertSorted []

def keysText (ex : List (Nat × Val)) : String :=
  ",".intercalate ((sortNat (ex.map (·.1))).map (fun k => s!"v{k}"))

def Res.andThen {α : Type} (r : Res) (k : St → Except Err (List String × St × α)) : Except Err (List String × St × α) :=
  match r with
  | .error e => .error e
  | .ok (o, st) =>
    match k st with
    | .error e => .error e
    | .ok (o', st', a) => .ok (o ++ o', st', a)

def wrapErr (k : Kind) : Res → Res
  | .error e => .error (k :: e)
  | .ok r => .ok r

def isExtends : Item → Bool
  | .extends _ _ => true
  | _ => false

def isAutoesc : Item → Bool
  | .autoesc _ _ => true
  | _ => false

mutual
/-- how deep `{% autoescape %}` blocks are nested *directly* in one another (loops and macro
    calls start anew: they run at a greater stack depth) -/
def aeDepth : Item → Nat
  | .autoesc _ body => aeDepthL body + 1
  | _ => 0
def aeDepthL : List Item → Nat
  | [] => 0
  | it :: rest => max (aeDepth it) (aeDepthL rest)
end

/-- the model follows `{% autoescape %}` blocks nested up to this deep directly in one another
    (a modelling bound: such a block costs the engine no stack depth, so the model's fuel has to
    pay for the static nesting; deeper nests are answered with `unsupported`) -/
def AE_NEST_MAX : Nat := 8

/-- the statements that only touch variables and output (shared by driver and spec): text,
    `{{ v }}`, `set`, macro definition, `{{ v.a }}`, `{{ v|sort|join }}`, `{{ v() }}`, and the
    empty body of a required block.  `quiet` = the output is discarding; `ae` = the current
    auto-escape mode (`Emit` ⇒ `write_escaped`: safe strings bypass it).  Undefined values
    follow `cfg.ub`: printing one is empty (`null` under Json) or, for `Strict`/`SemiStrict`, an
    `UndefinedError`; an attribute of an undefined value is an error except for `Chainable`;
    iterating one (`|sort`) is an error for `Strict`/`SemiStrict`. -/
def emitUndef (cfg : Cfg) (quiet : Bool) (ae : AE) (fs : Vars) :
    Except Err (List String × Vars) :=
  if cfg.ub.isStrict then .error [.undefinedError]
  else match ae with
    | .json => .ok (if quiet then [] else ["null"], fs)
    | _ => .ok ([], fs)

def varItem (cfg : Cfg) (quiet : Bool) (ae : AE) (it : Item) (fs : Vars) :
    Option (Except Err (List String × Vars)) :=
  let emit (s : String) : List String := if quiet then [] else [s]
  -- `Emit` of an undefined value
  let undef : Except Err (List String × Vars) := emitUndef cfg quiet ae fs
  match it with
  | .text s => some (.ok (emit s, fs))
  | .required => some (.ok ([], fs))
  | .emitVar v =>
    match load cfg.rootCtx fs v with
    | some (.str s) => some (.ok (emit (fmtStr ae s), fs))
    | some (.safe s) => some (.ok (emit s, fs))
    | some (.mac name _) =>
      match ae with
      | .json => some (.ok (emit ("{\"name\":\"v" ++ toString name ++ "\",\"arguments\":[],\"caller\":false}"), fs))
      | _ => some (.ok (emit (fmtStr ae s!"<macro v{name}>"), fs))
    | some .undef | none => some undef
    | some _ => some (.error [.unsupported])
  | .setVar v s => some (.ok ([], store fs v (.str s)))
  | .defMacro v s => some (.ok ([], store fs v (.mac v s)))
  | .defMacroV m w =>
    -- Enclose(w); GetClosure; BuildMacro; StoreLocal(m)
    let fs1 := enclose cfg.rootCtx fs w
    match fs1.topClosure with
    | some c => some (.ok ([], store fs1 m (.macv m w c)))
    | none => some (.error [.panic])
  | .emitAttr v a =>
    match load cfg.rootCtx fs v with
    | some (.module ex) =>
      match lookupVal a ex with
      | some (.str s) => some (.ok (emit (fmtStr ae s), fs))
      | some (.safe s) => some (.ok (emit s, fs))
      | some .undef | none => some undef
      | some _ => some (.error [.unsupported])
    | some .undef | none =>
      if cfg.ub.attrOfUndefFails then some (.error [.undefinedError]) else some undef
    | some _ => some (.error [.unsupported])
  | .emitKeys v =>
    match load cfg.rootCtx fs v with
    | some (.module ex) => some (.ok (emit (fmtStr ae (keysText ex)), fs))
    | some .undef | none =>
      if cfg.ub.isStrict then some (.error [.invalidOperation])      -- cannot convert value to list
      else some (.ok (emit (fmtStr ae ""), fs))
    | some _ => some (.error [.unsupported])
  | .callVar v =>
    match load cfg.rootCtx fs v with
    | some (.mac _ s) => some (.ok (emit s, fs))
    | some (.macv m w c) =>
      -- the body looks `w` up in the macro's closure (`closure_context` of the call's frame)
      match lookupVal w (fs.heap[c]?.getD []) with
      | some (.str s) => some (.ok (emit ("<m" ++ toString m ++ ":" ++ fmtStr ae s ++ ">"), fs))
      | some (.safe s) => some (.ok (emit ("<m" ++ toString m ++ ":" ++ s ++ ">"), fs))
      | some .undef | none =>
        match emitUndef cfg quiet ae fs with
        | .error e => some (.error e)
        | .ok (o, _) => some (.ok (emit ("<m" ++ toString m ++ ":" ++ String.join o ++ ">"), fs))
      | some _ => some (.error [.unsupported])
    | some .undef | some (.str _) | some (.safe _) => some (.error [.invalidOperation])   -- value of type … is not callable
    | none => some (.error [.unknownFunction])
    | some _ => some (.error [.unsupported])
  | _ => none

/-- `out.end_capture(auto_escape)`: the captured text is a safe string unless the mode is None -/
def captured (ae : AE) (o : List String) : Val :=
  match ae with
  | .none => .str (String.join o)
  | _ => .safe (String.join o)

/-- `call_block` -/
def callBlock (rec : Rec) (disc : Bool) (outer : Nat) (ae : AE) (n : Nat) (st : St) : Res :=
  match st.blocks n with
  | [] => .error [.unknownBlock]
  | b :: bs =>
    match (b :: bs)[st.depth n]? with
    | none => .error [.panic]                      -- `BlockStack::instructions()` unwraps
    | some body =>
      if (b :: bs).length == 1 && isRequired body then .error [.invalidOperation]   -- required block not found
      else if pushFails outer st.frames then .error [.invalidOperation]              -- recursion limit
      else
        let d := st.frames.length
        match rec (some n) disc false outer ae body { st with frames := st.frames.push [[]] } with
        | .error e => .error e
        | .ok (o, st') => .ok (o, { st' with frames := st'.frames.take d })

/-- `perform_super` -/
def performSuper (rec : Rec) (cur : Option Nat) (disc : Bool) (outer : Nat) (ae : AE) (st : St) : Res :=
  match cur with
  | none => .error [.invalidOperation]             -- cannot super outside of block
  | some n =>
    if st.depth n + 1 < (st.blocks n).length then
      let d := st.depth n + 1
      if pushFails outer st.frames then .error [.invalidOperation]                   -- recursion limit
      else
        match (st.blocks n)[d]? with
        | none => .error [.panic]
        | some body =>
          let fl := st.frames.length
          match rec (some n) disc false outer ae body { st with depth := setAt st.depth n d, frames := st.frames.push [[]] } with
          | .error e => .error (.evalBlock :: e)
          | .ok (o, st') =>
            .ok (o, { st' with depth := setAt st'.depth n (st'.depth n - 1), frames := st'.frames.take fl })
    else .error [.invalidOperation]                -- no parent block exists

/-- `perform_include` over the candidates `choices name`; `tried` = some name was looked up and
    not found.  A candidate that is not a string is an error where it is reached.  The included
    template runs in *its own* initial auto-escape mode (`tmpl.initial_auto_escape()`), whatever
    the includer's current mode is; the includer's mode is back afterwards (reader value). -/
def performInclude (env : Env) (rec : Rec) (cur : Option Nat) (disc ign : Bool) (outer : Nat) :
    List Cand → Bool → St → Res
  | [], tried, st => if notFoundRaised tried ign then .error [.templateNotFound] else .ok ([], st)
  | none :: _, _, _ => .error [.invalidOperation]          -- template name was not a string
  | some t :: rest, _, st =>
    match env[t]? with
    | none => performInclude env rec cur disc ign outer rest true st
    | some T =>
      -- only `TemplateNotFound` makes `perform_include` try the next name (and is forgiven by
      -- `ignore missing`); any other lookup failure is returned as it is
      match T.loadErr with
      | some k => .error [loadErrKind t k]
      | none =>
      if outer + INCLUDE_COST + st.frames.length > LIMIT then .error [.invalidOperation]   -- incr_depth
      else
        let fl := st.frames.length
        -- `take_closure` … `reset_closure`: the included file runs in the includer's frame but
        -- with the frame's closure detached (it opens a closure of its own if it needs one)
        match rec cur disc false (outer + INCLUDE_COST) T.ae T.layout
            { st with blocks := prepare T.blocks, depth := fun _ => 0, loaded := [],
                      frames := st.frames.setTopClosure none } with
        | .error e => .error (.badInclude :: e)
        | .ok (o, st') =>
          .ok (o, { blocks := st.blocks, depth := st.depth, loaded := st.loaded,
                    frames := (st'.frames.take fl).setTopClosure st.frames.topClosure })

/-- what `perform_include` does with a template it found: run it as a chain of its own (fresh
    block table, empty loaded set) on the includer's frames with the frame's closure detached,
    at `INCLUDE_RECURSION_COST` more depth, in the template's own auto-escape mode; wrap errors
    in `BadInclude`; restore the includer's block state and closure -/
def includeTemplate (rec : Rec) (cur : Option Nat) (disc : Bool) (outer : Nat) (T : Template) (st : St) : Res :=
  if outer + INCLUDE_COST + st.frames.length > LIMIT then .error [.invalidOperation]
  else
    match rec cur disc false (outer + INCLUDE_COST) T.ae T.layout
        { st with blocks := prepare T.blocks, depth := fun _ => 0, loaded := [],
                  frames := st.frames.setTopClosure none } with
    | .error e => .error (.badInclude :: e)
    | .ok (o, st') =>
      .ok (o, { blocks := st.blocks, depth := st.depth, loaded := st.loaded,
                frames := (st'.frames.take st.frames.length).setTopClosure st.frames.topClosure })

/-- the outcome of the candidate selection of an include -/
inductive Selection
  | render (t : Nat) (T : Template)      -- `t` is the first candidate that exists (and loads)
  | loadError (t : Nat) (k : LoadErr)    -- the first candidate that exists cannot be loaded
  | notAString                           -- a candidate that is not a string was reached first
  | nothing (tried : Bool)               -- no candidate exists; `tried`: a name was looked up

/-- the candidate-selection rule: walk the candidates in iteration order; a missing name is
    skipped (and remembered), the first name that exists decides -/
def select (env : Env) : List Cand → Bool → Selection
  | [], tried => .nothing tried
  | none :: _, _ => .notAString
  | some t :: rest, _ =>
    match env[t]? with
    | none => select env rest true
    | some T =>
      match T.loadErr with
      | some k => .loadError t k
      | none => .render t T

/-- `{% for v in vals %}body{% endfor %}`: PushLoop; per item: clear the loop frame's locals,
    StoreLocal(v), body; PopLoopFrame.  `run` evaluates the body. -/
def loopItems (run : St → Res) (v : Nat) (vals : List String) (fl : Nat) (st : St) : Res :=
  vals.foldl (fun (acc : Res) val =>
    match acc with
    | .error e => .error e
    | .ok (o, s) =>
      match run { s with frames := (s.frames.take fl).push [[(v, Val.str val)]] } with
      | .error e => .error e
      | .ok (o', s') => .ok (o ++ o', s')) (.ok ([], st))

/-- the loop body of `eval_impl` over one instruction list.  `parent` is the local
    `parent_instructions`; the result carries its final value (the switch to the parent happens
    in `evalImpl`). -/
def stepItems (rd : Rd) (rec : Rec) :
    Option (List Item) → List Item → St → Except Err (List String × St × Option (List Item))
  | parent, [], st => .ok ([], st, parent)
  | parent, it :: rest, st =>
    let ext := rd.ext0 || parent.isSome
    let disc := rd.disc0 || parent.isSome
    let continue_ (r : Res) := r.andThen (fun st' => stepItems rd rec parent rest st')
    match it with
    | .callBlock n =>
      if ext || disc then continue_ (.ok ([], st))
      else continue_ (callBlock rec disc rd.outer rd.ae n st)
    | .super => continue_ (performSuper rec rd.cur disc rd.outer rd.ae st)
    | .setSuper v =>
      -- CallFunction("super") ⇒ perform_super(capture = true): the output is captured (never
      -- discarding inside) and becomes the value
      match performSuper rec rd.cur false rd.outer rd.ae st with
      | .error e => .error e
      | .ok (o, st') => continue_ (.ok ([], { st' with frames := store st'.frames v (captured rd.ae o) }))
    | .setSelf v m =>
      -- BeginCapture(Capture); CallBlock(m); EndCapture; StoreLocal(v)
      if ext then continue_ (.ok ([], { st with frames := store st.frames v (captured rd.ae []) }))
      else
        match callBlock rec false rd.outer rd.ae m st with
        | .error e => .error e
        | .ok (o, st') => continue_ (.ok ([], { st' with frames := store st'.frames v (captured rd.ae o) }))
    | .extends exec t =>
      if !exec then continue_ (.ok ([], st))
      else if parent.isSome then .error [.invalidOperation]     -- tried to extend a second time
      else
        match loadBlocks rd.env t st with
        | .error e => .error e
        | .ok (st', layout) => stepItems rd rec (some layout) rest st'
    | .incl a ign => continue_ (performInclude rd.env rec rd.cur disc ign rd.outer (choices a) false st)
    | .importAs a v =>
      -- BeginCapture(Capture); PushWith; Include(false); EndCapture; ExportLocals; PopFrame; store
      if pushFails rd.outer st.frames then .error [.invalidOperation]
      else
        let fl := st.frames.length
        match performInclude rd.env rec rd.cur false false rd.outer (choices a) false { st with frames := st.frames.push [[]] } with
        | .error e => .error e
        | .ok (_, st') =>
          let m := Val.module (dedupKeys (topFrame st'.frames))
          continue_ (.ok ([], { st' with frames := store (st'.frames.take fl) v m }))
    | .fromImport a name alias =>
      -- BeginCapture(Discard); PushWith; Include(false); ExportLocals; PopFrame; GetAttr; store
      if pushFails rd.outer st.frames then .error [.invalidOperation]
      else
        let fl := st.frames.length
        match performInclude rd.env rec rd.cur true false rd.outer (choices a) false { st with frames := st.frames.push [[]] } with
        | .error e => .error e
        | .ok (_, st') =>
          let x := (lookupVal name (topFrame st'.frames)).getD .undef
          continue_ (.ok ([], { st' with frames := store (st'.frames.take fl) alias x }))
    | .loop v vals body =>
      if body.any isExtends then .error [.unsupported]
      else if pushFails rd.outer st.frames then .error [.invalidOperation]
      else
        let fl := st.frames.length
        match loopItems (rec rd.cur disc ext rd.outer rd.ae body) v vals fl { st with frames := st.frames.push [[]] } with
        | .error e => .error e
        | .ok (o, s) => continue_ (.ok (o, { s with frames := s.frames.take fl }))
    | .inMacro m arg val body =>
      if body.any isExtends then .error [.unsupported]
      else
        -- BuildMacro + StoreLocal(m); the call runs the body in a fresh context (root context +
        -- arguments; depth = caller's depth + MACRO_RECURSION_COST), `current_block = None`,
        -- `BlockState::Isolate`, output captured then emitted
        let st1 := { st with frames := store st.frames m .opaque }
        let outer' := rd.outer + st1.frames.length + MACRO_COST
        if outer' + 2 > LIMIT then .error [.invalidOperation]
        else
          match rec none false false outer' rd.ae body { st1 with frames := st1.frames.macroCtx arg (.str val) } with
          | .error e => .error e
          | .ok (o, _) => continue_ (.ok (if disc then [] else o, st1))
    | .badTarget => .error [.invalidOperation]     -- template name was not a string
    | .autoesc m body =>
      -- PushAutoEscape … PopAutoEscape inside the same activation (no frame, no depth); blocks
      -- nested directly in one another are followed up to `AE_NEST_MAX` deep
      if body.any isExtends || decide (AE_NEST_MAX ≤ aeDepthL body) then .error [.unsupported]
      else continue_ (rec rd.cur disc ext rd.outer m body st)
    | it =>
      match varItem rd.cfg disc rd.ae it st.frames with
      | some (.ok (o, fs)) => continue_ (.ok (o, { st with frames := fs }))
      | some (.error e) => .error e
      | none => .error [.unsupported]

/-- `eval_impl`: run the instructions; when they end and a parent was remembered by `LoadBlocks`,
    stop discarding and run the parent's instructions.  Fuel = remaining nesting depth of the
    *model* (the engine's own bound is the recursion limit above; with enough fuel the model
    never runs out, see `MJ.C06.rendering_terminates`). -/
def evalImpl (env : Env) (rootCtx : Cfg) : Nat → Rec
  | 0 => fun _ _ _ _ _ _ _ => .error [.recursion]
  | fuel + 1 => fun cur disc ext outer ae items st =>
    match stepItems ⟨env, rootCtx, cur, disc, ext, outer, ae⟩ (evalImpl env rootCtx fuel) none items st with
    | .error e => .error e
    | .ok (o, st', none) => .ok (o, st')
    | .ok (o, st', some p) =>
      match evalImpl env rootCtx fuel cur disc ext outer ae p st' with
      | .error e => .error e
      | .ok (o', st'') => .ok (o ++ o', st'')

/-- the state `Template::render` starts from (`State::new` + `prepare_blocks`) -/
def initSt (T : Template) : St :=
  { blocks := prepare T.blocks, depth := fun _ => 0, loaded := [], frames := Vars.init }

/-- `Template::render` of template `main` -/
def render (env : Env) (rootCtx : Cfg) (fuel : Nat) (main : Nat) : Except Err (List String) :=
  match env[main]? with
  | none => .error [.templateNotFound]
  | some T =>
    match T.loadErr with
    | some k => .error [loadErrKind main k]
    | none =>
    match evalImpl env rootCtx fuel none false false 0 T.ae T.layout (initSt T) with
    | .error e => .error e
    | .ok (o, _) => .ok o

/-- `Template::render_captured(ctx)` followed by `State::render_block(name)` on the captured
    state: the block is called on the state the render left behind (all blocks of the chain
    loaded, cursors at 0, the root frame with the top-level assignments) -/
def renderThenBlock (env : Env) (cfg : Cfg) (fuel : Nat) (main n : Nat) : Except Err (List String) :=
  match env[main]? with
  | none => .error [.templateNotFound]
  | some T =>
    match T.loadErr with
    | some k => .error [loadErrKind main k]
    | none =>
    match evalImpl env cfg fuel none false false 0 T.ae T.layout (initSt T) with
    | .error e => .error e
    | .ok (_, st) =>
      match callBlock (evalImpl env cfg fuel) false 0 T.ae n st with
      | .error e => .error e
      | .ok (o, _) => .ok o

/-- `Template::new_state().render_block(name)`: the block is called on a fresh state (only the
    template's own blocks, no frame, no root context) -/
def blockOnFreshState (env : Env) (cfg : Cfg) (fuel : Nat) (main n : Nat) : Except Err (List String) :=
  match env[main]? with
  | none => .error [.templateNotFound]
  | some T =>
    match T.loadErr with
    | some k => .error [loadErrKind main k]
    | none =>
    match callBlock (evalImpl env { cfg with rootCtx := [] } fuel) false 0 T.ae n { initSt T with frames := Vars.empty } with
    | .error e => .error e
    | .ok (o, _) => .ok o

end MJ.Blocks
