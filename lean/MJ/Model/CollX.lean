import MJ.Model.CollV
import MJ.Model.Num
import MJ.Gen.Tables
/-!
# More of the collection builtins on template values (C07)

What `MJ.CollV` left to the oracle, transcribed from `filters.rs`, `value/mod.rs`, `value/merge_object.rs`,
`tests.rs` and `minijinja-contrib/src/pycompat.rs`:

* attribute *paths* (`Value::get_path`, `get_path_or_default`: dotted names and all-digit index parts) as the
  key function of `sort` / `unique` / `groupby` / `selectattr` / `map(attribute=..)`, and the composite key of
  `sort(attribute="a, b")`;
* `sum` (the fold of the C08 integer addition from `0`), `zip`, `chain` (`MergeSeq` / `MergeDict`), `items`,
  `list`, the pycompat methods `dict.get/keys/values/items` and `list.count`;
* the `sameas` test;
* `Value::reverse` arm by arm (`Enumerator` variant → reversed or not, regenerated from the source), `last`;
* the parts of `Ord` / `PartialEq` / `Hash` that sit outside `V`: invalid values, plain objects with object
  identity and a user `custom_cmp`.
-/
namespace MJ.CollX
open MJ MJ.Val MJ.Cmp MJ.Coll MJ.CollV

/-! ## strings as sequences of characters -/

/-- a UTF-8 continuation byte -/
def isCont (b : Nat) : Bool := decide (128 ≤ b ∧ b < 192)

/-- `str::chars()` on well-formed UTF-8: every lead byte with the continuation bytes that follow it -/
def utf8Chars (s : List Nat) : List (List Nat) :=
  (s.foldr (fun b (acc : List Nat × List (List Nat)) =>
    if isCont b then (b :: acc.1, acc.2) else ([], (b :: acc.1) :: acc.2)) ([], [])).2

/-! ## attribute paths -/

/-- one part of a dotted path: a name, or an all-digit part (`part.parse::<usize>()` succeeds) -/
inductive PathPart where
  | name (s : List Nat)
  | idx (n : Nat)
  deriving Repr, DecidableEq

/-- `Value::get_attr(name)`; `none` = `Err(UndefinedError)` -/
def getAttr (m : Mode) (name : List Nat) : V → Option V
  | .undef => Option.none
  | .map ps => some ((getByStr m ps name).getD .undef)
  | _ => some .undef

/-- `Value::get_item_by_index(n)` = `get_item(&U64(n))`; `none` = `Err(UndefinedError)` -/
def getIdx (m : Mode) (n : Nat) : V → Option V
  | .undef => Option.none
  | .seq xs => some (xs.getD n .undef)
  | .tuple xs => some (xs.getD n .undef)
  | .iter xs => some (xs.getD n .undef)
  | .map ps => some ((getV m ps (.num (.u64 n))).getD .undef)
  | .str s => some (((utf8Chars s)[n]?.map V.str).getD .undef)
  | _ => some .undef

/-- `Value::get_path(path)`; `none` = `Err` -/
def getPath (m : Mode) : List PathPart → V → Option V
  | [], v => some v
  | .name s :: rest, v => (getAttr m s v).bind (getPath m rest)
  | .idx n :: rest, v => (getIdx m n v).bind (getPath m rest)

/-- `Value::get_path_or_default(path, default)`: a failed lookup and an undefined result give the default -/
def pathOr (m : Mode) (path : List PathPart) (dflt : V) (x : V) : V :=
  match getPath m path x with
  | some .undef => dflt
  | some v => v
  | Option.none => dflt

/-- `sort(attribute=path)` with one path -/
def sortPathV (m : Mode) (cs rev : Bool) (path : List PathPart) (xs : List V) : List V :=
  sortKV cs rev (pathOr m path .undef) xs

/-- the key of `sort(attribute="p1, p2, …")`: `Value::from_iter` of the path values -/
def keyMultiP (m : Mode) (paths : List (List PathPart)) (x : V) : V :=
  .seq (paths.map (fun p => pathOr m p .undef x))

def sortMultiPathV (m : Mode) (cs rev : Bool) (paths : List (List PathPart)) (xs : List V) : List V :=
  sortKV cs rev (keyMultiP m paths) xs

/-- the key `unique` memorises for an item, for an arbitrary key function -/
def memoKey (lower : List Nat → List Nat) (cs : Bool) (kf : V → V) (x : V) : V :=
  match kf x with
  | .str s => if cs then .str s else .str (lower s)
  | v => v

/-- `unique(attribute=path)` -/
def uniquePathV (m : Mode) (lower : List Nat → List Nat) (cs : Bool) (path : List PathPart) (xs : List V) : List V :=
  uniqueLoop cmpV (memoKey lower cs (pathOr m path .undef)) xs []

/-- `groupby(path, default)` -/
def groupbyPathV (m : Mode) (cs : Bool) (path : List PathPart) (dflt : V) (xs : List V) : List (V × List V) :=
  groupLoop (cmpHelper cs false) (pathOr m path dflt)
    (xs.mergeSort (fun a b => cmpHelper cs false (pathOr m path dflt a) (pathOr m path dflt b) != .gt))
    Option.none []

/-! ## sum -/

/-- the integer representations as C08 models them (`none` for a float) -/
def toRepr : N → Option MJ.Num.NumRepr
  | .u64 n => some (.u64 n)
  | .i64 n => some (.i64 n)
  | .u128 n => some (.u128 n)
  | .i128 n => some (.i128 n)
  | .f64 _ => Option.none

def ofRepr : MJ.Num.NumRepr → N
  | .u64 n => .u64 n
  | .i64 n => .i64 n
  | .u128 n => .u128 n
  | .i128 n => .i128 n

/-- the loop of `filters::sum`: an undefined item is skipped, an item that is not a number is an error,
    an integer is added with `ops::add` (C08's `MJ.Num.add`).  `none` = a float item (float addition is
    outside this model). -/
def sumFrom (acc : MJ.Num.NumRepr) : List V → Option (Out MJ.Num.NumRepr)
  | [] => some (.ok acc)
  | .undef :: xs => sumFrom acc xs
  | .num n :: xs =>
    match toRepr n with
    | some r =>
      match MJ.Num.add acc r with
      | .ok a => sumFrom a xs
      | .err => some .error
    | Option.none => Option.none
  | _ :: _ => some .error

/-- `filters::sum(values)` on the items of `values`, starting from `Value::from(0)` -/
def sumV (xs : List V) : Option (Out MJ.Num.NumRepr) := sumFrom (.i64 0) xs

/-- the integer items of a list (what `sum` adds up) -/
def intItems : List V → List MJ.Num.NumRepr
  | [] => []
  | .num n :: xs => (match toRepr n with | some r => [r] | Option.none => []) ++ intItems xs
  | _ :: xs => intItems xs

/-- only undefined items and integers -/
def SumOK : List V → Prop
  | [] => True
  | .undef :: xs => SumOK xs
  | .num n :: xs => (toRepr n).isSome = true ∧ SumOK xs
  | _ :: _ => False

/-! ## zip / chain / items / list -/

/-- the number of rounds of `zip`: the length of the shortest operand (no operand: none) -/
def zipRounds : List (List V) → Nat
  | [] => 0
  | xs :: rest => rest.foldl (fun n ys => min n ys.length) xs.length

/-- the closure of `filters::zip`: one tuple per round, round `i` takes item `i` of every operand, until the
    first operand is exhausted -/
def zipV (xss : List (List V)) : List (List V) :=
  (List.range (zipRounds xss)).map (fun i => xss.map (fun xs => xs.getD i .undef))

/-- `known_len` of `zip`: the minimum of the operands' lengths when every one of them is known -/
def minLen : Option Nat → Option Nat → Option Nat
  | some a, some b => some (min a b)
  | _, _ => Option.none

def zipKnownLen : List (Option Nat) → Option Nat
  | [] => Option.none
  | l :: rest => rest.foldl minLen l

/-- iterating a `MergeSeq` (`chain` of sequences / iterables): the operands' items one after the other -/
def chainSeq (xss : List (List V)) : List V := xss.flatten

/-- `MergeSeq::total_len`: `values.iter().map(|v| v.len()).sum::<Option<usize>>()` -/
def addLen : Option Nat → Option Nat → Option Nat
  | some a, some b => some (a + b)
  | _, _ => Option.none

def chainLen (ls : List (Option Nat)) : Option Nat := ls.foldl addLen (some 0)

/-- `MergeSeq::get_value(idx)` (operands of known length): walk the operands, subtracting their lengths -/
def chainIdx : List (List V) → Nat → Option V
  | [], _ => Option.none
  | xs :: rest, i => if i < xs.length then xs[i]? else chainIdx rest (i - xs.length)

/-- `MergeDict::enumerate`: the `BTreeSet` of all keys of all operands (key order; of several `Equal` keys
    the first one met is kept) -/
def chainKeys (maps : List (List (V × V))) : List V :=
  ((maps.flatMap (fun ps => ps.map Prod.fst)).foldl (fun acc k =>
    if acc.any (fun p => cmpV k p.1 == .eq) then acc else insertB k .none acc) []).map Prod.fst

/-- `MergeDict::get_value(key)`: the last operand that has a defined value for the key wins; a key whose
    entries all hold undefined values is still found, as undefined (fix 276e6ac; the laws are in `MJ.CollD`) -/
def chainGet (m : Mode) (maps : List (List (V × V))) (k : V) : Option V :=
  match maps.reverse.findSome? (fun ps =>
      match getV m ps k with
      | some .undef => Option.none
      | some v => some v
      | Option.none => Option.none) with
  | some v => some v
  | Option.none => if maps.any (fun ps => (getV m ps k).isSome) then some .undef else Option.none

/-- `filters::items(map)`: the `(key, value)` tuples in iteration order -/
def itemsV (ps : List (V × V)) : List V := ps.map (fun p => V.tuple [p.1, p.2])

/-- the pairs back out of an `items` list -/
def pairsOf : List V → List (V × V)
  | [] => []
  | .tuple [k, v] :: rest => (k, v) :: pairsOf rest
  | _ :: rest => pairsOf rest

/-- `filters::list(value)` = the items `try_iter` yields (`none` = `Err`: the value is not iterable) -/
def listV : V → Option (List V)
  | .undef => some []
  | .none => some []
  | .str s => some ((utf8Chars s).map V.str)
  | .seq xs => some xs
  | .tuple xs => some xs
  | .iter xs => some xs
  | .map ps => some (ps.map Prod.fst)
  | _ => Option.none

/-! ## the Python-style methods of `minijinja-contrib::pycompat` -/

/-- `d.get(key[, default])` -/
def dictGet (m : Mode) (ps : List (V × V)) (k : V) (dflt : Option V) : V :=
  match getV m ps k with
  | some v => v
  | Option.none => dflt.getD .none

def dictKeys (ps : List (V × V)) : List V := ps.map Prod.fst
def dictValues (ps : List (V × V)) : List V := ps.map Prod.snd
def dictItems (ps : List (V × V)) : List V := itemsV ps

/-- `xs.count(x)` -/
def countV (m : Mode) (xs : List V) (x : V) : Nat := (xs.filter (fun y => eqV m y x)).length

/-! ## the `sameas` test -/

def isObj : V → Bool
  | .seq _ => true
  | .tuple _ => true
  | .iter _ => true
  | .map _ => true
  | .plain _ => true
  | _ => false

/-- `Value::is_integer` -/
def isInteger : V → Bool
  | .num n => !n.isFloat
  | _ => false

/-- `tests::is_sameas`; `sameObj` = the two values hold the same object (`is_same_object`) -/
def sameasV (m : Mode) (sameObj : Bool) (a b : V) : Bool :=
  if isObj a && isObj b then sameObj
  else if isObj a || isObj b then false
  else a.kindName == b.kindName && isInteger a == isInteger b && eqV m a b

/-! ## `Value::reverse`, arm by arm -/

/-- the variants of `Enumerator` -/
inductive EnumVar where
  | nonEnumerable | empty | str | iter | revIter | keyValueIter | revKeyValueIter | seq | values
  deriving Repr, DecidableEq

def EnumVar.name : EnumVar → String
  | .nonEnumerable => "NonEnumerable"
  | .empty => "Empty"
  | .str => "Str"
  | .iter => "Iter"
  | .revIter => "RevIter"
  | .keyValueIter => "KeyValueIter"
  | .revKeyValueIter => "RevKeyValueIter"
  | .seq => "Seq"
  | .values => "Values"

def allEnumVars : List EnumVar :=
  [.nonEnumerable, .empty, .str, .iter, .revIter, .keyValueIter, .revKeyValueIter, .seq, .values]

/-- `Value::reverse` on an object whose enumerator is of variant `v` and yields `items`: what the first walk
    of the result yields.  Whether an arm reverses is read from the regenerated `MJ.Gen.reverseArms`
    (`reversed`: the arm calls `.rev()` / `Vec::reverse`; `forward`: it hands the iterator on as it is;
    `empty`: an empty iterable; `error`: `None` → `Err`). -/
def reverseEnum {α : Type} (v : EnumVar) (items : List α) : Option (List α) :=
  match MJ.Gen.reverseArms.lookup v.name with
  | some "reversed" => some items.reverse
  | some "forward" => some items
  | some "empty" => some []
  | _ => Option.none

/-- `filters::last` on sequences / iterables: the first item of `value.reverse()` -/
def lastEnum {α : Type} (v : EnumVar) (items : List α) : Option (Option α) :=
  (reverseEnum v items).map List.head?

/-! ## outside `V`: invalid values, plain objects with identity and `custom_cmp` -/

/-- `Value::from(Error)` as `Ord` / `==` / `Hash` see it: the `ErrorKind` discriminant and the detail text -/
structure Inv where
  kind : Nat
  detail : Option (List Nat)
  deriving Repr, DecidableEq

/-- `Option<&str>::cmp` -/
def cmpOptBytes : Option (List Nat) → Option (List Nat) → Ordering
  | Option.none, Option.none => .eq
  | Option.none, some _ => .lt
  | some _, Option.none => .gt
  | some x, some y => cmpBytes x y

/-- the `Invalid`/`Invalid` arm of `Ord`: `(kind as usize, detail).cmp(..)` -/
def cmpInv (a b : Inv) : Ordering := (compare a.kind b.kind).then (cmpOptBytes a.detail b.detail)
/-- the `Invalid`/`Invalid` arm of `==` -/
def eqInv (a b : Inv) : Bool := a.kind == b.kind && a.detail == b.detail
/-- what `Hash` feeds for an invalid value: `(kind, detail).hash(state)` -/
def hkeyInv (a : Inv) : Nat × Option (List Nat) := (a.kind, a.detail)

/-- a plain object: `id` = the allocation (`is_same_object`), `ty` = its Rust type (`is_same_object_type`),
    `ckey` = what its `custom_cmp` compares by (`none`: no `custom_cmp`), `text` = its rendering -/
structure PObj where
  id : Nat
  ty : Nat
  ckey : Option Int
  text : List Nat
  deriving Repr, DecidableEq

/-- `a.custom_cmp(b)` for two objects of the same type -/
def customCmp (a b : PObj) : Option Ordering :=
  match a.ckey, b.ckey with
  | some x, some y => some (compare x y)
  | _, _ => Option.none

/-- the object part of `Ord::cmp` for plain objects: identity, then `custom_cmp` for objects of the same
    type, then the renderings -/
def cmpPObj (a b : PObj) : Ordering :=
  if a.id = b.id then .eq
  else if a.ty = b.ty then
    match customCmp a b with
    | some o => o
    | Option.none => cmpBytes a.text b.text
  else cmpBytes a.text b.text

/-- the object part of `PartialEq::eq` for plain objects -/
def eqPObj (a b : PObj) : Bool :=
  if a.id = b.id then true
  else if a.ty = b.ty then
    match customCmp a b with
    | some o => o == .eq
    | Option.none => a.text == b.text
  else a.text == b.text

end MJ.CollX
