import MJ.Model.Bal
/-!
# The scope-relevant part of the code generator (C05)

Model of `minijinja/src/compiler/codegen.rs: compile_stmt` (after fix 778ebf9) restricted to what
matters for the balance of frames / captures / auto-escape entries.

* `Stmt`: the statement AST.  Everything that compiles to straight-line instructions without an
  effect on the three stacks (text, `{{ expr }}`, `set x = …`, `do`, `include`, block references
  = `CallBlock`, the expression parts of the other statements) is `simple` — a list of `other`,
  `callFunction` and `fastRecurse` instructions — or a count of `other` instructions inside a
  compound statement.  Expressions with internal jumps (`and`/`or`, `x if c else y`, chained
  comparisons, macro argument defaults) are outside the fragment.
* `Ctx`: what the generator finds on its `pending_block` stack when it compiles `break` /
  `continue`: the innermost pending loop (pc of its `Iterate`, pc of its end) and the scopes opened
  since (`PendingBlock::Scope`, innermost first) — `leave_scopes_of_innermost_loop`.
* `comp`: the generator.  The Rust back-patches jump targets once the end of a block is known;
  here the targets are computed from the sizes of the blocks (`size`), the result is the same
  absolute targets (checked against the real instruction streams by the harness / `drive_c05`).
  `comp` emits every instruction together with the abstract state before it: code and certificate
  at once.
* `ok`: where the parser accepts `break`/`continue` (`in_loop`: set by a `for` body, handed through
  to its `else` body from outside, reset by macro and call bodies).
-/
namespace MJ.BalGen
open MJ.Bal

/-- `PendingScope` -/
inductive Scope where
  | withS
  | capture
  | autoEscape
  deriving DecidableEq, Repr

structure Ctx where
  /-- innermost `PendingBlock::Loop`: (pc of `Iterate`, pc of the loop end) -/
  loop : Option (Nat × Nat)
  /-- `PendingBlock::Scope`s above that loop, innermost first -/
  scopes : List Scope
  deriving Repr

inductive Stmt where
  | skip
  | seq (a b : Stmt)
  /-- straight-line, state-preserving instructions -/
  | simple (is : List Instr)
  /-- an expression with internal jumps (`and` / `or`, `a if c else b`, chained comparisons, the
  default of a macro argument): straight-line instructions and (conditional) jumps whose targets
  are given *relative to the start* of the expression and stay within it -/
  | flat (is : List Instr)
  /-- `if` with an empty false body; `ncond` instructions of the condition -/
  | ifS (ncond : Nat) (thn : Stmt)
  /-- `if` with a non-empty false body (`elif` is an `if` in the false body) -/
  | ifElse (ncond : Nat) (thn els : Stmt)
  /-- `for` with an empty else body: `npre` instructions of the iterable, `ntarget` of the
  assignment.  (A filtered loop is the accumulation loop — itself a `forS` with an `ifElse` body —
  followed by this.) -/
  | forS (withVar recursive : Bool) (npre ntarget : Nat) (body : Stmt)
  /-- `for` with a non-empty else body -/
  | forElse (withVar recursive : Bool) (npre ntarget : Nat) (body els : Stmt)
  | withS (nassign : Nat) (body : Stmt)
  /-- set block and filter block: `BeginCapture body EndCapture` + `npost` instructions -/
  | capture (body : Stmt) (npost : Nat)
  | autoEscape (npre : Nat) (body : Stmt)
  /-- `compile_macro_expression` (+ what follows): `Jump; args; body; Return; Enclose…; BuildMacro; …` -/
  | macroS (nargs : Nat) (body : Stmt) (nenc nafter : Nat)
  /-- `import` / `from … import`: `BeginCapture PushWith … Include EndCapture ExportLocals PopFrame …` -/
  | importS (nexpr nafter : Nat)
  | breakS
  | continueS
  deriving Repr

abbrev ACode := List (Instr × AbsState)

/-- relative jump targets made absolute -/
def shift (b : Nat) : Instr → Instr
  | .jump t => .jump (b + t)
  | .jumpIfFalse t => .jumpIfFalse (b + t)
  | .jumpIfFalseOrPop t => .jumpIfFalseOrPop (b + t)
  | .jumpIfTrueOrPop t => .jumpIfTrueOrPop (b + t)
  | i => i

def others (n : Nat) (σ : AbsState) : ACode := List.replicate n (.other, σ)

def pushW (σ : AbsState) : AbsState := { σ with frames := .withF :: σ.frames }
def pushL (pc : Nat) (v r : Bool) (σ : AbsState) : AbsState := { σ with frames := .loopF pc v r :: σ.frames }
def pushC (σ : AbsState) : AbsState := { σ with caps := σ.caps + 1 }
def pushE (σ : AbsState) : AbsState := { σ with escs := σ.escs + 1 }

def applyScope : Scope → AbsState → AbsState
  | .withS, σ => pushW σ
  | .capture, σ => pushC σ
  | .autoEscape, σ => pushE σ

/-- the state inside the scopes (innermost first) opened on top of `σ` -/
def applyScopes : List Scope → AbsState → AbsState
  | [], σ => σ
  | sc :: rest, σ => applyScope sc (applyScopes rest σ)

def popScope : Scope → AbsState → AbsState
  | .withS, σ => { σ with frames := σ.frames.tail }
  | .capture, σ => { σ with caps := σ.caps - 1 }
  | .autoEscape, σ => { σ with escs := σ.escs - 1 }

/-- `leave_scopes_of_innermost_loop`: `PopFrame` / `EndCapture DiscardTop` / `PopAutoEscape`,
innermost first; returns the code and the state after it -/
def cleanup : List Scope → AbsState → ACode × AbsState
  | [], σ => ([], σ)
  | .withS :: rest, σ =>
    let r := cleanup rest (popScope .withS σ)
    ((.popFrame, σ) :: r.1, r.2)
  | .capture :: rest, σ =>
    let r := cleanup rest (popScope .capture σ)
    ((.endCapture, σ) :: (.other, popScope .capture σ) :: r.1, r.2)
  | .autoEscape :: rest, σ =>
    let r := cleanup rest (popScope .autoEscape σ)
    ((.popAutoEscape, σ) :: r.1, r.2)

def cleanupLen : List Scope → Nat
  | [] => 0
  | .withS :: rest => 1 + cleanupLen rest
  | .capture :: rest => 2 + cleanupLen rest
  | .autoEscape :: rest => 1 + cleanupLen rest

/-- number of instructions a statement compiles to (`sc`: open scopes since the innermost loop,
`hl`: is there a pending loop) -/
def size (sc : List Scope) (hl : Bool) : Stmt → Nat
  | .skip => 0
  | .seq a b => size sc hl a + size sc hl b
  | .simple is => is.length
  | .flat is => is.length
  | .ifS n t => n + 1 + size sc hl t
  | .ifElse n t e => n + 1 + size sc hl t + 1 + size sc hl e
  | .forS _ _ npre nt body => npre + 2 + nt + size [] true body + 1 + 1
  | .forElse _ _ npre nt body e => npre + 2 + nt + size [] true body + 1 + 2 + 1 + size sc hl e
  | .withS n body => 1 + n + size (.withS :: sc) hl body + 1
  | .capture body npost => 1 + size (.capture :: sc) hl body + 1 + npost
  | .autoEscape npre body => npre + 1 + size (.autoEscape :: sc) hl body + 1
  | .macroS nargs body nenc nafter => 1 + nargs + size sc hl body + 1 + nenc + 1 + nafter
  | .importS n m => 2 + n + 4 + m
  | .breakS => cleanupLen sc + 1
  | .continueS => cleanupLen sc + (if hl then 1 else 0)

/-- the code generator: instructions with the abstract state in front of each -/
def comp (Γ : Ctx) (b : Nat) (σ : AbsState) : Stmt → ACode
  | .skip => []
  | .seq a c => comp Γ b σ a ++ comp Γ (b + size Γ.scopes Γ.loop.isSome a) σ c
  | .simple is => is.map (fun i => (i, σ))
  | .flat is => is.map (fun i => (shift b i, σ))
  | .ifS n t =>
    others n σ ++ (.jumpIfFalse (b + n + 1 + size Γ.scopes Γ.loop.isSome t), σ) :: comp Γ (b + n + 1) σ t
  | .ifElse n t e =>
    let elseStart := b + n + 1 + size Γ.scopes Γ.loop.isSome t + 1
    others n σ ++ (.jumpIfFalse elseStart, σ) :: comp Γ (b + n + 1) σ t ++
      (.jump (elseStart + size Γ.scopes Γ.loop.isSome e), σ) :: comp Γ elseStart σ e
  | .forS v r npre nt body =>
    let t := b + npre
    let σL := pushL t v r σ
    let bodyStart := t + 2 + nt
    let loopEnd := bodyStart + size [] true body + 1
    others npre σ ++ (.pushLoop v r, σ) :: (.iterate loopEnd, σL) :: others nt σL ++
      comp ⟨some (t + 1, loopEnd), []⟩ bodyStart σL body ++
      [(.jump (t + 1), σL), (.popLoopFrame, σL)]
  | .forElse v r npre nt body e =>
    let t := b + npre
    let σL := pushL t v r σ
    let bodyStart := t + 2 + nt
    let loopEnd := bodyStart + size [] true body + 1
    let elseStart := loopEnd + 3
    others npre σ ++ (.pushLoop v r, σ) :: (.iterate loopEnd, σL) :: others nt σL ++
      comp ⟨some (t + 1, loopEnd), []⟩ bodyStart σL body ++
      [(.jump (t + 1), σL), (.pushDidNotIterate, σL), (.popLoopFrame, σL),
       (.jumpIfFalse (elseStart + size Γ.scopes Γ.loop.isSome e), σ)] ++
      comp Γ elseStart σ e
  | .withS n body =>
    (.pushWith, σ) :: others n (pushW σ) ++
      comp { Γ with scopes := .withS :: Γ.scopes } (b + 1 + n) (pushW σ) body ++ [(.popFrame, pushW σ)]
  | .capture body npost =>
    (.beginCapture, σ) :: comp { Γ with scopes := .capture :: Γ.scopes } (b + 1) (pushC σ) body ++
      (.endCapture, pushC σ) :: others npost σ
  | .autoEscape npre body =>
    others npre σ ++ (.pushAutoEscape, σ) ::
      comp { Γ with scopes := .autoEscape :: Γ.scopes } (b + npre + 1) (pushE σ) body ++
      [(.popAutoEscape, pushE σ)]
  | .macroS nargs body nenc nafter =>
    -- the macro body is compiled by the same generator (same `pending_block`); it is entered
    -- through `BuildMacro`'s offset with fresh stacks
    (.jump (b + 1 + nargs + size Γ.scopes Γ.loop.isSome body + 1), σ) :: others nargs AbsState.init ++
      comp Γ (b + 1 + nargs) AbsState.init body ++ (.ret, AbsState.init) :: others nenc σ ++
      (.buildMacro (b + 1), σ) :: others nafter σ
  | .importS n m =>
    (.beginCapture, σ) :: (.pushWith, pushC σ) :: others n (pushW (pushC σ)) ++
      [(.other, pushW (pushC σ)), (.endCapture, pushW (pushC σ)), (.other, pushW σ), (.popFrame, pushW σ)] ++
      others m σ
  | .breakS =>
    let c := cleanup Γ.scopes σ
    c.1 ++ [(.jump (match Γ.loop with | some (_, en) => en | none => 0), c.2)]
  | .continueS =>
    let c := cleanup Γ.scopes σ
    c.1 ++ (match Γ.loop with | some (it, _) => [(.jump it, c.2)] | none => [])

def simpleInstr : Instr → Bool
  | .other => true
  | .callFunction => true
  | .fastRecurse => true
  | _ => false

/-- what an expression may consist of: state-preserving instructions and jumps within it -/
def flatInstr (len : Nat) : Instr → Bool
  | .other => true
  | .callFunction => true
  | .fastRecurse => true
  | .jump t => decide (t ≤ len)
  | .jumpIfFalse t => decide (t ≤ len)
  | .jumpIfFalseOrPop t => decide (t ≤ len)
  | .jumpIfTrueOrPop t => decide (t ≤ len)
  | _ => false

/-- the parser's `in_loop` discipline (and the fragment restriction on `simple`) -/
def ok (inLoop : Bool) : Stmt → Bool
  | .skip => true
  | .seq a b => ok inLoop a && ok inLoop b
  | .simple is => is.all simpleInstr
  | .flat is => is.all (flatInstr is.length)
  | .ifS _ t => ok inLoop t
  | .ifElse _ t e => ok inLoop t && ok inLoop e
  | .forS _ _ _ _ body => ok true body
  | .forElse _ _ _ _ body e => ok true body && ok inLoop e
  | .withS _ body => ok inLoop body
  | .capture body _ => ok inLoop body
  | .autoEscape _ body => ok inLoop body
  | .macroS _ body _ _ => ok false body
  | .importS _ _ => true
  | .breakS => inLoop
  | .continueS => inLoop

/-- a template (or a block body, compiled by a sub-generator with an empty `pending_block`) -/
def compileTemplate (s : Stmt) : ACode := comp ⟨none, []⟩ 0 AbsState.init s

def codeOf (P : ACode) : Code := (P.map (·.1)).toArray

/-- the certificate the generator emits: the recorded state in front of every instruction and
`fin` at the end of the stream -/
def certOf (P : ACode) (fin : AbsState) : Cert := (P.map (fun x => some x.2) ++ [some fin]).toArray

/-! ## Skeletons: streams modulo `other` instructions

`other` instructions do nothing to the abstract machine; two streams with the same skeleton have the
same control flow over the balance-relevant instructions.  The driver compares the skeleton of the
model generator's output with the skeleton of the real instruction stream. -/

/-- number of non-`other` instructions in front of `pc` -/
def rank (code : List Instr) (pc : Nat) : Nat :=
  ((code.take pc).filter (fun i => i != Instr.other)).length

def retarget (code : List Instr) : Instr → Instr
  | .iterate t => .iterate (rank code t)
  | .jump t => .jump (rank code t)
  | .jumpIfFalse t => .jumpIfFalse (rank code t)
  | .jumpIfFalseOrPop t => .jumpIfFalseOrPop (rank code t)
  | .jumpIfTrueOrPop t => .jumpIfTrueOrPop (rank code t)
  | .buildMacro t => .buildMacro (rank code t)
  | i => i

def skeleton (code : List Instr) : List Instr :=
  (code.filter (fun i => i != Instr.other)).map (retarget code)

end MJ.BalGen
