/-!
# Balance of scopes, captures and auto-escape entries in instruction streams (C05)

`minijinja/src/compiler/instructions.rs` / `minijinja/src/vm/mod.rs: eval_impl`, abstracted to
what matters for balance.

* `Instr`: the instruction alphabet.  Every instruction of the real enum that touches neither the
  frame stack (`Context.stack`), nor the capture stack (`Output.capture_stack`), nor the
  auto-escape stack of the running activation, nor the program counter is `other` (this includes
  `CallBlock`, `FastSuper`, `Include`, `CallMethod`, `CallObject`, which run *another* activation
  of `eval_impl` on another region; that activation is certified on its own).  The operand stack is
  not tracked (C01).
* `VmState`/`step`: the abstract small-step machine of one activation.  It is *relative to the
  entry of the region*: the frames, captures and auto-escape entries that exist when the region is
  entered are not part of the state, so popping from an empty component means "the region discards
  something it did not create" and is the distinguished outcome `stuck`.  `stuck` is also the
  outcome of popping the wrong *kind* of frame (`PopFrame` on a loop frame — the engine would
  silently drop the loop; `PopLoopFrame`/`Iterate`/`PushDidNotIterate` with a `with` frame on top —
  the engine panics in `unwrap` or iterates the wrong loop).
* Recursive loops (`loop(...)`): `FastRecurse` and `CallFunction` on a loop object jump to the
  `PushLoop` of the loop and remember the return address in the new loop frame
  (`current_recursion_jump`); `PopLoopFrame` of such a frame jumps back (and ends the capture
  started by the `CallFunction` form).  `next_loop_recursion_jump` is consumed by the very next
  instruction (the `PushLoop` at the jump target), so jump + push are one step here.
* `checkCert`: the certificate checker.  A certificate assigns to program counters an abstract
  state (frame kinds with the pc of the `PushLoop` that created a loop frame, capture depth,
  auto-escape depth) relative to the region entry.  The checker verifies every CFG edge through
  `edges` and the exits.  Its soundness theorem is in `MJ/Props/C05.lean`.
* `inferCert`: an untrusted forward pass that proposes a certificate.
-/
namespace MJ.Bal

/-- balance-relevant instruction alphabet -/
inductive Instr where
  | other
  | pushWith
  | popFrame
  | pushLoop (withVar recursive : Bool)
  | iterate (t : Nat)
  | pushDidNotIterate
  | popLoopFrame
  | beginCapture
  | endCapture
  | pushAutoEscape
  | popAutoEscape
  | jump (t : Nat)
  | jumpIfFalse (t : Nat)
  | jumpIfFalseOrPop (t : Nat)
  | jumpIfTrueOrPop (t : Nat)
  | fastRecurse
  /-- `CallFunction`: an ordinary call, or — when the callee is the loop object of a live
  recursive loop — a capturing recursion -/
  | callFunction
  | ret
  | buildMacro (offset : Nat)
  deriving DecidableEq, Repr, Inhabited

abbrev Code := Array Instr

/-! ## The abstract machine -/

/-- a frame of `Context.stack` pushed by the running activation -/
inductive RFrame where
  | withF
  /-- `recTarget` = `Loop::recurse_jump_target`, `ret` = `LoopState::current_recursion_jump` -/
  | loopF (withVar : Bool) (recTarget : Option Nat) (ret : Option (Nat × Bool))
  deriving DecidableEq, Repr

structure VmState where
  pc : Nat
  frames : List RFrame
  /-- entries of `Output.capture_stack` pushed since the entry of the region -/
  caps : Nat
  /-- length of `auto_escape_stack` -/
  escs : Nat
  deriving DecidableEq, Repr

inductive Outcome where
  /-- the region pops something it did not push / of the wrong kind -/
  | stuck
  /-- end of the stream or `Return` -/
  | exit
  /-- all possible successor states (conditions and iterators are not modelled; an instruction
  that fails ends the run, which is covered because the theorem speaks about every reachable
  state) -/
  | next (succs : List VmState)
  deriving DecidableEq, Repr

/-- `Context::current_loop`: the recursion target of the innermost loop frame -/
def innermostLoop : List RFrame → Option (Option Nat)
  | [] => none
  | .withF :: fs => innermostLoop fs
  | .loopF _ r _ :: _ => some r

/-- recursion targets of the loops that are live in the activation -/
def liveTargets : List RFrame → List Nat
  | [] => []
  | .withF :: fs => liveTargets fs
  | .loopF _ (some t) _ :: fs => t :: liveTargets fs
  | .loopF _ none _ :: fs => liveTargets fs

def recOf (id : Nat) (r : Bool) : Option Nat := if r then some id else none

/-- jump to the `PushLoop` at `t` and execute it with the recursion return address -/
def recurseTo (code : Code) (s : VmState) (t : Nat) (capture : Bool) : Option VmState :=
  match code[t]? with
  | some (.pushLoop v r) =>
    some { pc := t + 1,
           frames := .loopF v (recOf t r) (some (s.pc + 1, capture)) :: s.frames,
           caps := if capture then s.caps + 1 else s.caps,
           escs := s.escs }
  | _ => none

def VmState.goto (s : VmState) (t : Nat) : VmState := { s with pc := t }
def VmState.fall (s : VmState) : VmState := { s with pc := s.pc + 1 }

def allSome {α : Type} : List (Option α) → Option (List α)
  | [] => some []
  | none :: _ => none
  | some a :: xs => match allSome xs with
    | some l => some (a :: l)
    | none => none

def step (code : Code) (s : VmState) : Outcome :=
  match code[s.pc]? with
  | none => .exit
  | some i =>
    match i with
    | .other => .next [s.fall]
    | .buildMacro _ => .next [s.fall]
    | .pushWith => .next [{ s.fall with frames := .withF :: s.frames }]
    | .popFrame =>
      match s.frames with
      | .withF :: fs => .next [{ s.fall with frames := fs }]
      | _ => .stuck
    | .pushLoop v r => .next [{ s.fall with frames := .loopF v (recOf s.pc r) none :: s.frames }]
    | .iterate t =>
      match s.frames with
      | .loopF _ _ _ :: _ => .next [s.fall, s.goto t]
      | _ => .stuck
    | .pushDidNotIterate =>
      match s.frames with
      | .loopF _ _ _ :: _ => .next [s.fall]
      | _ => .stuck
    | .popLoopFrame =>
      match s.frames with
      | .loopF _ _ none :: fs => .next [{ s.fall with frames := fs }]
      | .loopF _ _ (some (r, false)) :: fs => .next [{ s with pc := r, frames := fs }]
      | .loopF _ _ (some (r, true)) :: fs =>
        if s.caps = 0 then .stuck else .next [{ s with pc := r, frames := fs, caps := s.caps - 1 }]
      | _ => .stuck
    | .beginCapture => .next [{ s.fall with caps := s.caps + 1 }]
    | .endCapture => if s.caps = 0 then .stuck else .next [{ s.fall with caps := s.caps - 1 }]
    | .pushAutoEscape => .next [{ s.fall with escs := s.escs + 1 }]
    | .popAutoEscape => if s.escs = 0 then .stuck else .next [{ s.fall with escs := s.escs - 1 }]
    | .jump t => .next [s.goto t]
    | .jumpIfFalse t => .next [s.fall, s.goto t]
    | .jumpIfFalseOrPop t => .next [s.fall, s.goto t]
    | .jumpIfTrueOrPop t => .next [s.fall, s.goto t]
    | .fastRecurse =>
      match innermostLoop s.frames with
      | none => .next []            -- error: loop is unknown
      | some none => .next []       -- error: cannot recurse outside of recursive loop
      | some (some t) =>
        match recurseTo code s t false with
        | some s' => .next [s']
        | none => .stuck
    | .callFunction =>
      match allSome ((liveTargets s.frames).map (fun t => recurseTo code s t true)) with
      | some l => .next (s.fall :: l)
      | none => .stuck
    | .ret => .exit

/-- the entry points of the regions of a stream: pc 0 and the body of every macro -/
def macroEntries : List Instr → List Nat
  | [] => []
  | .buildMacro o :: is => o :: macroEntries is
  | _ :: is => macroEntries is

def entries (code : Code) : List Nat := 0 :: macroEntries code.toList

def initAt (e : Nat) : VmState := { pc := e, frames := [], caps := 0, escs := 0 }

/-- reachability in the abstract machine -/
inductive Reach (code : Code) : VmState → VmState → Prop where
  | refl (s : VmState) : Reach code s s
  | tail {s m l t} : Reach code s m → step code m = .next l → t ∈ l → Reach code s t

/-! ## Certificates -/

inductive FrameKind where
  | withF
  /-- `id` = pc of the `PushLoop` that created the frame -/
  | loopF (id : Nat) (withVar recursive : Bool)
  deriving DecidableEq, Repr

structure AbsState where
  frames : List FrameKind
  caps : Nat
  escs : Nat
  deriving DecidableEq, Repr

abbrev Cert := Array (Option AbsState)

def AbsState.init : AbsState := { frames := [], caps := 0, escs := 0 }

def look (cert : Cert) (pc : Nat) : Option AbsState :=
  match cert[pc]? with
  | some (some a) => some a
  | _ => none

/-- innermost loop of an abstract frame list: is it recursive? -/
def absInnermost : List FrameKind → Option Bool
  | [] => none
  | .withF :: fs => absInnermost fs
  | .loopF _ _ r :: _ => some r

/-- The CFG edges leaving `pc` with the abstract state each successor must carry; `none` when
the instruction is refused in state `A`. -/
def edges (cert : Cert) (pc : Nat) (i : Instr) (A : AbsState) : Option (List (Nat × AbsState)) :=
  match i with
  | .other => some [(pc + 1, A)]
  | .buildMacro _ => some [(pc + 1, A)]
  | .callFunction => some [(pc + 1, A)]
  | .pushWith => some [(pc + 1, { A with frames := .withF :: A.frames })]
  | .popFrame =>
    match A.frames with
    | .withF :: G => some [(pc + 1, { A with frames := G })]
    | _ => none
  | .pushLoop v r => some [(pc + 1, { A with frames := .loopF pc v r :: A.frames })]
  | .iterate t =>
    match A.frames with
    | .loopF _ _ _ :: _ => some [(pc + 1, A), (t, A)]
    | _ => none
  | .pushDidNotIterate =>
    match A.frames with
    | .loopF _ _ _ :: _ => some [(pc + 1, A)]
    | _ => none
  | .popLoopFrame =>
    match A.frames with
    | .loopF t _ r :: G =>
      -- a recursive loop must be left in exactly the state it was entered in
      if r = true ∧ look cert t ≠ some { frames := G, caps := A.caps, escs := A.escs } then none
      else some [(pc + 1, { A with frames := G })]
    | _ => none
  | .beginCapture => some [(pc + 1, { A with caps := A.caps + 1 })]
  | .endCapture => if A.caps = 0 then none else some [(pc + 1, { A with caps := A.caps - 1 })]
  | .pushAutoEscape => some [(pc + 1, { A with escs := A.escs + 1 })]
  | .popAutoEscape => if A.escs = 0 then none else some [(pc + 1, { A with escs := A.escs - 1 })]
  | .jump t => some [(t, A)]
  | .jumpIfFalse t => some [(pc + 1, A), (t, A)]
  | .jumpIfFalseOrPop t => some [(pc + 1, A), (t, A)]
  | .jumpIfTrueOrPop t => some [(pc + 1, A), (t, A)]
  | .fastRecurse =>
    match absInnermost A.frames with
    | some true => some [(pc + 1, A)]
    | _ => some []
  | .ret => if A = AbsState.init then some [] else none

/-- Every recursive loop frame sits exactly on the state its `PushLoop` was certified with, and
the capture / auto-escape depths are not below that state's (so the body of a recursive loop never
reaches below the loop). -/
def wsFrames (code : Code) (cert : Cert) : List FrameKind → Nat → Nat → Bool
  | [], _, _ => true
  | .withF :: G, c, e => wsFrames code cert G c e
  | .loopF _ _ false :: G, c, e => wsFrames code cert G c e
  | .loopF t v true :: G, c, e =>
    (match look cert t with
     | some B => decide (B.frames = G) && decide (B.caps ≤ c) && decide (B.escs ≤ e)
     | none => false)
    && decide (code[t]? = some (.pushLoop v true))
    && wsFrames code cert G c e

def checkPc (code : Code) (cert : Cert) (pc : Nat) : Bool :=
  match look cert pc with
  | none => true
  | some A =>
    wsFrames code cert A.frames A.caps A.escs &&
    (match code[pc]? with
     | none => decide (A = AbsState.init)      -- end of the stream
     | some i =>
       match edges cert pc i A with
       | none => false
       | some es => es.all (fun (p, B) => decide (look cert p = some B)))

def checkCert (code : Code) (cert : Cert) : Bool :=
  (entries code).all (fun e => decide (look cert e = some AbsState.init)) &&
  (List.range cert.size).all (fun pc => checkPc code cert pc)

/-! ## Untrusted inference of a certificate (forward propagation) -/

def propagate (code : Code) : Nat → List Nat → Cert → Cert
  | 0, _, cert => cert
  | _, [], cert => cert
  | fuel + 1, pc :: work, cert =>
    match look cert pc, code[pc]? with
    | some A, some i =>
      match edges cert pc i A with
      | none => propagate code fuel work cert
      | some es =>
        let (cert', work') := es.foldl (fun (acc : Cert × List Nat) (e : Nat × AbsState) =>
          if e.1 < acc.1.size ∧ look acc.1 e.1 = none then (acc.1.set! e.1 (some e.2), e.1 :: acc.2)
          else acc) (cert, work)
        propagate code fuel work' cert'
    | _, _ => propagate code fuel work cert

def inferCert (code : Code) : Cert :=
  let n := code.size + 1
  let es := (entries code).filter (· < n)
  let cert0 : Cert := es.foldl (fun c e => c.set! e (some AbsState.init)) (Array.replicate n none)
  propagate code (2 * n + 2) es cert0

/-- the verdict of the translation validation of one stream -/
def validate (code : Code) : Bool := checkCert code (inferCert code)

end MJ.Bal
