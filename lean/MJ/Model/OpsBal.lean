import MJ.Model.Bal
import MJ.Model.Ops
/-!
# Projection of the operand-stack machine (`MJ.Ops`) to the balance machine (`MJ.Bal`) (C05)

The two machines model the same activation of `eval_impl`; `projCode` forgets the operand effects of
the instructions, `proj` the operand height, the ghost fields and the recursion bookkeeping of a state.
The simulation theorem is in `MJ/Proofs/OpsBal.lean`.
-/
namespace MJ.OpsBal
open MJ

def projI : Ops.Instr → Bal.Instr
  | .eff _ _ => .other
  | .dyn => .other
  | .unpack _ => .other
  | .exportLocals => .other
  | .call _ => .callFunction
  | .callDyn => .callFunction
  | .pushWith => .pushWith
  | .popFrame => .popFrame
  | .pushLoop v r => .pushLoop v r
  | .iterate t => .iterate t
  | .pushDidNotIterate => .pushDidNotIterate
  | .popLoopFrame => .popLoopFrame
  | .beginCapture => .beginCapture
  | .endCapture => .endCapture
  | .pushAutoEscape => .pushAutoEscape
  | .popAutoEscape => .popAutoEscape
  | .jump t => .jump t
  | .jumpIfFalse t => .jumpIfFalse t
  | .jumpIfFalseOrPop t => .jumpIfFalseOrPop t
  | .jumpIfTrueOrPop t => .jumpIfTrueOrPop t
  | .fastRecurse => .fastRecurse
  | .ret => .ret
  | .buildMacro o => .buildMacro o

def projCode (c : Ops.Code) : Bal.Code := c.map projI

def projF : Ops.Frame → Bal.RFrame
  | .withF _ => .withF
  | .loopF l => .loopF l.withVar l.recTarget l.ret

def proj (s : Ops.State) : Bal.VmState :=
  { pc := s.pc, frames := s.frames.map projF, caps := s.caps.length, escs := s.escs.length }

end MJ.OpsBal
