import MJ.Gen.Tables
/-!
# Scope-stack discipline of compile-time passes (C01)

A pass such as the assignment tracker of `compiler/meta.rs` (`AssignmentTracker::assigned :
Vec<HashSet<_>>`, behind `find_macro_closure` — run while a template is LOADED, for every macro
and call block — and behind `undeclared_variables`) keeps a stack of scopes: `push()` =
`Vec::push`, `pop()` = `Vec::pop` (silent on an empty vector), `assign()` =
`last_mut().unwrap()`, which panics on an empty stack.  Whether the `unwrap` can fail depends on
nothing but the *height* of the stack, so the model of a function body is a program over heights
(`MJ.Gen.ScopeProg`, regenerated from the source text by `lib/tables/c01.py`):

* control flow is kept where scopes are pushed / popped (`branch` = either arm of an `if` /
  `match`, `loop` = a `for` / closure body any number of times); a function without any scope
  operation is over-approximated by "any number of its `need` / `call` events in any order";
* `call f` runs the body of function `f` of the table — the functions are mutually recursive
  (`track_walk` ↔ `tracker_visit_macro`), the semantics `Exec` is the inductive big-step relation, so
  every finite call tree (= every AST) is covered;
* `isolated` is `mem::replace(&mut state.assigned, vec![Default::default()])` … restore.

`chk` is the executable check: relative to the height at function entry every path of a function
pops only what it pushed, ends at the entry height, and `need` / `call` happen at or above it.
`MJ/Proofs/Scopes.lean` proves that a table all of whose functions pass `chk` never panics and
returns the stack as it found it, for every entry height ≥ 1.
-/
namespace MJ.Scopes
open MJ.Gen (ScopeProg)

/-- `Exec funs p h r`: program `p` started with a stack of height `h` can end with `r`;
`none` = a `need` was reached with an empty stack (Rust: `unwrap()` on `None`, a panic). -/
inductive Exec (funs : List ScopeProg) : ScopeProg → Nat → Option Nat → Prop
  | done {h} : Exec funs .done h (some h)
  | push {k h r} : Exec funs k (h + 1) r → Exec funs (.push k) h r
  /-- `Vec::pop` on an empty vector is silent: the height stays 0 -/
  | pop {k h r} : Exec funs k (h - 1) r → Exec funs (.pop k) h r
  | needOk {k h r} : 0 < h → Exec funs k h r → Exec funs (.need k) h r
  | needPanic {k} : Exec funs (.need k) 0 none
  | callPanic {f k h body} : funs[f]? = some body → Exec funs body h none → Exec funs (.call f k) h none
  | callOk {f k h h' r body} : funs[f]? = some body → Exec funs body h (some h') → Exec funs k h' r →
      Exec funs (.call f k) h r
  /-- a callee outside the table does not touch the stack -/
  | callExt {f k h r} : funs[f]? = none → Exec funs k h r → Exec funs (.call f k) h r
  | branchLPanic {a b k h} : Exec funs a h none → Exec funs (.branch a b k) h none
  | branchL {a b k h h' r} : Exec funs a h (some h') → Exec funs k h' r → Exec funs (.branch a b k) h r
  | branchRPanic {a b k h} : Exec funs b h none → Exec funs (.branch a b k) h none
  | branchR {a b k h h' r} : Exec funs b h (some h') → Exec funs k h' r → Exec funs (.branch a b k) h r
  | loopExit {body k h r} : Exec funs k h r → Exec funs (.loop body k) h r
  | loopPanic {body k h} : Exec funs body h none → Exec funs (.loop body k) h none
  | loopIter {body k h h' r} : Exec funs body h (some h') → Exec funs (.loop body k) h' r →
      Exec funs (.loop body k) h r
  | isoPanic {body k h} : Exec funs body 1 none → Exec funs (.isolated body k) h none
  | iso {body k h h' r} : Exec funs body 1 (some h') → Exec funs k h r → Exec funs (.isolated body k) h r

/-- the check of one segment: `d` = scopes pushed since function entry and not yet popped; the
result is that number at the end of the segment.  `pop` needs `d > 0` (only scopes the function
pushed itself), both arms of a branch must agree, a loop body and an isolated segment must be
neutral. -/
def chk : ScopeProg → Nat → Option Nat
  | .done, d => some d
  | .push k, d => chk k (d + 1)
  | .pop k, d => if d = 0 then none else chk k (d - 1)
  | .need k, d => chk k d
  | .call _ k, d => chk k d
  | .branch a b k, d =>
    match chk a d, chk b d with
    | some x, some y => if x = y then chk k x else none
    | _, _ => none
  | .loop body k, d => if chk body d = some d then chk k d else none
  | .isolated body k, d => if chk body 0 = some 0 then chk k d else none

/-- a function body is balanced: every path ends at the entry height -/
def balanced (p : ScopeProg) : Bool := chk p 0 == some 0

/-- every function of the table is balanced -/
def tableOk (funs : List ScopeProg) : Bool := funs.all balanced

/-- the entry points exist and create a non-empty stack -/
def entriesOk (funs : List ScopeProg) (entries : List (Nat × Nat)) : Bool :=
  !entries.isEmpty && entries.all (fun e => decide (e.1 < funs.length) && decide (0 < e.2))

/-- a deterministic run for the driver / examples: every branch takes its first arm when `left`,
every loop runs `n` times; `none` = panic; fuel bounds the call depth -/
def run (funs : List ScopeProg) (left : Bool) (n : Nat) : Nat → ScopeProg → Nat → Option Nat
  | 0, _, h => some h
  | fuel + 1, p, h =>
    match p with
    | .done => some h
    | .push k => run funs left n fuel k (h + 1)
    | .pop k => run funs left n fuel k (h - 1)
    | .need k => if h = 0 then none else run funs left n fuel k h
    | .call f k =>
      match funs[f]? with
      | some body => (run funs left n fuel body h).bind (fun h' => run funs left n fuel k h')
      | none => run funs left n fuel k h
    | .branch a b k => (run funs left n fuel (if left then a else b) h).bind (fun h' => run funs left n fuel k h')
    | .loop body k =>
      ((List.range n).foldl (fun acc _ => acc.bind (fun h' => run funs left n fuel body h')) (some h)).bind
        (fun h' => run funs left n fuel k h')
    | .isolated body k => (run funs left n fuel body 1).bind (fun _ => run funs left n fuel k h)

end MJ.Scopes
