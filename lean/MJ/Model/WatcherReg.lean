/-!
# `Notifier::with_fs_watcher` at lock granularity: `watch_path` from several threads, and the reload that
# throws the watcher away

```
watch_path(p):  [lock notifier]  w = fs_watcher.get_or_insert_with(|| new watcher).clone()  [unlock]     (get)
                [lock w]         w.watch(p)                                                  [unlock]     (reg)
prepare_and_mark_reload (full reload, no persistent_watch):  [lock notifier] fs_watcher.take() [unlock]   (drop)
```
The watcher has a mutex of its own (fix e3d615c): the call into it is made after the notifier mutex was
released, so between `get` and `reg` other threads run.  Any number of threads, any interleaving.
-/
namespace MJ.WatcherReg

inductive WThread where
  | wIdle (path : Nat)            -- `watch_path(path)` about to look the watcher up
  | wGot (path : Nat) (w : Nat)   -- holds a clone of watcher `w`'s Arc, about to call `w.watch(path)`
  | wDone
  | dIdle                         -- a reload about to `fs_watcher.take()`
  | dDone
  deriving DecidableEq, Repr

def WThread.initial : WThread → Bool
  | .wIdle _ => true
  | .dIdle => true
  | _ => false

structure WState where
  slot : Option Nat := none           -- `NotifierImpl.fs_watcher` (id of the watcher)
  next : Nat := 0                     -- watchers created so far (`recommended_watcher` calls)
  regs : List (Nat × Nat) := []       -- (watcher, path): `watch` calls made
  dropped : List Nat := []            -- watchers taken out by a reload
  drops : Nat := 0                    -- reloads that have done their `take()`
  threads : List WThread := []
  deriving Repr

def winit (ths : List WThread) : WState := { threads := ths }

def wstep (σ : WState) (i : Nat) : Option WState :=
  match σ.threads[i]? with
  | some (.wIdle p) =>
    match σ.slot with
    | some w => some { σ with threads := σ.threads.set i (.wGot p w) }
    | none => some { σ with slot := some σ.next, next := σ.next + 1,
                            threads := σ.threads.set i (.wGot p σ.next) }
  | some (.wGot p w) => some { σ with regs := (w, p) :: σ.regs, threads := σ.threads.set i .wDone }
  | some .dIdle =>
    match σ.slot with
    | some w => some { σ with slot := none, dropped := w :: σ.dropped, drops := σ.drops + 1,
                              threads := σ.threads.set i .dDone }
    | none => some { σ with drops := σ.drops + 1, threads := σ.threads.set i .dDone }
  | _ => none

inductive WReachable : WState → Prop where
  | init (ths : List WThread) (h : ∀ t ∈ ths, t.initial = true) : WReachable (winit ths)
  | step {σ σ' : WState} (i : Nat) (h : WReachable σ) (hs : wstep σ i = some σ') : WReachable σ'

def wrun (σ : WState) : List Nat → WState
  | [] => σ
  | i :: is => wrun ((wstep σ i).getD σ) is

theorem wreachable_run {σ : WState} (h : WReachable σ) (sched : List Nat) : WReachable (wrun σ sched) := by
  induction sched generalizing σ with
  | nil => exact h
  | cons i is ih =>
    simp only [wrun]
    cases hs : wstep σ i with
    | none => simpa using ih h
    | some σ' => exact ih (WReachable.step i h hs)

/-- the inductive invariant -/
structure WInv (σ : WState) : Prop where
  /-- every watcher ever created is the installed one or was taken out by a reload -/
  count : σ.next = (if σ.slot.isSome then 1 else 0) + σ.dropped.length
  dle : σ.dropped.length ≤ σ.drops
  slotLt : ∀ w, σ.slot = some w → w < σ.next ∧ w ∉ σ.dropped
  /-- a registration sits on the installed watcher or on one a reload took out -/
  regs : ∀ r ∈ σ.regs, σ.slot = some r.1 ∨ r.1 ∈ σ.dropped
  got : ∀ t ∈ σ.threads, ∀ p w, t = .wGot p w → σ.slot = some w ∨ w ∈ σ.dropped
  dropLt : ∀ w ∈ σ.dropped, w < σ.next

theorem mem_set_cases {α : Type} {l : List α} {i : Nat} {x t : α} (h : t ∈ l.set i x) : t = x ∨ t ∈ l := by
  rcases List.mem_or_eq_of_mem_set h with h | h
  · exact Or.inr h
  · exact Or.inl h

theorem winv_init (ths : List WThread) (h : ∀ t ∈ ths, t.initial = true) : WInv (winit ths) := by
  refine ⟨by simp [winit], by simp [winit], by simp [winit], by simp [winit], ?_, by simp [winit]⟩
  intro t ht p w he
  have := h t ht
  subst he
  simp [WThread.initial] at this

theorem winv_step {σ σ' : WState} {i : Nat} (h : WInv σ) (hs : wstep σ i = some σ') : WInv σ' := by
  obtain ⟨h1, h2, h3, h4, h5, h6⟩ := h
  unfold wstep at hs
  split at hs
  · -- wIdle
    rename_i p hth
    split at hs
    · rename_i w hw
      cases hs
      refine ⟨h1, h2, h3, h4, ?_, h6⟩
      intro t ht p' w' he
      rcases mem_set_cases ht with ht | ht
      · subst ht; cases he; exact Or.inl hw
      · exact h5 t ht p' w' he
    · rename_i hn
      cases hs
      refine ⟨?_, h2, ?_, ?_, ?_, ?_⟩
      · simp [hn] at h1 ⊢; omega
      · intro w hw
        simp at hw; subst hw
        refine ⟨by simp, ?_⟩
        intro hmem; have := h6 _ hmem; omega
      · intro r hr
        rcases h4 r hr with h | h
        · simp [hn] at h
        · exact Or.inr h
      · intro t ht p' w' he
        rcases mem_set_cases ht with ht | ht
        · subst ht; cases he; exact Or.inl rfl
        · rcases h5 t ht p' w' he with h | h
          · simp [hn] at h
          · exact Or.inr h
      · intro w hw; have := h6 w hw; simp; omega
  · -- wGot
    rename_i p w hth
    cases hs
    refine ⟨h1, h2, h3, ?_, ?_, h6⟩
    · intro r hr
      simp at hr
      rcases hr with hr | hr
      · subst hr; exact h5 _ (List.mem_of_getElem? hth) p w rfl
      · exact h4 r hr
    · intro t ht p' w' he
      rcases mem_set_cases ht with ht | ht
      · subst ht; cases he
      · exact h5 t ht p' w' he
  · -- dIdle
    split at hs
    · rename_i w hw
      cases hs
      have hw3 := h3 w hw
      refine ⟨?_, ?_, by simp, ?_, ?_, ?_⟩
      · simp [hw] at h1 ⊢; omega
      · simp; omega
      · intro r hr
        rcases h4 r hr with h | h
        · rw [hw] at h; cases h; exact Or.inr (by simp)
        · exact Or.inr (by simp [h])
      · intro t ht p' w' he
        rcases mem_set_cases ht with ht | ht
        · subst ht; cases he
        · rcases h5 t ht p' w' he with h | h
          · rw [hw] at h; cases h; exact Or.inr (by simp)
          · exact Or.inr (by simp [h])
      · intro w' hw'
        simp at hw'
        rcases hw' with hw' | hw'
        · subst hw'; exact hw3.1
        · exact h6 w' hw'
    · rename_i hn
      cases hs
      refine ⟨h1, by simp; omega, h3, h4, ?_, h6⟩
      intro t ht p' w' he
      rcases mem_set_cases ht with ht | ht
      · subst ht; cases he
      · exact h5 t ht p' w' he
  · cases hs

theorem winv_of_reachable {σ : WState} (h : WReachable σ) : WInv σ := by
  induction h with
  | init ths h0 => exact winv_init ths h0
  | step i _ hs ih => exact winv_step ih hs

end MJ.WatcherReg
