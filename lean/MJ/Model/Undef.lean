import MJ.Gen.Tables
/-!
# Undefined behaviour: the helper methods of `UndefinedBehavior` (utils.rs) and the abstract
mode-indexed machine over which monotonicity is lifted (C12)

The helpers are **not** transcribed by hand: `lib/tables/c12.py` extracts the `match (self, …)`
rows of `handle_undefined`, `is_true`, `assert_iterable`, `assert_value_not_undefined` (and the
shape of `try_iter`) from the current `utils.rs` into `MJ.Gen.undef…`; the functions below
interpret those rows first-match-wins, exactly like a Rust `match`.

Codes (fixed by name in the extractor): mode Chainable=0 Lenient=1 SemiStrict=2 Strict=3;
kind 0 = defined, 1 = `Undefined(Default)`, 2 = `Undefined(Silent)`; flag false=0 true=1;
outcome 0 = `Err(UndefinedError)`, 1 = `Ok`.
-/
namespace MJ.Undef

/-- `UndefinedBehavior`, listed in strictness order. -/
inductive Mode where
  | chainable | lenient | semiStrict | strict
  deriving DecidableEq, Repr, Inhabited

namespace Mode
def code : Mode → Nat
  | chainable => 0 | lenient => 1 | semiStrict => 2 | strict => 3

def all : List Mode := [chainable, lenient, semiStrict, strict]

/-- `m' ≤ m`: `m'` is at most as strict as `m` (`Chainable ≤ Lenient ≤ SemiStrict ≤ Strict`). -/
instance : LE Mode := ⟨fun a b => a.code ≤ b.code⟩
instance (a b : Mode) : Decidable (a ≤ b) := inferInstanceAs (Decidable (a.code ≤ b.code))

theorem le_refl (m : Mode) : m ≤ m := Nat.le_refl _
theorem le_trans {a b c : Mode} (h₁ : a ≤ b) (h₂ : b ≤ c) : a ≤ c := Nat.le_trans h₁ h₂
theorem mem_all (m : Mode) : m ∈ all := by cases m <;> simp [all]

def name : Mode → String
  | chainable => "chainable" | lenient => "lenient" | semiStrict => "semistrict" | strict => "strict"
end Mode

/-- how undefined a value is, as far as the helpers can see -/
inductive UK where
  | defined | undef | silent
  deriving DecidableEq, Repr, Inhabited

namespace UK
def code : UK → Nat
  | defined => 0 | undef => 1 | silent => 2
def all : List UK := [defined, undef, silent]
/-- `Value::is_undefined()` -/
def isUndefined : UK → Bool
  | defined => false | _ => true
end UK

inductive Err where
  | undefinedError            -- ErrorKind::UndefinedError
  | invalidOperation          -- ErrorKind::InvalidOperation
  | other (kind : String)     -- any other ErrorKind
  | unsupported (what : String)  -- outside the modelled fragment (the driver skips the case)
  | noRow                     -- a helper table without a matching row (impossible: `helpers_total`)
  | outOfFuel                 -- model run bound exhausted
  | stack                     -- operand stack underflow (a Rust panic; never produced by compiled code)
  deriving DecidableEq, Repr, Inhabited

instance {ε α : Type} [DecidableEq ε] [DecidableEq α] : DecidableEq (Except ε α) := fun a b =>
  match a, b with
  | .ok x, .ok y => if h : x = y then isTrue (by rw [h]) else isFalse (fun h' => h (Except.ok.inj h'))
  | .error x, .error y => if h : x = y then isTrue (by rw [h]) else isFalse (fun h' => h (Except.error.inj h'))
  | .ok _, .error _ => isFalse (fun h => by cases h)
  | .error _, .ok _ => isFalse (fun h => by cases h)

abbrev Row := List Nat × List Nat × Nat

/-- first-match-wins lookup, like a Rust `match` -/
def lookupRow : List Row → Nat → Nat → Option Nat
  | [], _, _ => none
  | (ms, ks, o) :: rest, m, k => if ms.contains m && ks.contains k then some o else lookupRow rest m k

/-- interpret a helper table: `Ok(())`-or-`Err(UndefinedError)` -/
def check (rows : List Row) (m : Mode) (k : Nat) : Except Err Unit :=
  match lookupRow rows m.code k with
  | some 0 => .error .undefinedError
  | some _ => .ok ()
  | none => .error .noRow

/-- `handle_undefined(parent_was_undefined)`; `Ok` means `Ok(Value::UNDEFINED)` -/
def handleUndefined (m : Mode) (parentWasUndefined : Bool) : Except Err Unit :=
  check MJ.Gen.undefHandleUndefined m (if parentWasUndefined then 1 else 0)

/-- `is_true(value)`; `Ok` means `Ok(value.is_true())` (the truth value itself is mode-independent) -/
def isTrueChk (m : Mode) (k : UK) : Except Err Unit := check MJ.Gen.undefIsTrue m k.code

/-- `assert_iterable(value)` -/
def assertIterable (m : Mode) (k : UK) : Except Err Unit := check MJ.Gen.undefAssertIterable m k.code

/-- `assert_value_not_undefined(value)` -/
def assertNotUndef (m : Mode) (k : UK) : Except Err Unit :=
  check MJ.Gen.undefAssertValueNotUndefined m k.code

/-- `try_iter(value)` = `assert_iterable(&value).and_then(|_| value.try_iter())`; the second,
    mode-independent half is supplied by the caller. The extractor verifies that shape. -/
def tryIterChk (m : Mode) (k : UK) : Except Err Unit :=
  if MJ.Gen.undefTryIterViaAssertIterable then assertIterable m k else .error .noRow

/-- the inline test of `Instruction::Emit` (default formatter):
    `strict_undefined && matches!(value.0, Undefined(Default))` ⇒ `UndefinedError` -/
def emitChk (m : Mode) (k : UK) : Except Err Unit :=
  match lookupRow MJ.Gen.undefVmEmitFails m.code k.code with
  | some 0 => .error .undefinedError
  | _ => .ok ()

/-- `Environment::format` (the path `Emit` takes when a custom formatter is installed): which
    (mode, undefined kind) pairs are an error, which reach the formatter (`ok true`), and which
    return `Ok(())` without consulting it (`ok false`; no such row in the pinned source). -/
def envFormat (m : Mode) (k : UK) : Except Err Bool :=
  match lookupRow MJ.Gen.undefEnvFormat m.code k.code with
  | some 0 => .error .undefinedError
  | some 1 => .ok true
  | some 2 => .ok false
  | _ => .error .noRow

/-- the inline test of `Instruction::Slice`: `a.is_undefined() && matches!(mode, Strict)` -/
def sliceChk (m : Mode) (k : UK) : Except Err Unit :=
  match lookupRow MJ.Gen.undefVmSliceFails m.code k.code with
  | some 0 => .error .undefinedError
  | _ => .ok ()

/-! ## Questions to the undefined behaviour, and computations that consult the mode only by asking

`HQ` = one call of a helper of `UndefinedBehavior` (or of one of the inline mode tests of the VM
/ `Environment::format`).  `Comp α` is a computation whose *only* access to the mode is asking
such questions: a free monad over `HQ`.  Everything in the VM model that depends on the mode is
written as a `Comp`, so "depends on the mode only through the helpers" holds by construction and
monotonicity is one generic lemma (`MJ.Undef.Comp.run_mono`). -/

inductive HQ where
  | handleUndefined (parentWasUndefined : Bool)
  | isTrue (k : UK)
  | assertIterable (k : UK)
  | tryIter (k : UK)
  | assertNotUndef (k : UK)
  | emit (k : UK)
  | envFormat (k : UK)
  | slice (k : UK)
  deriving DecidableEq, Repr

def unitOk : Except Err Unit → Except Err Bool
  | .ok _ => .ok true
  | .error e => .error e

/-- the answer under mode `m`: an error, or `Ok` with a payload (`true`, except that
    `Environment::format` answers whether the formatter is consulted) -/
def HQ.run (q : HQ) (m : Mode) : Except Err Bool :=
  match q with
  | .handleUndefined p => unitOk (MJ.Undef.handleUndefined m p)
  | .isTrue k => unitOk (isTrueChk m k)
  | .assertIterable k => unitOk (MJ.Undef.assertIterable m k)
  | .tryIter k => unitOk (tryIterChk m k)
  | .assertNotUndef k => unitOk (MJ.Undef.assertNotUndef m k)
  | .emit k => unitOk (emitChk m k)
  | .envFormat k => MJ.Undef.envFormat m k
  | .slice k => unitOk (sliceChk m k)

inductive Comp (α : Type) where
  | pure (a : α)
  | fail (e : Err)
  /-- ask `q`; an error answer is reported as `onErr e` (`.map_err(..)`, `BadInclude`), an `Ok`
      answer continues with `k` -/
  | ask (q : HQ) (onErr : Err → Err) (k : Bool → Comp α)

namespace Comp
def run {α : Type} (m : Mode) : Comp α → Except Err α
  | .pure a => .ok a
  | .fail e => .error e
  | .ask q onErr k => match q.run m with
    | .error e => .error (onErr e)
    | .ok b => (k b).run m

def bind {α β : Type} : Comp α → (α → Comp β) → Comp β
  | .pure a, f => f a
  | .fail e, _ => .fail e
  | .ask q g k, f => .ask q g (fun b => (k b).bind f)

instance : Monad Comp where
  pure := Comp.pure
  bind := Comp.bind

/-- a mode-independent computation -/
def ofExcept {α : Type} : Except Err α → Comp α
  | .ok a => .pure a
  | .error e => .fail e

/-- ask and ignore the payload -/
def chk (q : HQ) : Comp Unit := .ask q id (fun _ => .pure ())

/-- ask several questions in order -/
def chks : List HQ → Comp Unit
  | [] => .pure ()
  | q :: r => .ask q id (fun _ => chks r)

/-- replace every error of the computation (`.map_err(..)`), those of the questions included -/
def mapErr {α : Type} (f : Err → Err) : Comp α → Comp α
  | .pure a => .pure a
  | .fail e => .fail (f e)
  | .ask q g k => .ask q (fun e => f (g e)) (fun b => (k b).mapErr f)

/-- does the computation ask anything at all? -/
def isPure {α : Type} : Comp α → Bool
  | .ask .. => false
  | _ => true

/-- under mode `m`: does the computation fail *at one of its questions* (rather than succeed or
    fail mode-independently)? -/
def failsAtAsk {α : Type} (m : Mode) : Comp α → Bool
  | .pure _ => false
  | .fail _ => false
  | .ask q _ k => match q.run m with
    | .error _ => true
    | .ok b => (k b).failsAtAsk m

/-- the errors the questions of the computation can be reported as -/
def AskErr {α : Type} : Comp α → Err → Prop
  | .pure _, _ => False
  | .fail _, _ => False
  | .ask _ g k, e => e = g .undefinedError ∨ ∃ b, AskErr (k b) e

/-- no question has its error rewritten -/
def PlainAsks {α : Type} : Comp α → Prop
  | .pure _ => True
  | .fail _ => True
  | .ask _ g k => g = id ∧ ∀ b, PlainAsks (k b)
end Comp

/-! ## Abstract mode-indexed machine

A program is anything that picks its next step from the *state alone* (straight-line code,
jumps, loops: the program counter is part of the state) — the mode is not consulted to choose the
step, only inside the step.  -/

/-- one step: may consult the mode -/
abbrev Step (σ ε : Type) := Mode → σ → Except ε σ

/-- a step only *adds errors* when the mode gets stricter: a success under `m` is the same success
    under every weaker `m'` -/
def StepMono {σ ε : Type} (f : Step σ ε) : Prop :=
  ∀ (m m' : Mode) (s s' : σ), m' ≤ m → f m s = .ok s' → f m' s = .ok s'

structure Machine (σ ε : Type) where
  /-- the step to run in state `s`; `none` = halted.  Does not see the mode. -/
  next : σ → Option (Step σ ε)
  /-- what "ran too long" is reported as -/
  timeout : ε

/-- run at most `n` steps -/
def Machine.run {σ ε : Type} (M : Machine σ ε) (m : Mode) : Nat → σ → Except ε σ
  | 0, s => match M.next s with
            | none => .ok s
            | some _ => .error M.timeout
  | n + 1, s => match M.next s with
            | none => .ok s
            | some f => match f m s with
                        | .error e => .error e
                        | .ok s' => M.run m n s'

end MJ.Undef
