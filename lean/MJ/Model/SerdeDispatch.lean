import MJ.Model.Serde
import MJ.Model.SerdeMethods
import MJ.Gen.Tables
/-!
# How `impl Deserializer for Value` dispatches on its source value (C16)

`value/deserialize.rs` decides what to do with a value by matching on its *representation*
(`ValueRepr`, and `ObjectRepr` for objects) or on its *kind* (`ValueKind`).  Several representations hold
the same template value: a string is a `SmallStr` (up to 22 bytes) or an `Arc<str>` (`String`, safe or
not), nothing is `None` or `Undefined`, a sequence is any object that says `ObjectRepr::Seq`.  The
property needs the dispatch to depend on the value only — an arm keyed on one representation that does
not cover everything of its kind (seeded change C16-8: `deserialize_enum` on `SmallStr` only) breaks the
round trip for exactly the data whose serialisation happens to use the other representation.

* `Repr` — the 16 representations (`ValueRepr` × `ObjectRepr`), `SKind` — what serde can tell apart
  (the value kind, with the number kind split by the visitor method it must reach and `none`/`undefined` merged)
* `resolve` — first-match semantics of a Rust `match` over the arm table **regenerated from the source**
  (`MJ.Gen.serdeDeDispatch`, `lib/tables/c16.py: SERDE_DE_DISPATCH`)
* `spec` — the dispatch written by `SKind` (what `MJ.Serde.de` and the probe model below assume)
* `probe` — an executable model of *every* method of the `Deserializer` trait on *every* representation:
  which `visit_*` call the visitor receives and with which payload (run against the real code by the
  `rk` stream of the harness)

Core Lean only.
-/
namespace MJ.SerdeDispatch
open MJ.Serde

inductive Repr where
  | none | undefined | bool | u64 | i64 | f64 | invalid | u128 | i128 | string | smallStr | bytes
  | objPlain | objMap | objSeq | objIterable
  deriving DecidableEq, Inhabited

def Repr.all : List Repr :=
  [.none, .undefined, .bool, .u64, .i64, .f64, .invalid, .u128, .i128, .string, .smallStr, .bytes,
   .objPlain, .objMap, .objSeq, .objIterable]

/-- the selector under which the source names the representation -/
def Repr.sel : Repr → String
  | .none => "repr:None" | .undefined => "repr:Undefined" | .bool => "repr:Bool" | .u64 => "repr:U64"
  | .i64 => "repr:I64" | .f64 => "repr:F64" | .invalid => "repr:Invalid" | .u128 => "repr:U128"
  | .i128 => "repr:I128" | .string => "repr:String" | .smallStr => "repr:SmallStr" | .bytes => "repr:Bytes"
  | .objPlain => "obj:Plain" | .objMap => "obj:Map" | .objSeq => "obj:Seq" | .objIterable => "obj:Iterable"

def Repr.isObj : Repr → Bool
  | .objPlain | .objMap | .objSeq | .objIterable => true
  | _ => false

/-- what a serde visitor can tell apart -/
inductive SKind where
  | unit | bool | u64 | i64 | i128 | u128 | f64 | str | bytes | invalid | plain | map | seq | iterable
  deriving DecidableEq, Inhabited

def Repr.skind : Repr → SKind
  | .none | .undefined => .unit
  | .bool => .bool | .u64 => .u64 | .i64 => .i64 | .f64 => .f64 | .invalid => .invalid
  | .u128 => .u128 | .i128 => .i128
  | .string | .smallStr => .str
  | .bytes => .bytes | .objPlain => .plain | .objMap => .map | .objSeq => .seq | .objIterable => .iterable

/-- the scrutinee of the variant access is an `Option<Value>` -/
inductive Src where
  | absent | val (r : Repr)
  deriving DecidableEq, Inhabited

def Src.all : List Src := .absent :: Repr.all.map .val

def Src.skind : Src → Option SKind
  | .absent => none
  | .val r => some r.skind

/-- `Value::kind()` as the source has it now -/
def kindName (r : Repr) : Option String := MJ.Gen.valueKindOfRepr.lookup r.sel

/-- does a selector of the regenerated table select the source? -/
def selects (sel : String) : Src → Bool
  | .absent => sel == "absent" || sel == "*"
  | .val r =>
    sel == "*" || sel == "some" || sel == r.sel || (sel == "obj:*" && r.isObj) ||
      (match kindName r with
       | some k => sel == "kind:" ++ k
       | none => false)

/-- a Rust `match`: the first arm with a selecting pattern -/
def resolve (arms : List (List String × String)) (s : Src) : Option String :=
  (arms.find? (fun a => a.1.any (fun sel => selects sel s))).map (·.2)

def rowOf (fn : String) : Option (String × List (List String × String)) := MJ.Gen.serdeDeDispatch.lookup fn
def armsOf (fn : String) : List (List String × String) := ((rowOf fn).map (·.2)).getD []
def scrutOf (fn : String) : String := ((rowOf fn).map (·.1)).getD "?"

/-! ## the dispatch by kind -/

def anySpec : SKind → String
  | .unit => "visit_unit" | .bool => "visit_bool" | .u64 => "visit_u64" | .i64 => "visit_i64"
  | .i128 => "visit_i128" | .u128 => "visit_u128" | .f64 => "visit_f64" | .str => "visit_str"
  | .bytes => "visit_bytes" | .invalid => "err" | .plain => "err" | .map => "visit_map"
  | .seq | .iterable => "visit_seq"

def optionSpec : SKind → String
  | .unit => "visit_unit"
  | _ => "visit_some"

def enumSpec : SKind → String
  | .map => "variant_is_single_key"
  | .str => "variant_is_self"
  | _ => "err"

def unitVariantSpec : Option SKind → String
  | none => "ok_unit"
  | some _ => "unit_from_value"

def newtypeVariantSpec : Option SKind → String
  | none => "err"
  | some _ => "seed"

def tupleVariantSpec : Option SKind → String
  | some .seq => "seq_any"
  | _ => "err"

def structVariantSpec : Option SKind → String
  | some .map => "map_any"
  | _ => "err"

/-- the functions of deserialize.rs that look at the source value, and what each does by kind -/
def spec (fn : String) (k : Option SKind) : Option String :=
  match fn, k with
  | "Value::deserialize_any", some k => some (anySpec k)
  | "Value::deserialize_option", some k => some (optionSpec k)
  | "Value::deserialize_enum", some k => some (enumSpec k)
  | "Value::deserialize_unit_struct", some _ => some "fwd:deserialize_unit"
  | "Value::deserialize_newtype_struct", some _ => some "visit_newtype_struct"
  | "Variant::unit_variant", k => some (unitVariantSpec k)
  | "Variant::newtype_variant_seed", k => some (newtypeVariantSpec k)
  | "Variant::tuple_variant", k => some (tupleVariantSpec k)
  | "Variant::struct_variant", k => some (structVariantSpec k)
  | _, _ => none

def valueFns : List String :=
  ["Value::deserialize_any", "Value::deserialize_option", "Value::deserialize_enum",
   "Value::deserialize_unit_struct", "Value::deserialize_newtype_struct"]
def variantFns : List String :=
  ["Variant::unit_variant", "Variant::newtype_variant_seed", "Variant::tuple_variant", "Variant::struct_variant"]

/-- what each function matches on, as the model reads it -/
def scrutModel : List (String × String) := [
  ("Value::deserialize_any", "self.0"),
  ("Value::deserialize_option", "self.0"),
  ("Value::deserialize_enum", "self.kind() @ let (variant, value) = # ; visitor.visit_enum(EnumDeserializer { variant, value })"),
  ("Value::deserialize_unit_struct", "-"),
  ("Value::deserialize_newtype_struct", "-"),
  ("Variant::unit_variant", "self.value"),
  ("Variant::newtype_variant_seed", "self.value"),
  ("Variant::tuple_variant", "self.value.as_ref().and_then(|x| x.as_object())"),
  ("Variant::struct_variant", "self.value.as_ref().map(|x| (x.kind(), x))")]

/-- the table check, as one decidable statement: the functions are the ones modelled, each matches on what
the model reads, and every arm table resolves every source to what `spec` says for its kind -/
def tableMatchesSpec : Bool :=
  (MJ.Gen.serdeDeDispatch.map (·.1) == valueFns ++ variantFns) &&
  (MJ.Gen.serdeDeDispatch.map (fun r => (r.1, r.2.1)) == scrutModel) &&
  valueFns.all (fun fn => Repr.all.all fun r => resolve (armsOf fn) (.val r) == spec fn (some r.skind)) &&
  variantFns.all (fun fn => Src.all.all fun s => resolve (armsOf fn) s == spec fn s.skind)

/-- `Value::kind()` covers every representation, and representations of one `SKind` have one kind — except
`none` / `undefined`, which are two kinds that serde sees as one -/
def kindsMatch : Bool :=
  Repr.all.all (fun r => (kindName r).isSome) &&
  Repr.all.all (fun r1 => Repr.all.all fun r2 =>
    !(r1.skind == r2.skind) || r1.skind == .unit || kindName r1 == kindName r2) &&
  (MJ.Gen.valueReprVariants == ["None", "Undefined", "Bool", "U64", "I64", "F64", "Invalid", "U128", "I128", "String", "SmallStr", "Bytes", "Object"]) &&
  (MJ.Gen.objectReprVariants == ["Plain", "Map", "Seq", "Iterable"])

/-! ## executable model of every `Deserializer` method on every representation (stream `rk`) -/

def hexDigit (n : Nat) : Char := if n < 10 then Char.ofNat (48 + n) else Char.ofNat (87 + n)
def hexOfNats (b : List Nat) : String := String.ofList (b.flatMap fun x => [hexDigit (x / 16 % 16), hexDigit (x % 16)])

/-- the kind of a nested value (its representation follows from how the harness builds it: 64-bit where it fits) -/
def skindOfV : V → SKind
  | .undefined | .none => .unit
  | .bool _ => .bool
  | .int u i => if fits64 i then (if u then .u64 else .i64) else (if i < 0 then .i128 else if u then .u128 else .i128)
  | .f64 _ => .f64
  | .str _ _ => .str
  | .bytes _ => .bytes
  | .seq _ _ => .seq
  | .map _ => .map
  | .obj _ => .plain
  | .invalid => .invalid

def joinOpt (sep : String) (xs : List (Option String)) : Option String :=
  if xs.all Option.isSome then some (sep.intercalate (xs.map (·.getD ""))) else none

/-- scalar payloads -/
def leafText (act : String) (v : V) : Option String :=
  match act, v with
  | "visit_unit", _ => some "unit"
  | "visit_bool", .bool b => some (if b then "bool:T" else "bool:F")
  | "visit_u64", .int _ i => some s!"u64:{i}"
  | "visit_i64", .int _ i => some s!"i64:{i}"
  | "visit_i128", .int _ i => some s!"i128:{i}"
  | "visit_u128", .int _ i => some s!"u128:{i}"
  | "visit_f64", .f64 b => some s!"f64:{b}"
  | "visit_str", .str s _ => some ("str:" ++ hexOfNats (utf8Encode s))
  | "visit_bytes", .bytes b => some ("bytes:" ++ hexOfNats b)
  | _, _ => none

mutual
/-- what a visitor that records its call sees from `deserialize_any`; `none` = an error -/
def anyText (k : SKind) : V → Option String
  | .seq _ xs => if anySpec k == "visit_seq" then (seqText xs).map fun t => "seq[" ++ t ++ "]" else none
  | .map kvs => if anySpec k == "visit_map" then (mapText kvs).map fun t => "map{" ++ t ++ "}" else none
  | v => leafText (anySpec k) v
def seqText : List V → Option String
  | [] => some ""
  | [x] => anyText (skindOfV x) x
  | x :: xs =>
    match anyText (skindOfV x) x, seqText xs with
    | some a, some b => some (a ++ "," ++ b)
    | _, _ => none
def mapText : List (V × V) → Option String
  | [] => some ""
  | [(k, x)] =>
    match anyText (skindOfV k) k, anyText (skindOfV x) x with
    | some a, some b => some (a ++ "=" ++ b)
    | _, _ => none
  | (k, x) :: rest =>
    match anyText (skindOfV k) k, anyText (skindOfV x) x, mapText rest with
    | some a, some b, some c => some (a ++ "=" ++ b ++ "," ++ c)
    | _, _, _ => none
end

def nestedAny (v : V) : Option String := anyText (skindOfV v) v

/-- the variant access on the payload `value` (`none` = the variant was a plain string); `pk` = the kind of
the payload where `V` does not carry it (an iterable object: `V` has sequences only) -/
def accessText (mode : String) (value : Option V) (pk : Option SKind := none) : Option String :=
  let k := match pk with
    | some k => some k
    | none => value.map skindOfV
  match mode, value with
  | "unit", none => if unitVariantSpec k == "ok_unit" then some "unit:ok" else none
  | "unit", some v =>
    -- `<()>::deserialize(value)`: `deserialize_unit` = `deserialize_any`, the unit visitor takes `visit_unit` only
    if unitVariantSpec k == "unit_from_value" ∧ anySpec (skindOfV v) == "visit_unit" then some "unit:ok" else none
  | "newtype", some v => if newtypeVariantSpec k == "seed" then (nestedAny v).map fun t => "newtype(" ++ t ++ ")" else none
  | "tuple", some (.seq _ xs) =>
    if tupleVariantSpec k == "seq_any" then (seqText xs).map fun t => "seq[" ++ t ++ "]" else none
  | "struct", some (.map kvs) =>
    if structVariantSpec k == "map_any" then (mapText kvs).map fun t => "map{" ++ t ++ "}" else none
  | _, _ => none

/-- `deserialize_enum` with a visitor that reads the variant through `deserialize_any` and then uses the
access `mode` -/
def enumText (k : SKind) (mode : String) (v : V) (pk : Option SKind := none) : Option String :=
  match enumSpec k, v with
  | "variant_is_self", v =>
    match anyText k v, accessText mode none with
    | some a, some b => some ("enum(" ++ a ++ ";" ++ b ++ ")")
    | _, _ => none
  | "variant_is_single_key", .map [(key, x)] =>
    match nestedAny key, accessText mode (some x) pk with
    | some a, some b => some ("enum(" ++ a ++ ";" ++ b ++ ")")
    | _, _ => none
  | _, _ => none

/-- every method of the trait (`m` without the `deserialize_` prefix; `enum:<access>` for the four variant
accesses), routed as `MJ.SerdeMethods.disp` says: written out, forwarded to `deserialize_any`, or the
trait's unsupported default -/
def probe (m : String) (k : SKind) (v : V) (pk : Option SKind := none) : Option String :=
  if m.startsWith "enum:" then enumText k (m.drop 5).toString v pk
  else
    match MJ.SerdeMethods.dispatchOf MJ.Gen.valueDeserializerExplicit MJ.Gen.valueDeserializerForwarded
        MJ.Gen.serdeDeserializerTrait ("deserialize_" ++ m) with
    | .unsupported | .missing => none
    | .forwardAny => anyText k v
    | .explicit =>
      match m with
      | "any" => anyText k v
      | "option" => if optionSpec k == "visit_unit" then some "unit" else (anyText k v).map fun t => "some(" ++ t ++ ")"
      | "unit_struct" => anyText k v
      | "newtype_struct" => (anyText k v).map fun t => "newtype(" ++ t ++ ")"
      | _ => none

def reprOfName : String → Option Repr
  | "none" => some .none | "undefined" => some .undefined | "bool" => some .bool | "u64" => some .u64
  | "i64" => some .i64 | "f64" => some .f64 | "invalid" => some .invalid | "u128" => some .u128
  | "i128" => some .i128 | "string" => some .string | "smallStr" => some .smallStr | "bytes" => some .bytes
  | "objPlain" => some .objPlain | "objMap" => some .objMap | "objSeq" => some .objSeq
  | "objIterable" => some .objIterable
  | _ => none

end MJ.SerdeDispatch
