/-!
# Call graphs with guarded call sites (C01)

A node is a function (numbered), an edge `(caller, callee, guarded)` is a call site; `guarded` says
that the call sits inside `with_recursion_guard!`, i.e. it is only made while the parser's `depth`
counter — incremented for the duration of the call — stays at most `MAX_RECURSION`.

`runBound g k` is a decidable check: strip, `k` times, every node that has no *unguarded* edge into
the set of nodes still alive; it succeeds when nothing is left.  `runBound_sound` shows that then
every chain of consecutive unguarded calls has fewer than `k` edges, in particular (with
`k = number of nodes`) every cycle contains a guarded call site, and `chain_length_lt` turns that into
a bound on the length of any call chain in terms of the number of guarded calls on it.
-/
namespace MJ.CallGraph

abbrev Edge := Nat × Nat × Bool

structure Graph where
  n : Nat                    -- nodes are `0 … n-1`
  edges : List Edge
  deriving Repr

/-- `u` still has an unguarded call to a node in `alive` -/
def hasUnguardedInto (g : Graph) (alive : List Nat) (u : Nat) : Bool :=
  g.edges.any fun e => e.1 == u && !e.2.2 && alive.contains e.2.1

def strip (g : Graph) (alive : List Nat) : List Nat :=
  alive.filter (hasUnguardedInto g alive)

def stripN (g : Graph) : Nat → List Nat → List Nat
  | 0, alive => alive
  | k + 1, alive => strip g (stripN g k alive)

/-- every chain of consecutive unguarded calls has fewer than `k` edges (decidable check) -/
def runBound (g : Graph) (k : Nat) : Bool :=
  (stripN g k (List.range g.n)).isEmpty

/-- every cycle of the call graph contains a guarded call site (decidable check) -/
def everyCycleGuarded (g : Graph) : Bool := runBound g g.n

/-- a chain of calls `u₀ → u₁ → … → uₘ`, as the list of its edges -/
inductive Chain (g : Graph) : Nat → List Edge → Prop
  | nil (u : Nat) (h : u < g.n) : Chain g u []
  | cons {u v : Nat} {b : Bool} {p : List Edge} (he : (u, v, b) ∈ g.edges) (hu : u < g.n)
      (hp : Chain g v p) : Chain g u ((u, v, b) :: p)

def guardedCount (p : List Edge) : Nat := (p.filter (·.2.2)).length

def allUnguarded (p : List Edge) : Prop := ∀ e ∈ p, e.2.2 = false

/-- length of the maximal unguarded prefix of a chain -/
def headRun : List Edge → Nat
  | [] => 0
  | e :: p => if e.2.2 then 0 else headRun p + 1

theorem mem_strip {g : Graph} {alive : List Nat} {u v : Nat} (hu : u ∈ alive) (hv : v ∈ alive)
    (he : (u, v, false) ∈ g.edges) : u ∈ strip g alive := by
  unfold strip
  rw [List.mem_filter]
  refine ⟨hu, ?_⟩
  unfold hasUnguardedInto
  rw [List.any_eq_true]
  exact ⟨(u, v, false), he, by simp [hv]⟩

/-- the start of an unguarded chain with `m` edges survives `m` rounds of stripping -/
theorem start_survives (g : Graph) : ∀ (m : Nat) (u : Nat) (p : List Edge), Chain g u p → allUnguarded p →
    p.length = m → u ∈ stripN g m (List.range g.n) := by
  intro m
  induction m with
  | zero =>
    intro u p hc _ _
    cases hc with
    | nil _ h => simpa [stripN] using h
    | cons _ hu _ => simpa [stripN] using hu
  | succ m ih =>
    intro u p hc hun hlen
    cases hc with
    | nil _ h => simp at hlen
    | @cons _ v b p' he hu hp =>
      have hb : b = false := hun (u, v, b) (by simp)
      subst hb
      have hun' : allUnguarded p' := fun e he' => hun e (by simp [he'])
      have hlen' : p'.length = m := by simpa using hlen
      have hv : v ∈ stripN g m (List.range g.n) := ih v p' hp hun' hlen'
      -- the prefix of length m starting at u: drop the last edge
      have hu' : u ∈ stripN g m (List.range g.n) := by
        -- u starts the unguarded chain ((u,v,false) :: p').dropLast of length m
        have : ∀ (q : List Edge) (w : Nat), Chain g w q → Chain g w q.dropLast := by
          intro q
          induction q with
          | nil => intro w h; simpa using h
          | cons e q ihq =>
            intro w h
            cases h with
            | @cons _ v2 b2 _ he2 hu2 hp2 =>
              cases q with
              | nil => simpa using Chain.nil w hu2
              | cons e' q' =>
                rw [List.dropLast_cons_cons]
                exact Chain.cons he2 hu2 (ihq v2 hp2)
        have hc' := this ((u, v, false) :: p') u (Chain.cons he hu hp)
        refine ih u _ hc' ?_ ?_
        · intro e he'
          exact hun e (List.dropLast_subset _ he')
        · simp [hlen']
      exact mem_strip hu' hv he

/-- soundness of `runBound`: every chain of unguarded calls has fewer than `k` edges -/
theorem runBound_sound (g : Graph) (k : Nat) (h : runBound g k = true) (u : Nat) (p : List Edge)
    (hc : Chain g u p) (hun : allUnguarded p) : p.length < k := by
  apply Nat.lt_of_not_le
  intro hk
  -- the prefix with exactly k edges is an unguarded chain whose start survives k rounds
  have htake : Chain g u (p.take k) := by
    clear hun h
    induction k generalizing u p with
    | zero =>
      cases hc with
      | nil _ h => simpa using Chain.nil u h
      | cons _ hu _ => simpa using Chain.nil u hu
    | succ k ih =>
      cases hc with
      | nil _ h => simp at hk
      | @cons _ v b p' he hu hp =>
        rw [List.take_succ_cons]
        exact Chain.cons he hu (ih v p' hp (by simpa using hk))
  have hmem := start_survives g k u (p.take k) htake
    (fun e he => hun e (List.take_subset _ _ he)) (by simp [hk])
  unfold runBound at h
  rw [List.isEmpty_iff] at h
  rw [h] at hmem
  simp at hmem

/-- every cycle contains a guarded call: an unguarded chain never returns to its start -/
theorem no_unguarded_cycle (g : Graph) (h : everyCycleGuarded g = true) (u : Nat) (p : List Edge)
    (hc : Chain g u p) (hun : allUnguarded p) : p.length < g.n :=
  runBound_sound g g.n h u p hc hun

theorem headRun_lt (g : Graph) (k : Nat) (h : runBound g k = true) (u : Nat) (p : List Edge)
    (hc : Chain g u p) : headRun p < k := by
  -- the maximal unguarded prefix is an unguarded chain
  have : ∀ (p : List Edge) (u : Nat), Chain g u p →
      ∃ q, Chain g u q ∧ allUnguarded q ∧ q.length = headRun p := by
    intro p
    induction p with
    | nil => intro u hc; exact ⟨[], hc, by simp [allUnguarded], rfl⟩
    | cons e p ih =>
      intro u hc
      cases hc with
      | @cons _ v b _ he hu hp =>
        cases b with
        | true => exact ⟨[], Chain.nil u hu, by simp [allUnguarded], by simp [headRun]⟩
        | false =>
          obtain ⟨q, hq, hqu, hql⟩ := ih v hp
          refine ⟨(u, v, false) :: q, Chain.cons he hu hq, ?_, by simp [headRun, hql]⟩
          intro e he'
          rcases List.mem_cons.mp he' with rfl | h'
          · rfl
          · exact hqu e h'
  obtain ⟨q, hq, hqu, hql⟩ := this p u hc
  rw [← hql]
  exact runBound_sound g k h u q hq hqu

/-- a call chain with `c` guarded call sites on it has fewer than `(c + 1) * k` edges: at most
    `k - 1` consecutive unguarded frames between two guarded ones -/
theorem chain_length_lt (g : Graph) (k : Nat) (h : runBound g k = true) (u : Nat) (p : List Edge)
    (hc : Chain g u p) : p.length < (guardedCount p + 1) * k := by
  have key : ∀ (p : List Edge) (u : Nat), Chain g u p → p.length ≤ guardedCount p * k + headRun p := by
    intro p
    induction p with
    | nil => intro u _; simp [guardedCount, headRun]
    | cons e p ih =>
      intro u hc
      cases hc with
      | @cons _ v b _ he hu hp =>
        have hrun := headRun_lt g k h v p hp
        have := ih v hp
        cases b with
        | true =>
          have hg : guardedCount ((u, v, true) :: p) = guardedCount p + 1 := by simp [guardedCount]
          simp only [List.length_cons, hg, headRun, if_true]
          rw [Nat.add_mul]
          omega
        | false =>
          have hg : guardedCount ((u, v, false) :: p) = guardedCount p := by simp [guardedCount]
          simp only [List.length_cons, hg, headRun]
          simp
          omega
  have h1 := key p u hc
  have h2 := headRun_lt g k h u p hc
  rw [Nat.add_mul]
  omega

/-- an unguarded self-recursive call refutes the check -/
theorem selfLoop_refutes (g : Graph) (u : Nat) (hu : u < g.n) (he : (u, u, false) ∈ g.edges) :
    everyCycleGuarded g = false := by
  cases hk : everyCycleGuarded g with
  | false => rfl
  | true =>
    exfalso
    -- the chain that takes the self loop n times has n unguarded edges
    have build : ∀ m : Nat, ∃ p, Chain g u p ∧ allUnguarded p ∧ p.length = m := by
      intro m
      induction m with
      | zero => exact ⟨[], Chain.nil u hu, by simp [allUnguarded], rfl⟩
      | succ m ih =>
        obtain ⟨p, hp, hpu, hpl⟩ := ih
        refine ⟨(u, u, false) :: p, Chain.cons he hu hp, ?_, by simp [hpl]⟩
        intro e he'
        rcases List.mem_cons.mp he' with rfl | h'
        · rfl
        · exact hpu e h'
    obtain ⟨p, hp, hpu, hpl⟩ := build g.n
    have := no_unguarded_cycle g hk u p hp hpu
    omega

end MJ.CallGraph
