/-!
# Python's slice semantics (the specification for C09)

Transcription of CPython's `PySlice_AdjustIndices` (Objects/sliceobject.c).  It shares no
arithmetic with the Rust code.  Validated against CPython itself by the C09 check.
-/
namespace MJ.PySlice

/-- clamping of a bound for a positive step: negative bounds count from the end, the result lies
    in `0..=L` -/
def clampPos (L : Int) (b : Option Int) (d : Int) : Int :=
  match b with
  | none => d
  | some s => if s < 0 then max (s + L) 0 else min s L

/-- clamping of a bound for a negative step: the result lies in `-1..=L-1` -/
def clampNeg (L : Int) (b : Option Int) (d : Int) : Int :=
  match b with
  | none => d
  | some s => if s < 0 then max (s + L) (-1) else min s (L - 1)

/-- returns (start, n): first selected position and number of selected positions;
    the j-th selected position is `start + j*step`. -/
def adjust (len : Nat) (start stop : Option Int) (step : Int) : Int × Nat :=
  let L : Int := len
  if step > 0 then
    let s := clampPos L start 0
    let e := clampPos L stop L
    (s, if s < e then ((e - s - 1) / step + 1).toNat else 0)
  else
    let s := clampNeg L start (L - 1)
    let e := clampNeg L stop (-1)
    (s, if e < s then ((s - e - 1) / (-step) + 1).toNat else 0)

/-- positions selected by `xs[start:stop:step]` for `len(xs) = len`, `step ≠ 0` -/
def indices (len : Nat) (start stop : Option Int) (step : Int) : List Nat :=
  let (s, n) := adjust len start stop step
  (List.range n).map fun (j : Nat) => (s + (j : Int) * step).toNat

/-- Python subscript `xs[i]`: `none` = IndexError (MiniJinja: undefined) -/
def index (len : Nat) (i : Int) : Option Nat :=
  let L : Int := len
  let j := if i < 0 then i + L else i
  if 0 ≤ j ∧ j < L then some j.toNat else none

end MJ.PySlice
